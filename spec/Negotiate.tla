----------------------------- MODULE Negotiate -----------------------------
(***************************************************************************)
(* CONNECT negotiation and capability enforcement (growth beyond the listed *)
(* properties, DESIGN.md 9/11): what CONNACK advertises for a broker        *)
(* configuration and a CONNECT packet, and how a request that uses a        *)
(* capability the broker has switched off is answered.                      *)
(*                                                                         *)
(* The module is a function from cases to demanded outcomes (MQTT 5 3.1.2,  *)
(* 3.2.2.3, 3.3.1.2/3, 3.8.4, 4.13; MQTT 3.1.1 3.1.3.1, 3.9.3).  TLC        *)
(* enumerates every case of the finite alphabet, checks the design-level    *)
(* coherence of the demanded outcomes (AdvertisedIsEnforced: a capability   *)
(* CONNACK says is off is refused, one it says is on is served;             *)
(* KeepAliveWithinMax; AssignedIffEmpty) and prints one line per case; the  *)
(* driver (harness/cmd/negotiate) executes each case on a real broker with  *)
(* the independent codec and compares.  Deviations = named as-coded         *)
(* behaviours that differ from the demanded ones (observations, not listed  *)
(* properties).                                                             *)
(***************************************************************************)
EXTENDS Integers, Sequences, FiniteSets, TLC, Json

CONSTANTS Cfgs,        \* set of [maxqos, retain, wildcard, subid, shared, maxka, allowzero]
          Conns,       \* set of [ver (4|5), emptyid, clean, ka]
          Ops,         \* set of [op ("ping"|"pub"|"sub"), q, retain, kind ("plain"|"wild"|"shared"), withid]
          Dev          \* set of deviation names

VARIABLE c
Cases == {[cfg |-> g, conn |-> k, op |-> o] : g \in Cfgs, k \in Conns, o \in Ops}

D(d) == d \in Dev
Min(a, b) == IF a < b THEN a ELSE b

\* ---- CONNECT
\* code -2: the connection is closed without a CONNACK; -3: a CONNACK the client cannot read (as-coded deviations only)
ConnOutcome(g, k) ==
  IF k.emptyid /\ k.ver = 4 /\ ~k.clean /\ D("v3_empty_id_persistent_closed_silently")
    THEN [accept |-> FALSE, code |-> 0 - 2]                                \* as coded this test comes first
  ELSE IF k.emptyid /\ ~g.allowzero
    THEN [accept |-> FALSE, code |-> IF D("empty_id_refusal_connack_unreadable") THEN 0 - 3
                                     ELSE IF k.ver = 5 THEN 133 ELSE 2]      \* 0x85 Client Identifier not valid / 0x02 identifier rejected
  ELSE IF k.emptyid /\ k.ver = 4 /\ ~k.clean
    THEN [accept |-> FALSE, code |-> IF D("v3_empty_id_persistent_closed_silently") THEN 0 - 2 ELSE 2]   \* [MQTT-3.1.3-8]
    ELSE [accept |-> TRUE, code |-> 0]

\* CONNACK properties of an accepted MQTT 5 CONNECT.  -1 = the property is absent.
Advertised(g, k) ==
  [maxqos     |-> IF D("maxqos_advertised_minus_one") THEN (IF g.maxqos >= 2 THEN 1 ELSE 0)
                  ELSE IF g.maxqos = 2 THEN 0 - 1 ELSE g.maxqos,             \* 3.2.2.3.4: 0 or 1; absent = QoS 2 supported
   retain     |-> IF g.retain THEN 1 ELSE 0,
   wildcard   |-> IF g.wildcard THEN 1 ELSE 0,
   subid      |-> IF g.subid THEN 1 ELSE 0,
   shared     |-> IF g.shared THEN 1 ELSE 0,
   keepalive  |-> Min(k.ka, g.maxka),                                       \* 3.2.2.3.14 (the value the client must use)
   assigned   |-> k.emptyid]                                                \* 3.2.2.3.7: present iff the client id was empty

\* value to read when a flag property is absent in the CONNACK
MaxQosOf(a) == IF a.maxqos = 0 - 1 THEN 2 ELSE a.maxqos

\* ---- requests on an accepted connection
\* outcome kinds: "pingresp" | "ack" (PUBACK/PUBREC without failure, or nothing for QoS 0 followed by a PINGRESP) |
\*                "suback" with code | "disconnect" with reason code (MQTT 5) | "closed" (MQTT 3: connection closed)
Refuse(k, code) == IF k.ver = 5 THEN [t |-> "disconnect", code |-> code] ELSE [t |-> "closed", code |-> 0]

OpOutcome(g, k, o) ==
  CASE o.op = "ping" -> [t |-> "pingresp", code |-> 0]
    [] o.op = "pub" ->
         IF o.retain /\ ~g.retain THEN Refuse(k, 154)                                        \* 0x9A Retain not supported
         ELSE IF o.q > g.maxqos /\ ~D("maxqos_not_enforced") THEN Refuse(k, 155)             \* 0x9B QoS not supported
         ELSE [t |-> "ack", code |-> 0]
    [] o.op = "sub" ->
         LET v3lax == k.ver = 4 /\ D("caps_not_applied_to_v3") IN
         IF k.ver = 5 /\ o.withid /\ ~g.subid /\ ~D("subid_unavailable_ignored") THEN Refuse(k, 161)   \* 0xA1 Subscription Identifiers not supported
         ELSE IF o.kind = "wild" /\ ~g.wildcard /\ ~v3lax THEN [t |-> "suback", code |-> IF k.ver = 5 THEN 162 ELSE 128]   \* 0xA2
         ELSE IF o.kind = "shared" /\ ~g.shared /\ ~v3lax THEN [t |-> "suback", code |-> IF k.ver = 5 THEN 158 ELSE 128]   \* 0x9E
         ELSE [t |-> "suback", code |-> 1]

Out(x) ==
  LET co == ConnOutcome(x.cfg, x.conn) IN
  [case |-> x, connack |-> co,
   adv |-> IF co.accept /\ x.conn.ver = 5 THEN Advertised(x.cfg, x.conn) ELSE [none |-> TRUE],
   res |-> IF co.accept THEN OpOutcome(x.cfg, x.conn, x.op) ELSE [t |-> "none", code |-> 0]]

Init == c \in Cases
Next == UNCHANGED c
Spec == Init /\ [][Next]_c

----------------------------------------------------------------------------
(* Design level: the demanded outcomes are coherent                         *)

Served(r) == r.t \in {"ack", "pingresp"} \/ (r.t = "suback" /\ r.code < 128)

\* for an MQTT 5 client: a request is served iff it stays within what CONNACK advertised
AdvertisedIsEnforced ==
  LET x == c  co == ConnOutcome(x.cfg, x.conn) IN
  (co.accept /\ x.conn.ver = 5) =>
     LET a == Advertised(x.cfg, x.conn)
         r == OpOutcome(x.cfg, x.conn, x.op)
         o == x.op
         within == CASE o.op = "ping" -> TRUE
                     [] o.op = "pub" -> (o.retain => a.retain = 1) /\ o.q <= MaxQosOf(a)
                     [] o.op = "sub" -> /\ (o.withid => a.subid = 1)
                                        /\ (o.kind = "wild" => a.wildcard = 1)
                                        /\ (o.kind = "shared" => a.shared = 1)
     IN within <=> Served(r)

KeepAliveWithinMax ==
  LET x == c IN (ConnOutcome(x.cfg, x.conn).accept /\ x.conn.ver = 5) => Advertised(x.cfg, x.conn).keepalive <= x.cfg.maxka

AssignedIffEmpty ==
  LET x == c IN (ConnOutcome(x.cfg, x.conn).accept /\ x.conn.ver = 5) => (Advertised(x.cfg, x.conn).assigned <=> x.conn.emptyid)

MaxQosLegal ==
  LET x == c IN (ConnOutcome(x.cfg, x.conn).accept /\ x.conn.ver = 5) => Advertised(x.cfg, x.conn).maxqos \in {0 - 1, 0, 1}

Dump == PrintT(ToJson(Out(c)))
=============================================================================
