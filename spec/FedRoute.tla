------------------------------ MODULE FedRoute ------------------------------
(***************************************************************************)
(* Federation routing (property C17).                                      *)
(*                                                                         *)
(* Nodes hold local subscriptions (plain, wildcard, shared, '$'); every    *)
(* node mirrors the other nodes' reference-counted topic sets (the views   *)
(* are assumed converged: a subscription change is one step that includes  *)
(* its propagation).  Publish(n, topic, kind) is IMPLEMENTATION-SHAPED: it *)
(* computes what plugin/federation/hooks.go sendMessage decides (round     *)
(* robin over the sorted node list per shared topic, `sent` de-duplication,*)
(* drop / IterationOptions for the local delivery), what the origin then   *)
(* delivers locally, and what every receiver does in eventStreamHandler    *)
(* (Publisher.Publish = delivery with TypeAll, retained store              *)
(* AddOrReplace).  The outcome is kept in `last` and judged by the         *)
(* design-level properties of C17 (Bad); the conformance driver replays    *)
(* the step on real Federation objects, checks that they do exactly this,  *)
(* and re-evaluates the properties on what it observed.  A property        *)
(* failure of the model alone is never a verdict.                          *)
(***************************************************************************)
EXTENDS Topics, Integers, FiniteSets, TLC, Json

CONSTANTS NodeSeq,    \* the node names in the order sort.Strings puts them, e.g. <<"n1","n2","n3">>
          Clients,    \* client ids usable on every node
          Filters,    \* set of [n: full name, share: share name or "", lv: levels of the filter without the share part]
          TopicSet,   \* set of [n: topic name, lv: levels] that are published to
          MaxSubs,    \* bound: live subscriptions in the federation
          MaxPub,     \* bound: publications in a history
          Kinds,      \* publication kinds explored: subset of {"plain", "ret", "clear"}
          Fixes       \* names of modelled repairs (design-level validation of proposed patches only)

VARIABLES subs,       \* set of [node, c, f]       f = full filter name
          rr,         \* [node -> [shared full name -> Nat]]   fedSubStore.sharedSent of every node
          ret,        \* set of [node, t, p]       retained stores; p = "m" (a payload) or "" (an entry with empty payload)
          npub,
          path, last

vars == <<subs, rr, ret, npub, path, last>>
sview == <<subs, rr, ret, npub>>

Fix(n) == n \in Fixes
Nodes == {NodeSeq[i] : i \in 1..Len(NodeSeq)}
FilterByName(n) == CHOOSE x \in Filters : x.n = n
SharedNames == {x.n : x \in {y \in Filters : y.share # ""}}
IsShared(f) == FilterByName(f).share # ""
Matches(f, t) == Match(FilterByName(f).lv, t.lv)

LocalTopics(S, n) == {s.f : s \in {x \in S : x.node = n}}

Init == /\ subs = {} /\ rr = [n \in Nodes |-> [f \in SharedNames |-> 0]] /\ ret = {} /\ npub = 0
        /\ path = <<>> /\ last = [op |-> "init"]

Sub(n, c, f) ==
    /\ Cardinality(subs) < MaxSubs \/ [node |-> n, c |-> c, f |-> f] \in subs
    /\ subs' = subs \cup {[node |-> n, c |-> c, f |-> f]}
    /\ UNCHANGED <<rr, ret, npub>>
    /\ last' = [op |-> "sub", node |-> n, c |-> c, f |-> f]

Unsub(n, c, f) ==
    /\ [node |-> n, c |-> c, f |-> f] \in subs
    /\ subs' = subs \ {[node |-> n, c |-> c, f |-> f]}
    /\ UNCHANGED <<rr, ret, npub>>
    /\ last' = [op |-> "unsub", node |-> n, c |-> c, f |-> f]

----------------------------------------------------------------------------
(* sendMessage as coded                                                    *)

\* how often node m appears in the list of shared topic f that node o builds: once per local client for the
\* local node (localStore.Iterate yields one entry per client), once for a remote node that holds f
Cnt(o, f, m) == IF m = o THEN Cardinality({s \in subs : s.node = o /\ s.f = f})
                ELSE IF f \in LocalTopics(subs, m) THEN 1 ELSE 0

RECURSIVE Cum(_, _, _)
Cum(o, f, i) == IF i = 0 THEN 0 ELSE Cum(o, f, i - 1) + Cnt(o, f, NodeSeq[i])
Total(o, f) == Cum(o, f, Len(NodeSeq))

\* element k (0-based) of the sorted list
Pick(o, f, k) == NodeSeq[CHOOSE i \in 1..Len(NodeSeq) : Cum(o, f, i - 1) <= k /\ k < Cum(o, f, i)]

SharedMatching(o, t) == {f \in SharedNames : Matches(f, t) /\ Total(o, f) > 0}

NSMatch(m, t) == {s \in subs : s.node = m /\ ~IsShared(s.f) /\ Matches(s.f, t)}
GRMatch(m, t) == {f \in SharedNames : Matches(f, t) /\ \E s \in subs : s.node = m /\ s.f = f}
HasMatch(m, t) == NSMatch(m, t) # {} \/ GRMatch(m, t) # {}

\* what a delivery on node m with the given iteration type reaches: the non-shared subscriptions and the shared
\* topics that are served (one member each, server.deliverMessage)
Deliver(m, t, kind) ==
    [node |-> m,
     ns |-> IF kind = "none" THEN {} ELSE {[c |-> s.c, f |-> s.f] : s \in NSMatch(m, t)},
     gr |-> IF kind = "all" THEN GRMatch(m, t) ELSE {}]

Route(o, t) ==
    LET sm      == SharedMatching(o, t)
        pick    == [f \in sm |-> Pick(o, f, rr[o][f] % Total(o, f))]
        rpicks  == {pick[f] : f \in sm} \ {o}
        nsnodes == {m \in Nodes \ {o} : \E f \in LocalTopics(subs, m) : ~IsShared(f) /\ Matches(f, t)}
        localns == NSMatch(o, t) # {}
        drop    == rpicks # {} /\ ~localns
        opts    == IF rpicks # {} /\ localns THEN "nonshared" ELSE "default"
        fwd     == rpicks \cup nsnodes
    IN [sm |-> sm, pick |-> pick, fwd |-> fwd, drop |-> drop, opts |-> opts,
        dl |-> {Deliver(o, t, IF drop THEN "none" ELSE IF opts = "nonshared" THEN "ns" ELSE "all")}
               \cup {Deliver(m, t, "all") : m \in fwd}]

\* kind: "plain" (not retained), "ret" (retained with payload), "clear" (retained, empty payload)
Publish(o, t, kind) ==
    /\ npub < MaxPub
    /\ npub' = npub + 1
    /\ UNCHANGED subs
    /\ IF kind = "plain"
       THEN LET r == Route(o, t) IN
            /\ rr' = [rr EXCEPT ![o] = [f \in SharedNames |-> IF f \in r.sm THEN rr[o][f] + 1 ELSE rr[o][f]]]
            /\ UNCHANGED ret
            /\ last' = [op |-> "pub", node |-> o, t |-> t.n, kind |-> kind, fwd |-> r.fwd, drop |-> r.drop,
                        opts |-> r.opts, dl |-> r.dl]
       ELSE \* the core has updated the origin's own store before the hook runs; every peer gets the message,
            \* publishes it locally and calls AddOrReplace - also for an empty payload
            LET others == Nodes \ {o}
                keep   == {x \in ret : x.t # t.n}
                mine   == IF kind = "ret" THEN {[node |-> o, t |-> t.n, p |-> "m"]} ELSE {}
                theirs == IF kind = "ret" THEN {[node |-> m, t |-> t.n, p |-> "m"] : m \in others}
                          ELSE IF Fix("retained_clear_removes") THEN {}
                          ELSE {[node |-> m, t |-> t.n, p |-> ""] : m \in others}
            IN
            /\ ret' = keep \cup mine \cup theirs
            /\ UNCHANGED rr
            /\ last' = [op |-> "pub", node |-> o, t |-> t.n, kind |-> kind, fwd |-> others, drop |-> FALSE,
                        opts |-> "default", dl |-> {Deliver(m, t, "all") : m \in Nodes}]

Next == /\ \/ \E n \in Nodes, c \in Clients, x \in Filters : Sub(n, c, x.n) \/ Unsub(n, c, x.n)
           \/ \E n \in Nodes, t \in TopicSet, k \in Kinds : Publish(n, t, k)
        /\ path' = Append(path, last')

Spec == Init /\ [][Next]_vars

----------------------------------------------------------------------------
(* C17, judged on the outcome of the last publication                      *)

TopicByName(n) == CHOOSE t \in TopicSet : t.n = n
Served(l, f) == Cardinality({d \in l.dl : f \in d.gr})
GroupsAnywhere(t) == {f \in SharedNames : Matches(f, t) /\ \E s \in subs : s.f = f}

\* forwarded to every peer with a matching non-shared subscription, to no peer without any matching
\* subscription (for a share group it is enough that one member node in the federation serves it)
ForwardedIffNeeded(l) ==
    LET t == TopicByName(l.t) IN
    l.kind = "plain" =>
       /\ \A m \in Nodes \ {l.node} : NSMatch(m, t) # {} => m \in l.fwd
       /\ \A m \in l.fwd : HasMatch(m, t)
NoEcho(l) == l.node \notin l.fwd
\* every matching non-shared subscriber anywhere gets it exactly as a local subscriber would (once)
NonSharedEverywhere(l) ==
    LET t == TopicByName(l.t) IN
    \A m \in Nodes : NSMatch(m, t) # {} =>
        \E d \in l.dl : d.node = m /\ d.ns = {[c |-> s.c, f |-> s.f] : s \in NSMatch(m, t)}
GroupOnce(l) == \A f \in GroupsAnywhere(TopicByName(l.t)) : Served(l, f) = 1
GroupOnceFederationWide(l) == GroupOnce(l)        \* the name used in DESIGN.md
RetainedEverywhere(l, R) ==
    l.kind # "plain" =>
       /\ l.fwd = Nodes \ {l.node}
       /\ \A m \in Nodes : LET e == {x \in R : x.node = m /\ x.t = l.t} IN
                            IF l.kind = "ret" THEN e = {[node |-> m, t |-> l.t, p |-> "m"]} ELSE e = {}

\* R = the retained stores after the publication
\* names of the violated clauses; the suffix names the way in which the clause fails (used in signatures)
BadOf(l, R) ==
    IF l.op # "pub" THEN {} ELSE
    LET t  == TopicByName(l.t)
        gs == GroupsAnywhere(t)
    IN (IF ForwardedIffNeeded(l) THEN {} ELSE {"ForwardedIffNeeded"})
       \cup (IF NoEcho(l) THEN {} ELSE {"NoEcho"})
       \cup (IF NonSharedEverywhere(l) THEN {} ELSE {"NonSharedEverywhere"})
       \cup (IF l.kind = "plain" /\ \E f \in gs : Served(l, f) = 0 THEN {"GroupOnce:starved"} ELSE {})
       \cup (IF l.kind = "plain" /\ \E f \in gs : Served(l, f) > 1 THEN {"GroupOnce:twice"} ELSE {})
       \cup (IF l.kind # "plain" /\ \E f \in gs : Served(l, f) # 1 THEN {"GroupOnce:retained"} ELSE {})
       \cup (IF RetainedEverywhere(l, R) THEN {} ELSE {IF l.kind = "clear" THEN "RetainedEverywhere:clear"
                                                                        ELSE "RetainedEverywhere"})

TypeOK == /\ \A s \in subs : s.node \in Nodes /\ s.c \in Clients /\ \E x \in Filters : x.n = s.f
          /\ \A x \in ret : x.node \in Nodes
StrictOK == BadOf(last, ret) = {}
\* the registered design-level check: nothing beyond the recorded findings
KnownBad == {"GroupOnce:starved", "GroupOnce:twice", "GroupOnce:retained", "RetainedEverywhere:clear"}
LenientOK == BadOf(last, ret) \subseteq KnownBad

----------------------------------------------------------------------------
(* Transition dump                                                         *)

SetSeq(S) == LET RECURSIVE ToSeq(_)
                 ToSeq(T) == IF T = {} THEN <<>> ELSE LET x == CHOOSE x \in T : TRUE IN <<x>> \o ToSeq(T \ {x})
             IN ToSeq(S)

\* emitted once: the Match relation of the pack (oracle for the driver's own evaluation of the clauses)
MatchTable == SetSeq({p \in {[f |-> x.n, t |-> t.n] : x \in Filters, t \in TopicSet} : Matches(p.f, TopicByName(p.t))})

RRSeq(r) == SetSeq({x \in {[node |-> n, f |-> f, k |-> r[n][f]] : n \in Nodes, f \in SharedNames} : x.k > 0})

OpJson(l) == IF l.op # "pub" THEN l
             ELSE [op |-> "pub", node |-> l.node, t |-> l.t, kind |-> l.kind, fwd |-> SetSeq(l.fwd), drop |-> l.drop,
                   opts |-> l.opts,
                   dl |-> SetSeq({[node |-> d.node, ns |-> SetSeq(d.ns), gr |-> SetSeq(d.gr)] : d \in l.dl})]

Dump == PrintT(ToJson([pre |-> [i \in 1..Len(path) |-> [op |-> path[i].op, node |-> path[i].node,
                                  c |-> IF path[i].op = "pub" THEN "" ELSE path[i].c,
                                  f |-> IF path[i].op = "pub" THEN "" ELSE path[i].f,
                                  t |-> IF path[i].op = "pub" THEN path[i].t ELSE "",
                                  kind |-> IF path[i].op = "pub" THEN path[i].kind ELSE ""]],
                       op |-> OpJson(last'),
                       subs |-> SetSeq(subs'), rr |-> RRSeq(rr'), ret |-> SetSeq(ret'),
                       bad |-> SetSeq(BadOf(last', ret'))]))
=============================================================================
