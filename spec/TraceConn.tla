----------------------------- MODULE TraceConn -----------------------------
(***************************************************************************)
(* C15 -- trace validation of the lifecycle hook events of real brokers    *)
(* (free-running storms, harness/cmd/conn) against the lifecycle           *)
(* projection of Conn.tla.                                                 *)
(*                                                                         *)
(* Conn.tla                          event of server.VerifTrace            *)
(*   r6  live \ {read}, close(in)      exit.read                            *)
(*   w4  live \ {write}                exit.write                           *)
(*   p5  live \ {poll}                 exit.poll                            *)
(*   h7  live \ {handle}               exit.handle                          *)
(*   reg7 registered := TRUE           register   (under srv.mu)            *)
(*   sv6 registered := FALSE           unregister (under srv.mu)            *)
(*   sv6 closedCh := TRUE, live := {}  closed                               *)
(*   st0 / st3                         stop.begin / stop.clientsclosed,     *)
(*                                     stop.end                             *)
(* The state below is exactly that projection: which goroutines of a        *)
(* connection have exited (the complement of Conn!live), registered,        *)
(* closedCh, the phase of Stop.  Conn.tla itself is checked against the     *)
(* same rules (LifecycleInv in the MC module), so a trace accepted here is  *)
(* a lifecycle the model can produce, and every rule is one the model       *)
(* obeys.                                                                   *)
(*                                                                          *)
(* One ndjson line per event, storms separated by `reset` lines.  The       *)
(* events of one broker are totally ordered (recorder lock, hook events     *)
(* taken at their linearization point).                                     *)
(* Deviations (known findings) come from the environment: KF1..KF6.         *)
(***************************************************************************)
EXTENDS Json, IOUtils, Sequences, Integers, FiniteSets, TLC

VARIABLES l,          \* next line
          exits,      \* connection -> goroutines that have exited
          reg,        \* connections registered now
          wasReg,     \* connections that registered at some time
          closed,     \* connections whose `closed` event has been seen
          owner,      \* client id -> connections registered under it now
          stop,       \* "no" | "begin" | "clientsclosed" | "end"
          atBegin     \* connections registered at stop.begin
vars == <<l, exits, reg, wasReg, closed, owner, stop, atBegin>>

Trace == ndJsonDeserialize(IOEnv.TRACE)
Dev == {IOEnv[v] : v \in {"KF1", "KF2", "KF3", "KF4", "KF5", "KF6"} \cap DOMAIN IOEnv} \ {""}
ev == Trace[l]
Is(e) == l <= Len(Trace) /\ Trace[l].e = e /\ l' = l + 1

Ex(c) == IF c \in DOMAIN exits THEN exits[c] ELSE {}
Own(i) == IF i \in DOMAIN owner THEN owner[i] ELSE {}
Put(f, k, v) == [x \in DOMAIN f \cup {k} |-> IF x = k THEN v ELSE f[x]]
All4 == {"read", "write", "poll", "handle"}

\* after stop.end only what a recorded finding explains may still happen
\* (connections that were not in srv.clients when Stop looked are neither closed nor awaited by it)
AfterEndOK(c) == stop # "end" \/ ("unregistered_not_closed" \in Dev /\ c \notin atBegin)

Init == /\ l = 1 /\ exits = <<>> /\ reg = {} /\ wasReg = {} /\ closed = {} /\ owner = <<>> /\ stop = "no" /\ atBegin = {}

Reset ==
  /\ Is("reset")
  \* end of the previous storm (taken after every client closed its socket): Stop returned nil there => stop.end was
  \* seen and every connection is unregistered and closed
  /\ l > 1 /\ Trace[l - 1].e # "reset" =>
       /\ ev.stopok => stop = "end"
       /\ ev.stopok => (reg = {} /\ DOMAIN exits \subseteq closed)
  /\ exits' = <<>> /\ reg' = {} /\ wasReg' = {} /\ closed' = {} /\ owner' = <<>> /\ stop' = "no" /\ atBegin' = {}

Exit ==
  /\ Is("exit")
  /\ ev.g \in All4
  /\ ev.g \notin Ex(ev.conn)
  /\ ev.conn \notin closed                                   \* all exits precede `closed`
  /\ ev.g \in {"poll", "handle"} /\ ev.conn \in wasReg => ev.conn \in reg      \* ... and `unregister`
  /\ AfterEndOK(ev.conn)
  /\ exits' = Put(exits, ev.conn, Ex(ev.conn) \cup {ev.g})
  /\ UNCHANGED <<reg, wasReg, closed, owner, stop, atBegin>>

Register ==
  /\ Is("register")
  /\ ev.conn \notin closed /\ ev.conn \notin wasReg
  /\ Ex(ev.conn) \cap {"poll", "handle"} = {}                \* poll / handle are started after the registration
  /\ AfterEndOK(ev.conn)
  \* C05 (reported, not decided, here): another connection is registered under this client id right now
  /\ Own(ev.cid) # {} => PrintT(<<"C05-DUP", l, ev.cid, ev.conn>>)
  /\ reg' = reg \cup {ev.conn} /\ wasReg' = wasReg \cup {ev.conn}
  /\ owner' = Put(owner, ev.cid, Own(ev.cid) \cup {ev.conn})
  /\ exits' = Put(exits, ev.conn, Ex(ev.conn))
  /\ UNCHANGED <<closed, stop, atBegin>>

Unregister ==
  /\ Is("unregister")
  /\ ev.conn \in reg
  /\ All4 \subseteq Ex(ev.conn)                              \* internalClose runs after both joins
  /\ AfterEndOK(ev.conn)
  /\ reg' = reg \ {ev.conn}
  /\ owner' = Put(owner, ev.cid, Own(ev.cid) \ {ev.conn})
  /\ UNCHANGED <<exits, wasReg, closed, stop, atBegin>>

Closed ==
  /\ Is("closed")
  /\ ev.conn \notin closed
  /\ {"read", "write"} \subseteq Ex(ev.conn)
  /\ ("poll" \in Ex(ev.conn)) <=> ("handle" \in Ex(ev.conn))
  /\ ev.conn \in wasReg => All4 \subseteq Ex(ev.conn)
  /\ ev.conn \notin reg                                      \* `unregister` precedes `closed`
  /\ AfterEndOK(ev.conn)
  /\ closed' = closed \cup {ev.conn}
  /\ exits' = Put(exits, ev.conn, Ex(ev.conn))
  /\ UNCHANGED <<reg, wasReg, owner, stop, atBegin>>

StopBegin ==
  /\ Is("stop.begin") /\ stop = "no"
  /\ stop' = "begin" /\ atBegin' = reg
  /\ UNCHANGED <<exits, reg, wasReg, closed, owner>>

StopClientsClosed ==
  /\ Is("stop.clientsclosed") /\ stop = "begin"
  \* every connection registered when Stop began is closed (or had unregistered by itself before Stop looked)
  /\ \A c \in atBegin : c \in closed \/ c \notin reg
  /\ stop' = "clientsclosed"
  /\ UNCHANGED <<exits, reg, wasReg, closed, owner, atBegin>>

StopEnd ==
  /\ Is("stop.end") /\ stop = "clientsclosed"
  /\ stop' = "end"
  /\ UNCHANGED <<exits, reg, wasReg, closed, owner, atBegin>>

Will ==
  /\ Is("will")
  /\ stop = "end" => "will_timer_outlives_stop" \in Dev
  /\ UNCHANGED <<exits, reg, wasReg, closed, owner, stop, atBegin>>

Next == Reset \/ Exit \/ Register \/ Unregister \/ Closed \/ StopBegin \/ StopClientsClosed \/ StopEnd \/ Will

TSpec == Init /\ [][Next]_vars

HWM == IF l > TLCGet(1) THEN TLCSet(1, l) ELSE TRUE
ASSUME TLCSet(1, 0)

Accepted == \/ TLCGet(1) = Len(Trace) + 1
            \/ PrintT(<<"TRACE-REJECTED-AT", TLCGet(1), "OF", Len(Trace)>>) /\ FALSE
=============================================================================
