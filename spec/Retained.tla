------------------------------ MODULE Retained ------------------------------
(***************************************************************************)
(* Abstract retained-message store (property C07, store layer).            *)
(* retained.Store of gmqtt: AddOrReplace / Remove / ClearAll and the       *)
(* queries GetRetainedMessage, GetMatchedMessages, Iterate.                *)
(*                                                                         *)
(* The state is the mathematical content of the store: a partial function  *)
(* from topic names to the last message kept for that name.  A message is  *)
(* [tag, qos] (tag stands for the payload).  All queries are operators     *)
(* over that function, defined with Topics!Match, i.e. directly from MQTT  *)
(* 4.7 (incl. [MQTT-4.7.2-1]) and not from the trie.                       *)
(***************************************************************************)
EXTENDS Topics, FiniteSets, TLC, Json

CONSTANTS TopicSet,   \* set of [n: topic name, lv: levels]   (the universe of names that can be kept / asked for)
          FilterSet,  \* set of [n: filter, lv: levels]       (the filters asked for)
          Msgs,       \* set of [tag, qos]
          MaxKept     \* bound: number of kept messages

VARIABLES ret,        \* [Names -|-> Msgs]: function whose domain is the set of names that have a retained message
          path,       \* bookkeeping (hidden by VIEW): operations that led here
          last        \* bookkeeping (hidden by VIEW): last operation

vars == <<ret, path, last>>
view == ret

Names == {t.n : t \in TopicSet}
TopicByName(n) == CHOOSE t \in TopicSet : t.n = n

Init == /\ ret = [x \in {} |-> 0]
        /\ path = <<>>
        /\ last = [op |-> "init"]

AddOrReplace(n, m) ==
    /\ ret' = [x \in DOMAIN ret \cup {n} |-> IF x = n THEN m ELSE ret[x]]
    /\ last' = [op |-> "add", t |-> n, m |-> m]

Remove(n) ==
    /\ ret' = [x \in DOMAIN ret \ {n} |-> ret[x]]
    /\ last' = [op |-> "rm", t |-> n]

ClearAll ==
    /\ ret' = [x \in {} |-> 0]
    /\ last' = [op |-> "clear"]

Next == /\ \/ \E n \in Names, m \in Msgs : AddOrReplace(n, m)
           \/ \E n \in Names : Remove(n)
           \/ ClearAll
        /\ path' = Append(path, last')

Spec == Init /\ [][Next]_vars

Bound == Cardinality(DOMAIN ret) <= MaxKept

----------------------------------------------------------------------------
(* Queries (the observable side).  A result entry is [t, m].               *)

Entry(r, n) == [t |-> n, m |-> r[n]]

QGet(r, n)     == IF n \in DOMAIN r THEN {Entry(r, n)} ELSE {}            \* GetRetainedMessage: at most one
QAll(r)        == {Entry(r, n) : n \in DOMAIN r}                         \* Iterate
QMatched(r, f) == {Entry(r, n) : n \in {x \in DOMAIN r : Match(f.lv, TopicByName(x).lv)}}   \* GetMatchedMessages

----------------------------------------------------------------------------
(* Design-level properties of the abstract store.                          *)

TypeOK == /\ DOMAIN ret \subseteq Names
          /\ \A n \in DOMAIN ret : ret[n] \in Msgs

\* every lookup answers with kept messages only, one per name; a filter without wildcards is the lookup by name;
\* a filter that starts with a wildcard never yields a '$' topic
QueriesOK ==
    /\ \A f \in FilterSet : QMatched(ret, f) \subseteq QAll(ret)
    /\ \A f \in FilterSet : (\A i \in 1..Len(f.lv) : f.lv[i] \notin {"+", "#"}) =>
            QMatched(ret, f) = (IF f.n \in Names THEN QGet(ret, f.n) ELSE {})
    /\ \A f \in FilterSet : f.lv[1] \in {"+", "#"} =>
            \A e \in QMatched(ret, f) : ~IsSysTopic(TopicByName(e.t).lv)
    /\ \A f \in FilterSet : f.lv = <<"#">> =>
            QMatched(ret, f) = {e \in QAll(ret) : ~IsSysTopic(TopicByName(e.t).lv)}

\* an operation on one name leaves every other name alone; the last message wins
StepExact ==
    [][/\ last'.op = "add" => /\ last'.t \in DOMAIN ret' /\ ret'[last'.t] = last'.m
                              /\ \A n \in Names \ {last'.t} : QGet(ret', n) = QGet(ret, n)
       /\ last'.op = "rm"  => /\ last'.t \notin DOMAIN ret'
                              /\ \A n \in Names \ {last'.t} : QGet(ret', n) = QGet(ret, n)
       /\ last'.op = "clear" => QAll(ret') = {}]_vars

----------------------------------------------------------------------------
(* Transition dump for the transition-coverage replay.                     *)

RetSeq(r) == LET RECURSIVE ToSeq(_)
                 ToSeq(T) == IF T = {} THEN <<>>
                             ELSE LET n == CHOOSE n \in T : TRUE
                                  IN <<[t |-> n, tag |-> r[n].tag, qos |-> r[n].qos]>> \o ToSeq(T \ {n})
             IN ToSeq(DOMAIN r)

Dump == PrintT(ToJson([pre |-> path, op |-> last', ret |-> RetSeq(ret')]))

\* emitted once: the Match relation of the pack (oracle for the replayer)
MatchTable == LET RECURSIVE ToSeq(_)
                  ToSeq(T) == IF T = {} THEN <<>>
                              ELSE LET p == CHOOSE p \in T : TRUE
                                   IN <<[f |-> p[1].n, t |-> p[2].n]>> \o ToSeq(T \ {p})
              IN ToSeq({p \in FilterSet \X TopicSet : Match(p[1].lv, p[2].lv)})
=============================================================================
