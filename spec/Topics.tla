------------------------------- MODULE Topics -------------------------------
(***************************************************************************)
(* MQTT 4.7 topic names and topic filters at the level of "levels".        *)
(* A topic name is a non-empty sequence of level strings (a level may be   *)
(* the empty string: "a//b" = <<"a","","b">>, "/a" = <<"","a">>).  A       *)
(* filter is a non-empty sequence of levels in which "+" stands for one    *)
(* level and "#" (last level only) for any number of levels including the  *)
(* parent.  TLC cannot look inside a string, therefore the first levels    *)
(* that start with '$' are given as the constant set SysLevels; harnesses  *)
(* only ever use '$'-levels from that set.                                 *)
(***************************************************************************)
EXTENDS Sequences, Naturals

CONSTANT SysLevels        \* first levels starting with '$', e.g. {"$SYS","$s"}

IsFilterLv(f) == /\ Len(f) >= 1
                 /\ \A i \in 1..Len(f) : f[i] = "#" => i = Len(f)

IsTopicLv(t)  == /\ Len(t) >= 1
                 /\ \A i \in 1..Len(t) : t[i] \notin {"+", "#"}

RECURSIVE M(_, _)
M(f, t) == IF f = <<>> THEN t = <<>>
           ELSE IF f[1] = "#" THEN TRUE                        \* a/# also matches the parent a
           ELSE /\ t # <<>>
                /\ (f[1] = "+" \/ f[1] = t[1])
                /\ M(Tail(f), Tail(t))

IsSysTopic(t) == t[1] \in SysLevels

(* [MQTT-4.7.2-1]: a filter starting with a wildcard does not match a topic starting with '$' *)
Match(f, t) == /\ (IsSysTopic(t) => f[1] \notin {"+", "#"})
               /\ M(f, t)

Min(a, b) == IF a <= b THEN a ELSE b
Max(a, b) == IF a >= b THEN a ELSE b
=============================================================================
