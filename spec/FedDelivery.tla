---------------------------- MODULE FedDelivery ----------------------------
(***************************************************************************)
(* C16 at byte grain: what an observer of two federated nodes may see when  *)
(* REAL gRPC carries the event stream and a proxy cuts the connection after *)
(* an arbitrary number of bytes in either direction (harness/cmd/fedgrpc).  *)
(*                                                                         *)
(* Node A emits subscribe / unsubscribe events (reference-counted: an event *)
(* only when the first subscriber of a topic appears / the last one goes)   *)
(* and numbered retained messages; node B applies them.  While B keeps A's  *)
(* session (it is never restarted here):                                    *)
(*   - every message B applies is the next emitted one: in emission order,  *)
(*     no duplicate, no gap, nothing that was not emitted (AppliedIsPrefix) *)
(*   - once the stream has been stable (the `quiet` line of the driver)     *)
(*     every emitted message has been applied and B's  *)
(*     view of A's subscriptions equals A's local subscription set.         *)
(* The module is its own trace specification: line l of the ndjson trace    *)
(* must be explained by the action of its kind.                             *)
(***************************************************************************)
EXTENDS Integers, Sequences, FiniteSets, TLC, Json, IOUtils

VARIABLES emitted,   \* message numbers in emission order
          napplied,  \* how many of them B has applied
          holds,     \* set of <<client, topic>>: A's local subscriptions
          l
vars == <<emitted, napplied, holds, l>>

Trace == ndJsonDeserialize(IOEnv.TRACE)
ev == Trace[l]
Is(e) == l <= Len(Trace) /\ Trace[l].e = e /\ l' = l + 1

LocalSet == {h[2] : h \in holds}
SeqToSet(s) == {s[i] : i \in 1..Len(s)}

Init == emitted = <<>> /\ napplied = 0 /\ holds = {} /\ l = 1

Next ==
  \/ Is("reset") /\ emitted' = <<>> /\ napplied' = 0 /\ holds' = {}
  \/ /\ Is("emit")
     /\ \/ ev.kind = "msg" /\ emitted' = Append(emitted, ev.n) /\ UNCHANGED <<napplied, holds>>
        \/ ev.kind = "sub" /\ holds' = holds \cup {<<ev.c, ev.t>>} /\ UNCHANGED <<emitted, napplied>>
        \/ ev.kind = "unsub" /\ holds' = holds \ {<<ev.c, ev.t>>} /\ UNCHANGED <<emitted, napplied>>
  \/ /\ Is("apply")
     \* exactly the next emitted message: in order, once
     /\ napplied < Len(emitted) /\ emitted[napplied + 1] = ev.n
     /\ napplied' = napplied + 1
     /\ UNCHANGED <<emitted, holds>>
  \/ Is("arm") /\ UNCHANGED <<emitted, napplied, holds>>
  \/ Is("cut") /\ UNCHANGED <<emitted, napplied, holds>>
  \/ /\ Is("quiet")
     \* the stream has been stable: everything emitted has been applied, the views agree
     /\ napplied = Len(emitted)
     /\ SeqToSet(ev.view) = LocalSet
     /\ SeqToSet(ev.local) = LocalSet
     \* (events that were applied but whose acknowledgement was cut off may stay in A's queue: `queued` is logged, not demanded)
     /\ UNCHANGED <<emitted, napplied, holds>>

Spec == Init /\ [][Next]_vars

HWM == IF l > TLCGet(1) THEN TLCSet(1, l) ELSE TRUE
ASSUME TLCSet(1, 0)
Accepted == \/ TLCGet(1) = Len(Trace) + 1
            \/ PrintT(<<"TRACE-REJECTED-AT", TLCGet(1), "OF", Len(Trace)>>) /\ FALSE

AppliedIsPrefix == napplied <= Len(emitted)
=============================================================================
