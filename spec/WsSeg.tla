-------------------------------- MODULE WsSeg --------------------------------
(***************************************************************************)
(* Behaviour enumeration for C18: segmentations of ONE client byte stream  *)
(* into WebSocket messages, at the level of lengths.                       *)
(*                                                                         *)
(* The stream is described by its packets (header length, body length);    *)
(* it comes from the Go driver (`wsconn -describe`).  A segmentation is a  *)
(* sequence of message lengths that sums to the stream length N (empty     *)
(* messages allowed in the `z` families).  TLC enumerates families of      *)
(* segmentations (model checking: every member; -simulate: random walks)   *)
(* and prints one JSON line per segmentation; the driver sends the real    *)
(* stream cut that way through a real WebSocket listener.                  *)
(*                                                                         *)
(* What the property demands is the same for every segmentation (WsConn:   *)
(* ReadsConcatenateToStream): the broker sees the N bytes.  Next to it     *)
(* the line carries the prediction of the named deviation                  *)
(* DropLastWhenOneLeft (WsRead!ExhaustedImpl) composed with a length-level *)
(* model of bufio.Reader + packets.Reader: the stream offset of the first  *)
(* byte that variant loses (-1: none).  It is used to CLASSIFY divergences *)
(* observed on the real code, never to excuse them.                        *)
(***************************************************************************)
EXTENDS WsRead, Integers, Sequences, FiniteSets, TLC, Json

CONSTANTS StreamName,
          Pk,         \* packets of the stream: sequence of [h |-> header bytes, b |-> body bytes]
          HasDisc,    \* the last packet is DISCONNECT (2 bytes)
          Fams,       \* families to enumerate: records made with Fam(..) below
          BufSize,    \* size of the bufio.Reader in front of the packet reader (readBufferSize = 1024)
          MaxChunks,  \* bound on the number of messages in the stepwise families
          Trail       \* bytes that follow DISCONNECT inside the last message (never processed: DISCONNECT ends the
                      \* connection; and never seen by any OTHER connection either)

VARIABLES fam, pos, seg

vars == <<fam, pos, seg>>

----------------------------------------------------------------------------
(* Stream geometry *)
RECURSIVE SumTo(_)
SumTo(i) == IF i = 0 THEN 0 ELSE SumTo(i - 1) + Pk[i].h + Pk[i].b
Ends  == [i \in 1..Len(Pk) |-> SumTo(i)]          \* offset just after packet i
N     == SumTo(Len(Pk))
Inner == {Ends[i] : i \in 1..(Len(Pk) - 1)}       \* packet boundaries inside the stream
Bnd   == Inner \cup {N}
NextBnd(p) == CHOOSE b \in Bnd : b > p /\ \A c \in Bnd : c > p => b <= c
MinOf(S) == CHOOSE x \in S : \A y \in S : x <= y

----------------------------------------------------------------------------
(* Families.  One record shape for all:                                    *)
(*   t    kind                                                             *)
(*   a,b  integer parameters                                               *)
(*   c    set of cut positions (kind "cuts")                               *)
(*   z    number of empty messages sent after every message                *)
(*   x    index of the message that is sent as a TEXT message (0 = none)   *)
(*   d    1: DISCONNECT is a message of its own (the family shapes the     *)
(*        N-2 bytes before it).  gmqtt stops writing when it has handled   *)
(*        DISCONNECT, so answers to packets that are completed by the same *)
(*        message as DISCONNECT may be lost; with d = 1 every answer is    *)
(*        owed.  The "merged" variants (d = 0) pack DISCONNECT with what   *)
(*        precedes it.                                                     *)
DD == IF HasDisc THEN 1 ELSE 0
Fam(t, a, b, c, z, x) == [t |-> t, a |-> a, b |-> b, c |-> c, z |-> z, x |-> x, d |-> DD]
Merged(F) == {[f EXCEPT !.d = 0] : f \in F}
Tgt(f) == IF f.d = 1 THEN N - 2 ELSE N

Clip(S) == S \cap 1..(N - 1)
D3 == {-1, 0, 1}

\* every message s bytes long, the first one ph bytes (ph = 0: none shorter)
Uniform(s, ph) == Fam("uni", s, ph, {}, 0, 0)
\* cuts at every packet boundary shifted by d: every message ends 1 before / at / 1 after a packet end
BndAll(d) == Fam("bndall", d, 0, Clip({e + d : e \in Inner}), 0, 0)
\* a single cut 1 before / at / 1 after packet boundary e
Single(e, d) == Fam("single", e, d, Clip({e + d}), 0, 0)
\* two cuts around packets i+1..j: a message that is these packets, one byte more or less at either end
Pair(i, j, d1, d2) == Fam("pair", Ends[i] + d1, Ends[j] + d2, Clip({Ends[i] + d1, Ends[j] + d2}), 0, 0)
\* a message of length l that starts at offset a
Span(a, l) == Fam("span", a, l, Clip({a, a + l}), 0, 0)

Singles == {Single(e, d) : e \in Inner, d \in D3}
BndAlls == {BndAll(d) : d \in D3}
Pairs(w) == UNION {{Pair(ij[1], ij[2], d1, d2) : d1 \in D3, d2 \in D3} :
                     ij \in {q \in (1..(Len(Pk) - 2)) \X (2..(Len(Pk) - 1)) : q[2] > q[1] /\ q[2] <= q[1] + w}}
BoundaryFams == BndAlls \cup Singles \cup Pairs(2)

SpanFams(lens) ==
    UNION {{Span(a, l) : l \in {m \in lens : a + m < N}} :
              a \in {0} \cup Clip({e + d : e \in Inner, d \in D3})}

UniformFams(sizes, phased) ==
    {Uniform(s, 0) : s \in {m \in sizes : m < N}} \cup {Uniform(p[1], p[2]) : p \in {q \in phased : q[1] < N /\ q[2] < q[1]}}

\* the packet-aligned segmentation with z empty messages after every message
Empties(zs) == {[BndAll(0) EXCEPT !.t = "empties", !.z = z] : z \in zs}
               \cup {[Uniform(s, 0) EXCEPT !.t = "empties-uni", !.z = 1] : s \in {m \in {1, BufSize + 1} : m < N}}

\* the packet-aligned segmentation (and the one shifted by one byte) with message x sent as text
TextFams == UNION {{[BndAll(d) EXCEPT !.t = "text", !.x = x, !.d = 0] : x \in 1..Len(Pk)} : d \in {0, 1}}

\* the packet-aligned segmentation with an empty message after every message, the empty message after packet x sent as
\* TEXT: a text message is rejected whatever its length
TextEmptyFams == {[BndAll(0) EXCEPT !.t = "text-empty", !.z = 1, !.x = 2 * x, !.d = 0] : x \in 1..(Len(Pk) - DD)}

\* stepwise (non-deterministic) families
AllComps       == Fam("all", 0, 0, {}, 0, 0)             \* every composition
KCuts(k)       == Fam("kcuts", k, 0, {}, 0, 0)           \* every segmentation with at most k cuts
Window(lo, hi) == Fam("window", lo, hi, {}, 0, 0)        \* every composition of the bytes lo..hi, one message before, one after
Walk           == [Fam("walk", 0, 0, {}, 0, 0) EXCEPT !.d = 0]   \* random walk over the interesting lengths (-simulate)

Stepwise(f) == f.t \in {"all", "kcuts", "window", "walk"}

----------------------------------------------------------------------------
(* Deterministic families: the segmentation is a function of the family.   *)
RECURSIVE SortedCuts(_, _)
SortedCuts(S, from) == IF S = {} THEN <<>>
                       ELSE LET m == MinOf(S) IN <<m - from>> \o SortedCuts(S \ {m}, m)

SegOf(f) ==
    IF f.t \in {"uni", "empties-uni"}
    THEN LET first == IF f.b > 0 THEN <<f.b>> ELSE <<>>
             rest  == Tgt(f) - f.b
             full  == rest \div f.a
             tail  == IF rest % f.a > 0 THEN <<rest % f.a>> ELSE <<>>
             disc  == IF f.d = 1 THEN <<2>> ELSE <<>>
         IN first \o [i \in 1..full |-> f.a] \o tail \o disc
    ELSE SortedCuts(f.c \cup {N} \cup (IF f.d = 1 THEN {N - 2} ELSE {}), 0)

\* z empty messages after every message
WithEmpties(s, z) == IF z = 0 THEN s
                     ELSE [i \in 1..(Len(s) * (z + 1)) |-> IF (i - 1) % (z + 1) = 0 THEN s[((i - 1) \div (z + 1)) + 1] ELSE 0]

----------------------------------------------------------------------------
(* Stepwise families: the next message length.                             *)
WalkLens(p) ==
    LET nb  == NextBnd(p)
        nb2 == IF nb = N THEN N ELSE NextBnd(nb)
    IN ({1, 2, 3} \cup (BufSize - 2)..(BufSize + 2) \cup (2 * BufSize - 1)..(2 * BufSize + 1)
        \cup {4 * BufSize + 1, 3 * BufSize + 1}
        \cup {nb - p - 1, nb - p, nb - p + 1, nb2 - p - 1, nb2 - p, nb2 - p + 1}
        \cup {N - p - 2, N - p}) \cap 1..(N - p)

Choices(f, p, n) ==
    LET T == Tgt(f) IN
    IF p >= T THEN {N - p}
    ELSE CASE f.t = "all"    -> 1..(T - p)
           [] f.t = "kcuts"  -> IF n >= f.a THEN {T - p} ELSE 1..(T - p)
           [] f.t = "window" -> IF p < f.a THEN {f.a - p}
                                ELSE IF p < f.b THEN 1..(f.b - p)
                                ELSE {T - p}
           [] f.t = "walk"   -> WalkLens(p)

Init == /\ fam \in Fams
        /\ IF Stepwise(fam) THEN pos = 0 /\ seg = <<>>
                            ELSE pos = N /\ seg = WithEmpties(SegOf(fam), fam.z)

Next == /\ Stepwise(fam) /\ pos < N
        /\ \E c \in Choices(fam, pos, Len(seg)) :
              /\ seg' = Append(seg, c)
              /\ pos' = pos + c
        /\ UNCHANGED fam

Spec == Init /\ [][Next]_vars

Bound == Len(seg) <= MaxChunks \/ ~Stepwise(fam)

----------------------------------------------------------------------------
(* Design-level sanity of the generator.                                   *)
RECURSIVE SumRange(_, _, _)
SumRange(s, lo, hi) == IF lo > hi THEN 0
                       ELSE IF lo = hi THEN s[lo]
                       ELSE LET mid == (lo + hi) \div 2 IN SumRange(s, lo, mid) + SumRange(s, mid + 1, hi)
SumSeq(s) == SumRange(s, 1, Len(s))

\* what is printed is a segmentation of the stream (checked on the complete states)
IsSegmentation == pos = N => (SumSeq(seg) = N /\ \A i \in 1..Len(seg) : seg[i] >= 0)
TypeOK == pos \in 0..N

----------------------------------------------------------------------------
(* Length-level model of the implementation-shaped variant: wsConn.Read    *)
(* with the reset condition ExhaustedImpl below bufio.Reader (size BufSize)*)
(* below packets.Reader (h x ReadByte, then io.ReadFull(body)).            *)
(* w = [mi: next message to fetch, have, L: length of the current message, *)
(*      off: ws.r, base: stream offset of the current message]             *)
(* A step yields [w, k: bytes handed out, drop: offset of a lost byte/-1,  *)
(* n: the size that was asked for].  Parsing is followed up to the first   *)
(* lost byte only (after it the packet boundaries are no longer known).    *)

WsReadLen(s, w, n) ==
    LET f == IF w.have THEN w
             ELSE [mi |-> w.mi + 1, have |-> TRUE, L |-> s[w.mi], off |-> 0, base |-> w.base + w.L]
        k == Take(f.L, f.off, n)
        o == f.off + k
    IN IF LosesByte(f.L, o)
       THEN [w |-> f, k |-> k, drop |-> f.base + f.L - 1, n |-> n]
       ELSE IF ExhaustedImpl(f.L, o)
            THEN [w |-> [f EXCEPT !.have = FALSE, !.off = 0], k |-> k, drop |-> -1, n |-> n]
            ELSE [w |-> [f EXCEPT !.off = o], k |-> k, drop |-> -1, n |-> n]

NoDrop == [drop |-> -1, n |-> 0]

\* Small-step interpreter of the reader stack (TLC evaluates deep recursion slowly, so the run is cut into
\* blocks of 128 steps).  st = [i: packet, ph: "h" header bytes (bufio.Reader.ReadByte: refill with
\* Read(BufSize) while the buffer is empty) / "b" body (io.ReadFull: bufio.Reader.Read copies what is buffered;
\* with an empty buffer it reads directly into the caller's slice when that is at least BufSize long, else it
\* refills the buffer once), need: bytes the current phase still wants, w, avail: bytes buffered in bufio,
\* drop, n]
Start == [i |-> 1, ph |-> "h", need |-> Pk[1].h, avail |-> 0, drop |-> -1, n |-> 0,
          w |-> [mi |-> 1, have |-> FALSE, L |-> 0, off |-> 0, base |-> 0]]

Done(st) == st.drop >= 0 \/ st.i > Len(Pk)

\* the current phase wants nothing more: go on to the body / the next packet (a body may be empty)
Adv(st) == IF st.ph = "h" THEN [st EXCEPT !.ph = "b", !.need = Pk[st.i].b]
           ELSE IF st.i = Len(Pk) THEN [st EXCEPT !.i = @ + 1, !.need = 1]
           ELSE [st EXCEPT !.i = @ + 1, !.ph = "h", !.need = Pk[st.i + 1].h]
Norm(st) == IF st.need > 0 THEN st
            ELSE LET a == Adv(st) IN IF a.need > 0 THEN a ELSE Adv(a)

\* one step: take what is buffered, or else one call of wsConn.Read
Step(s, st) ==
    IF st.avail > 0
    THEN LET c == Min(st.need, st.avail) IN Norm([st EXCEPT !.need = @ - c, !.avail = @ - c])
    ELSE LET direct == st.ph = "b" /\ st.need >= BufSize
             x == WsReadLen(s, st.w, IF direct THEN st.need ELSE BufSize)
             c == Min(st.need, x.k)
         IN IF x.drop >= 0 THEN [st EXCEPT !.drop = x.drop, !.n = x.n]
            ELSE IF direct THEN Norm([st EXCEPT !.need = @ - x.k, !.w = x.w])
                 ELSE Norm([st EXCEPT !.need = @ - c, !.avail = x.k - c, !.w = x.w])

RECURSIVE RunK(_, _, _)
RunK(s, st, k) == IF k = 0 \/ Done(st) THEN st ELSE RunK(s, Step(s, st), k - 1)
RECURSIVE Run(_, _)
Run(s, st) == IF Done(st) THEN st ELSE Run(s, RunK(s, st, 128))

ImplFirstDrop(s) == LET e == Run(s, Start) IN [drop |-> e.drop, n |-> e.n]

----------------------------------------------------------------------------
(* One line per complete segmentation.                                     *)
Emit == (pos = N) =>
          LET pr == ImplFirstDrop(seg)
          IN PrintT(ToJson([stream |-> StreamName, fam |-> fam.t, a |-> fam.a, b |-> fam.b, z |-> fam.z, d |-> fam.d,
                            text |-> fam.x, seg |-> seg, drop |-> pr.drop, dropn |-> pr.n,
                            trail |-> IF HasDisc /\ fam.x = 0 THEN Trail ELSE 0]))
=============================================================================
