------------------------------- MODULE Codec -------------------------------
(***************************************************************************)
(* Independent definition of the MQTT wire format (C06), written from the  *)
(* OASIS specifications MQTT 3.1.1 (os, 2014) and MQTT 5.0 (os, 2019) and  *)
(* the IBM MQTT 3.1 note for the v3.1 protocol name/level only.            *)
(*                                                                         *)
(*   Enc(p)          encoder for a packet value p (record), all 15 types   *)
(*   SizeFormula(p)  arithmetic size; TLC checks Len(Enc(p)) = SizeFormula *)
(*   Dec(b, ver)     decoder / recogniser of a byte sequence               *)
(*   Faults(p)       fault operators, each breaking one rule               *)
(*   Emit*           JSON vectors for the Go driver harness/cmd/codec      *)
(*                                                                         *)
(* Bytes are naturals 0..255, strings and binary data are byte sequences,  *)
(* four-byte integers are 4-tuples of bytes (TLC integers are 32 bit).     *)
(* Versions: 3 = MQTT 3.1 ("MQIsdp"), 4 = MQTT 3.1.1, 5 = MQTT 5.0.        *)
(***************************************************************************)
EXTENDS Naturals, Sequences, FiniteSets, TLC, Json

CONSTANTS
  Types,      \* packet type names enumerated by this run
  Vers,       \* protocol versions, subset of {3,4,5}
  D,          \* "deviation" domains [u16, u32, vbi, str, bin, pay, big, filt, badstr]
  S,          \* small domains for the cartesian part (same fields)
  PropSel,    \* property identifiers used in the cartesian part
  FaultSel,   \* names of fault groups to emit
  RichFaults  \* TRUE: framing faults also on every one-property value, FALSE: on the base values only

Drop(s, n) == SubSeq(s, n + 1, Len(s))
Take(s, n) == SubSeq(s, 1, n)
RECURSIVE Flat(_)
Flat(ss) == IF ss = <<>> THEN <<>> ELSE Head(ss) \o Flat(Tail(ss))
RECURSIVE SumSeq(_)
SumSeq(ns) == IF ns = <<>> THEN 0 ELSE Head(ns) + SumSeq(Tail(ns))
B(x) == IF x THEN 1 ELSE 0
Rev(s) == [i \in 1..Len(s) |-> s[Len(s) + 1 - i]]
Rep(n, x) == [i \in 1..n |-> x]

(***************************************************************************)
(* 1. Data representations (MQTT 5 section 1.5, MQTT 3.1.1 section 1.5/2.2.3) *)
(***************************************************************************)
U16(n) == <<n \div 256, n % 256>>
RECURSIVE VBI(_)
VBI(n) == IF n < 128 THEN <<n>> ELSE <<128 + (n % 128)>> \o VBI(n \div 128)
VBILen(n) == IF n < 128 THEN 1 ELSE IF n < 16384 THEN 2 ELSE IF n < 2097152 THEN 3 ELSE 4
\* the same value with one superfluous continuation byte (breaks [MQTT-1.5.5-1])
VBIPad(n) == LET c == VBI(n) IN [c EXCEPT ![Len(c)] = @ + 128] \o <<0>>
RECURSIVE VBIPadTo(_, _)
VBIPadTo(c, k) == IF Len(c) >= k THEN c ELSE VBIPadTo([c EXCEPT ![Len(c)] = @ + 128] \o <<0>>, k)
Bin(s) == U16(Len(s)) \o s
Str(s) == Bin(s)

Cont(x) == x \in 128..191
\* well-formed UTF-8 (RFC 3629: shortest form, no surrogates, <= U+10FFFF) without U+0000
\* [MQTT-1.5.3-1], [MQTT-1.5.3-2] (3.1.1) / [MQTT-1.5.4-1], [MQTT-1.5.4-2] (5.0)
RECURSIVE UTF8OK(_)
UTF8OK(s) ==
  IF s = <<>> THEN TRUE ELSE
  LET a == s[1]  n == Len(s) IN
  IF a = 0 THEN FALSE
  ELSE IF a < 128 THEN UTF8OK(Tail(s))
  ELSE IF a \in 194..223 THEN n >= 2 /\ Cont(s[2]) /\ UTF8OK(Drop(s, 2))
  ELSE IF a \in 224..239 THEN /\ n >= 3 /\ Cont(s[2]) /\ Cont(s[3])
                              /\ (a = 224 => s[2] >= 160) /\ (a = 237 => s[2] <= 159)
                              /\ UTF8OK(Drop(s, 3))
  ELSE IF a \in 240..244 THEN /\ n >= 4 /\ Cont(s[2]) /\ Cont(s[3]) /\ Cont(s[4])
                              /\ (a = 240 => s[2] >= 144) /\ (a = 244 => s[2] <= 143)
                              /\ UTF8OK(Drop(s, 4))
  ELSE FALSE

(***************************************************************************)
(* 2. Topic names and topic filters at byte level (MQTT 4.7, 4.8.2)        *)
(***************************************************************************)
SLASH == 47
PLUS == 43
HASH == 35
HasB(s, c) == \E i \in 1..Len(s) : s[i] = c
RECURSIVE SplitB(_)
SplitB(s) == IF s = <<>> THEN << <<>> >>
             ELSE IF Head(s) = SLASH THEN << <<>> >> \o SplitB(Tail(s))
             ELSE LET r == SplitB(Tail(s)) IN << <<Head(s)>> \o r[1] >> \o Tail(r)
\* [MQTT-4.7.3-1] at least one character, [MQTT-4.7.1-1] no wildcards, [MQTT-4.7.3-2] no U+0000, UTF-8
ValidNameB(s) == Len(s) >= 1 /\ ~HasB(s, PLUS) /\ ~HasB(s, HASH) /\ UTF8OK(s)
\* [MQTT-4.7.1-2] '#' alone in the last level, [MQTT-4.7.1-3] '+' occupies an entire level
ValidFilterB(s) == /\ Len(s) >= 1 /\ UTF8OK(s)
                   /\ LET l == SplitB(s) IN
                      \A i \in 1..Len(l) : /\ HasB(l[i], PLUS) => Len(l[i]) = 1
                                           /\ HasB(l[i], HASH) => (Len(l[i]) = 1 /\ i = Len(l))
SharePrefix == <<36, 115, 104, 97, 114, 101, 47>>      \* "$share/"
IsShared(s) == Len(s) >= 7 /\ Take(s, 7) = SharePrefix
\* [MQTT-4.8.2-1], [MQTT-4.8.2-2]: $share/{ShareName}/{filter}
ValidSharedB(s) == LET l == SplitB(Drop(s, 7)) IN
                   /\ Len(l) >= 2 /\ Len(l[1]) >= 1 /\ ~HasB(l[1], PLUS) /\ ~HasB(l[1], HASH)
                   /\ ValidFilterB(Drop(s, 7 + Len(l[1]) + 1))
\* what SUBSCRIBE / UNSUBSCRIBE may carry under protocol version v
ValidSubFilter(s, v) == IF v = 5 /\ IsShared(s) THEN UTF8OK(s) /\ ValidSharedB(s) ELSE ValidFilterB(s)

(***************************************************************************)
(* 3. Properties (MQTT 5 section 2.2.2.2, table 2-4)                       *)
(***************************************************************************)
PropKind ==
  1 :> "byte" @@ 2 :> "u32" @@ 3 :> "str" @@ 8 :> "str" @@ 9 :> "bin" @@ 11 :> "vbi" @@
  17 :> "u32" @@ 18 :> "str" @@ 19 :> "u16" @@ 21 :> "str" @@ 22 :> "bin" @@ 23 :> "byte" @@
  24 :> "u32" @@ 25 :> "byte" @@ 26 :> "str" @@ 28 :> "str" @@ 31 :> "str" @@ 33 :> "u16" @@
  34 :> "u16" @@ 35 :> "u16" @@ 36 :> "byte" @@ 37 :> "byte" @@ 38 :> "pair" @@ 39 :> "u32" @@
  40 :> "byte" @@ 41 :> "byte" @@ 42 :> "byte"
PropIds == DOMAIN PropKind

AckCtx == {"PUBACK", "PUBREC", "PUBREL", "PUBCOMP", "SUBACK", "UNSUBACK"}
\* "Packet / Will Property" column of table 2-4 ("WILL" = Will Properties of CONNECT)
PropWhere ==
  1 :> {"PUBLISH", "WILL"} @@ 2 :> {"PUBLISH", "WILL"} @@ 3 :> {"PUBLISH", "WILL"} @@
  8 :> {"PUBLISH", "WILL"} @@ 9 :> {"PUBLISH", "WILL"} @@ 11 :> {"PUBLISH", "SUBSCRIBE"} @@
  17 :> {"CONNECT", "CONNACK", "DISCONNECT"} @@ 18 :> {"CONNACK"} @@ 19 :> {"CONNACK"} @@
  21 :> {"CONNECT", "CONNACK", "AUTH"} @@ 22 :> {"CONNECT", "CONNACK", "AUTH"} @@
  23 :> {"CONNECT"} @@ 24 :> {"WILL"} @@ 25 :> {"CONNECT"} @@ 26 :> {"CONNACK"} @@
  28 :> {"CONNACK", "DISCONNECT"} @@
  31 :> (AckCtx \cup {"CONNACK", "DISCONNECT", "AUTH"}) @@
  33 :> {"CONNECT", "CONNACK"} @@ 34 :> {"CONNECT", "CONNACK"} @@ 35 :> {"PUBLISH"} @@
  36 :> {"CONNACK"} @@ 37 :> {"CONNACK"} @@
  38 :> (AckCtx \cup {"CONNECT", "CONNACK", "PUBLISH", "WILL", "SUBSCRIBE", "UNSUBSCRIBE", "DISCONNECT", "AUTH"}) @@
  39 :> {"CONNECT", "CONNACK"} @@ 40 :> {"CONNACK"} @@ 41 :> {"CONNACK"} @@ 42 :> {"CONNACK"}
AllowedIds(ctx) == {i \in PropIds : ctx \in PropWhere[i]}
\* User Property may appear more than once everywhere; Subscription Identifier more than once in PUBLISH only
Multi(ctx, id) == id = 38 \/ (id = 11 /\ ctx = "PUBLISH")

\* a property value: [id, n, s, s2]; n for byte/u16/vbi, s for u32 (4 bytes)/str/bin/pair key, s2 pair value
P(id, n, s, s2) == [id |-> id, n |-> n, s |-> s, s2 |-> s2]

EncProp(pr) == LET k == PropKind[pr.id] IN
  <<pr.id>> \o (CASE k = "byte" -> <<pr.n>>
                  [] k = "u16"  -> U16(pr.n)
                  [] k = "u32"  -> pr.s
                  [] k = "vbi"  -> VBI(pr.n)
                  [] k = "str"  -> Str(pr.s)
                  [] k = "bin"  -> Bin(pr.s)
                  [] k = "pair" -> Str(pr.s) \o Str(pr.s2))
PropBody(ps) == Flat([i \in 1..Len(ps) |-> EncProp(ps[i])])
EncProps(ps) == LET b == PropBody(ps) IN VBI(Len(b)) \o b
EncPropsPad(ps) == LET b == PropBody(ps) IN VBIPad(Len(b)) \o b
PropSize(pr) == LET k == PropKind[pr.id] IN
  1 + (CASE k = "byte" -> 1 [] k = "u16" -> 2 [] k = "u32" -> 4 [] k = "vbi" -> VBILen(pr.n)
         [] k = "str" -> 2 + Len(pr.s) [] k = "bin" -> 2 + Len(pr.s) [] k = "pair" -> 4 + Len(pr.s) + Len(pr.s2))
PropsSize(ps) == LET n == SumSeq([i \in 1..Len(ps) |-> PropSize(ps[i])]) IN VBILen(n) + n

PropValOK(pr) == LET k == PropKind[pr.id] IN
  /\ k = "byte" => pr.n \in {0, 1}            \* 1,23,25,36,37,40,41,42: "It is a Protocol Error to ... a value other than 0 or 1"
  /\ pr.id \in {33, 35} => pr.n # 0           \* Receive Maximum 3.1.2.11.3 / 3.2.2.3.3, Topic Alias 3.3.2.3.4
  /\ pr.id = 39 => pr.s # <<0, 0, 0, 0>>      \* Maximum Packet Size 3.1.2.11.4
  /\ pr.id = 11 => pr.n \in 1..268435455      \* Subscription Identifier 3.8.2.1.2
  /\ k = "str" => UTF8OK(pr.s)
  /\ k = "pair" => (UTF8OK(pr.s) /\ UTF8OK(pr.s2))
  /\ pr.id = 8 => ValidNameB(pr.s)            \* Response Topic [MQTT-3.3.2-13], [MQTT-3.3.2-14]
HasProp(ps, id) == \E i \in 1..Len(ps) : ps[i].id = id
PropsOK(ctx, ps) ==
  /\ \A i \in 1..Len(ps) : ps[i].id \in AllowedIds(ctx) /\ PropValOK(ps[i])
  /\ \A i, j \in 1..Len(ps) : (i < j /\ ps[i].id = ps[j].id) => Multi(ctx, ps[i].id)
  /\ HasProp(ps, 22) => HasProp(ps, 21)       \* 3.1.2.11.10 Authentication Data without Authentication Method
\* the rule a rejected property list breaks (first that applies)
PropRule(ctx, ps) ==
  IF \E i \in 1..Len(ps) : ps[i].id \notin AllowedIds(ctx) THEN "prop_not_allowed"
  ELSE IF \E i \in 1..Len(ps) : ~PropValOK(ps[i]) THEN "prop_value"
  ELSE IF \E i, j \in 1..Len(ps) : i < j /\ ps[i].id = ps[j].id /\ ~Multi(ctx, ps[i].id) THEN "prop_dup"
  ELSE "authdata_without_method"

(***************************************************************************)
(* 4. Packet values and encoders (MQTT 3.1.1 / 5.0 chapter 3)              *)
(***************************************************************************)
TypeNo == "CONNECT" :> 1 @@ "CONNACK" :> 2 @@ "PUBLISH" :> 3 @@ "PUBACK" :> 4 @@ "PUBREC" :> 5 @@
          "PUBREL" :> 6 @@ "PUBCOMP" :> 7 @@ "SUBSCRIBE" :> 8 @@ "SUBACK" :> 9 @@ "UNSUBSCRIBE" :> 10 @@
          "UNSUBACK" :> 11 @@ "PINGREQ" :> 12 @@ "PINGRESP" :> 13 @@ "DISCONNECT" :> 14 @@ "AUTH" :> 15
TypeName == [n \in 1..15 |-> CHOOSE t \in DOMAIN TypeNo : TypeNo[t] = n]
PubAcks == {"PUBACK", "PUBREC", "PUBREL", "PUBCOMP"}

MkConnect(v, clean, ka, cid, will, wqos, wretain, wtopic, wmsg, wprops, uflag, user, pflag, pass, props) ==
  [t |-> "CONNECT", v |-> v, clean |-> clean, keepalive |-> ka, cid |-> cid, will |-> will, wqos |-> wqos,
   wretain |-> wretain, wtopic |-> wtopic, wmsg |-> wmsg, wprops |-> wprops, uflag |-> uflag, user |-> user,
   pflag |-> pflag, pass |-> pass, props |-> props]
MkConnack(v, sp, code, props) == [t |-> "CONNACK", v |-> v, sp |-> sp, code |-> code, props |-> props]
MkPublish(v, dup, qos, retain, topic, pid, props, payload) ==
  [t |-> "PUBLISH", v |-> v, dup |-> dup, qos |-> qos, retain |-> retain, topic |-> topic, pid |-> pid,
   props |-> props, payload |-> payload]
MkAck(t, v, pid, code, props) == [t |-> t, v |-> v, pid |-> pid, code |-> code, props |-> props]
MkTopic(f, qos, nl, rap, rh) == [f |-> f, qos |-> qos, nl |-> nl, rap |-> rap, rh |-> rh]
MkSubscribe(v, pid, props, topics) == [t |-> "SUBSCRIBE", v |-> v, pid |-> pid, props |-> props, topics |-> topics]
MkSuback(t, v, pid, props, codes) == [t |-> t, v |-> v, pid |-> pid, props |-> props, codes |-> codes]
MkUnsubscribe(v, pid, props, filters) == [t |-> "UNSUBSCRIBE", v |-> v, pid |-> pid, props |-> props, filters |-> filters]
MkPing(t, v) == [t |-> t, v |-> v]
MkCodeProps(t, v, code, props) == [t |-> t, v |-> v, code |-> code, props |-> props]

MQTT == <<77, 81, 84, 84>>
MQIsdp == <<77, 81, 73, 115, 100, 112>>
ProtoName(v) == IF v = 3 THEN MQIsdp ELSE MQTT

FlagsOf(p) == CASE p.t = "PUBLISH" -> B(p.dup) * 8 + p.qos * 2 + B(p.retain)
                [] p.t \in {"PUBREL", "SUBSCRIBE", "UNSUBSCRIBE"} -> 2
                [] OTHER -> 0

ConnFlags(p) == B(p.uflag) * 128 + B(p.pflag) * 64 + B(p.wretain) * 32 + p.wqos * 8 + B(p.will) * 4 + B(p.clean) * 2
ConnPayload(p, PE(_)) ==
  Str(p.cid)
  \o (IF p.will THEN (IF p.v = 5 THEN PE(p.wprops) ELSE <<>>) \o Str(p.wtopic) \o Bin(p.wmsg) ELSE <<>>)
  \o (IF p.uflag THEN Str(p.user) ELSE <<>>)
  \o (IF p.pflag THEN Bin(p.pass) ELSE <<>>)
\* 3.1.2 variable header with explicit name / level / flag byte (used by the fault operators too)
ConnBodyX(p, name, level, flags, PE(_)) ==
  Str(name) \o <<level, flags>> \o U16(p.keepalive) \o (IF p.v = 5 THEN PE(p.props) ELSE <<>>) \o ConnPayload(p, PE)

SubOpt(tp, v) == IF v = 5 THEN tp.qos + B(tp.nl) * 4 + B(tp.rap) * 8 + tp.rh * 16 ELSE tp.qos

\* "forms": MQTT 5 lets PUBACK/PUBREC/PUBREL/PUBCOMP/DISCONNECT omit reason code and property length
\* (3.4.2.1, 3.4.2.2.1, 3.14.2.1, 3.14.2.2.1) and AUTH omit both together (3.15.2.1)
FormsOf(p) ==
  IF p.v # 5 THEN {"full"}
  ELSE IF p.t \in PubAcks \cup {"DISCONNECT"} THEN
         {"full"} \cup (IF p.props = <<>> THEN {"mid"} ELSE {}) \cup (IF p.props = <<>> /\ p.code = 0 THEN {"short"} ELSE {})
  ELSE IF p.t = "AUTH" THEN {"full"} \cup (IF p.props = <<>> /\ p.code = 0 THEN {"short"} ELSE {})
  ELSE {"full"}
ShortestForm(p) == IF "short" \in FormsOf(p) THEN "short" ELSE IF "mid" \in FormsOf(p) THEN "mid" ELSE "full"

Body(p, form, PE(_)) ==
  LET v5 == p.v = 5
      PR == IF v5 THEN PE(p.props) ELSE <<>> IN
  CASE p.t = "CONNECT" -> ConnBodyX(p, ProtoName(p.v), p.v, ConnFlags(p), PE)
    [] p.t = "CONNACK" -> <<B(p.sp), p.code>> \o PR
    [] p.t = "PUBLISH" -> Str(p.topic) \o (IF p.qos > 0 THEN U16(p.pid) ELSE <<>>) \o PR \o p.payload
    [] p.t \in PubAcks -> U16(p.pid) \o (IF ~v5 \/ form = "short" THEN <<>> ELSE IF form = "mid" THEN <<p.code>> ELSE <<p.code>> \o PR)
    [] p.t = "SUBSCRIBE" -> U16(p.pid) \o PR \o Flat([i \in 1..Len(p.topics) |-> Str(p.topics[i].f) \o <<SubOpt(p.topics[i], p.v)>>])
    [] p.t = "SUBACK" -> U16(p.pid) \o PR \o p.codes
    [] p.t = "UNSUBSCRIBE" -> U16(p.pid) \o PR \o Flat([i \in 1..Len(p.filters) |-> Str(p.filters[i])])
    [] p.t = "UNSUBACK" -> U16(p.pid) \o PR \o (IF v5 THEN p.codes ELSE <<>>)
    [] p.t \in {"PINGREQ", "PINGRESP"} -> <<>>
    [] p.t \in {"DISCONNECT", "AUTH"} -> IF ~v5 \/ form = "short" THEN <<>> ELSE IF form = "mid" THEN <<p.code>> ELSE <<p.code>> \o PR

Hdr(ty, fl, body) == <<ty * 16 + fl>> \o VBI(Len(body)) \o body
EncForm(p, form) == Hdr(TypeNo[p.t], FlagsOf(p), Body(p, form, EncProps))
Enc(p) == EncForm(p, ShortestForm(p))

\* arithmetic size (never builds the byte sequence)
RemLen(p, form) ==
  LET v5 == p.v = 5
      PR == IF v5 THEN PropsSize(p.props) ELSE 0 IN
  CASE p.t = "CONNECT" ->
         2 + Len(ProtoName(p.v)) + 1 + 1 + 2 + PR + 2 + Len(p.cid)
         + (IF p.will THEN (IF v5 THEN PropsSize(p.wprops) ELSE 0) + 2 + Len(p.wtopic) + 2 + Len(p.wmsg) ELSE 0)
         + (IF p.uflag THEN 2 + Len(p.user) ELSE 0) + (IF p.pflag THEN 2 + Len(p.pass) ELSE 0)
    [] p.t = "CONNACK" -> 2 + PR
    [] p.t = "PUBLISH" -> 2 + Len(p.topic) + (IF p.qos > 0 THEN 2 ELSE 0) + PR + Len(p.payload)
    [] p.t \in PubAcks -> 2 + (IF ~v5 \/ form = "short" THEN 0 ELSE IF form = "mid" THEN 1 ELSE 1 + PR)
    [] p.t = "SUBSCRIBE" -> 2 + PR + SumSeq([i \in 1..Len(p.topics) |-> 3 + Len(p.topics[i].f)])
    [] p.t = "SUBACK" -> 2 + PR + Len(p.codes)
    [] p.t = "UNSUBSCRIBE" -> 2 + PR + SumSeq([i \in 1..Len(p.filters) |-> 2 + Len(p.filters[i])])
    [] p.t = "UNSUBACK" -> 2 + PR + (IF v5 THEN Len(p.codes) ELSE 0)
    [] p.t \in {"PINGREQ", "PINGRESP"} -> 0
    [] p.t \in {"DISCONNECT", "AUTH"} -> IF ~v5 \/ form = "short" THEN 0 ELSE IF form = "mid" THEN 1 ELSE 1 + PR
SizeForm(p, form) == LET r == RemLen(p, form) IN 1 + VBILen(r) + r
SizeFormula(p) == SizeForm(p, ShortestForm(p))

(***************************************************************************)
(* 5. Decoder / recogniser.  Readers return [ok, v, rest].                 *)
(***************************************************************************)
Bad == [ok |-> FALSE, v |-> 0, rest |-> <<>>]
OkR(v, rest) == [ok |-> TRUE, v |-> v, rest |-> rest]
RdU8(b) == IF Len(b) >= 1 THEN OkR(b[1], Drop(b, 1)) ELSE Bad
RdU16(b) == IF Len(b) >= 2 THEN OkR(b[1] * 256 + b[2], Drop(b, 2)) ELSE Bad
RdU32(b) == IF Len(b) >= 4 THEN OkR(Take(b, 4), Drop(b, 4)) ELSE Bad
\* Variable Byte Integer, at most four bytes (2.2.3 / 1.5.5); canon = minimum number of bytes used
RdVBIx(b) ==
  LET n == Len(b) IN
  IF n >= 1 /\ b[1] < 128 THEN [ok |-> TRUE, v |-> b[1], rest |-> Drop(b, 1), canon |-> TRUE]
  ELSE IF n >= 2 /\ b[2] < 128 THEN
     [ok |-> TRUE, v |-> (b[1] - 128) + 128 * b[2], rest |-> Drop(b, 2), canon |-> b[2] # 0]
  ELSE IF n >= 3 /\ b[3] < 128 THEN
     [ok |-> TRUE, v |-> (b[1] - 128) + 128 * (b[2] - 128) + 16384 * b[3], rest |-> Drop(b, 3), canon |-> b[3] # 0]
  ELSE IF n >= 4 /\ b[4] < 128 THEN
     [ok |-> TRUE, v |-> (b[1] - 128) + 128 * (b[2] - 128) + 16384 * (b[3] - 128) + 2097152 * b[4],
      rest |-> Drop(b, 4), canon |-> b[4] # 0]
  ELSE [ok |-> FALSE, v |-> 0, rest |-> <<>>, canon |-> FALSE]
\* MQTT 5: [MQTT-1.5.5-1] the encoded value MUST use the minimum number of bytes
RdVBI5(b) == LET r == RdVBIx(b) IN IF r.ok /\ r.canon THEN OkR(r.v, r.rest) ELSE Bad
RdBin(b) == LET l == RdU16(b) IN
            IF l.ok /\ Len(l.rest) >= l.v THEN OkR(Take(l.rest, l.v), Drop(l.rest, l.v)) ELSE Bad
RdStr(b) == LET r == RdBin(b) IN IF r.ok /\ UTF8OK(r.v) THEN r ELSE Bad

RdPropVal(b, id) == LET k == PropKind[id] IN
  CASE k = "byte" -> (LET r == RdU8(b) IN IF r.ok THEN OkR(P(id, r.v, <<>>, <<>>), r.rest) ELSE Bad)
    [] k = "u16"  -> (LET r == RdU16(b) IN IF r.ok THEN OkR(P(id, r.v, <<>>, <<>>), r.rest) ELSE Bad)
    [] k = "u32"  -> (LET r == RdU32(b) IN IF r.ok THEN OkR(P(id, 0, r.v, <<>>), r.rest) ELSE Bad)
    [] k = "vbi"  -> (LET r == RdVBI5(b) IN IF r.ok THEN OkR(P(id, r.v, <<>>, <<>>), r.rest) ELSE Bad)
    [] k = "str"  -> (LET r == RdStr(b) IN IF r.ok THEN OkR(P(id, 0, r.v, <<>>), r.rest) ELSE Bad)
    [] k = "bin"  -> (LET r == RdBin(b) IN IF r.ok THEN OkR(P(id, 0, r.v, <<>>), r.rest) ELSE Bad)
    [] k = "pair" -> (LET r == RdStr(b) IN IF ~r.ok THEN Bad ELSE
                      LET q == RdStr(r.rest) IN IF q.ok THEN OkR(P(id, 0, r.v, q.v), q.rest) ELSE Bad)
RECURSIVE RdPropList(_)
RdPropList(b) ==
  IF b = <<>> THEN OkR(<<>>, <<>>)
  ELSE IF b[1] \notin PropIds THEN Bad
  ELSE LET r == RdPropVal(Tail(b), b[1]) IN
       IF ~r.ok THEN Bad ELSE
       LET t == RdPropList(r.rest) IN IF t.ok THEN OkR(<<r.v>> \o t.v, <<>>) ELSE Bad
\* Property Length + properties; an absent Property Length is NOT accepted here (callers handle the forms)
RdProps(b, ctx) ==
  LET l == RdVBI5(b) IN
  IF ~l.ok \/ Len(l.rest) < l.v THEN Bad ELSE
  LET ps == RdPropList(Take(l.rest, l.v)) IN
  IF ps.ok /\ PropsOK(ctx, ps.v) THEN OkR(ps.v, Drop(l.rest, l.v)) ELSE Bad

RejP == [ok |-> FALSE, p |-> <<>>]
AccP(p) == [ok |-> TRUE, p |-> p]

DecConnect(fl, body, rlcanon) ==
  LET nm == RdBin(body) IN
  IF fl # 0 \/ ~nm.ok \/ Len(nm.rest) < 4 THEN RejP ELSE
  LET lv == nm.rest[1]
      cf == nm.rest[2]
      ka == nm.rest[3] * 256 + nm.rest[4]
      r0 == Drop(nm.rest, 4)
      clean == (cf \div 2) % 2 = 1
      will == (cf \div 4) % 2 = 1
      wqos == (cf \div 8) % 4
      wret == (cf \div 32) % 2 = 1
      pf == (cf \div 64) % 2 = 1
      uf == cf \div 128 = 1 IN
  IF lv \notin {3, 4, 5} THEN RejP                                       \* [MQTT-3.1.2-2]
  ELSE IF nm.v # ProtoName(lv) THEN RejP                                 \* [MQTT-3.1.2-1]
  ELSE IF cf % 2 = 1 THEN RejP                                           \* [MQTT-3.1.2-3]
  ELSE IF wqos = 3 \/ (~will /\ (wqos # 0 \/ wret)) THEN RejP            \* 3.1.1: [MQTT-3.1.2-13..15]  5: [MQTT-3.1.2-11..13]
  ELSE IF lv \in {3, 4} /\ pf /\ ~uf THEN RejP                           \* 3.1.1: [MQTT-3.1.2-22]
  ELSE IF lv = 5 /\ ~rlcanon THEN RejP ELSE
  LET pr == IF lv = 5 THEN RdProps(r0, "CONNECT") ELSE OkR(<<>>, r0) IN IF ~pr.ok THEN RejP ELSE
  LET ci == RdStr(pr.rest) IN IF ~ci.ok THEN RejP ELSE
  LET wp == IF will /\ lv = 5 THEN RdProps(ci.rest, "WILL") ELSE OkR(<<>>, ci.rest) IN IF ~wp.ok THEN RejP ELSE
  LET wt == IF will THEN RdStr(wp.rest) ELSE OkR(<<>>, wp.rest) IN IF ~wt.ok THEN RejP ELSE
  LET wm == IF will THEN RdBin(wt.rest) ELSE OkR(<<>>, wt.rest) IN IF ~wm.ok THEN RejP ELSE
  LET us == IF uf THEN RdStr(wm.rest) ELSE OkR(<<>>, wm.rest) IN IF ~us.ok THEN RejP ELSE
  LET pw == IF pf THEN RdBin(us.rest) ELSE OkR(<<>>, us.rest) IN IF ~pw.ok THEN RejP ELSE
  IF pw.rest # <<>> THEN RejP
  \* 3.1.1 [MQTT-3.1.3-7/8]: empty client id with CleanSession 0 is answered with CONNACK 0x02; never generated
  ELSE IF lv \in {3, 4} /\ ci.v = <<>> /\ ~clean THEN RejP
  ELSE AccP(MkConnect(lv, clean, ka, ci.v, will, wqos, wret, wt.v, wm.v, wp.v, uf, us.v, pf, pw.v, pr.v))

DecConnack(fl, body, ver) ==
  IF fl # 0 \/ Len(body) < 2 \/ body[1] > 1 THEN RejP ELSE               \* [MQTT-3.2.2-1]
  LET pr == IF ver = 5 THEN RdProps(Drop(body, 2), "CONNACK") ELSE OkR(<<>>, Drop(body, 2)) IN
  IF ~pr.ok \/ pr.rest # <<>> THEN RejP ELSE AccP(MkConnack(ver, body[1] = 1, body[2], pr.v))

DecPublish(fl, body, ver) ==
  LET dup == fl \div 8
      qos == (fl \div 2) % 4
      tn == RdStr(body) IN
  IF qos = 3 \/ (qos = 0 /\ dup = 1) \/ ~tn.ok THEN RejP ELSE            \* [MQTT-3.3.1-4], [MQTT-3.3.1-2]
  LET pi == IF qos > 0 THEN RdU16(tn.rest) ELSE OkR(0, tn.rest) IN
  IF ~pi.ok \/ (qos > 0 /\ pi.v = 0) THEN RejP ELSE                      \* [MQTT-2.3.1-1] / [MQTT-2.2.1-3]
  LET pr == IF ver = 5 THEN RdProps(pi.rest, "PUBLISH") ELSE OkR(<<>>, pi.rest) IN
  IF ~pr.ok THEN RejP
  \* [MQTT-3.3.2-1], [MQTT-3.3.2-2], [MQTT-4.7.3-1]; 5.0 3.3.2.1: zero length only together with a Topic Alias
  ELSE IF ~(ValidNameB(tn.v) \/ (ver = 5 /\ tn.v = <<>> /\ HasProp(pr.v, 35))) THEN RejP
  ELSE AccP(MkPublish(ver, dup = 1, qos, fl % 2 = 1, tn.v, pi.v, pr.v, pr.rest))

\* code + properties with the omission rules; minfull = Remaining Length from which a Property Length is present
DecCodeProps(rest, ctx, allowMid) ==
  IF rest = <<>> THEN [ok |-> TRUE, code |-> 0, props |-> <<>>]
  ELSE IF Len(rest) = 1 THEN (IF allowMid THEN [ok |-> TRUE, code |-> rest[1], props |-> <<>>] ELSE [ok |-> FALSE, code |-> 0, props |-> <<>>])
  ELSE LET pr == RdProps(Tail(rest), ctx) IN
       IF pr.ok /\ pr.rest = <<>> THEN [ok |-> TRUE, code |-> rest[1], props |-> pr.v] ELSE [ok |-> FALSE, code |-> 0, props |-> <<>>]

DecPubAck(t, fl, body, ver) ==
  LET pi == RdU16(body) IN
  IF fl # (IF t = "PUBREL" THEN 2 ELSE 0) \/ ~pi.ok THEN RejP            \* [MQTT-2.2.2-2] / [MQTT-2.1.3-1], [MQTT-3.6.1-1]
  ELSE IF ver # 5 THEN (IF pi.rest = <<>> THEN AccP(MkAck(t, ver, pi.v, 0, <<>>)) ELSE RejP)
  ELSE LET cp == DecCodeProps(pi.rest, t, TRUE) IN
       IF cp.ok THEN AccP(MkAck(t, ver, pi.v, cp.code, cp.props)) ELSE RejP

RECURSIVE RdTopics(_, _)
RdTopics(b, ver) ==
  IF b = <<>> THEN OkR(<<>>, <<>>) ELSE
  LET f == RdStr(b) IN
  IF ~f.ok \/ f.rest = <<>> \/ ~ValidSubFilter(f.v, ver) THEN Bad ELSE
  LET o == f.rest[1]
      qos == o % 4
      nl == (o \div 4) % 2 = 1
      rap == (o \div 8) % 2 = 1
      rh == (o \div 16) % 4 IN
  IF qos = 3 THEN Bad                                                    \* [MQTT-3.8.3-4] (3.1.1) / 3.8.3.1 (5)
  ELSE IF ver # 5 /\ o > 2 THEN Bad                                      \* 3.1.1 [MQTT-3-8.3-4]: upper 6 bits reserved
  ELSE IF ver = 5 /\ (o >= 64 \/ rh = 3) THEN Bad                        \* [MQTT-3.8.3-5]; Retain Handling 3 is a Protocol Error
  ELSE IF ver = 5 /\ nl /\ IsShared(f.v) THEN Bad                        \* [MQTT-3.8.3-4] (5): No Local on a Shared Subscription
  ELSE LET t == RdTopics(Tail(f.rest), ver) IN
       IF t.ok THEN OkR(<<MkTopic(f.v, qos, nl, rap, rh)>> \o t.v, <<>>) ELSE Bad
DecSubscribe(fl, body, ver) ==
  LET pi == RdU16(body) IN
  IF fl # 2 \/ ~pi.ok \/ pi.v = 0 THEN RejP ELSE                         \* [MQTT-3.8.1-1], [MQTT-2.3.1-1] / [MQTT-2.2.1-3]
  LET pr == IF ver = 5 THEN RdProps(pi.rest, "SUBSCRIBE") ELSE OkR(<<>>, pi.rest) IN
  IF ~pr.ok \/ pr.rest = <<>> THEN RejP ELSE                             \* [MQTT-3.8.3-3] (3.1.1) / [MQTT-3.8.3-2] (5)
  LET ts == RdTopics(pr.rest, ver) IN
  IF ts.ok THEN AccP(MkSubscribe(ver, pi.v, pr.v, ts.v)) ELSE RejP

RECURSIVE RdFilters(_, _)
RdFilters(b, ver) ==
  IF b = <<>> THEN OkR(<<>>, <<>>) ELSE
  LET f == RdStr(b) IN
  IF ~f.ok \/ ~ValidSubFilter(f.v, ver) THEN Bad ELSE
  LET t == RdFilters(f.rest, ver) IN IF t.ok THEN OkR(<<f.v>> \o t.v, <<>>) ELSE Bad
DecUnsubscribe(fl, body, ver) ==
  LET pi == RdU16(body) IN
  IF fl # 2 \/ ~pi.ok \/ pi.v = 0 THEN RejP ELSE                         \* [MQTT-3.10.1-1]
  LET pr == IF ver = 5 THEN RdProps(pi.rest, "UNSUBSCRIBE") ELSE OkR(<<>>, pi.rest) IN
  IF ~pr.ok \/ pr.rest = <<>> THEN RejP ELSE                             \* [MQTT-3.10.3-2]
  LET ts == RdFilters(pr.rest, ver) IN
  IF ts.ok THEN AccP(MkUnsubscribe(ver, pi.v, pr.v, ts.v)) ELSE RejP

DecSubUnsubAck(t, fl, body, ver) ==
  LET pi == RdU16(body) IN
  IF fl # 0 \/ ~pi.ok THEN RejP
  ELSE IF ver # 5 /\ t = "UNSUBACK" THEN (IF pi.rest = <<>> THEN AccP(MkSuback(t, ver, pi.v, <<>>, <<>>)) ELSE RejP)
  ELSE LET pr == IF ver = 5 THEN RdProps(pi.rest, t) ELSE OkR(<<>>, pi.rest) IN
       IF ~pr.ok \/ pr.rest = <<>> THEN RejP ELSE AccP(MkSuback(t, ver, pi.v, pr.v, pr.rest))

DecDisconnect(fl, body, ver) ==
  IF fl # 0 THEN RejP
  ELSE IF ver # 5 THEN (IF body = <<>> THEN AccP(MkCodeProps("DISCONNECT", ver, 0, <<>>)) ELSE RejP)
  ELSE LET cp == DecCodeProps(body, "DISCONNECT", TRUE) IN
       IF cp.ok THEN AccP(MkCodeProps("DISCONNECT", ver, cp.code, cp.props)) ELSE RejP
DecAuth(fl, body, ver) ==
  IF fl # 0 \/ ver # 5 THEN RejP                                         \* type 15 is reserved before MQTT 5
  ELSE LET cp == DecCodeProps(body, "AUTH", FALSE) IN
       IF cp.ok THEN AccP(MkCodeProps("AUTH", ver, cp.code, cp.props)) ELSE RejP

\* Dec(b, ver): b is everything the stream still holds; ver is the version of the connection (ignored by CONNECT).
\* Result [ok, p, used]; the stream ending inside the packet is a rejection.
Rej == [ok |-> FALSE, p |-> <<>>, used |-> 0]
Dec(b, ver) ==
  IF Len(b) < 2 THEN Rej ELSE
  LET ty == b[1] \div 16
      fl == b[1] % 16
      l == RdVBIx(Tail(b)) IN
  IF ty = 0 \/ ~l.ok \/ Len(l.rest) < l.v THEN Rej
  ELSE IF ty # 1 /\ ver = 5 /\ ~l.canon THEN Rej ELSE
  LET body == Take(l.rest, l.v)
      t == TypeName[ty]
      r == CASE t = "CONNECT" -> DecConnect(fl, body, l.canon)
             [] t = "CONNACK" -> DecConnack(fl, body, ver)
             [] t = "PUBLISH" -> DecPublish(fl, body, ver)
             [] t \in PubAcks -> DecPubAck(t, fl, body, ver)
             [] t = "SUBSCRIBE" -> DecSubscribe(fl, body, ver)
             [] t = "UNSUBSCRIBE" -> DecUnsubscribe(fl, body, ver)
             [] t \in {"SUBACK", "UNSUBACK"} -> DecSubUnsubAck(t, fl, body, ver)
             [] t \in {"PINGREQ", "PINGRESP"} -> (IF fl = 0 /\ body = <<>> THEN AccP(MkPing(t, ver)) ELSE RejP)
             [] t = "DISCONNECT" -> DecDisconnect(fl, body, ver)
             [] t = "AUTH" -> DecAuth(fl, body, ver) IN
  IF r.ok THEN [ok |-> TRUE, p |-> r.p, used |-> Len(b) - Len(l.rest) + l.v] ELSE Rej

(***************************************************************************)
(* 6. Enumeration of packet values over boundary domains                   *)
(*    Vals(t, v) = cartesian product over the small domains S              *)
(*                 + every single-field deviation of a base value over D   *)
(***************************************************************************)
Names(Dm) == {s \in Dm.str : ValidNameB(s)}
Filters(Dm, v) == {s \in Dm.filt : ValidSubFilter(s, v)}
NZ(ns) == ns \ {0}

\* candidate values of one property; bad = TRUE adds values that break a value rule
PropVals(id, Dm, bad) == LET k == PropKind[id] IN
  CASE k = "byte" -> {P(id, n, <<>>, <<>>) : n \in (IF bad THEN {0, 1, 2, 255} ELSE {0, 1})}
    [] k = "u16"  -> {P(id, n, <<>>, <<>>) : n \in Dm.u16}
    [] k = "u32"  -> {P(id, 0, s, <<>>) : s \in Dm.u32}
    [] k = "vbi"  -> {P(id, n, <<>>, <<>>) : n \in (IF bad THEN Dm.vbi \cup {0} ELSE Dm.vbi)}
    [] k = "str"  -> {P(id, 0, s, <<>>) : s \in (IF bad THEN Dm.str \cup Dm.badstr \cup {<<PLUS>>, <<97, SLASH, HASH>>} ELSE Dm.str)}
    [] k = "bin"  -> {P(id, 0, s, <<>>) : s \in Dm.bin}
    [] k = "pair" -> {P(id, 0, a, b) : a \in Dm.str, b \in Dm.str}
                     \cup (IF bad THEN {P(id, 0, a, <<97>>) : a \in Dm.badstr} \cup {P(id, 0, <<97>>, a) : a \in Dm.badstr} ELSE {})
\* every property identifier singly (allowed or not, good or bad value), ordered pairs of allowed ones
CandProps(ctx) ==
  {<<>>}
  \cup {<<a>> : a \in UNION {PropVals(i, D, TRUE) : i \in PropIds}}
  \cup {<<a, b>> : a \in UNION {PropVals(i, S, FALSE) : i \in AllowedIds(ctx)},
                   b \in UNION {PropVals(i, S, FALSE) : i \in AllowedIds(ctx)}}
GoodProps(ctx) == {ps \in CandProps(ctx) : PropsOK(ctx, ps)}
BadProps(ctx) == {ps \in CandProps(ctx) : ~PropsOK(ctx, ps)}
SmallProps(ctx) == {<<>>} \cup {ps \in {<<a>> : a \in UNION {PropVals(i, S, FALSE) : i \in AllowedIds(ctx) \cap PropSel}} : PropsOK(ctx, ps)}
PropsFor(ctx, v, set) == IF v = 5 THEN set ELSE {<<>>}

Codes(t, v) ==
  CASE t = "CONNACK" -> IF v = 5 THEN {0, 128, 135, 159} ELSE {0, 1, 5}
    [] t \in {"PUBACK", "PUBREC"} -> IF v = 5 THEN {0, 16, 128, 151} ELSE {0}
    [] t \in {"PUBREL", "PUBCOMP"} -> IF v = 5 THEN {0, 146} ELSE {0}
    [] t = "SUBACK" -> IF v = 5 THEN {0, 1, 2, 128, 143, 158} ELSE {0, 1, 2, 128}
    [] t = "UNSUBACK" -> {0, 17, 128}
    [] t = "DISCONNECT" -> IF v = 5 THEN {0, 4, 128, 142, 152} ELSE {0}
    [] t = "AUTH" -> {0, 24, 25}

NoWill == [will |-> FALSE, wqos |-> 0, wretain |-> FALSE, wtopic |-> <<>>, wmsg |-> <<>>, wprops |-> <<>>]
WillBlocks(v, Dm, wps) ==
  {NoWill} \cup {[will |-> TRUE, wqos |-> q, wretain |-> r, wtopic |-> tp, wmsg |-> m, wprops |-> wp] :
                 q \in 0..2, r \in BOOLEAN, tp \in Names(Dm), m \in Dm.bin, wp \in PropsFor("WILL", v, wps)}
OptField(set) == {[flag |-> FALSE, s |-> <<>>]} \cup {[flag |-> TRUE, s |-> x] : x \in set}
ConnW(v, c, ka, cid, w, u, pw, pr) ==
  MkConnect(v, c, ka, cid, w.will, w.wqos, w.wretain, w.wtopic, w.wmsg, w.wprops, u.flag, u.s, pw.flag, pw.s, pr)
ConnOK(p) == ~(p.v < 5 /\ p.cid = <<>> /\ ~p.clean) /\ ~(p.v < 5 /\ p.pflag /\ ~p.uflag)
RichWill(v) == [will |-> TRUE, wqos |-> 1, wretain |-> TRUE, wtopic |-> <<97, SLASH, 98>>, wmsg |-> <<1>>,
                wprops |-> IF v = 5 THEN <<P(24, 0, <<0, 0, 0, 5>>, <<>>)>> ELSE <<>>]
Some(x) == [flag |-> TRUE, s |-> x]
None == [flag |-> FALSE, s |-> <<>>]
BaseConnect(v) == ConnW(v, TRUE, 60, <<97>>, NoWill, None, None, <<>>)
RichConnect(v) == ConnW(v, FALSE, 60, <<97>>, RichWill(v), Some(<<117>>), Some(<<112>>),
                        IF v = 5 THEN <<P(17, 0, <<0, 0, 0, 10>>, <<>>)>> ELSE <<>>)

ValsConnect(v) ==
  LET cart == {ConnW(v, c, ka, cid, w, u, pw, pr) :
                 c \in BOOLEAN, ka \in S.u16, cid \in S.str, w \in WillBlocks(v, S, SmallProps("WILL")),
                 u \in OptField(S.str), pw \in OptField(S.bin), pr \in PropsFor("CONNECT", v, SmallProps("CONNECT"))}
      dev == {BaseConnect(v), RichConnect(v)}
             \cup {ConnW(v, c, 60, <<97>>, NoWill, None, None, <<>>) : c \in BOOLEAN}
             \cup {ConnW(v, TRUE, ka, <<97>>, NoWill, None, None, <<>>) : ka \in D.u16}
             \cup {ConnW(v, TRUE, 60, cid, NoWill, None, None, <<>>) : cid \in D.str}
             \cup {ConnW(v, TRUE, 60, <<97>>, w, None, None, <<>>) : w \in WillBlocks(v, [D EXCEPT !.bin = {<<1>>}], {<<>>})}
             \cup {ConnW(v, TRUE, 60, <<97>>, [RichWill(v) EXCEPT !.wmsg = m], None, None, <<>>) : m \in D.bin \cup D.pay}
             \cup {ConnW(v, TRUE, 60, <<97>>, [RichWill(v) EXCEPT !.wprops = wp], None, None, <<>>) : wp \in PropsFor("WILL", v, GoodProps("WILL"))}
             \cup {ConnW(v, TRUE, 60, <<97>>, NoWill, Some(u), None, <<>>) : u \in D.str}
             \cup {ConnW(v, TRUE, 60, <<97>>, NoWill, Some(<<117>>), Some(pw), <<>>) : pw \in D.bin}
             \cup {ConnW(v, TRUE, 60, <<97>>, NoWill, None, Some(pw), <<>>) : pw \in D.bin}
             \cup {ConnW(v, TRUE, 60, <<97>>, NoWill, None, None, pr) : pr \in PropsFor("CONNECT", v, GoodProps("CONNECT"))}
  IN {p \in cart \cup dev : ConnOK(p)}

ValsConnack(v) ==
  {MkConnack(v, sp, c, pr) : sp \in BOOLEAN, c \in Codes("CONNACK", v), pr \in PropsFor("CONNACK", v, SmallProps("CONNACK"))}
  \cup {MkConnack(v, FALSE, 0, pr) : pr \in PropsFor("CONNACK", v, GoodProps("CONNACK"))}

PubOK(p) == ~(p.dup /\ p.qos = 0) /\ (p.qos = 0 <=> p.pid = 0)
            /\ (p.topic = <<>> => (p.v = 5 /\ HasProp(p.props, 35)))
BasePublish(v, n) == MkPublish(v, FALSE, 0, FALSE, <<97>>, 0, <<>>, Rep(n, 97))
ValsPublish(v) ==
  LET cart == {MkPublish(v, d, q, r, tp, IF q = 0 THEN 0 ELSE pid, pr, pl) :
                 d \in BOOLEAN, q \in 0..2, r \in BOOLEAN, tp \in Names(S), pid \in NZ(S.u16),
                 pr \in PropsFor("PUBLISH", v, SmallProps("PUBLISH")), pl \in S.pay}
      dev == {MkPublish(v, FALSE, 1, FALSE, tp, 1, <<>>, <<1>>) : tp \in Names(D)}
             \cup {MkPublish(v, FALSE, q, FALSE, <<97>>, pid, <<>>, <<1>>) : q \in 1..2, pid \in NZ(D.u16)}
             \cup {MkPublish(v, FALSE, 0, FALSE, <<97>>, 0, <<>>, pl) : pl \in D.pay}
             \cup {BasePublish(v, n) : n \in D.big}
             \cup {MkPublish(v, FALSE, 1, TRUE, <<97>>, 1, pr, <<1>>) : pr \in PropsFor("PUBLISH", v, GoodProps("PUBLISH"))}
             \* zero-length topic name together with a Topic Alias (5.0 only)
             \cup (IF v = 5 THEN {MkPublish(5, FALSE, 0, FALSE, <<>>, 0, <<P(35, n, <<>>, <<>>)>>, <<1>>) : n \in NZ(D.u16)} ELSE {})
  IN {p \in cart \cup dev : PubOK(p)}

ValsPubAck(t, v) ==
  {MkAck(t, v, pid, c, pr) : pid \in NZ(S.u16), c \in Codes(t, v), pr \in PropsFor(t, v, SmallProps(t))}
  \cup {MkAck(t, v, pid, 0, <<>>) : pid \in NZ(D.u16)}
  \cup {MkAck(t, v, 1, c, pr) : c \in Codes(t, v), pr \in PropsFor(t, v, GoodProps(t))}

TopicOpts(v) == IF v = 5 THEN {[qos |-> q, nl |-> n, rap |-> r, rh |-> h] : q \in 0..2, n \in BOOLEAN, r \in BOOLEAN, h \in 0..2}
                ELSE {[qos |-> q, nl |-> FALSE, rap |-> FALSE, rh |-> 0] : q \in 0..2}
TopicOK(tp, v) == ~(v = 5 /\ tp.nl /\ IsShared(tp.f))
TopicSet(Dm, v) == {tp \in {MkTopic(f, o.qos, o.nl, o.rap, o.rh) : f \in Filters(Dm, v), o \in TopicOpts(v)} : TopicOK(tp, v)}
SmallTopicSet(v) == {tp \in {MkTopic(f, q, q = 1, q = 2, IF v = 5 THEN 2 - q ELSE 0) : f \in Filters(S, v), q \in 0..2} :
                     (v = 5 \/ (~tp.nl /\ ~tp.rap)) /\ TopicOK(tp, v)}
ValsSubscribe(v) ==
  {MkSubscribe(v, 1, <<>>, <<tp>>) : tp \in TopicSet(D, v)}
  \cup {MkSubscribe(v, pid, pr, <<a, b>>) : pid \in NZ(S.u16), pr \in PropsFor("SUBSCRIBE", v, SmallProps("SUBSCRIBE")),
                                          a \in SmallTopicSet(v), b \in SmallTopicSet(v)}
  \cup {MkSubscribe(v, pid, <<>>, <<MkTopic(<<97>>, 1, FALSE, FALSE, 0)>>) : pid \in NZ(D.u16)}
  \cup {MkSubscribe(v, 1, pr, <<MkTopic(<<97>>, 1, FALSE, FALSE, 0)>>) : pr \in PropsFor("SUBSCRIBE", v, GoodProps("SUBSCRIBE"))}

ValsUnsubscribe(v) ==
  {MkUnsubscribe(v, 1, <<>>, <<f>>) : f \in Filters(D, v)}
  \cup {MkUnsubscribe(v, pid, pr, <<a, b>>) : pid \in NZ(S.u16), pr \in PropsFor("UNSUBSCRIBE", v, SmallProps("UNSUBSCRIBE")),
                                            a \in Filters(S, v), b \in Filters(S, v)}
  \cup {MkUnsubscribe(v, pid, <<>>, <<<<97>>>>) : pid \in NZ(D.u16)}
  \cup {MkUnsubscribe(v, 1, pr, <<<<97>>>>) : pr \in PropsFor("UNSUBSCRIBE", v, GoodProps("UNSUBSCRIBE"))}

CodeSeqs(t, v) == {<<c>> : c \in Codes(t, v)} \cup {<<a, b>> : a \in Codes(t, v), b \in Codes(t, v)}
ValsSubUnsubAck(t, v) ==
  IF t = "UNSUBACK" /\ v # 5 THEN {MkSuback(t, v, pid, <<>>, <<>>) : pid \in NZ(D.u16)}
  ELSE {MkSuback(t, v, pid, pr, cs) : pid \in NZ(S.u16), pr \in PropsFor(t, v, SmallProps(t)), cs \in CodeSeqs(t, v)}
       \cup {MkSuback(t, v, pid, <<>>, <<0>>) : pid \in NZ(D.u16)}
       \cup {MkSuback(t, v, 1, pr, <<0>>) : pr \in PropsFor(t, v, GoodProps(t))}

ValsCodeProps(t, v) ==
  IF v # 5 THEN {MkCodeProps(t, v, 0, <<>>)}
  ELSE {MkCodeProps(t, v, c, pr) : c \in Codes(t, v), pr \in GoodProps(t)}

VersOf(t) == IF t = "AUTH" THEN Vers \cap {5} ELSE Vers
Vals(t, v) ==
  CASE t = "CONNECT" -> ValsConnect(v)
    [] t = "CONNACK" -> ValsConnack(v)
    [] t = "PUBLISH" -> ValsPublish(v)
    [] t \in PubAcks -> ValsPubAck(t, v)
    [] t = "SUBSCRIBE" -> ValsSubscribe(v)
    [] t = "UNSUBSCRIBE" -> ValsUnsubscribe(v)
    [] t \in {"SUBACK", "UNSUBACK"} -> ValsSubUnsubAck(t, v)
    [] t \in {"PINGREQ", "PINGRESP"} -> {MkPing(t, v)}
    [] t \in {"DISCONNECT", "AUTH"} -> ValsCodeProps(t, v)

(***************************************************************************)
(* 7. Fault operators: each output breaks one rule of the specification.   *)
(*    A fault vector is [name, rule, v, bytes, eof]; eof = the stream ends  *)
(*    after the bytes (otherwise guard bytes follow).                       *)
(***************************************************************************)
F(name, rule, v, bytes) == [name |-> name, rule |-> rule, v |-> v, bytes |-> bytes, eof |-> FALSE]
FE(name, rule, v, bytes) == [name |-> name, rule |-> rule, v |-> v, bytes |-> bytes, eof |-> TRUE]
R(v, r311, r5) == IF v = 5 THEN r5 ELSE r311
HasProps(p) == p.v = 5 /\ p.t \notin {"PINGREQ", "PINGRESP"}
PropRuleText(name) ==
  CASE name = "prop_not_allowed" -> "MQTT5 2.2.2.2 table 2-4: property not defined for this packet type (Malformed Packet, 4.13)"
    [] name = "prop_value" -> "MQTT5 2.2.2.2/3.x.2.x: property value outside its defined range (Protocol Error) or not a well-formed UTF-8 string [MQTT-1.5.4-1/2]"
    [] name = "prop_dup" -> "MQTT5 3.x.2.x: 'It is a Protocol Error to include the ... more than once'"
    [] OTHER -> "MQTT5 3.1.2.11.10 / 3.15.2.2.3: Authentication Data without Authentication Method is a Protocol Error"

\* faults that only look at the framing of an encoded packet: cuts ...
TruncFaults(p) ==
  LET v == p.v
      e == Enc(p)
      ty == TypeNo[p.t]
      fl == FlagsOf(p)
      body == Body(p, ShortestForm(p), EncProps)
      full == Body(p, "full", EncProps) IN
  {FE("trunc_stream", "2.2.3/2.1.4 Remaining Length = number of bytes that follow; the stream ends before", v, Take(e, k)) : k \in 0..(Len(e) - 1)}
  \cup {F("trunc_body", "packet structure cut short inside the declared Remaining Length (Malformed Packet)", v, Hdr(ty, fl, Take(body, k))) : k \in 0..(Len(body) - 1)}
  \cup (IF p.t = "PUBLISH" \/ (p.t = "SUBACK") \/ (p.t = "UNSUBACK" /\ v = 5) THEN {}
        ELSE {F("trailing", "bytes left over inside the Remaining Length after the last field (Malformed Packet)", v, Hdr(ty, fl, full \o <<0>>))})
  \cup (IF HasProps(p) THEN {F("proplen_noncanon", "[MQTT-1.5.5-1] Property Length must use the minimum number of bytes", v, Hdr(ty, fl, Body(p, "full", EncPropsPad)))} ELSE {})
\* ... and fixed-header faults
FrameFaults(p) ==
  LET v == p.v
      e == Enc(p)
      ty == TypeNo[p.t]
      fl == FlagsOf(p)
      h == ty * 16 + fl
      body == Body(p, ShortestForm(p), EncProps) IN
  (IF p.t # "PUBLISH"
        THEN {F("hdr_flags", R(v, "[MQTT-2.2.2-2] reserved fixed-header flags", "[MQTT-2.1.3-1] reserved fixed-header flags"), v, Hdr(ty, x, body)) : x \in (0..15) \ {fl}}
        ELSE {F("publish_qos3", "[MQTT-3.3.1-4] both QoS bits set", v, Hdr(ty, x, body)) : x \in {6, 7, 14, 15}}
             \cup {F("publish_dup_qos0", "[MQTT-3.3.1-2] DUP must be 0 for QoS 0", v, Hdr(ty, x, Body([p EXCEPT !.qos = 0, !.pid = 0], "full", EncProps))) : x \in {8, 9}})
  \cup {F("rl_noncanon", "[MQTT-1.5.5-1] Variable Byte Integer must use the minimum number of bytes (5.0 only)", v, <<h>> \o VBIPad(Len(body)) \o body)}
  \cup {F("rl_5byte", "2.2.3 / 1.5.5: Remaining Length has at most four bytes", v, <<h>> \o VBIPadTo(VBI(Len(body)), 5) \o body)}
  \cup {FE("oversize_declared", "2.2.3/2.1.4: declared Remaining Length far beyond the bytes supplied; bounded allocation", v, <<h>> \o VBI(n) \o body) :
          n \in {1048576} \cup (IF p.t \in {"CONNECT", "PUBLISH", "SUBSCRIBE"} THEN {209715200} ELSE {})}
  \cup {F("type_reserved", R(v, "2.2.1 table 2.1: packet type 0 is reserved", "2.1.2 table 2-1: packet type 0 is reserved"), v, <<fl>> \o VBI(Len(body)) \o body)}
  \cup (IF p.t = "AUTH" THEN {F("auth_before_v5", "3.1.1 2.2.1 table 2.1: packet type 15 is reserved", 4, e)} ELSE {})
StructFaults(p) == TruncFaults(p) \cup FrameFaults(p)

VF(name, rule, q) == F(name, rule, q.v, EncForm(q, "full"))
BadStrRule(v) == R(v, "[MQTT-1.5.3-1], [MQTT-1.5.3-2] ill-formed UTF-8 / U+0000", "[MQTT-1.5.4-1], [MQTT-1.5.4-2] ill-formed UTF-8 / U+0000")
PropFaults(p, ctx) ==
  IF p.v # 5 THEN {} ELSE
  {VF(PropRule(ctx, ps), PropRuleText(PropRule(ctx, ps)), IF ctx = "WILL" THEN [p EXCEPT !.wprops = ps] ELSE [p EXCEPT !.props = ps]) : ps \in BadProps(ctx)}

ConnectFaults(p) ==
  LET v == p.v
      cf == ConnFlags(p)
      X(name, level, flags) == Hdr(1, 0, ConnBodyX(p, name, level, flags, EncProps)) IN
  {F("proto_name", "[MQTT-3.1.2-1] protocol name", v, X(nm, v, cf)) :
      nm \in {<<77, 81, 84, 88>>, <<77, 81, 84>>, <<109, 113, 116, 116>>, <<>>, ProtoName(IF v = 3 THEN 4 ELSE 3)}}
  \cup {F("proto_level", "[MQTT-3.1.2-2] protocol level", v, X(ProtoName(v), lv, cf)) : lv \in {0, 2, 6, 255}}
  \cup {F("connect_reserved_flag", "[MQTT-3.1.2-3] reserved connect flag", v, X(ProtoName(v), v, cf + 1))}
  \cup (IF p.will
        THEN {F("will_qos3", R(v, "[MQTT-3.1.2-14]", "[MQTT-3.1.2-12]") \o " Will QoS 3", v, X(ProtoName(v), v, cf - p.wqos * 8 + 24))}
        ELSE {F("will_qos_without_flag", R(v, "[MQTT-3.1.2-13]", "[MQTT-3.1.2-11]") \o " Will QoS with Will Flag 0", v, X(ProtoName(v), v, cf + q * 8)) : q \in 1..2}
             \cup {F("will_retain_without_flag", R(v, "[MQTT-3.1.2-15]", "[MQTT-3.1.2-13]") \o " Will Retain with Will Flag 0", v, X(ProtoName(v), v, cf + 32))})
  \cup (IF v < 5 /\ ~p.uflag /\ ~p.pflag
        THEN {VF("password_without_username", "[MQTT-3.1.2-22] Password Flag with User Name Flag 0 (3.1.1)", [p EXCEPT !.pflag = TRUE, !.pass = <<112>>])} ELSE {})
  \cup {VF("bad_utf8_clientid", BadStrRule(v), [p EXCEPT !.cid = s]) : s \in D.badstr}
  \cup (IF p.uflag THEN {VF("bad_utf8_username", BadStrRule(v), [p EXCEPT !.user = s]) : s \in D.badstr} ELSE {})
  \cup (IF p.will THEN {VF("bad_utf8_willtopic", BadStrRule(v), [p EXCEPT !.wtopic = s]) : s \in D.badstr} \cup PropFaults(p, "WILL") ELSE {})
  \cup PropFaults(p, "CONNECT")

PublishFaults(p) ==
  LET v == p.v IN
  {VF("topic_wildcard", "[MQTT-3.3.2-2] wildcard in a PUBLISH topic name", [p EXCEPT !.topic = s]) :
      s \in {<<PLUS>>, <<HASH>>, <<97, SLASH, PLUS>>, <<97, SLASH, HASH>>, <<PLUS, SLASH, 97>>}}
  \cup (IF ~HasProp(p.props, 35)
        THEN {VF("topic_empty", R(v, "[MQTT-4.7.3-1] topic name of length 0", "3.3.2.1 zero-length topic name without Topic Alias (Protocol Error)"), [p EXCEPT !.topic = <<>>])} ELSE {})
  \cup (IF p.qos > 0 THEN {VF("publish_pid0", R(v, "[MQTT-2.3.1-1]", "[MQTT-2.2.1-3]") \o " Packet Identifier 0 with QoS > 0", [p EXCEPT !.pid = 0])} ELSE {})
  \cup {VF("bad_utf8_topic", BadStrRule(v), [p EXCEPT !.topic = s]) : s \in D.badstr}
  \cup PropFaults(p, "PUBLISH")

SubBodyRaw(p, f, o) == U16(p.pid) \o (IF p.v = 5 THEN EncProps(p.props) ELSE <<>>) \o Str(f) \o <<o>>
SubscribeFaults(p) ==
  LET v == p.v
      X(f, o) == Hdr(8, 2, SubBodyRaw(p, f, o)) IN
  {VF("subscribe_empty", R(v, "[MQTT-3.8.3-3]", "[MQTT-3.8.3-2]") \o " SUBSCRIBE without topic filter", [p EXCEPT !.topics = <<>>])}
  \cup {F("sub_opts_reserved", R(v, "[MQTT-3-8.3-4] upper 6 bits of the requested-QoS byte", "[MQTT-3.8.3-5] reserved subscription option bits"), v, X(<<97>>, o)) :
          o \in (IF v = 5 THEN {64, 128, 193} ELSE {4, 8, 16, 32, 64, 128})}
  \cup {F("sub_qos3", R(v, "[MQTT-3-8.3-4] requested QoS 3", "3.8.3.1 QoS 3 is a Protocol Error"), v, X(<<97>>, 3))}
  \cup (IF v = 5 THEN {F("sub_retain_handling3", "3.8.3.1 Retain Handling 3 is a Protocol Error", v, X(<<97>>, 48))}
                       \cup {F("share_nolocal", "[MQTT-3.8.3-4] No Local on a Shared Subscription", v, X(s, 4)) : s \in {f \in D.filt : IsShared(f) /\ ValidSubFilter(f, 5)}}
                       \cup {F("share_malformed", "[MQTT-4.8.2-1], [MQTT-4.8.2-2] $share/{ShareName}/{filter}", v, X(s, 0)) : s \in D.badshare}
                       \cup {F("subid_noncanon", "[MQTT-1.5.5-1] Subscription Identifier not in minimal form", v,
                               Hdr(8, 2, U16(p.pid) \o <<3, 11>> \o VBIPad(1) \o Str(<<97>>) \o <<0>>))}
        ELSE {})
  \cup {F("filter_invalid", "[MQTT-4.7.1-2], [MQTT-4.7.1-3], [MQTT-4.7.3-1] topic filter syntax", v, X(s, 0)) : s \in D.badfilt}
  \cup {F("bad_utf8_filter", BadStrRule(v), v, X(s, 0)) : s \in D.badstr}
  \cup {VF("subscribe_pid0", R(v, "[MQTT-2.3.1-1]", "[MQTT-2.2.1-3]") \o " Packet Identifier 0", [p EXCEPT !.pid = 0])}
  \cup PropFaults(p, "SUBSCRIBE")

UnsubscribeFaults(p) ==
  LET v == p.v IN
  {VF("unsubscribe_empty", "[MQTT-3.10.3-2] UNSUBSCRIBE without topic filter", [p EXCEPT !.filters = <<>>])}
  \cup {VF("filter_invalid", "[MQTT-4.7.1-2], [MQTT-4.7.1-3], [MQTT-4.7.3-1] topic filter syntax", [p EXCEPT !.filters = <<s>>]) : s \in D.badfilt}
  \cup (IF v = 5 THEN {VF("share_malformed", "[MQTT-4.8.2-1], [MQTT-4.8.2-2] $share/{ShareName}/{filter}", [p EXCEPT !.filters = <<s>>]) : s \in D.badshare} ELSE {})
  \cup {VF("bad_utf8_filter", BadStrRule(v), [p EXCEPT !.filters = <<s>>]) : s \in D.badstr}
  \cup {VF("unsubscribe_pid0", R(v, "[MQTT-2.3.1-1]", "[MQTT-2.2.1-3]") \o " Packet Identifier 0", [p EXCEPT !.pid = 0])}
  \cup PropFaults(p, "UNSUBSCRIBE")

TypeFaults(p) ==
  CASE p.t = "CONNECT" -> ConnectFaults(p)
    [] p.t = "CONNACK" -> {F("connack_flags", "[MQTT-3.2.2-1] reserved Connect Acknowledge Flags", p.v,
                              Hdr(2, 0, <<x, p.code>> \o (IF p.v = 5 THEN EncProps(p.props) ELSE <<>>))) : x \in {2, 128, 255}}
                          \cup PropFaults(p, "CONNACK")
    [] p.t = "PUBLISH" -> PublishFaults(p)
    [] p.t = "SUBSCRIBE" -> SubscribeFaults(p)
    [] p.t = "UNSUBSCRIBE" -> UnsubscribeFaults(p)
    [] p.t \in {"SUBACK", "UNSUBACK"} ->
         (IF p.t = "SUBACK" \/ p.v = 5 THEN {VF("ack_empty", "3.9.3 / 3.11.3: the payload contains a list of reason codes (at least one)", [p EXCEPT !.codes = <<>>])} ELSE {})
         \cup PropFaults(p, p.t)
    [] p.t \in {"PINGREQ", "PINGRESP"} -> {}
    [] OTHER -> PropFaults(p, p.t)

\* faults whose output may still be a well-formed packet (then it is emitted as a valid vector of the decoded value)
MayAccept == {"trunc_body", "rl_noncanon", "trailing"}

\* base values the fault operators are applied to
FaultBases(t, v) ==
  CASE t = "CONNECT" -> {BaseConnect(v), RichConnect(v)}
    [] t = "CONNACK" -> {MkConnack(v, TRUE, 0, IF v = 5 THEN <<P(33, 10, <<>>, <<>>), P(18, 0, <<99>>, <<>>)>> ELSE <<>>)}
    [] t = "PUBLISH" -> {MkPublish(v, FALSE, 1, TRUE, <<97, SLASH, 98>>, 7, IF v = 5 THEN <<P(3, 0, <<116>>, <<>>), P(38, 0, <<107>>, <<118>>)>> ELSE <<>>, <<1, 2>>),
                         MkPublish(v, FALSE, 0, FALSE, <<97>>, 0, <<>>, <<>>)}
    [] t \in PubAcks -> {MkAck(t, v, 7, 0, <<>>)} \cup (IF v = 5 THEN {MkAck(t, v, 7, IF t \in {"PUBACK", "PUBREC"} THEN 16 ELSE 146, <<P(31, 0, <<114>>, <<>>)>>)} ELSE {})
    [] t = "SUBSCRIBE" -> {MkSubscribe(v, 7, IF v = 5 THEN <<P(11, 5, <<>>, <<>>)>> ELSE <<>>,
                                        <<MkTopic(<<97, SLASH, PLUS>>, 1, FALSE, v = 5, 0), MkTopic(<<HASH>>, 0, FALSE, FALSE, 0)>>)}
    [] t = "UNSUBSCRIBE" -> {MkUnsubscribe(v, 7, IF v = 5 THEN <<P(38, 0, <<107>>, <<118>>)>> ELSE <<>>, <<<<97, SLASH, PLUS>>, <<HASH>>>>)}
    [] t \in {"SUBACK", "UNSUBACK"} -> {MkSuback(t, v, 7, IF v = 5 THEN <<P(31, 0, <<114>>, <<>>)>> ELSE <<>>,
                                                 IF t = "UNSUBACK" /\ v # 5 THEN <<>> ELSE <<0, 128>>)}
    [] t \in {"PINGREQ", "PINGRESP"} -> {MkPing(t, v)}
    [] t \in {"DISCONNECT", "AUTH"} -> {MkCodeProps(t, v, 0, <<>>)}
                                        \cup (IF v = 5 THEN {MkCodeProps(t, v, IF t = "AUTH" THEN 24 ELSE 4, IF t = "AUTH" THEN <<P(21, 0, <<109>>, <<>>)>> ELSE <<P(31, 0, <<114>>, <<>>)>>)} ELSE {})

\* thorough tier: cuts (truncation at every offset ...) also on every value that carries exactly one property
RichVals(t, v) == {p \in Vals(t, v) : /\ HasProps(p) /\ Len(p.props) = 1
                                      /\ (p.t = "CONNECT" => (~p.will /\ ~p.uflag /\ ~p.pflag /\ p.clean))
                                      /\ (p.t = "CONNACK" => (~p.sp /\ p.code = 0))
                                      /\ (p.t = "PUBLISH" => (p.qos = 1 /\ ~p.dup /\ p.retain))
                                      /\ (p.t \in PubAcks => p.pid = 1)}
FaultsOf(t, v) ==
  UNION {StructFaults(p) : p \in FaultBases(t, v)}
  \cup (IF RichFaults THEN UNION {TruncFaults(p) : p \in RichVals(t, v)} ELSE {})
  \cup UNION {TypeFaults(p) : p \in FaultBases(t, v)}

(***************************************************************************)
(* 8. Emission of vectors and the statements TLC checks on every vector    *)
(***************************************************************************)
Guard == <<165, 165, 165>>
PermsOfList(ps) == IF Len(ps) = 2 /\ ps[1].id # ps[2].id THEN {ps, Rev(ps)} ELSE {ps}
PermsOf(p) ==
  IF "props" \notin DOMAIN p THEN {p}
  ELSE IF p.t = "CONNECT" THEN {[p EXCEPT !.props = a, !.wprops = b] : a \in PermsOfList(p.props), b \in PermsOfList(p.wprops)}
  ELSE {[p EXCEPT !.props = a] : a \in PermsOfList(p.props)}
\* all byte strings that encode the value p (forms x property orders)
EncSet(p) == {EncForm(q, f) : q \in PermsOf(p), f \in FormsOf(p)}

\* TLC-checked: size formula, decoder inverts the encoder on every form and order, guard bytes are not consumed
ValidChecks(p) ==
  LET e == Enc(p) IN
  /\ Assert(Len(e) = SizeFormula(p), <<"SizeFormula", p>>)
  /\ Assert(\A f \in FormsOf(p) : Len(EncForm(p, f)) = SizeForm(p, f), <<"SizeForm", p>>)
  /\ Assert(Dec(e \o Guard, p.v) = [ok |-> TRUE, p |-> p, used |-> Len(e)], <<"Dec(Enc(p)) # p", p, Dec(e \o Guard, p.v)>>)
  /\ Assert(Dec(e, p.v) = [ok |-> TRUE, p |-> p, used |-> Len(e)], <<"Dec(Enc(p)) at end of stream", p>>)
  /\ Assert(\A a \in EncSet(p) : LET d == Dec(a \o Guard, p.v) IN d.ok /\ d.p \in PermsOf(p) /\ d.used = Len(a), <<"EncSet", p>>)

EmitValid(p, bytes, origin) ==
  PrintT(ToJson([kind |-> "valid", p |-> p, bytes |-> bytes, alts |-> EncSet(p) \ {bytes}, size |-> SizeFormula(p),
                 shortest |-> bytes = Enc(p), origin |-> origin]))
EmitFault(f) ==
  LET d == Dec(IF f.eof THEN f.bytes ELSE f.bytes \o Guard, f.v) IN
  IF ~d.ok THEN PrintT(ToJson([kind |-> "fault", fault |-> f.name, rule |-> f.rule, v |-> f.v, bytes |-> f.bytes, eof |-> f.eof, expect |-> "reject"]))
  ELSE /\ Assert(f.name \in MayAccept, <<"fault operator output is inside the image of Enc", f, d.p>>)
       /\ Assert(f.bytes \in EncSet(d.p) \/ f.name = "rl_noncanon", <<"accepted fault output not in EncSet", f, d.p>>)
       /\ EmitValid(d.p, f.bytes, f.name)

EmitType(t) ==
  \A v \in VersOf(t) :
    /\ \A p \in Vals(t, v) : ValidChecks(p) /\ EmitValid(p, Enc(p), "enum")
    /\ (FaultSel # {} => \A f \in {g \in FaultsOf(t, v) : g.name \in FaultSel \/ "all" \in FaultSel} : EmitFault(f))
EmitAll == \A t \in Types : EmitType(t)

(***************************************************************************)
(* 9. Validity table of topic names / filters (MQTT 4.7, 4.8.2, 1.5.4):    *)
(*    every byte string up to length n over the alphabet A, and "$share/"  *)
(*    followed by every string up to length m, each with the PUBLISH /     *)
(*    SUBSCRIBE / UNSUBSCRIBE packets that carry it.                       *)
(***************************************************************************)
ByteSeqs(A, n) == UNION {[1..k -> A] : k \in 0..n}
EmitValidity(A, n, m) ==
  \A s \in ByteSeqs(A, n) \cup {SharePrefix \o x : x \in ByteSeqs(A, m)} :
     PrintT(ToJson([kind |-> "validity", s |-> s,
                    vn |-> ValidNameB(s), vf |-> ValidFilterB(s), vs |-> ValidSubFilter(s, 5),
                    pub |-> Hdr(3, 0, Str(s)), pub5 |-> Hdr(3, 0, Str(s) \o <<0>>),
                    sub |-> Hdr(8, 2, U16(1) \o Str(s) \o <<0>>), sub5 |-> Hdr(8, 2, U16(1) \o <<0>> \o Str(s) \o <<0>>),
                    unsub |-> Hdr(10, 2, U16(1) \o Str(s)), unsub5 |-> Hdr(10, 2, U16(1) \o <<0>> \o Str(s))]))

VARIABLE dummy
Init == dummy = 0
Next == UNCHANGED dummy
Spec == Init /\ [][Next]_dummy
=============================================================================
