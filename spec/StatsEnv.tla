------------------------------ MODULE StatsEnv ------------------------------
(***************************************************************************)
(* Design-level run for Stats.tla (C20): an environment that produces      *)
(* every well-formed sequence of trace events over a small alphabet        *)
(* (client ids, connections, packet types, QoS levels, packet ids, drop    *)
(* reasons), bounded by the number of events.  TLC checks on every         *)
(* reachable state that the event-by-event global accumulator equals the   *)
(* sum of the live per-client records plus the retired totals, that the    *)
(* session and connection totals account for the sessions that exist and   *)
(* that the global gauges equal the sum of the queues' contents.           *)
(* Late packets of displaced connections (logged after their session has   *)
(* terminated) are part of the alphabet.                                   *)
(***************************************************************************)
EXTENDS Stats

CONSTANTS CIDs, MaxK, MaxSteps, InTypes, OutTypes, QoSs, Pids, Reasons

VARIABLE steps
evars == <<svars, steps>>

EInit == steps = 0 /\ SInit([maxqueued |-> 1000])

Registered(k) == k \in DOMAIN conns /\ conns[k].inc >= 0
Online(k) == Live(k) /\ conns[k].cid \in DOMAIN sess /\ sess[conns[k].cid] = "online"
             /\ \A k2 \in DOMAIN conns : (k2 > k /\ conns[k2].cid = conns[k].cid) => conns[k2].inc < 0
Unread(c) == q[c].len - Cardinality(q[c].infl)

Step(A) == steps < MaxSteps /\ steps' = steps + 1 /\ A

ENext ==
  \/ \E c \in CIDs : LET k == Cardinality(DOMAIN conns) + 1 IN
        k <= MaxK /\ Step(Connect(k, c, 5, k, 10 + k))
  \/ \E k \in DOMAIN conns : conns[k].inc < 0 /\ Step(Register(conns[k].addr, conns[k].cid, conns[k].cid \in DOMAIN sess))
  \/ \E k \in DOMAIN conns : Online(k) /\ Step(Unregister(conns[k].addr, conns[k].cid))
  \/ \E c \in DOMAIN sess, r \in 0..2 : Step(Terminated(c, r))
  \/ \E k \in DOMAIN conns, t \in InTypes : Registered(k) /\ Step(PacketIn(k, t, 2))
  \/ \E k \in DOMAIN conns, t \in OutTypes : Registered(k) /\ Step(PacketOut(k, t, 3))
  \/ \E k \in DOMAIN conns : Registered(k) /\ ~Live(k) /\ Step(Connack(k, 0, 4))
  \/ \E k \in DOMAIN conns, x \in QoSs : Registered(k) /\ Step(Publish(k, x, 7))
  \/ \E c \in DOMAIN q : Step(Enqueue(c, FALSE))
  \* a copy leaves the queue towards the session's connection (or a late PUBLISH of a displaced connection is logged)
  \/ \E k \in DOMAIN conns, x \in QoSs, p \in Pids :
        /\ Registered(k)
        /\ Online(k) => \/ x = 0 /\ p = 1 /\ Unread(conns[k].cid) > 0
                        \/ x > 0 /\ (\E e \in q[conns[k].cid].infl : e.pid = p)
                        \/ x > 0 /\ Unread(conns[k].cid) > 0
        /\ (Live(k) => Online(k))
        /\ Step(Deliver(k, x, p, "m", 9))
  \/ \E k \in DOMAIN conns, t \in {"puback", "pubrec", "pubcomp"}, p \in Pids, code \in {0, 128} :
        Registered(k) /\ (code = 128 => t = "pubrec") /\ Step(ClientAck(k, t, p, code, 4))
  \/ \E c \in DOMAIN q, x \in QoSs, r \in Reasons :
        /\ IF r = "expiredinflight" THEN q[c].infl # {} ELSE Unread(c) > 0
        /\ Step(Dropped(c, x, r, "m"))

ESpec == EInit /\ [][ENext]_evars

QueuesWellFormed == \A c \in DOMAIN q : q[c].len >= Cardinality(q[c].infl)
\* the snapshot the specification demands is itself conserved: each global number is the sum over the clients'
\* numbers whenever nothing has been retired
SnapshotConserved ==
  LET e == Expected(0) IN
  /\ e.global.MessageStats.QueuedCurrent = SumOver([c \in DOMAIN e.clients |-> e.clients[c].MessageStats.QueuedCurrent], DOMAIN e.clients) + g.leakq
  /\ e.global.MessageStats.InflightCurrent = SumOver([c \in DOMAIN e.clients |-> e.clients[c].MessageStats.InflightCurrent], DOMAIN e.clients) + g.leaki
  /\ e.global.MessageStats.QueuedCurrent >= 0 /\ e.global.MessageStats.InflightCurrent >= 0
  /\ e.global.ConnectionStats.ActiveCurrent + e.global.ConnectionStats.InactiveCurrent = Cardinality(DOMAIN sess)
  /\ retired = ZeroC => \A t \in PT :
       e.global.PacketStats.BytesReceived[t] = SumOver([c \in DOMAIN e.clients |-> e.clients[c].PacketStats.BytesReceived[t]], DOMAIN e.clients)
=============================================================================
