------------------------------- MODULE WsRead -------------------------------
(***************************************************************************)
(* The two readings of "the current WebSocket message is used up" shared   *)
(* by WsConn.tla (byte level) and WsSeg.tla (length level).                *)
(*   L = length of the current message, r = bytes of it already returned.  *)
(***************************************************************************)
EXTENDS Naturals

Min(a, b) == IF a < b THEN a ELSE b

\* bytes a Read(n) hands out from the current message
Take(L, r, n) == Min(n, L - r)

\* the property's reading: the next Read fetches a new message when every byte was returned
Exhausted(L, r) == r >= L

\* named deviation DropLastWhenOneLeft: the reset condition as written in
\* /repo/server/server.go  wsConn.Read:  `if ws.r+1 >= len(ws.buf) { ws.buf = nil; ws.r = 0 }`
ExhaustedImpl(L, r) == r + 1 >= L

\* with the deviation a byte is discarded exactly when a Read leaves one byte
LosesByte(L, r) == r + 1 = L
=============================================================================
