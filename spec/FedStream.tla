------------------------------ MODULE FedStream ------------------------------
(***************************************************************************)
(* Federation event stream between two nodes (property C16).               *)
(*                                                                         *)
(* Node A emits subscribe / unsubscribe / message events for node B: A's   *)
(* `peer` object for B holds the eventQueue, B holds a session for A       *)
(* (sessionMgr, duplicate filter, nextEventID), the mirrored subscription  *)
(* view (fedSubStore) and applies message events through its Publisher and *)
(* retained store.  The module is IMPLEMENTATION-SHAPED: every action is   *)
(* what plugin/federation/{peer,federation,hooks,membership}.go do, at the *)
(* grain at which the harness can drive the real objects:                  *)
(*                                                                         *)
(*   EmitSub/EmitUnsub/EmitTerm/EmitMsg  the hook wrappers (reference      *)
(*                 counted localSubStore, queue.add for the peer)          *)
(*   Hello(mode)   peer.initStream: Federation.Hello on B (sessionMgr.add, *)
(*                 UnsubscribeAll on a clean start), then on A clear +     *)
(*                 full resynchronisation, setReadPosition, stream open;   *)
(*                 mode "lost" = the answer never reaches A (cut during    *)
(*                 the handshake), "openfail" = EventStream cannot be      *)
(*                 opened, "nopeer" = B has not seen A join                *)
(*   Fetch         stream.sendEvents: fetchEvents (one batch) + Send each  *)
(*   SrvRecv       EventStream goroutine: Recv, eventStreamHandler, Send   *)
(*   SrvNext       the same goroutine: sess.nextEventID = ack.EventId + 1  *)
(*                 (a separate step: the code sends the ack FIRST)         *)
(*   CliAck        stream.readLoop: Recv, queue.ack                        *)
(*   Break         the connection dies: any suffix of both directions is   *)
(*                 lost, what survives may still be read                   *)
(*   CliDetect     readLoop sees the error: setError -> queue.close        *)
(*   NodeFailB/NodeJoinB   B's membership sees A fail / join               *)
(*   NodeFailA/NodeJoinA   A's membership sees B fail / join (new peer     *)
(*                 object: new session id, empty queue)                    *)
(*                                                                         *)
(* The design-level properties (NoGapNoDup, QuiescentView, ...) are        *)
(* evaluated on every reached state and written into the transition dump   *)
(* (`bad`); the conformance driver replays the transition on the real      *)
(* objects, checks that the real objects are in exactly this state, and    *)
(* re-evaluates the property on the real objects.  A property failure of   *)
(* this model alone is never a verdict.                                    *)
(*                                                                         *)
(* Fixes: a set of names of proposed repairs; with a name in the set the   *)
(* model behaves like the repaired code (used to validate the proposed     *)
(* patches at design level, never for the conformance run on /repo).       *)
(***************************************************************************)
EXTENDS Integers, Sequences, FiniteSets, TLC, Json

CONSTANTS Clients,    \* local MQTT clients of node A
          TopicSet,   \* full topic names they may subscribe to (strings, may be "$share/g/t")
          Batch,      \* events per fetchEvents (100 in the code)
          LRU,        \* size of the duplicate filter (100 in the code)
          MaxEmit,    \* bound: hook calls
          MaxMsg,     \* bound: message events
          MaxBreak,   \* bound: connection breaks
          MaxLost,    \* bound: failed handshakes (lost / openfail)
          MaxFailA,   \* bound: A sees B fail
          MaxFailB,   \* bound: B sees A fail
          MaxOrd,     \* bound: steps whose outcome depends on the iteration order of a Go map with >= 2 entries
          Fixes       \* names of modelled repairs

VARIABLES
    \* ---- node A (emitter, client side of the stream)
    idx,        \* set of <<client, topic>>          localSubStore.index
    aret,       \* A's retained payload on the one retained topic (0 = none)
    peerOn,     \* A holds a peer object for B
    sid,        \* session id of that peer object (a counter standing for the uuid)
    q,          \* eventQueue.l : sequence of [id, ev]
    nr,         \* eventQueue.nextRead as an id; -1 = nil; -2 = points to a removed element
    nextID,     \* eventQueue.nextID
    qclosed,    \* eventQueue.closed
    cst,        \* "none" | "up"   are readLoop/sendEvents of a stream alive
    \* ---- the connection
    link,       \* "none" | "up" | "down"
    c2s,        \* events sent by A, not yet received by B  (sequence of [id, ev])
    s2c,        \* acks sent by B, not yet received by A     (sequence of ids)
    \* ---- node B (server side)
    bpeer,      \* B knows A as a member (Hello is refused otherwise)
    sess,       \* [on, sid, next, seen, gen, est]
    gen,        \* number of session objects created so far
    view,       \* topics B holds for A in its fedSubStore
    pubd,       \* payloads B has published locally, in order
    bret,       \* B's retained payload (0 = none)
    pend,       \* [on, id, gen] the stream goroutine has sent the ack of `id` and not yet written nextEventID
    zomb,       \* the same for the goroutine of an older stream
    \* ---- ghosts
    applied,    \* ids applied (not filtered as duplicates) by the current session object, in order
    taint,      \* names of known-defect triggers that occurred in the current session epoch
    bud,        \* budgets used
    \* ---- bookkeeping hidden by VIEW
    path, last

vars == <<idx, aret, peerOn, sid, q, nr, nextID, qclosed, cst, link, c2s, s2c,
          bpeer, sess, gen, view, pubd, bret, pend, zomb, applied, taint, bud, path, last>>
sview == <<idx, aret, peerOn, sid, q, nr, nextID, qclosed, cst, link, c2s, s2c,
           bpeer, sess, gen, view, pubd, bret, pend, zomb, applied, taint, bud>>

Fix(n) == n \in Fixes

Ev(k, t, p) == [k |-> k, t |-> t, p |-> p]
NoSess  == [on |-> FALSE, sid |-> 0, next |-> 0, seen |-> <<>>, gen |-> 0, est |-> FALSE]
NoPend  == [on |-> FALSE, id |-> 0, gen |-> 0]
Range(s) == {s[i] : i \in 1..Len(s)}
Min(a, b) == IF a < b THEN a ELSE b

LocalTopics(ix) == {p[2] : p \in ix}
Perms(S) == {s \in [1..Cardinality(S) -> S] : \A i, j \in 1..Cardinality(S) : i # j => s[i] # s[j]}

Init ==
    /\ idx = {} /\ aret = 0 /\ peerOn = TRUE /\ sid = 1
    /\ q = <<>> /\ nr = -1 /\ nextID = 0 /\ qclosed = FALSE /\ cst = "none"
    /\ link = "none" /\ c2s = <<>> /\ s2c = <<>>
    /\ bpeer = TRUE /\ sess = NoSess /\ gen = 0 /\ view = {} /\ pubd = <<>> /\ bret = 0
    /\ pend = NoPend /\ zomb = NoPend
    /\ applied = <<>> /\ taint = {}
    /\ bud = [emit |-> 0, msg |-> 0, brk |-> 0, lost |-> 0, failA |-> 0, failB |-> 0, ord |-> 0]
    /\ path = <<>> /\ last = [op |-> "init"]

----------------------------------------------------------------------------
(* eventQueue (peer.go) as pure operators                                  *)

\* add each event of evs: id = nextID++, nextRead = the new element if it was nil
QAddAll(qq, rd, nid, evs) ==
    [q  |-> qq \o [i \in 1..Len(evs) |-> [id |-> nid + i - 1, ev |-> evs[i]]],
     nr |-> IF rd = -1 /\ Len(evs) > 0 THEN nid ELSE rd,
     nid |-> nid + Len(evs)]

\* setReadPosition: the element with that id, unchanged if there is none
QSetRead(qq, rd, id) == IF \E i \in 1..Len(qq) : qq[i].id = id THEN id ELSE rd

\* ack: remove every element up to and including the one with this id
QAck(qq, id) == SelectSeq(qq, LAMBDA e : e.id > id)

QPos(qq, id) == CHOOSE i \in 1..Len(qq) : qq[i].id = id

----------------------------------------------------------------------------
(* the hook wrappers (hooks.go)                                            *)

Queue(evs) ==
    IF peerOn
    THEN LET r == QAddAll(q, nr, nextID, evs) IN /\ q' = r.q /\ nr' = r.nr /\ nextID' = r.nid
    ELSE UNCHANGED <<q, nr, nextID>>

EmitFrame == UNCHANGED <<peerOn, sid, qclosed, cst, link, c2s, s2c, bpeer, sess, gen, view, pubd, bret,
                         pend, zomb, applied, taint>>

EmitSub(c, t) ==
    /\ bud.emit < MaxEmit
    /\ bud' = [bud EXCEPT !.emit = @ + 1]
    /\ idx' = idx \cup {<<c, t>>}
    /\ Queue(IF t \notin LocalTopics(idx) THEN <<Ev("sub", t, 0)>> ELSE <<>>)
    /\ UNCHANGED aret /\ EmitFrame
    /\ last' = [op |-> "sub", c |-> c, t |-> t]

EmitUnsub(c, t) ==
    /\ bud.emit < MaxEmit
    /\ bud' = [bud EXCEPT !.emit = @ + 1]
    /\ idx' = idx \ {<<c, t>>}
    /\ Queue(IF <<c, t>> \in idx /\ t \notin LocalTopics(idx') THEN <<Ev("unsub", t, 0)>> ELSE <<>>)
    /\ UNCHANGED aret /\ EmitFrame
    /\ last' = [op |-> "unsub", c |-> c, t |-> t]

\* session terminated: unsubscribeAll; the order of the unsubscribe events is the iteration order of a Go map
EmitTerm(c) ==
    /\ bud.emit < MaxEmit
    /\ \E t \in TopicSet : <<c, t>> \in idx
    /\ idx' = {p \in idx : p[1] # c}
    /\ LET gone == LocalTopics(idx) \ LocalTopics(idx')
           multi == peerOn /\ Cardinality(gone) >= 2 IN
       /\ multi => bud.ord < MaxOrd
       /\ bud' = [bud EXCEPT !.emit = @ + 1, !.ord = IF multi THEN @ + 1 ELSE @]
       /\ \E ord \in Perms(gone) :
          /\ Queue([i \in 1..Len(ord) |-> Ev("unsub", ord[i], 0)])
          /\ last' = [op |-> "term", c |-> c, ord |-> ord]
    /\ UNCHANGED aret /\ EmitFrame

\* a retained publication arrives on A: the core stores it, OnMsgArrived -> sendMessage queues it for every peer
EmitMsg ==
    /\ bud.emit < MaxEmit /\ bud.msg < MaxMsg
    /\ bud' = [bud EXCEPT !.emit = @ + 1, !.msg = @ + 1]
    /\ aret' = bud.msg + 1
    /\ Queue(<<Ev("msg", "r", bud.msg + 1)>>)
    /\ UNCHANGED idx /\ EmitFrame
    /\ last' = [op |-> "msg", p |-> bud.msg + 1]

----------------------------------------------------------------------------
(* handshake (peer.initStream, Federation.Hello, sessionMgr.add)           *)

StaleRead(s) == \/ pend.on /\ pend.gen = s.gen /\ pend.id + 1 > s.next
                \/ zomb.on /\ zomb.gen = s.gen /\ zomb.id + 1 > s.next

Hello(mode) ==
    /\ peerOn /\ cst = "none"
    /\ mode \in {"ok", "lost", "openfail", "nopeer"}
    /\ (mode = "nopeer") = ~bpeer
    /\ mode \in {"lost", "openfail"} => bud.lost < MaxLost
    /\ mode = "ok" => ~(pend.on /\ zomb.on)
    /\ IF mode = "nopeer"
       THEN /\ UNCHANGED <<idx, aret, peerOn, sid, q, nr, nextID, qclosed, cst, link, c2s, s2c, bpeer, sess,
                           gen, view, pubd, bret, pend, zomb, applied, taint, bud>>
            /\ last' = [op |-> "hello", mode |-> mode, clean |-> FALSE, next |-> 0, ord |-> <<>>]
       ELSE
         LET clean  == ~sess.on \/ sess.sid # sid \/ (Fix("unestablished_clean") /\ ~sess.est)
             s1     == IF clean THEN [on |-> TRUE, sid |-> sid, next |-> 0, seen |-> <<>>, gen |-> gen + 1,
                                      est |-> FALSE]
                                ELSE sess
             rnext  == s1.next
             stale  == ~clean /\ StaleRead(sess)
             client == mode \in {"ok", "openfail"}       \* the answer reaches A
         IN
         /\ gen' = IF clean THEN gen + 1 ELSE gen
         /\ view' = IF clean THEN {} ELSE view
         /\ applied' = IF clean THEN <<>> ELSE applied
         /\ sess' = IF mode = "ok" THEN [s1 EXCEPT !.est = TRUE] ELSE s1
         /\ LET multi == client /\ clean /\ Cardinality(LocalTopics(idx)) >= 2 IN
            /\ multi => bud.ord < MaxOrd
            /\ bud' = [bud EXCEPT !.lost = IF mode = "ok" THEN @ ELSE @ + 1, !.ord = IF multi THEN @ + 1 ELSE @]
         /\ \E ord \in Perms(LocalTopics(idx)) :
              LET resync == [i \in 1..Len(ord) |-> Ev("sub", ord[i], 0)]
                            \o (IF aret # 0 THEN <<Ev("msg", "r", aret)>> ELSE <<>>)
                  r0 == IF client /\ clean THEN QAddAll(<<>>, -1, 0, resync)
                                           ELSE [q |-> q, nr |-> nr, nid |-> nextID]
                  rd == IF client THEN QSetRead(r0.q, r0.nr, rnext) ELSE r0.nr
              IN /\ (~(client /\ clean) => ord = CHOOSE o \in Perms(LocalTopics(idx)) : TRUE)
                 /\ q' = r0.q /\ nextID' = r0.nid /\ nr' = rd
                 /\ last' = [op |-> "hello", mode |-> mode, clean |-> clean, next |-> rnext,
                             ord |-> IF client /\ clean THEN ord ELSE <<>>]
         /\ qclosed' = IF mode = "ok" \/ (client /\ clean) THEN FALSE ELSE qclosed
         /\ taint' = (IF client /\ clean THEN {} ELSE taint)
                       \cup (IF clean /\ ~client THEN {"hello_lost_after_clean"} ELSE {})
                       \cup (IF stale /\ client THEN {"stale_next_event_id"} ELSE {})
         /\ IF mode = "ok"
            THEN /\ link' = "up" /\ cst' = "up" /\ c2s' = <<>> /\ s2c' = <<>>
                 /\ zomb' = IF pend.on THEN pend ELSE zomb
                 /\ pend' = NoPend
            ELSE /\ c2s' = IF clean THEN <<>> ELSE c2s
                 /\ UNCHANGED <<link, cst, s2c, pend, zomb>>
         /\ UNCHANGED <<idx, aret, peerOn, sid, bpeer, pubd, bret>>

----------------------------------------------------------------------------
(* client side of an open stream (stream.sendEvents, stream.readLoop)      *)

Fetch ==
    /\ cst = "up" /\ nr >= 0 /\ ~qclosed
    /\ LET pos   == QPos(q, nr)
           hi    == Min(pos + Batch - 1, Len(q))
           batch == SubSeq(q, pos, hi)
       IN /\ nr' = IF hi < Len(q) THEN q[hi + 1].id ELSE -1
          /\ IF link = "up"
             THEN /\ c2s' = c2s \o batch
                  /\ UNCHANGED <<qclosed, cst, s2c>>
             ELSE \* Send fails: setError closes the queue, both loops end
                  /\ qclosed' = TRUE /\ cst' = "none" /\ s2c' = <<>>
                  /\ UNCHANGED c2s
          /\ last' = [op |-> "fetch", n |-> Len(batch), sent |-> link = "up"]
    /\ UNCHANGED <<idx, aret, peerOn, sid, q, nextID, link, bpeer, sess, gen, view, pubd, bret, pend, zomb,
                   applied, taint, bud>>

CliAck ==
    /\ cst = "up" /\ s2c # <<>>
    /\ LET id == Head(s2c) IN
       /\ q' = QAck(q, id)
       /\ nr' = IF nr >= 0 /\ nr <= id THEN -2 ELSE nr
       /\ last' = [op |-> "cliack", id |-> id]
    /\ s2c' = Tail(s2c)
    /\ UNCHANGED <<idx, aret, peerOn, sid, nextID, qclosed, cst, link, c2s, bpeer, sess, gen, view, pubd, bret,
                   pend, zomb, applied, taint, bud>>

CliDetect ==
    /\ cst = "up" /\ link = "down" /\ s2c = <<>>
    /\ cst' = "none" /\ qclosed' = TRUE
    /\ last' = [op |-> "clidetect"]
    /\ UNCHANGED <<idx, aret, peerOn, sid, q, nr, nextID, link, c2s, s2c, bpeer, sess, gen, view, pubd, bret,
                   pend, zomb, applied, taint, bud>>

----------------------------------------------------------------------------
(* server side (Federation.EventStream, eventStreamHandler, lruCache)      *)

SrvRecv ==
    /\ c2s # <<>> /\ ~pend.on /\ sess.on
    /\ LET e    == Head(c2s)
           dup  == e.id \in Range(sess.seen)
           seen == IF dup THEN sess.seen
                   ELSE IF Len(sess.seen) = LRU THEN Tail(sess.seen) \o <<e.id>> ELSE sess.seen \o <<e.id>>
           early == Fix("next_before_ack")
           nxt  == IF early THEN e.id + 1 ELSE sess.next
       IN
       /\ view' = IF dup THEN view
                  ELSE IF e.ev.k = "sub" THEN view \cup {e.ev.t}
                  ELSE IF e.ev.k = "unsub" THEN view \ {e.ev.t} ELSE view
       /\ pubd' = IF ~dup /\ e.ev.k = "msg" THEN Append(pubd, e.ev.p) ELSE pubd
       /\ bret' = IF ~dup /\ e.ev.k = "msg" THEN e.ev.p ELSE bret
       /\ applied' = IF dup THEN applied ELSE Append(applied, e.id)
       /\ sess' = [sess EXCEPT !.seen = seen, !.next = nxt]
       /\ IF link = "up"
          THEN /\ s2c' = Append(s2c, e.id)
               /\ c2s' = Tail(c2s)
               /\ pend' = IF early THEN NoPend ELSE [on |-> TRUE, id |-> e.id, gen |-> sess.gen]
          ELSE \* the ack cannot be sent: the goroutine ends, nextEventID is not written
               /\ c2s' = <<>> /\ UNCHANGED <<s2c, pend>>
       /\ last' = [op |-> "srvrecv", id |-> e.id, dup |-> dup, acked |-> link = "up"]
    /\ UNCHANGED <<idx, aret, peerOn, sid, q, nr, nextID, qclosed, cst, link, bpeer, gen, zomb, taint, bud>>

SrvNext(which) ==
    /\ which \in {"pend", "zomb"}
    /\ LET g == IF which = "pend" THEN pend ELSE zomb IN
       /\ g.on
       /\ sess' = IF sess.on /\ sess.gen = g.gen THEN [sess EXCEPT !.next = g.id + 1] ELSE sess
       /\ last' = [op |-> "srvnext", which |-> which, id |-> g.id]
    /\ IF which = "pend" THEN pend' = NoPend /\ UNCHANGED zomb ELSE zomb' = NoPend /\ UNCHANGED pend
    /\ UNCHANGED <<idx, aret, peerOn, sid, q, nr, nextID, qclosed, cst, link, c2s, s2c, bpeer, gen, view, pubd,
                   bret, applied, taint, bud>>

----------------------------------------------------------------------------
(* the network and the membership                                          *)

Break ==
    /\ link = "up" /\ bud.brk < MaxBreak
    /\ bud' = [bud EXCEPT !.brk = @ + 1]
    /\ link' = "down"
    /\ \E i \in 0..Len(c2s), j \in 0..Len(s2c) :
         /\ c2s' = SubSeq(c2s, 1, i) /\ s2c' = SubSeq(s2c, 1, j)
         /\ last' = [op |-> "break", c2s |-> i, s2c |-> j]
    /\ UNCHANGED <<idx, aret, peerOn, sid, q, nr, nextID, qclosed, cst, bpeer, sess, gen, view, pubd, bret,
                   pend, zomb, applied, taint>>

\* B's membership reports A as failed / left: nodeFail
NodeFailB ==
    /\ bpeer /\ bud.failB < MaxFailB
    /\ bud' = [bud EXCEPT !.failB = @ + 1]
    /\ bpeer' = FALSE /\ sess' = NoSess /\ view' = {} /\ applied' = <<>>
    /\ link' = IF link = "up" THEN "down" ELSE link
    /\ c2s' = <<>>
    \* a stream goroutine held between ack and nextEventID belongs to the session that is closed here: its write
    \* goes to the detached session object (no effect), and - as coded - it then spins for ever in
    \* `select { case <-done: }` instead of ending; the model drops it (the harness leaves it parked)
    /\ pend' = IF pend.on /\ pend.gen = sess.gen THEN NoPend ELSE pend
    /\ zomb' = IF zomb.on /\ zomb.gen = sess.gen THEN NoPend ELSE zomb
    /\ last' = [op |-> "nodefailB"]
    /\ UNCHANGED <<idx, aret, peerOn, sid, q, nr, nextID, qclosed, cst, s2c, gen, pubd, bret, taint>>

NodeJoinB ==
    /\ ~bpeer
    /\ bpeer' = TRUE
    /\ last' = [op |-> "nodejoinB"]
    /\ UNCHANGED <<idx, aret, peerOn, sid, q, nr, nextID, qclosed, cst, link, c2s, s2c, sess, gen, view, pubd,
                   bret, pend, zomb, applied, taint, bud>>

\* A's membership reports B as failed: the peer object (queue, session id) is dropped
NodeFailA ==
    /\ peerOn /\ bud.failA < MaxFailA
    /\ bud' = [bud EXCEPT !.failA = @ + 1]
    /\ peerOn' = FALSE
    /\ q' = <<>> /\ nr' = -1 /\ nextID' = 0 /\ qclosed' = FALSE /\ cst' = "none"
    /\ link' = IF link = "up" THEN "down" ELSE link
    /\ s2c' = <<>>
    /\ last' = [op |-> "nodefailA"]
    /\ UNCHANGED <<idx, aret, sid, c2s, bpeer, sess, gen, view, pubd, bret, pend, zomb, applied, taint>>

NodeJoinA ==
    /\ ~peerOn
    /\ peerOn' = TRUE /\ sid' = sid + 1
    /\ last' = [op |-> "nodejoinA"]
    /\ UNCHANGED <<idx, aret, q, nr, nextID, qclosed, cst, link, c2s, s2c, bpeer, sess, gen, view, pubd, bret,
                   pend, zomb, applied, taint, bud>>

Next ==
    /\ \/ \E c \in Clients, t \in TopicSet : EmitSub(c, t) \/ EmitUnsub(c, t)
       \/ \E c \in Clients : EmitTerm(c)
       \/ EmitMsg
       \/ \E m \in {"ok", "lost", "openfail", "nopeer"} : Hello(m)
       \/ Fetch \/ CliAck \/ CliDetect
       \/ SrvRecv \/ \E w \in {"pend", "zomb"} : SrvNext(w)
       \/ Break \/ NodeFailB \/ NodeJoinB \/ NodeFailA \/ NodeJoinA
    /\ path' = Append(path, last')

Spec == Init /\ [][Next]_vars

\* fairness of everything the two nodes do by themselves (used for the liveness check of the repaired design)
Progress ==
    /\ WF_vars(Fetch /\ path' = Append(path, last')) /\ WF_vars(CliAck /\ path' = Append(path, last'))
    /\ WF_vars(CliDetect /\ path' = Append(path, last')) /\ WF_vars(SrvRecv /\ path' = Append(path, last'))
    /\ \A w \in {"pend", "zomb"} : WF_vars(SrvNext(w) /\ path' = Append(path, last'))
    /\ WF_vars(Hello("ok") /\ path' = Append(path, last'))
    /\ WF_vars(NodeJoinA /\ path' = Append(path, last')) /\ WF_vars(NodeJoinB /\ path' = Append(path, last'))

----------------------------------------------------------------------------
(* Design-level properties                                                 *)

TypeOK ==
    /\ idx \subseteq Clients \X TopicSet
    /\ nr \in -2..nextID /\ cst \in {"none", "up"} /\ link \in {"none", "up", "down"}
    /\ \A i \in 1..Len(q) : q[i].id < nextID
    /\ \A i \in 1..Len(q) - 1 : q[i].id < q[i + 1].id

\* nextRead never points to an element that was removed by an acknowledgement
NextReadValid == nr # -2 /\ (nr >= 0 => \E i \in 1..Len(q) : q[i].id = nr)

\* C16: what B has applied in the current session is a duplicate-free, gap-free, in-order prefix of what A
\* emitted in it (ids are given out consecutively from 0 at emission)
NoGapNoDup == applied = [i \in 1..Len(applied) |-> i - 1]

\* the names used in DESIGN.md: with consecutive ids both clauses are NoGapNoDup
AppliedIsPrefix == NoGapNoDup
NoDuplicate == \A i, j \in 1..Len(applied) : i # j => applied[i] # applied[j]

\* nothing left to do without a new input
Quiescent == /\ cst = "up" /\ link = "up" /\ c2s = <<>> /\ s2c = <<>> /\ nr = -1 /\ ~pend.on /\ ~zomb.on

\* C16: after the stream has been stable B's view of A's subscriptions equals A's local subscription set
QuiescentView == Quiescent => view = LocalTopics(idx)

\* C16: every event emitted in the session has been applied (covers message events)
QuiescentComplete == Quiescent => Len(applied) = nextID /\ bret = aret

\* (not demanded: an event whose acknowledgement was lost stays in the queue until a later acknowledgement
\* arrives; ack(id) then removes everything up to id, so the queue does not grow with it)

\* convergence needs progress: in a state that is not quiescent one of the two nodes can do something by itself
\* (everything they do consumes what is in flight or queued, so together with the Quiescent* clauses this is the
\* safety form of "once breaks stop, the view converges")
CanMove == \/ cst = "up" /\ nr >= 0 /\ ~qclosed                       \* Fetch
           \/ cst = "up" /\ s2c # <<>>                                 \* CliAck
           \/ cst = "up" /\ link = "down" /\ s2c = <<>>                \* CliDetect
           \/ c2s # <<>> /\ ~pend.on /\ sess.on                        \* SrvRecv
           \/ pend.on \/ zomb.on                                       \* SrvNext
           \/ ~peerOn \/ ~bpeer                                        \* NodeJoinA / NodeJoinB
           \/ peerOn /\ cst = "none" /\ bpeer /\ ~(pend.on /\ zomb.on)  \* Hello("ok")
NoStuck == Quiescent \/ CanMove

Props == <<"NextReadValid", "NoGapNoDup", "QuiescentView", "QuiescentComplete", "NoStuck">>
Holds(n) == CASE n = "NextReadValid" -> NextReadValid [] n = "NoGapNoDup" -> NoGapNoDup
              [] n = "QuiescentView" -> QuiescentView [] n = "QuiescentComplete" -> QuiescentComplete
              [] n = "NoStuck" -> NoStuck
Bad == SelectSeq(Props, LAMBDA n : ~Holds(n))

\* the registered design-level check: the properties hold in every state whose session epoch is free of the
\* triggers of the recorded findings (with the repairs modelled, taint stays empty for the repaired triggers)
UntaintedOK == taint = {} => Bad = <<>>
StrictOK == Bad = <<>>

\* liveness form of the convergence clause: whenever breaks, failures and emissions have stopped the view converges
ViewConverges == <>[](view = LocalTopics(idx))

----------------------------------------------------------------------------
(* Transition dump for the transition-coverage replay                      *)

SetSeq(S) == LET RECURSIVE ToSeq(_)
                 ToSeq(T) == IF T = {} THEN <<>> ELSE LET x == CHOOSE x \in T : TRUE IN <<x>> \o ToSeq(T \ {x})
             IN ToSeq(S)

IdxSeq(ix) == SetSeq({[c |-> p[1], t |-> p[2]] : p \in ix})

Dump == PrintT(ToJson([pre |-> path, op |-> last',
          st |-> [idx |-> IdxSeq(idx'), aret |-> aret', peerOn |-> peerOn', sid |-> sid', q |-> q', nr |-> nr',
                  nextID |-> nextID', qclosed |-> qclosed', cst |-> cst', link |-> link', c2s |-> c2s',
                  s2c |-> s2c', bpeer |-> bpeer', sess |-> sess', view |-> SetSeq(view'), pubd |-> pubd',
                  bret |-> bret', pend |-> pend', zomb |-> zomb', applied |-> applied',
                  quiescent |-> Quiescent'],
          taint |-> SetSeq(taint'), bad |-> Bad']))
=============================================================================
