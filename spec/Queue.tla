------------------------------- MODULE Queue -------------------------------
(***************************************************************************)
(* Session message queue (property C10): queue.Store of gmqtt.             *)
(*                                                                         *)
(* Functional style (DESIGN.md 2.2 TC rule 3, App. B.1): every operation   *)
(* is a pure operator Do<Op>(s, args) = [st |-> s', out |-> outputs]; the  *)
(* actions are wrappers.  That lets the model also predict the output of   *)
(* the destructive probe sequence                                          *)
(*     Close; Init(not clean); ReadInflight until empty; Read while unread *)
(* from any post-state (operator Probe), which is what the replayer runs   *)
(* on the real object after each transition.                               *)
(*                                                                         *)
(* Readings (DESIGN.md C10).  in-flight = has a packet id; queued = has    *)
(* none.  Time is not advanced: an element's expiry is none/past/future;   *)
(* the in-flight expiry setting IE is off/instant/never (an element that   *)
(* becomes or is replayed as in-flight gets expiry past resp. future).     *)
(* Drop ladder when full, first applicable rule:                           *)
(*   1 the oldest entry is in flight and expired -> it  (weakest reading   *)
(*     of "an expired in-flight entry": only the front is inspected;       *)
(*     constant Rule1 = "front").  The literal reading - any expired       *)
(*     in-flight entry, the first such - is Rule1 = "any"; an              *)
(*     implementation satisfies the property if it follows either, and is  *)
(*     checked against the one it follows (mem: front, redis: any).        *)
(*   2 nothing is queued                -> the newcomer                    *)
(*   3 an expired queued message        -> the first such                  *)
(*   4 a queued QoS 0 message           -> the first such                  *)
(*   5 the newcomer is QoS 0            -> the newcomer                    *)
(*   6 the oldest queued message                                           *)
(* The ladder is stated over packet ids only, never over the read cursor:  *)
(* "queued" means the same thing whether or not the replay after a         *)
(* re-initialisation has finished.                                         *)
(* Counters: queue counter = number of entries, in-flight counter = number *)
(* of entries with an id; they are the running sums of the Notifier        *)
(* deltas (cQ, cI below are maintained from the outputs only).             *)
(* Init(clean) discards everything; no per-message drop report is demanded *)
(* for that (fate "cleared"), but the counters must follow.                *)
(***************************************************************************)
EXTENDS Integers, Sequences, FiniteSets, TLC, Json

CONSTANTS Max,      \* capacity
          IE,       \* "off" | "instant" | "never"
          Rule1,    \* "front" | "any": which expired in-flight entry ladder rule 1 looks for
          Offline,  \* "all" | "addonly": after Close only Add and Init are generated ("addonly": the broker is restarted
                    \* while the session is offline, there is no connection that could read or acknowledge)
          Menu,     \* set of [qos, exp, big]: the kinds of message Add may insert
          NMsg,     \* bound: number of Add operations (tags 1..NMsg in insertion order)
          Ids,      \* packet ids the caller supplies to Read
          RdMax,    \* bound: length of the id list of a Read
          RINs,     \* set of maxSize arguments of ReadInflight
          ProbeN,   \* maxSize used by the probe
          ProbeIds  \* id list used by the probe's Read (longer than Max, disjoint from Ids)

VARIABLES st,       \* [q, cur, drained, closed]
          nadd,     \* number of Adds so far
          gone,     \* ids handed out since the last Init whose entry was sacrificed (caller may still ack them)
          cQ, cI,   \* running sums of the Notifier deltas
          fate,     \* design-level bookkeeping: fate of every message
          lastH,    \* design-level bookkeeping: largest tag handed out by a Read so far
          path,     \* TC bookkeeping (hidden by VIEW): operations that led here
          last      \* TC bookkeeping (hidden by VIEW): last operation with predicted outputs

vars  == <<st, nadd, gone, cQ, cI, fate, lastH, path, last>>
view  == <<st, nadd, gone, cQ, cI>>                  \* transition-coverage runs
viewM == <<st, nadd, gone, cQ, cI, fate, lastH>>     \* design-level runs

----------------------------------------------------------------------------
(* Helpers                                                                 *)

MinOf(S) == CHOOSE i \in S : \A j \in S : i <= j
MinN(a, b) == IF a < b THEN a ELSE b
RemoveAt(s, i) == SubSeq(s, 1, i - 1) \o SubSeq(s, i + 1, Len(s))

Stamp(e) == IF IE = "off" THEN e
            ELSE [e EXCEPT !.exp = IF IE = "instant" THEN "past" ELSE "future"]

\* what a caller sees of a returned element / of a dropped element
R(e)      == [m |-> e.m, kind |-> e.kind, qos |-> e.qos, pid |-> e.pid, exp |-> e.exp]
D(e, why) == [m |-> e.m, kind |-> e.kind, pid |-> e.pid, why |-> why]

\* outputs: returned elements, Notifier drops, sums of the Notifier deltas, result, message removed by Remove
Out0 == [ret |-> <<>>, drop |-> <<>>, dQ |-> 0, dI |-> 0, res |-> "ok", rm |-> 0]

St0 == [q |-> <<>>, cur |-> 0, drained |-> FALSE, closed |-> FALSE]   \* after New + Init(clean)

InflightIdx(q) == {i \in 1..Len(q) : q[i].pid # 0}
QueuedIdx(q)   == {i \in 1..Len(q) : q[i].pid = 0}
Pids(q)        == {q[i].pid : i \in InflightIdx(q)}
Handed(s)      == {s.q[i].pid : i \in 1..s.cur}       \* ids handed out since the last Init, still present

\* the candidates of ladder rule 1 (the first of them is sacrificed)
Rule1Idx(q) == LET E == {i \in InflightIdx(q) : q[i].exp = "past"}
               IN IF Rule1 = "front" THEN E \cap {1} ELSE E

----------------------------------------------------------------------------
(* The operations as pure operators                                        *)

DoAdd(s, e) ==
  LET q == s.q
      n == Len(q)
      Queued == QueuedIdx(q)
      ExpQ == {i \in Queued : q[i].exp = "past"}
      Q0   == {i \in Queued : q[i].qos = 0}
      DropNew == [st |-> s, out |-> [Out0 EXCEPT !.drop = <<D(e, "full")>>]]
      DropAt(i, why) ==
         [st |-> [s EXCEPT !.q = Append(RemoveAt(q, i), e), !.cur = IF i <= s.cur THEN s.cur - 1 ELSE s.cur],
          out |-> [Out0 EXCEPT !.drop = <<D(q[i], why)>>, !.dI = IF why = "expired_inflight" THEN -1 ELSE 0]]
  IN IF n < Max THEN [st |-> [s EXCEPT !.q = Append(q, e)], out |-> [Out0 EXCEPT !.dQ = 1]]
     ELSE IF Rule1Idx(q) # {} THEN DropAt(MinOf(Rule1Idx(q)), "expired_inflight")
     ELSE IF Queued = {} THEN DropNew
     ELSE IF ExpQ # {} THEN DropAt(MinOf(ExpQ), "expired")
     ELSE IF Q0 # {} THEN DropAt(MinOf(Q0), "full")
     ELSE IF e.qos = 0 THEN DropNew
     ELSE DropAt(MinOf(Queued), "full")

RECURSIVE ReadLoop(_, _, _, _)
ReadLoop(s, ids, budget, out) ==
  IF budget = 0 \/ s.cur >= Len(s.q) THEN [st |-> s, out |-> out]
  ELSE LET i == s.cur + 1
           e == s.q[i]
           gonest == [s EXCEPT !.q = RemoveAt(s.q, i)]
       IN IF e.exp = "past"
            THEN ReadLoop(gonest, ids, budget - 1, [out EXCEPT !.drop = Append(@, D(e, "expired")), !.dQ = @ - 1])
          ELSE IF e.big
            THEN ReadLoop(gonest, ids, budget - 1, [out EXCEPT !.drop = Append(@, D(e, "oversize")), !.dQ = @ - 1])
          ELSE IF e.qos = 0
            THEN ReadLoop(gonest, ids, budget - 1, [out EXCEPT !.ret = Append(@, R(e)), !.dQ = @ - 1])
          ELSE LET e2 == Stamp([e EXCEPT !.pid = Head(ids)])
               IN ReadLoop([s EXCEPT !.q[i] = e2, !.cur = i], Tail(ids), budget - 1,
                           [out EXCEPT !.ret = Append(@, R(e2)), !.dI = @ + 1])

\* caller's obligation: s.drained /\ (s.closed \/ s.cur < Len(s.q))   (otherwise Read blocks / is illegal)
DoRead(s, ids) ==
  IF s.closed THEN [st |-> s, out |-> [Out0 EXCEPT !.res = "closed"]]
  ELSE ReadLoop(s, ids, MinN(Len(ids), Len(s.q)), Out0)

RECURSIVE RILoop(_, _, _)
RILoop(s, budget, out) ==
  IF budget = 0 \/ s.cur >= Len(s.q) THEN [st |-> s, out |-> out]
  ELSE LET i == s.cur + 1
           e == s.q[i]
       IN IF e.pid # 0
            THEN RILoop([s EXCEPT !.q[i] = Stamp(e), !.cur = i], budget - 1, [out EXCEPT !.ret = Append(@, R(Stamp(e)))])
          ELSE [st |-> s, out |-> out]

\* `drained` is the caller's knowledge: a ReadInflight returned nothing since the last Init
DoReadInflight(s, n) ==
  LET r == RILoop(s, MinN(n, Len(s.q)), Out0)
  IN [st |-> [r.st EXCEPT !.drained = (s.drained \/ r.out.ret = <<>>)], out |-> r.out]

FirstWithPid(s, pid) == LET H == {i \in 1..s.cur : s.q[i].pid = pid} IN IF H = {} THEN 0 ELSE MinOf(H)

DoRemove(s, pid) ==
  LET i == FirstWithPid(s, pid)
  IN IF i = 0 THEN [st |-> s, out |-> Out0]
     ELSE [st |-> [s EXCEPT !.q = RemoveAt(s.q, i), !.cur = s.cur - 1],
           out |-> [Out0 EXCEPT !.dQ = -1, !.dI = -1, !.rm = s.q[i].m]]

DoReplace(s, pid) ==
  LET i == FirstWithPid(s, pid)
  IN IF i = 0 THEN [st |-> s, out |-> [Out0 EXCEPT !.res = "false"]]
     ELSE [st |-> [s EXCEPT !.q[i] = [@ EXCEPT !.kind = "rel", !.exp = "none"]], out |-> [Out0 EXCEPT !.res = "true"]]

DoInit(s, clean) ==
  [st |-> [q |-> IF clean THEN <<>> ELSE s.q, cur |-> 0, drained |-> FALSE, closed |-> FALSE],
   out |-> [Out0 EXCEPT !.dQ = IF clean THEN 0 - Len(s.q) ELSE 0,
                        !.dI = IF clean THEN 0 - Cardinality(InflightIdx(s.q)) ELSE 0]]

DoClose(s) == [st |-> [s EXCEPT !.closed = TRUE], out |-> Out0]

----------------------------------------------------------------------------
(* The probe: what the fixed observation sequence returns from state s     *)

RECURSIVE RIAll(_, _)
RIAll(s, outs) == LET r == DoReadInflight(s, ProbeN)
                  IN IF r.out.ret = <<>> THEN [st |-> r.st, outs |-> Append(outs, r.out)]
                     ELSE RIAll(r.st, Append(outs, r.out))

RECURSIVE RdAll(_, _)
RdAll(s, outs) == IF s.cur >= Len(s.q) THEN [st |-> s, outs |-> outs]
                  ELSE LET r == DoRead(s, ProbeIds) IN RdAll(r.st, Append(outs, r.out))

Probe(s) == LET a  == DoInit(DoClose(s).st, FALSE).st
                ri == RIAll(a, <<>>)
                rd == RdAll(ri.st, <<>>)
            IN [ri |-> ri.outs, rd |-> rd.outs]

----------------------------------------------------------------------------
(* Actions = wrappers; only sequences inside the documented usage protocol *)

NoFate == [m \in 1..NMsg |-> "none"]

Init == /\ st = St0
        /\ nadd = 0
        /\ gone = {}
        /\ cQ = 0 /\ cI = 0
        /\ fate = NoFate
        /\ lastH = 0
        /\ path = <<>>
        /\ last = [op |-> "new"]

\* fates after an operation, derived from its outputs only
RECURSIVE FateDrops(_, _)
FateDrops(f, ds) == IF ds = <<>> THEN f
                    ELSE FateDrops([f EXCEPT ![Head(ds).m] = "dropped_" \o Head(ds).why], Tail(ds))
RECURSIVE FateRets(_, _)
FateRets(f, rs) == IF rs = <<>> THEN f
                   ELSE FateRets([f EXCEPT ![Head(rs).m] = IF Head(rs).pid = 0 THEN "out0" ELSE "inflight"], Tail(rs))

Count(r) == /\ cQ' = cQ + r.out.dQ
            /\ cI' = cI + r.out.dI

Add(it) ==
  /\ nadd < NMsg
  /\ LET e == [m |-> nadd + 1, kind |-> "pub", qos |-> it.qos, pid |-> 0, exp |-> it.exp, big |-> it.big]
         r == DoAdd(st, e)
         sacrificed == {r.out.drop[i].pid : i \in 1..Len(r.out.drop)} \ {0}
     IN /\ st' = r.st
        /\ nadd' = nadd + 1
        /\ gone' = gone \cup (sacrificed \cap Handed(st))
        /\ Count(r)
        /\ fate' = FateDrops([fate EXCEPT ![e.m] = "queued"], r.out.drop)
        /\ lastH' = lastH
        /\ last' = [op |-> "add", m |-> e.m, qos |-> e.qos, exp |-> e.exp, big |-> e.big, out |-> r.out]

FreeIds == Ids \ Pids(st.q)
IdSeqs(F) == {s \in UNION {[1..k -> F] : k \in 1..RdMax} : \A i, j \in 1..Len(s) : i # j => s[i] # s[j]}

Online == Offline = "addonly" => ~st.closed

Read(ids) ==
  /\ Online
  /\ st.drained /\ (st.closed \/ st.cur < Len(st.q))
  /\ LET r == DoRead(st, ids)
         given == {r.out.ret[i].pid : i \in 1..Len(r.out.ret)}
         tags == {r.out.ret[i].m : i \in 1..Len(r.out.ret)}
     IN /\ st' = r.st
        /\ gone' = gone \ given
        /\ Count(r)
        /\ fate' = FateDrops(FateRets(fate, r.out.ret), r.out.drop)
        /\ lastH' = IF tags = {} THEN lastH ELSE CHOOSE t \in tags : \A u \in tags : u <= t
        /\ last' = [op |-> "read", ids |-> ids, out |-> r.out]
  /\ UNCHANGED nadd

ReadInflight(n) ==
  /\ Online
  /\ ~st.drained
  /\ LET r == DoReadInflight(st, n)
     IN /\ st' = r.st
        /\ Count(r)
        /\ last' = [op |-> "ri", n |-> n, out |-> r.out]
  /\ UNCHANGED <<nadd, gone, fate, lastH>>

Remove(pid) ==
  /\ Online
  /\ pid \in Handed(st) \cup gone
  /\ LET r == DoRemove(st, pid)
     IN /\ st' = r.st
        /\ Count(r)
        /\ fate' = IF r.out.rm = 0 THEN fate ELSE [fate EXCEPT ![r.out.rm] = "acked"]
        /\ last' = [op |-> "rm", pid |-> pid, out |-> r.out]
  /\ gone' = gone \ {pid}
  /\ UNCHANGED <<nadd, lastH>>

\* An acknowledgement that arrives after a re-initialisation (not clean) BEFORE its in-flight entry has been replayed (a
\* client that acknowledges an identifier of its previous connection right after CONNACK; readHandle and the poller run
\* concurrently).  Two outcomes satisfy the statement: the acknowledgement is ignored (the entry is replayed, the client
\* acknowledges again), or the entry is removed and never replayed.  Nothing else may change - in particular the replay
\* of the other entries and the queued messages behind them.  eff chooses the outcome; the replayer follows the branch the
\* implementation takes.
Unreplayed(s) == IF s.drained THEN {} ELSE {s.q[i].pid : i \in (s.cur + 1)..Len(s.q)} \ {0}

RemoveEarly(pid, eff) ==
  /\ Online /\ ~st.closed
  /\ pid \in Unreplayed(st)
  /\ LET i == MinOf({j \in (st.cur + 1)..Len(st.q) : st.q[j].pid = pid})
         r == IF eff = "noop" THEN [st |-> st, out |-> Out0]
              ELSE [st |-> [st EXCEPT !.q = RemoveAt(st.q, i)], out |-> [Out0 EXCEPT !.dQ = -1, !.dI = -1, !.rm = st.q[i].m]]
     IN /\ st' = r.st
        /\ Count(r)
        /\ fate' = IF r.out.rm = 0 THEN fate ELSE [fate EXCEPT ![r.out.rm] = "acked"]
        /\ last' = [op |-> "rm", pid |-> pid, out |-> r.out, early |-> eff]
  /\ UNCHANGED <<nadd, lastH, gone>>

\* a PUBREC is only owed for a QoS 2 PUBLISH that was handed out
Replace(pid) ==
  /\ Online
  /\ \E i \in 1..st.cur : st.q[i].pid = pid /\ st.q[i].kind = "pub" /\ st.q[i].qos = 2
  /\ LET r == DoReplace(st, pid)
     IN /\ st' = r.st
        /\ Count(r)
        /\ last' = [op |-> "rep", pid |-> pid, out |-> r.out]
  /\ UNCHANGED <<nadd, gone, fate, lastH>>

\* Init is called when a client connects, i.e. after the previous connection's Close
InitOp(clean) ==
  /\ st.closed
  /\ LET r == DoInit(st, clean)
     IN /\ st' = r.st
        /\ Count(r)
        /\ fate' = IF clean THEN [m \in 1..NMsg |-> IF \E i \in 1..Len(st.q) : st.q[i].m = m THEN "cleared" ELSE fate[m]]
                   ELSE fate
        /\ last' = [op |-> "init", clean |-> clean, out |-> r.out]
  /\ gone' = {}
  /\ UNCHANGED <<nadd, lastH>>

Close ==
  /\ ~st.closed
  /\ LET r == DoClose(st)
     IN /\ st' = r.st
        /\ Count(r)
        /\ last' = [op |-> "close", out |-> r.out]
  /\ UNCHANGED <<nadd, gone, fate, lastH>>

Next == /\ \/ \E it \in Menu : Add(it)
           \/ \E ids \in IdSeqs(FreeIds) : Read(ids)
           \/ \E n \in RINs : ReadInflight(n)
           \/ \E pid \in Ids : Remove(pid)
           \/ \E pid \in Ids, eff \in {"noop", "removed"} : RemoveEarly(pid, eff)
           \/ \E pid \in Ids : Replace(pid)
           \/ \E c \in BOOLEAN : InitOp(c)
           \/ Close
        /\ path' = Append(path, last')

Spec == Init /\ [][Next]_vars

----------------------------------------------------------------------------
(* Design-level properties                                                 *)

Elems == [m : 1..NMsg, kind : {"pub", "rel"}, qos : 0..2, pid : {0} \cup Ids, exp : {"none", "past", "future"}, big : BOOLEAN]

TypeOK == /\ \A i \in 1..Len(st.q) : st.q[i] \in Elems
          /\ st.cur \in 0..Len(st.q)
          /\ nadd \in 0..NMsg
          /\ gone \subseteq Ids

\* length never exceeds the configured maximum
LenOK == Len(st.q) <= Max

\* the counters the queue reports equal its true contents
CountersOK == cQ = Len(st.q) /\ cI = Cardinality(InflightIdx(st.q))

\* in-flight entries form a prefix; nothing in front of the cursor is un-handed; ids are distinct;
\* only a PUBLISH without id can be queued; a PUBREL stems from a QoS 2 message
StructOK == /\ \A i, j \in 1..Len(st.q) : (i < j /\ st.q[j].pid # 0) => st.q[i].pid # 0
            /\ \A i \in 1..st.cur : st.q[i].pid # 0
            /\ st.drained => (\A i \in (st.cur + 1)..Len(st.q) : st.q[i].pid = 0)
            /\ \A i, j \in InflightIdx(st.q) : i # j => st.q[i].pid # st.q[j].pid
            /\ \A i \in 1..Len(st.q) :
                  /\ (st.q[i].pid = 0) => (st.q[i].kind = "pub")
                  /\ (st.q[i].kind = "rel") => (st.q[i].qos = 2)
                  /\ (st.q[i].pid # 0 /\ st.q[i].kind = "pub") => (st.q[i].qos > 0 /\ ~st.q[i].big)
            /\ gone \cap Pids(st.q) = {}

\* tags stay in insertion order inside the queue
OrderOK == \A i, j \in 1..Len(st.q) : i < j => st.q[i].m < st.q[j].m

\* conservation: every added message has exactly one fate, and the fate agrees with the contents
Where(m) == {i \in 1..Len(st.q) : st.q[i].m = m}
FateOK == \A m \in 1..NMsg :
            /\ (m > nadd) <=> (fate[m] = "none")
            /\ (fate[m] = "queued")   <=> (Cardinality(Where(m)) = 1 /\ \A i \in Where(m) : st.q[i].pid = 0)
            /\ (fate[m] = "inflight") <=> (Cardinality(Where(m)) = 1 /\ \A i \in Where(m) : st.q[i].pid # 0)
            /\ Cardinality(Where(m)) <= 1
            /\ fate[m] \in {"none", "queued", "inflight", "out0", "acked", "cleared", "dropped_full", "dropped_expired",
                            "dropped_oversize", "dropped_expired_inflight"}

\* fates only move forward
FateMoves == {<<"none", "queued">>, <<"none", "dropped_full">>,
              <<"queued", "inflight">>, <<"queued", "out0">>, <<"queued", "dropped_full">>, <<"queued", "dropped_expired">>,
              <<"queued", "dropped_oversize">>, <<"queued", "cleared">>,
              <<"inflight", "acked">>, <<"inflight", "dropped_expired_inflight">>, <<"inflight", "cleared">>}
FateForward == [][\A m \in 1..NMsg : fate[m] # fate'[m] => <<fate[m], fate'[m]>> \in FateMoves]_vars

\* an expired message is only ever dropped as expired, an oversize one never handed out, ...: reasons are truthful
ReadStepOK ==
  [][(last'.op = "read") =>
       LET o == last'.out
           ids == last'.ids
           q0 == [i \in 1..Len(o.ret) |-> o.ret[i].pid]
           given == SelectSeq(q0, LAMBDA p : p # 0)
       IN /\ Len(o.ret) <= Len(ids)                                            \* batch no larger than the id list
          /\ \A i \in 1..Len(o.ret) : o.ret[i].m > lastH                       \* FIFO across reads
          /\ \A i, j \in 1..Len(o.ret) : i < j => o.ret[i].m < o.ret[j].m      \* FIFO inside a batch
          /\ \A i \in 1..Len(o.ret) : (o.ret[i].qos = 0) <=> (o.ret[i].pid = 0)  \* ids to QoS>0 only
          /\ given = SubSeq(ids, 1, Len(given))                                \* ... in the order supplied
          /\ \A i \in 1..Len(o.ret) :                                          \* nothing expired / oversize handed out
                \E j \in 1..Len(st.q) : /\ st.q[j].m = o.ret[i].m /\ st.q[j].pid = 0
                                        /\ st.q[j].exp # "past" /\ ~st.q[j].big
          /\ \A i \in 1..Len(o.drop) :                                         \* truthful reasons
                \E j \in 1..Len(st.q) : /\ st.q[j].m = o.drop[i].m /\ st.q[j].pid = 0
                                        /\ (o.drop[i].why = "expired" => st.q[j].exp = "past")
                                        /\ (o.drop[i].why = "oversize" => (st.q[j].big /\ st.q[j].exp # "past"))
                                        /\ o.drop[i].why \in {"expired", "oversize"}]_vars

\* the ladder, stated independently of DoAdd's if-chain: what may be sacrificed given what was there
AddStepOK ==
  [][(last'.op = "add") =>
       LET o == last'.out
           q == st.q
           full == Len(q) >= Max
           frontExp == Rule1Idx(q) # {}
           Queued == QueuedIdx(q)
           anyExpQ == \E i \in Queued : q[i].exp = "past"
           anyQ0 == \E i \in Queued : q[i].qos = 0
       IN /\ (~full) => (o.drop = <<>> /\ o.dQ = 1 /\ o.dI = 0)
          /\ full =>
               (/\ Len(o.drop) = 1 /\ o.dQ = 0
                /\ LET d == o.drop[1]
                       newcomer == d.m = last'.m
                       victim == CHOOSE i \in 1..Len(q) : q[i].m = d.m
                   IN /\ frontExp => (~newcomer /\ victim = MinOf(Rule1Idx(q)) /\ q[victim].pid # 0 /\ q[victim].exp = "past"
                                       /\ d.why = "expired_inflight" /\ o.dI = -1)
                      /\ (~frontExp) =>
                           (/\ o.dI = 0
                            /\ (Queued = {}) => newcomer
                            /\ (~newcomer) => (victim \in Queued)
                            /\ (Queued # {} /\ anyExpQ) => (~newcomer /\ q[victim].exp = "past" /\ d.why = "expired")
                            /\ (Queued # {} /\ ~anyExpQ) => (d.why = "full")
                            /\ (Queued # {} /\ ~anyExpQ /\ anyQ0) => (~newcomer /\ q[victim].qos = 0)
                            /\ (Queued # {} /\ ~anyExpQ /\ ~anyQ0 /\ last'.qos = 0) => newcomer
                            /\ (Queued # {} /\ ~anyExpQ /\ ~anyQ0 /\ last'.qos # 0) => (~newcomer /\ victim = MinOf(Queued))))]_vars

\* after a re-initialisation without clean start the replay is exactly the in-flight entries with their ids, in order,
\* and everything else comes out of Read afterwards (nothing is lost or invented by the probe)
RECURSIVE Flat(_)
Flat(outs) == IF outs = <<>> THEN <<>> ELSE Head(outs).ret \o Flat(Tail(outs))
RECURSIVE FlatDrop(_)
FlatDrop(outs) == IF outs = <<>> THEN <<>> ELSE Head(outs).drop \o FlatDrop(Tail(outs))
ReplayOK ==
  LET p == Probe(st)
      rep == Flat(p.ri)
      inf == SelectSeq(st.q, LAMBDA e : e.pid # 0)
      rest == SelectSeq(st.q, LAMBDA e : e.pid = 0)
      rd == Flat(p.rd)
      dr == FlatDrop(p.rd)
      good == SelectSeq(rest, LAMBDA e : e.exp # "past" /\ ~e.big)
  IN /\ Len(rep) = Len(inf)
     /\ \A i \in 1..Len(inf) : rep[i].m = inf[i].m /\ rep[i].pid = inf[i].pid /\ rep[i].kind = inf[i].kind
     /\ Len(rd) = Len(good)
     /\ \A i \in 1..Len(good) : rd[i].m = good[i].m
     /\ Len(rd) + Len(dr) = Len(rest)

\* state-space bound for TLC (everything else is bounded by construction)
Bound == nadd <= NMsg

----------------------------------------------------------------------------
(* Transition dump for the transition-coverage replay                      *)

QView(q) == [i \in 1..Len(q) |-> [m |-> q[i].m, k |-> q[i].kind, qos |-> q[i].qos, pid |-> q[i].pid, exp |-> q[i].exp, big |-> q[i].big]]

Dump == PrintT(ToJson([pre |-> path, op |-> last', probe |-> Probe(st'),
                       post |-> [q |-> QView(st'.q), cur |-> st'.cur, drained |-> st'.drained, closed |-> st'.closed,
                                 cQ |-> cQ', cI |-> cI']]))
=============================================================================
