------------------------------- MODULE Hooks -------------------------------
(***************************************************************************)
(* Property C14: what a hook decides is what happens; hook wrappers of     *)
(* plugins compose in plugin order, first plugin outermost, exactly once.  *)
(*                                                                         *)
(* Two machines live in this module; each has its own next-state relation  *)
(* and leaves the variables of the other one untouched:                    *)
(*                                                                         *)
(*  (a) SpecC - composition.  A configuration is (hook kind, sequence of   *)
(*      distinct plugins, the plugins among them that expose a wrapper of  *)
(*      that kind, core hook present or not).  One event of the kind is    *)
(*      executed operationally, the way nested closures run: Enter the     *)
(*      wrappers from the outermost one, call the core, Exit in reverse.   *)
(*      The closed form Expected(..) = p1.pre .. pn.pre core pn.post ..    *)
(*      p1.post is what the binding compares the real call log with; TLC   *)
(*      checks that the operational run produces exactly that, every       *)
(*      exposing plugin exactly once, the first plugin outermost.          *)
(*                                                                         *)
(*  (b) SpecV - verdict enforcement.  Broker-visible state (sessions,      *)
(*      armed wills, subscriptions, retained store) and per step the       *)
(*      observable output (response packet, deliveries).  Every client     *)
(*      request carries the verdict the hook gives for it; the action      *)
(*      defines the effect the property demands.                           *)
(*                                                                         *)
(* Deviations = named known findings (the model then mirrors the code on   *)
(* exactly that point); the strict check runs with Deviations = {}.        *)
(***************************************************************************)
EXTENDS Topics, FiniteSets, TLC, Json

CONSTANT Deviations
Dev(d) == d \in Deviations

----------------------------------------------------------------------------
(* (a) composition                                                         *)

CONSTANTS Kinds,        \* the hook kinds = the fields of server.HookWrapper (without the suffix "Wrapper")
          PluginNames,  \* plugin identities
          MaxPlugins    \* longest plugin sequence

VARIABLES ccase,        \* the configuration under test
          chain,        \* wrappers that are applied for ccase.kind, outermost first
          pos,          \* number of wrappers entered and not yet left
          clog,         \* the call log: sequence of [p, ph]
          phase         \* "idle" | "down" | "up" | "done"

cvars == <<ccase, chain, pos, clog, phase>>

Range(s) == {s[i] : i \in 1..Len(s)}
DistinctSeqs(n) == {s \in [1..n -> PluginNames] : \A i, j \in 1..n : i # j => s[i] # s[j]}
Orders == UNION {DistinctSeqs(n) : n \in 0..MaxPlugins}

NoCase == [kind |-> "", order |-> <<>>, expose |-> {}, core |-> FALSE]

\* the wrappers that take part in an event of kind h: plugins in plugin order, restricted to those exposing h
Applied(h, order, expose) ==
    IF Dev("reauth_wrappers_unapplied") /\ h = "OnReAuth" THEN <<>>
    ELSE SelectSeq(order, LAMBDA p : p \in expose)

Rev(s) == [i \in 1..Len(s) |-> s[Len(s) + 1 - i]]
Tag(s, ph) == [i \in 1..Len(s) |-> [p |-> s[i], ph |-> ph]]
CoreEntry == [p |-> "core", ph |-> "call"]

\* closed form of the demanded call log
Expected(c) ==
    LET ch == Applied(c.kind, c.order, c.expose)
    IN Tag(ch, "pre") \o (IF c.core THEN <<CoreEntry>> ELSE <<>>) \o Tag(Rev(ch), "post")

Configure ==
    /\ phase = "idle"
    /\ \E h \in Kinds, o \in Orders, e \in SUBSET PluginNames, co \in BOOLEAN :
          /\ e \subseteq Range(o)
          /\ ccase' = [kind |-> h, order |-> o, expose |-> e, core |-> co]
          /\ chain' = Applied(h, o, e)
    /\ pos' = 0 /\ clog' = <<>> /\ phase' = "down"

Enter ==
    /\ phase = "down" /\ pos < Len(chain)
    /\ clog' = Append(clog, [p |-> chain[pos + 1], ph |-> "pre"])
    /\ pos' = pos + 1
    /\ UNCHANGED <<ccase, chain, phase>>

CallCore ==
    /\ phase = "down" /\ pos = Len(chain)
    /\ clog' = IF ccase.core THEN Append(clog, CoreEntry) ELSE clog
    /\ phase' = "up"
    /\ UNCHANGED <<ccase, chain, pos>>

Exit ==
    /\ phase = "up" /\ pos > 0
    /\ clog' = Append(clog, [p |-> chain[pos], ph |-> "post"])
    /\ pos' = pos - 1
    /\ UNCHANGED <<ccase, chain, phase>>

Finish ==
    /\ phase = "up" /\ pos = 0
    /\ phase' = "done"
    /\ UNCHANGED <<ccase, chain, pos, clog>>

NextCompose == Configure \/ Enter \/ CallCore \/ Exit \/ Finish

IsPrefix(s, t) == Len(s) <= Len(t) /\ \A i \in 1..Len(s) : s[i] = t[i]
Count(s, e) == Cardinality({i \in 1..Len(s) : s[i] = e})
Idx(s, e) == CHOOSE i \in 1..Len(s) : s[i] = e

ComposeTypeOK == /\ phase \in {"idle", "down", "up", "done"}
                 /\ pos \in 0..MaxPlugins
                 /\ phase = "idle" => ccase = NoCase
ComposePrefix == phase # "idle" => IsPrefix(clog, Expected(ccase))
ComposeDone   == phase = "done" => clog = Expected(ccase)
\* each hook fires exactly once per event: one pre and one post per exposing plugin, none for the others, one core call
ExactlyOnce ==
    phase = "done" =>
        /\ \A p \in PluginNames :
              LET n == IF p \in ccase.expose /\ ~(Dev("reauth_wrappers_unapplied") /\ ccase.kind = "OnReAuth") THEN 1 ELSE 0
              IN Count(clog, [p |-> p, ph |-> "pre"]) = n /\ Count(clog, [p |-> p, ph |-> "post"]) = n
        /\ Count(clog, CoreEntry) = (IF ccase.core THEN 1 ELSE 0)
\* wrappers nest in plugin order: an earlier plugin encloses a later one, the core call is innermost
WellNested ==
    phase = "done" =>
        \A i, j \in 1..Len(ccase.order) :
            LET p == ccase.order[i]
                q == ccase.order[j]
            IN (i < j /\ {p, q} \subseteq Range(chain)) =>
                  /\ Idx(clog, [p |-> p, ph |-> "pre"]) < Idx(clog, [p |-> q, ph |-> "pre"])
                  /\ Idx(clog, [p |-> q, ph |-> "pre"]) < Idx(clog, [p |-> q, ph |-> "post"])
                  /\ Idx(clog, [p |-> q, ph |-> "post"]) < Idx(clog, [p |-> p, ph |-> "post"])
                  /\ (ccase.core => /\ Idx(clog, [p |-> q, ph |-> "pre"]) < Idx(clog, CoreEntry)
                                    /\ Idx(clog, CoreEntry) < Idx(clog, [p |-> q, ph |-> "post"]))
FirstOutermost ==
    (phase = "done" /\ chain # <<>>) =>
        /\ clog[1] = [p |-> chain[1], ph |-> "pre"]
        /\ clog[Len(clog)] = [p |-> chain[1], ph |-> "post"]
        /\ \A i \in 1..Len(ccase.order) : ccase.order[i] = chain[1] =>
              \A j \in 1..(i - 1) : ccase.order[j] \notin ccase.expose

\* one line per completed event
DumpCompose ==
    (phase = "up" /\ phase' = "done") =>
        PrintT(ToJson([case |-> "compose", kind |-> ccase.kind, order |-> ccase.order,
                       expose |-> [i \in 1..Len(ccase.order) |-> ccase.order[i] \in ccase.expose],
                       core |-> ccase.core, log |-> clog]))

----------------------------------------------------------------------------
(* (b) verdict enforcement                                                 *)

CONSTANTS Ver,         \* protocol version of the subject clients: 4 or 5
          Clients,     \* subject client ids
          TopicSet,    \* {[n, lv]}: every topic name that can occur (requests, rewrites, wills)
          FilterSet,   \* {[n, lv]}: filters the subjects use
          ObsFilter,   \* [n, lv]: the filter of the independent observer "obs" (QoS 2, always online)
          Obs2Filter,  \* [n, lv]: the narrow filter of a second observer "obs2" (QoS 2, always online): it makes the ROUTING
                       \* of a message whose topic a hook rewrote observable (the wide observer sees every topic)
          Swap,        \* function on topic / filter names: the name a rewriting verdict moves to
          WillSet,     \* wills a CONNECT can carry (records [has, t, p, q]), incl. NoWill
          PubReqs,     \* messages [t, p, q, r] a subject publishes (p = "" clears)
          SubReqs,     \* sequences of [f, q]: the SUBSCRIBE packets
          UnsubReqs,   \* sequences of filter names: the UNSUBSCRIBE packets
          AuthModes,   \* "basic" | "enhanced" | "enhanced2" (verdict given at the AUTH continuation)
          ConnCodes, SubCodes, UnsubCodes, PubCodes,   \* reason codes of rejecting verdicts; 256 = an error that is no *codes.Error
          MaxDepth     \* longest history (a transition is emitted for every prefix shorter than this)

VARIABLES sess,        \* [Clients -> "none" | "online" | "offline"]
          persist,     \* [Clients -> BOOLEAN]: the session of the current connection outlives it
          will,        \* [Clients -> will record]: the armed will of the current connection
          subs,        \* set of [c, f, q]; (c, f) is a key
          ret,         \* set of [t, p, q]; t is a key
          path,        \* bookkeeping (hidden by VIEW)
          last         \* bookkeeping (hidden by VIEW): last request, its verdict, the demanded response and deliveries

bvars == <<sess, persist, will, subs, ret>>
vview == bvars
vars == <<cvars, bvars, path, last>>

NoWill == [has |-> FALSE, t |-> "", p |-> "", q |-> 0]
NoResp == [t |-> "none"]
Wire(code) == IF code = 256 THEN 128 ELSE code

TopicLv(n)  == (CHOOSE x \in TopicSet : x.n = n).lv
FilterLv(n) == (CHOOSE x \in FilterSet \cup {ObsFilter, Obs2Filter} : x.n = n).lv
Matches(f, t) == Match(FilterLv(f), TopicLv(t))

SubsOf(S, c) == {s \in S : s.c = c}
OnlineSet == {c \in Clients : sess[c] = "online"}

\* deliveries that forwarding message e causes: the observer and every online subscriber with a matching filter
\* (rt = the topic name the routing looks at; the demanded behaviour is rt = e.t)
ForwardBy(rt, e, S, on) ==
    (IF Matches(ObsFilter.n, rt) THEN {[to |-> "obs", t |-> e.t, p |-> e.p, q |-> e.q]} ELSE {})
    \cup (IF Matches(Obs2Filter.n, rt) THEN {[to |-> "obs2", t |-> e.t, p |-> e.p, q |-> e.q]} ELSE {})
    \* the federation plugin (outermost wrapper) has one peer that announced "#": whatever is forwarded at all is queued
    \* for that peer too, exactly as the inner hooks left it - and nothing that they rejected or dropped
    \cup {[to |-> "fed", t |-> e.t, p |-> e.p, q |-> e.q]}
    \cup {[to |-> s.c, t |-> e.t, p |-> e.p, q |-> Min(s.q, e.q)] : s \in {x \in S : x.c \in on /\ Matches(x.f, rt)}}
Forward(e, S, on) == ForwardBy(e.t, e, S, on)

RetSet(R, e) == {x \in R : x.t # e.t} \cup (IF e.p = "" THEN {} ELSE {[t |-> e.t, p |-> e.p, q |-> e.q]})

RejectV(codes) == {[k |-> "reject", code |-> c] : c \in codes}

(* ---- CONNECT ---- *)
ConnVerdicts == {[k |-> "accept"]} \cup RejectV(ConnCodes)

Connect(c, clean, w, am, v) ==
    /\ v.k = "accept" => sess[c] # "online"          \* take-over is not this property; a rejected CONNECT may hit an online id
    /\ IF v.k = "accept"
       THEN /\ sess' = [sess EXCEPT ![c] = "online"]
            /\ persist' = [persist EXCEPT ![c] = ~clean]
            /\ will' = [will EXCEPT ![c] = w]
            /\ subs' = IF clean THEN subs \ SubsOf(subs, c) ELSE subs
            /\ ret' = ret
            /\ last' = [op |-> "connect", c |-> c, clean |-> clean, will |-> w, auth |-> am, v |-> v, dlv |-> {},
                        resp |-> [t |-> "connack", ok |-> TRUE, sp |-> (~clean /\ sess[c] = "offline"), code |-> 0]]
       ELSE /\ UNCHANGED bvars
            /\ last' = [op |-> "connect", c |-> c, clean |-> clean, will |-> w, auth |-> am, v |-> v, dlv |-> {},
                        resp |-> [t |-> "connack", ok |-> FALSE, sp |-> FALSE, code |-> Wire(v.code)]]

(* ---- DISCONNECT / abnormal end ---- *)
EndSession(c) ==
    /\ sess' = [sess EXCEPT ![c] = IF persist[c] THEN "offline" ELSE "none"]
    /\ persist' = [persist EXCEPT ![c] = FALSE]
    /\ will' = [will EXCEPT ![c] = NoWill]
    /\ subs' = IF persist[c] THEN subs ELSE subs \ SubsOf(subs, c)
    /\ ret' = ret

Disconnect(c) ==
    /\ sess[c] = "online"
    /\ EndSession(c)
    /\ last' = [op |-> "disconnect", c |-> c, resp |-> NoResp, dlv |-> {}]

WillMsg(w) == [t |-> w.t, p |-> w.p, q |-> w.q]
WillEdits(w) == {[w EXCEPT !.p = "wx"], [w EXCEPT !.t = Swap[w.t]], [w EXCEPT !.q = (w.q + 1) % 3]}
WillVerdicts(w) ==
    IF ~w.has THEN {[k |-> "nowill"]}
    ELSE {[k |-> "keep"], [k |-> "drop"]}
         \cup {[k |-> "edit", how |-> h, m |-> m] : h \in {"inplace", "replace"}, m \in WillEdits(w)}

Abort(c, wv) ==
    /\ sess[c] = "online"
    /\ LET w == will[c]
           eff == CASE wv.k = "nowill" -> NoWill
                    [] wv.k = "keep"   -> w
                    [] wv.k = "drop"   -> NoWill
                    [] wv.k = "edit"   -> IF Dev("will_replace_ignored") /\ wv.how = "replace" THEN w ELSE wv.m
       IN last' = [op |-> "abort", c |-> c, v |-> wv, resp |-> NoResp,
                   dlv |-> IF eff.has THEN Forward(WillMsg(eff), subs, OnlineSet \ {c}) ELSE {}]
    /\ EndSession(c)

(* ---- SUBSCRIBE ---- *)
TopicSubVerdicts(item) == {[k |-> "ok"]} \cup {[k |-> "err", code |-> x] : x \in SubCodes}
                          \cup {[k |-> "grant", q |-> g] : g \in 0..(item.q - 1)}
SubVerdicts(items) ==
    {[k |-> "accept"]} \cup RejectV(SubCodes)
    \cup {[k |-> "topic", tv |-> tv] :
            tv \in {x \in [1..Len(items) -> UNION {TopicSubVerdicts(items[i]) : i \in 1..Len(items)}] :
                      /\ \A i \in 1..Len(items) : x[i] \in TopicSubVerdicts(items[i])
                      /\ \E i \in 1..Len(items) : x[i].k # "ok"}}

SubFail(code) == IF Ver = 5 THEN Wire(code) ELSE 128
Granted(items, v, i) ==
    CASE v.k = "accept" -> [ok |-> TRUE, q |-> items[i].q, code |-> items[i].q]
      [] v.k = "reject" -> [ok |-> FALSE, q |-> 0, code |-> SubFail(v.code)]
      [] v.k = "topic"  -> LET x == v.tv[i]
                           IN CASE x.k = "ok"    -> [ok |-> TRUE, q |-> items[i].q, code |-> items[i].q]
                                [] x.k = "err"   -> [ok |-> FALSE, q |-> 0, code |-> SubFail(x.code)]
                                [] x.k = "grant" -> [ok |-> TRUE, q |-> x.q, code |-> x.q]

Subscribe(c, items, v) ==
    /\ sess[c] = "online"
    /\ LET G(i) == Granted(items, v, i)
           okI == {i \in 1..Len(items) : G(i).ok}
       IN /\ subs' = {s \in subs : ~(s.c = c /\ \E i \in okI : items[i].f = s.f)}
                     \cup {[c |-> c, f |-> items[i].f, q |-> G(i).q] : i \in okI}
          /\ last' = [op |-> "subscribe", c |-> c, items |-> items, v |-> v,
                      resp |-> [t |-> "suback", codes |-> [i \in 1..Len(items) |-> G(i).code]],
                      \* retained messages are replayed to the installed subscriptions, at the granted QoS
                      dlv |-> UNION {{[to |-> c, t |-> x.t, p |-> x.p, q |-> Min(G(i).q, x.q)] :
                                         x \in {y \in ret : Matches(items[i].f, y.t)}} : i \in okI}]
    /\ UNCHANGED <<sess, persist, will, ret>>

(* ---- UNSUBSCRIBE ---- *)
TopicUnsubVerdicts(f) == {[k |-> "ok"]} \cup {[k |-> "err", code |-> x] : x \in UnsubCodes}
                         \cup {[k |-> "retarget", f |-> Swap[f]]}
UnsubVerdicts(fs) ==
    {[k |-> "accept"]} \cup RejectV(UnsubCodes)
    \cup {[k |-> "topic", tv |-> tv] :
            tv \in {x \in [1..Len(fs) -> UNION {TopicUnsubVerdicts(fs[i]) : i \in 1..Len(fs)}] :
                      /\ \A i \in 1..Len(fs) : x[i] \in TopicUnsubVerdicts(fs[i])
                      /\ \E i \in 1..Len(fs) : x[i].k # "ok"}}

Removed(fs, v, i) ==
    CASE v.k = "accept" -> [ok |-> TRUE, f |-> fs[i], code |-> 0]
      [] v.k = "reject" -> [ok |-> FALSE, f |-> fs[i], code |-> Wire(v.code)]
      [] v.k = "topic"  -> LET x == v.tv[i]
                           IN CASE x.k = "ok"       -> [ok |-> TRUE, f |-> fs[i], code |-> 0]
                                [] x.k = "err"      -> [ok |-> FALSE, f |-> fs[i], code |-> Wire(x.code)]
                                [] x.k = "retarget" -> [ok |-> TRUE, f |-> x.f, code |-> 0]

Unsubscribe(c, fs, v) ==
    /\ sess[c] = "online"
    /\ LET U(i) == Removed(fs, v, i)
       IN /\ subs' = {s \in subs : ~(s.c = c /\ \E i \in 1..Len(fs) : U(i).ok /\ U(i).f = s.f)}
          /\ last' = [op |-> "unsubscribe", c |-> c, fs |-> fs, v |-> v, dlv |-> {},
                      resp |-> [t |-> "unsuback", codes |-> [i \in 1..Len(fs) |-> U(i).code]]]
    /\ UNCHANGED <<sess, persist, will, ret>>

(* ---- PUBLISH ---- *)
Rewrites(m) == {[m EXCEPT !.t = Swap[m.t]], [m EXCEPT !.p = "px"], [m EXCEPT !.q = (m.q + 1) % 3],
                [m EXCEPT !.r = ~m.r], [t |-> Swap[m.t], p |-> "px", q |-> (m.q + 2) % 3, r |-> ~m.r]}
\* how the hook rewrites: "inplace" edits *req.Message, "replace" sets req.Message to a new message, "full" also
\* points req.IterationOptions.TopicName at the new topic (only meaningful when the topic changes)
PubVerdicts(m) == {[k |-> "accept"], [k |-> "drop"]} \cup RejectV(PubCodes)
                  \cup {[k |-> "rewrite", how |-> h, m |-> x] : h \in {"inplace", "replace"}, x \in Rewrites(m)}
                  \cup {[k |-> "rewrite", how |-> "full", m |-> x] : x \in {y \in Rewrites(m) : y.t # m.t}}

Publish(c, m, v) ==
    /\ sess[c] = "online"
    /\ LET eff == CASE v.k = "accept"  -> [has |-> TRUE, m |-> m]
                    [] v.k = "rewrite" -> [has |-> TRUE, m |-> v.m]
                    [] OTHER           -> [has |-> FALSE, m |-> m]
           \* known finding: the code updates the retained store from the packet before the hook has spoken
           src == IF Dev("retained_before_hook") THEN [has |-> TRUE, m |-> m] ELSE eff
       IN /\ ret' = IF src.has /\ src.m.r THEN RetSet(ret, src.m) ELSE ret
          /\ last' = [op |-> "publish", c |-> c, m |-> m, v |-> v,
                      \* known finding: the routing looks at the topic of the packet unless the hook also moved IterationOptions
                      dlv |-> IF ~eff.has THEN {}
                              ELSE IF Dev("rewrite_routed_by_packet_topic") /\ v.k = "rewrite" /\ v.how # "full"
                                   THEN ForwardBy(m.t, eff.m, subs, OnlineSet)
                                   ELSE Forward(eff.m, subs, OnlineSet),
                      resp |-> IF m.q = 0 THEN NoResp
                               ELSE [t |-> IF m.q = 1 THEN "puback" ELSE "pubrec", ok |-> v.k # "reject",
                                     code |-> IF v.k = "reject" THEN Wire(v.code) ELSE 0]]
    /\ UNCHANGED <<sess, persist, will, subs>>

\* the history keeps what the replayer needs to repeat a step: the request and its verdict
Request(l) == [x \in DOMAIN l \ {"resp", "dlv"} |-> l[x]]

NextVerdict ==
    /\ Len(path) < MaxDepth
    /\ \/ \E c \in Clients, clean \in BOOLEAN, w \in WillSet, am \in AuthModes, v \in ConnVerdicts : Connect(c, clean, w, am, v)
       \/ \E c \in Clients : Disconnect(c)
       \/ \E c \in Clients : \E wv \in WillVerdicts(will[c]) : Abort(c, wv)
       \/ \E c \in Clients, items \in SubReqs : \E v \in SubVerdicts(items) : Subscribe(c, items, v)
       \/ \E c \in Clients, fs \in UnsubReqs : \E v \in UnsubVerdicts(fs) : Unsubscribe(c, fs, v)
       \/ \E c \in Clients, m \in PubReqs : \E v \in PubVerdicts(m) : Publish(c, m, v)
    /\ path' = Append(path, Request(last'))

(* design-level properties of (b) *)
VerdictTypeOK ==
    /\ sess \in [Clients -> {"none", "online", "offline"}]
    /\ persist \in [Clients -> BOOLEAN]
    /\ \A c \in Clients : sess[c] # "online" => (will[c] = NoWill /\ ~persist[c])
    /\ \A c \in Clients : sess[c] = "none" => SubsOf(subs, c) = {}
    /\ \A s1, s2 \in subs : (s1.c = s2.c /\ s1.f = s2.f) => s1 = s2
    /\ \A r1, r2 \in ret : r1.t = r2.t => r1 = r2
    /\ \A r \in ret : r.p # ""

IsRejected(l) == l.op \in {"connect", "subscribe", "unsubscribe", "publish"} /\ l.v.k \in {"reject", "drop"}

\* a rejected (dropped) request changes nothing and reaches nobody; a rejection is reported as a failure
RejectLeavesNoTrace ==
    [][IsRejected(last') =>
          /\ bvars' = bvars
          /\ last'.dlv = {}
          /\ (last'.v.k = "reject" /\ last'.op = "connect") => (~last'.resp.ok /\ last'.resp.code >= 128)
          /\ (last'.v.k = "reject" /\ last'.op = "subscribe") => \A i \in DOMAIN last'.resp.codes : last'.resp.codes[i] >= 128
          /\ (last'.v.k = "reject" /\ last'.op = "unsubscribe") => \A i \in DOMAIN last'.resp.codes : last'.resp.codes[i] >= 128
          /\ (last'.v.k = "reject" /\ last'.op = "publish" /\ last'.m.q > 0) => (~last'.resp.ok /\ last'.resp.code >= 128)
      ]_vars

\* the rewritten message, and nothing else, is what subscribers and the retained store see
RewriteIsWhatIsSeen ==
    [][(last'.op = "publish" /\ last'.v.k = "rewrite") =>
          LET m2 == last'.v.m
          IN /\ \A d \in last'.dlv : d.t = m2.t /\ d.p = m2.p /\ d.q <= m2.q
             /\ Matches(ObsFilter.n, m2.t) => [to |-> "obs", t |-> m2.t, p |-> m2.p, q |-> m2.q] \in last'.dlv
             /\ \A s \in subs : (s.c \in OnlineSet /\ Matches(s.f, m2.t)) => \E d \in last'.dlv : d.to = s.c
             /\ Matches(Obs2Filter.n, m2.t) <=> [to |-> "obs2", t |-> m2.t, p |-> m2.p, q |-> m2.q] \in last'.dlv
             /\ \A d \in last'.dlv : d.to \notin {"obs", "obs2", "fed"} => \E s \in subs : s.c = d.to /\ Matches(s.f, m2.t)
             /\ (m2.r /\ m2.p # "") => [t |-> m2.t, p |-> m2.p, q |-> m2.q] \in ret'
             /\ (m2.r /\ m2.p = "") => ~\E x \in ret' : x.t = m2.t
             /\ ~m2.r => ret' = ret
             /\ {x \in ret' : x.t # m2.t} = {x \in ret : x.t # m2.t}
      ]_vars

\* SUBACK tells the truth: a granted QoS is installed, a failure code leaves the old subscription as it was
SubackTellsTruth ==
    [][last'.op = "subscribe" =>
          \A i \in 1..Len(last'.items) :
             LET code == last'.resp.codes[i]
                 key(S) == {s \in S : s.c = last'.c /\ s.f = last'.items[i].f}
             IN /\ code < 128 => key(subs') = {[c |-> last'.c, f |-> last'.items[i].f, q |-> code]}
                /\ code >= 128 => key(subs') = key(subs)
                /\ code <= last'.items[i].q \/ code >= 128
                /\ \A d \in last'.dlv : d.to = last'.c /\ \E s \in subs' : s.c = d.to /\ Matches(s.f, d.t) /\ d.q <= s.q
      ]_vars

UnsubackTellsTruth ==
    [][last'.op = "unsubscribe" =>
          /\ subs' \subseteq subs
          /\ \A i \in 1..Len(last'.fs) :
                last'.resp.codes[i] >= 128 =>
                   (last'.v.k = "reject" \/ last'.v.tv[i].k = "err")
          /\ last'.v.k = "accept" => ~\E s \in subs' : s.c = last'.c /\ s.f \in Range(last'.fs)
      ]_vars

\* the will that is published is the one the hook left in the request
WillVerdictEnforced ==
    [][last'.op = "abort" =>
          CASE last'.v.k \in {"drop", "nowill"} -> last'.dlv = {}
            [] last'.v.k = "keep" -> \A d \in last'.dlv : d.t = will[last'.c].t /\ d.p = will[last'.c].p
            [] last'.v.k = "edit" -> /\ \A d \in last'.dlv : d.t = last'.v.m.t /\ d.p = last'.v.m.p /\ d.q <= last'.v.m.q
                                     /\ Matches(ObsFilter.n, last'.v.m.t) => \E d \in last'.dlv : d.to = "obs"
                                     /\ Matches(Obs2Filter.n, last'.v.m.t) <=> \E d \in last'.dlv : d.to = "obs2"
      ]_vars

Proj(se, wi, su, re) == [sess |-> se, will |-> wi, subs |-> su, ret |-> re]

DumpVerdict == PrintT(ToJson([case |-> "verdict", pre |-> path, op |-> last',
                              st0 |-> Proj(sess, will, subs, ret), st |-> Proj(sess', will', subs', ret')]))

\* the subjects' filters never match a will topic (a will is never queued for its own offline session)
ASSUME \A w \in WillSet : w.has =>
          \A f \in FilterSet : ~Match(f.lv, TopicLv(w.t)) /\ ~Match(f.lv, TopicLv(Swap[w.t]))

----------------------------------------------------------------------------
Init ==
    /\ ccase = NoCase /\ chain = <<>> /\ pos = 0 /\ clog = <<>> /\ phase = "idle"
    /\ sess = [c \in Clients |-> "none"]
    /\ persist = [c \in Clients |-> FALSE]
    /\ will = [c \in Clients |-> NoWill]
    /\ subs = {} /\ ret = {}
    /\ path = <<>> /\ last = [op |-> "init"]

SpecC == Init /\ [][NextCompose /\ UNCHANGED <<bvars, path, last>>]_vars
SpecV == Init /\ [][NextVerdict /\ UNCHANGED cvars]_vars
=============================================================================
