------------------------------ MODULE BrokerOp ------------------------------
(***************************************************************************)
(* Design-level check of the delivery rules (C01, C07 replay, C11, C04):   *)
(* an OPERATIONAL model of what the broker does - per-session FIFO queues, *)
(* a publication handled the way server.deliverMessage handles it (iterate *)
(* the matching subscriptions; overlap: one enqueue per subscription;      *)
(* onlyonce: accumulate the maximal-QoS subscription and all identifiers   *)
(* per client, then flush; shared: group by full filter, pick one member)  *)
(* - runs against the DECLARATIVE obligations of Broker.tla.  Every packet *)
(* the operational side emits must be explained by an obligation           *)
(* (invariant HeadExplained), and whenever all queues are empty nothing    *)
(* may be left owed (invariant DrainedMeansQuiet).  The two sides are      *)
(* written independently, so the check is not a tautology.                 *)
(***************************************************************************)
EXTENDS Broker, Sequences

CONSTANTS CIDs,        \* client ids
          FilterPool,  \* set of [n, share, lv, sys]
          TopicPool,   \* set of [topic, lv, sys]
          OptPool,     \* set of [qos, nl, rap, rh, id]
          MaxPubs, MaxSubsPerClient, MaxSubOps, PubQos, ModeC, QQ0

VARIABLES q,      \* operational: client id |-> sequence of queued copies [tag, topic, qos, retain, ids]
          npid    \* operational: next packet id per client

ovars == <<q, npid>>
allvars == <<bvars, q, npid>>

Conf == [mode |-> ModeC, qq0 |-> QQ0, maxinflight |-> 100, sessexpiry |-> 100, srvrecvmax |-> 100, srvaliasmax |-> 10, srvmaxpkt |-> 1000000, msgexpiry |-> 0, maxqueued |-> 1000, hooks |-> FALSE, anydisc |-> FALSE]

Numbering == CHOOSE f \in [CIDs -> 1..Cardinality(CIDs)] : \A a, b \in CIDs : a # b => f[a] # f[b]
N(c) == Numbering[c]


\* both delivery-rule dimensions that depend on the connection are covered by fixing the versions: the first
\* client (in the numbering) speaks MQTT 5, the others 3.1.1; all are connected from the start (session
\* life-cycle interleavings are the business of Session.tla, not of this model)
VerOf(c) == IF Numbering[c] = 1 THEN 5 ELSE 4

OInit == /\ cfg = Conf
         /\ subs = {} /\ owed = <<>> /\ gowed = {} /\ ctl = <<>> /\ ret = <<>> /\ unack = <<>> /\ infl = <<>> /\ last = <<>>
         /\ ctr = [pub |-> 0, oid |-> 0]
         /\ aux = [wills |-> <<>>, reg |-> <<>>, closedc |-> {}, srvended |-> {}, sockc |-> {}, nreg |-> 0]
         /\ conn = [k \in 1..Cardinality(CIDs) |->
                     LET c == CHOOSE d \in CIDs : Numbering[d] = k IN
                     [cid |-> c, ver |-> VerOf(c), st |-> "up", clean |-> TRUE, recvmax |-> 0, expiry |-> 0, sawfresh |-> FALSE,
                      maxpkt |-> 0, aliasmax |-> 0, open |-> 0, aliasin |-> <<>>, dying |-> {}, disc |-> FALSE, will |-> NoWill, addr |-> "", t0 |-> 0, force |-> FALSE, resumed |-> FALSE, regseq |-> 0, bye |-> [has |-> FALSE, code |-> 0, exp |-> 0 - 1]]]
         /\ sess = [c \in CIDs |-> [online |-> Numbering[c], ver |-> VerOf(c), expireAt |-> 0]]
         /\ q = [c \in CIDs |-> <<>>]
         /\ npid = [c \in CIDs |-> 1]

----------------------------------------------------------------------------
\* operational enqueue, as addMsgToQueueLocked does it
Copy(m, sub, ids) == [tag |-> m.tag, topic |-> m.topic, qos |-> Min(m.qos, sub.o.qos),
                      retain |-> m.retain /\ sub.o.rap, ids |-> ids]

\* ghost identity of a queued copy (which obligation it is meant to discharge): only used by the refinement
\* mapping below, never by the operational rules
\* (fields gkey, gkind appended in AppendAll)

OnlineOp(c) == c \in DOMAIN sess /\ sess[c].online # 0
KeepsOp(c, qos) == OnlineOp(c) \/ qos > 0 \/ QQ0

\* all ways to append the copies of set S (records [c, cp]) to the queues - the map iteration order is free
RECURSIVE AppendAll(_, _)
AppendAll(Q, S) ==
  IF S = {} THEN {Q}
  ELSE UNION {AppendAll([Q EXCEPT ![x.c] = Append(@, x.cp @@ [gkey |-> x.key, gkind |-> x.kind, gidx |-> x.idx])], S \ {x}) : x \in S}

\* the set of possible (queues) results of handling publication m from src
OpPublish(src, m) ==
  LET hits == {s \in subs : s.share = "" /\ Match(s.lv, m.lv) /\ ~(s.o.nl /\ s.c = src) /\ s.c \in CIDs}
      \* overlap: one copy per matching subscription
      ov == {[c |-> s.c, key |-> s.n, kind |-> "live", idx |-> ctr.pub + 1, cp |-> Copy(m, s, IF s.o.id = 0 THEN <<>> ELSE <<s.o.id>>)] : s \in hits}
      \* onlyonce: per client the subscription of maximal QoS that the iteration happens to keep, all ids
      cl == {s.c : s \in hits}
      oo == {f \in [cl -> hits] : \A c \in cl : f[c].c = c /\ \A s \in hits : s.c = c => s.o.qos <= f[c].o.qos}
      idseq(c) == LET I == {s.o.id : s \in {x \in hits : x.c = c}} \ {0} IN
                  CHOOSE sq \in [1..Cardinality(I) -> I] : \A i, j \in 1..Cardinality(I) : i # j => sq[i] # sq[j]
      grp == {<<s.share, s.n>> : s \in {x \in subs : x.share # "" /\ Match(x.lv, m.lv)}}
      picks == {f \in [grp -> subs] : \A g \in grp : f[g].share = g[1] /\ f[g].n = g[2]}
      shared(f) == {[c |-> f[g].c, key |-> f[g].n, kind |-> "group", idx |-> ctr.pub + 1, cp |-> Copy(m, f[g], IF f[g].o.id = 0 THEN <<>> ELSE <<f[g].o.id>>)] : g \in grp}
      nonshared == IF ModeC = "overlap" THEN {ov}
                   ELSE {{[c |-> c, key |-> "", kind |-> "live", idx |-> ctr.pub + 1, cp |-> Copy(m, f[c], idseq(c))] : c \in cl} : f \in oo}
  IN UNION {UNION {AppendAll(q, {x \in ns \cup shared(f) : KeepsOp(x.c, x.cp.qos)}) : f \in picks} : ns \in nonshared}

----------------------------------------------------------------------------
\* environment + broker steps.  Connections: client c uses connection number Num(c) once (no reconnects here).
DoConnect(c, ver) ==
  /\ N(c) \notin DOMAIN conn
  /\ LET cn == Put(conn, N(c), [cid |-> c, ver |-> ver, st |-> "up", clean |-> TRUE, recvmax |-> 0, expiry |-> 0, sawfresh |-> FALSE,
                      maxpkt |-> 0, aliasmax |-> 0, open |-> 0, aliasin |-> <<>>, dying |-> {}, disc |-> FALSE, will |-> NoWill, addr |-> "", t0 |-> 0, force |-> FALSE, resumed |-> FALSE, regseq |-> 0, bye |-> [has |-> FALSE, code |-> 0, exp |-> 0 - 1]]) IN conn' = cn
  /\ sess' = Put(sess, c, [online |-> N(c), ver |-> ver, expireAt |-> 0])
  /\ UNCHANGED <<cfg, subs, owed, gowed, ctl, ret, unack, infl, last, ctr, aux, q, npid>>

DoSubscribe(c, f, o) ==
  /\ Up(N(c))
  /\ (conn[N(c)].ver = 5 \/ (o.rh = 0 /\ ~o.nl /\ ~o.rap /\ o.id = 0 /\ f.share = ""))
  /\ (Cardinality({s \in subs : s.c = c}) < MaxSubsPerClient \/ \E s \in subs : s.c = c /\ s.n = f.n)
  /\ Subscribe(N(c), 1, o.id, <<[n |-> f.n, share |-> f.share, lv |-> f.lv, sys |-> f.sys, qos |-> o.qos, nl |-> o.nl, rap |-> o.rap, rh |-> o.rh]>>)
  \* operational: replay retained messages into the queue (the code's rule: not shared, and (new and rh # 2) or rh = 0)
  /\ LET existed == \E s \in subs : s.c = c /\ s.n = f.n
         rp == IF f.share # "" \/ ~((~existed /\ o.rh # 2) \/ o.rh = 0) THEN {}
               ELSE {t \in DOMAIN ret : Match(f.lv, ret[t].lv)}
         cps == {[c |-> c, key |-> f.n, kind |-> "ret", idx |-> 0 - ctr.oid, cp |-> [tag |-> ret[t].tag, topic |-> t, qos |-> Min(ret[t].qos, o.qos), retain |-> TRUE, ids |-> <<>>]] : t \in rp}
     IN q' \in AppendAll(q, cps)
  /\ UNCHANGED npid

DoUnsubscribe(c, f) ==
  /\ Up(N(c))
  /\ Unsubscribe(N(c), 1, <<f.n>>)
  /\ UNCHANGED ovars

DoPublish(c, t, qos, retain, empty) ==
  LET m == [topic |-> t.topic, lv |-> t.lv, sys |-> t.sys, qos |-> qos, retain |-> retain, empty |-> empty,
            tag |-> ctr.pub + 1, pid |-> 0, dup |-> FALSE, alias |-> 0, notopic |-> FALSE, size |-> 10, fsize |-> 10, msgexp |-> 0, big |-> FALSE, ms |-> 0, props |-> ""] IN
  /\ Up(N(c))
  /\ ctr.pub < MaxPubs
  /\ Publication(c, m) /\ RetainUpdate(m)
  /\ q' \in OpPublish(c, m)
  /\ UNCHANGED <<cfg, subs, conn, sess, ctl, unack, infl, last, npid, aux>>

DoApiPublish(t, qos, retain) ==
  LET m == [topic |-> t.topic, lv |-> t.lv, sys |-> t.sys, qos |-> qos, retain |-> retain, empty |-> FALSE,
            tag |-> ctr.pub + 1, pid |-> 0, dup |-> FALSE, alias |-> 0, notopic |-> FALSE, size |-> 10, fsize |-> 10, msgexp |-> 0, big |-> FALSE, ms |-> 0, props |-> ""] IN
  /\ ctr.pub < MaxPubs
  /\ Publication(API, m)
  /\ q' \in OpPublish(API, m)
  /\ UNCHANGED <<cfg, subs, conn, sess, ctl, ret, unack, infl, last, npid, aux>>

\* what the head of c's queue looks like on the wire
HeadPkt(c) == LET h == Head(q[c]) IN
  [topic |-> h.topic, tag |-> h.tag, qos |-> h.qos, retain |-> h.retain, dup |-> FALSE,
   pid |-> IF h.qos = 0 THEN 0 ELSE npid[c],
   ids |-> IF conn[N(c)].ver = 5 THEN h.ids ELSE <<>>, size |-> 10, alias |-> 0, msgexp |-> 0 - 1, big |-> FALSE, ms |-> 0, props |-> ""]

\* refinement mapping: the obligation(s) the head copy of c's queue is meant to discharge
TargetOwed(c) == LET h == Head(q[c]) IN
  {ob \in Owed(c) : ob.tag = h.tag /\ ob.topic = h.topic /\ ob.key = h.gkey /\ ob.idx = h.gidx /\ ((ob.src = RET) <=> (h.gkind = "ret"))}
TargetGroup(c) == LET h == Head(q[c]) IN
  {g \in gowed : g.tag = h.tag /\ g.n = h.gkey /\ g.idx = h.gidx /\ \E mb \in g.members : mb.c = c}

\* the broker writes the head of c's queue: it discharges exactly the obligation it was queued for
DoSend(c) ==
  LET k == N(c)
      p == HeadPkt(c)
      h == Head(q[c])
      track == IF p.qos > 0 THEN Put(infl, c, Infl(c) \cup {[pid |-> p.pid, tag |-> p.tag, phase |-> "pub", qos |-> p.qos]}) ELSE infl IN
  /\ Up(k) /\ q[c] # <<>>
  /\ IF h.gkind = "group"
       THEN \E g \in TargetGroup(c) :
              /\ gowed' = gowed \ {g}
              /\ last' = Put(last, <<c, g.src>>, Max(g.idx, Get(last, <<c, g.src>>, 0)))
              /\ UNCHANGED owed
       ELSE \E ob \in TargetOwed(c) :
              /\ owed' = [owed EXCEPT ![c] = @ \ {ob}]
              /\ last' = IF ob.src = RET THEN last ELSE Put(last, <<c, ob.src>>, Max(ob.idx, Get(last, <<c, ob.src>>, 0)))
              /\ UNCHANGED gowed
  /\ infl' = infl   \* the client acknowledges at once (packet-id bookkeeping is Outbound.tla's business)
  /\ q' = [q EXCEPT ![c] = Tail(@)]
  /\ npid' = [npid EXCEPT ![c] = IF h.qos = 0 THEN @ ELSE @ + 1]
  /\ UNCHANGED <<cfg, subs, conn, sess, ctl, ret, unack, ctr, aux>>

DoAck(c) ==
  /\ Up(N(c)) /\ Infl(c) # {}
  /\ \E e \in Infl(c) : ClientAck(N(c), IF e.qos = 1 THEN "puback" ELSE "pubcomp", e.pid, 0)
  /\ UNCHANGED ovars

ONext ==
  \/ \E c \in CIDs, f \in FilterPool, o \in OptPool : DoSubscribe(c, f, o)
  \/ \E c \in CIDs, f \in FilterPool : DoUnsubscribe(c, f)
  \/ \E c \in CIDs, t \in TopicPool, qos \in PubQos, r \in BOOLEAN : DoPublish(c, t, qos, r, FALSE)
  \/ \E c \in CIDs, t \in TopicPool : DoPublish(c, t, 0, TRUE, TRUE)
  \/ \E t \in TopicPool, qos \in PubQos : DoApiPublish(t, qos, FALSE)
  \/ \E c \in CIDs : DoSend(c)

OSpec == OInit /\ [][ONext]_allvars

----------------------------------------------------------------------------
\* every packet the operational broker is about to write is one the declarative specification explains
HeadExplained == \A c \in CIDs : (Up(N(c)) /\ q[c] # <<>>) =>
   LET k == N(c)  p == HeadPkt(c) IN
   /\ PidOK(c, p)
   /\ IF Head(q[c]).gkind = "group"
        THEN \E g \in TargetGroup(c) : \E mb \in g.members : FitsGroup(c, k, g, mb, p)
        ELSE \E ob \in TargetOwed(c) : FitsOwed(c, k, ob, p)

\* when every queue is empty nothing is owed any more (nothing was lost) - and nothing extra was queued
DrainedMeansQuiet == (\A c \in CIDs : q[c] = <<>>) =>
                        /\ \A c \in DOMAIN sess : Online(c) => Dischargeable(c, 0) = {}
                        /\ gowed = {}

OBound == ctr.oid <= MaxSubOps

OView == <<subs, conn, sess, owed, gowed, ret, infl, last, ctr, q, npid>>
=============================================================================
