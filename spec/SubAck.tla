------------------------------- MODULE SubAck -------------------------------
(***************************************************************************)
(* SUBSCRIBE / UNSUBSCRIBE of one session (growth beyond the listed        *)
(* properties, DESIGN.md 9/11): the reason code of every entry of SUBACK   *)
(* and UNSUBACK, what a packet with several entries (also the same filter   *)
(* twice) leaves behind, and what a publication then delivers.              *)
(*                                                                         *)
(* MQTT 5: 3.8.4 (the entries of one SUBSCRIBE are handled as a sequence of *)
(* SUBSCRIBE packets with one entry each; SUBACK carries one reason code    *)
(* per entry in order, the granted QoS never above the requested one:       *)
(* [MQTT-3.8.4-6], [MQTT-3.8.4-7], [MQTT-3.9.3-1]); a subscription that      *)
(* exists is replaced ([MQTT-3.8.4-3]); 3.8.3.1 (No Local on a shared        *)
(* subscription is a Protocol Error [MQTT-3.8.3-4]); 3.10.4 / 3.11.3         *)
(* (UNSUBACK: one reason code per entry, 0x00 Success or 0x11 No             *)
(* subscription existed).  MQTT 3.1.1: 3.8.4, 3.9.3 (return codes 0..2),     *)
(* UNSUBACK has no payload.                                                  *)
(*                                                                         *)
(* TLC enumerates every history of up to Depth packets over the alphabet    *)
(* (hist is part of the state), checks the design-level statements on the   *)
(* demanded outcomes and prints every complete history with the demanded    *)
(* acknowledgements and the deliveries demanded for each probe publication; *)
(* harness/cmd/suback replays each on a real broker.  Dev = named as-coded  *)
(* deviations (observations, not listed properties).                        *)
(***************************************************************************)
EXTENDS Integers, Sequences, FiniteSets, TLC, Json

CONSTANTS Filt,       \* set of [name, share ("" = not shared), lv (levels of the filter part)]
          Vers,       \* subset of {4, 5}
          SubPkts,    \* set of sequences of [f (a name), q, nl]
          UnsubPkts,  \* set of sequences of names
          Probes,     \* set of [name, lv, self (published by the subscriber itself)]
          Depth,
          Modes,      \* subset of {"overlap", "onlyonce"} (delivery_mode of the broker)
          Dev

VARIABLES ver, mode, subs, hist, acks

vars == <<ver, mode, subs, hist, acks>>
T == INSTANCE Topics WITH SysLevels <- {"$s"}
D(d) == d \in Dev
F(n) == CHOOSE f \in Filt : f.name = n
Last(s) == s[Len(s)]

\* ---- SUBSCRIBE
ProtoErr(v, es) == v = 5 /\ \E i \in 1..Len(es) : es[i].nl /\ F(es[i].f).share # ""

RECURSIVE ApplySub(_, _)
ApplySub(s, es) ==
  IF es = <<>> THEN s
  ELSE LET e == es[1] IN
       ApplySub([n \in DOMAIN s \cup {e.f} |-> IF n = e.f THEN [q |-> e.q, nl |-> e.nl] ELSE s[n]], Tail(es))

LastIdx(es, i) == CHOOSE j \in 1..Len(es) : es[j].f = es[i].f /\ \A k \in (j + 1)..Len(es) : es[k].f # es[i].f

SubCodes(es) == [i \in 1..Len(es) |-> IF D("dup_filter_code_of_last_entry") THEN es[LastIdx(es, i)].q ELSE es[i].q]

\* ---- UNSUBSCRIBE
RECURSIVE UnsubCodes(_, _)
UnsubCodes(dom, ns) ==
  IF ns = <<>> THEN <<>>
  ELSE <<IF ns[1] \in dom \/ D("unsuback_always_success") THEN 0 ELSE 17>> \o UnsubCodes(dom \ {ns[1]}, Tail(ns))

Init == /\ ver \in Vers
        /\ mode \in Modes
        /\ subs = << >>
        /\ hist = <<>>
        /\ acks = <<>>

DoSub(es) ==
  /\ ver = 4 => \A i \in 1..Len(es) : ~es[i].nl            \* No Local does not exist before MQTT 5
  /\ hist' = Append(hist, [op |-> "sub", entries |-> es])
  /\ IF ProtoErr(ver, es)
       THEN /\ acks' = Append(acks, [t |-> "disconnect", codes |-> <<130>>])
            /\ subs' = subs
       ELSE /\ acks' = Append(acks, [t |-> "suback", codes |-> SubCodes(es)])
            /\ subs' = ApplySub(subs, es)
  /\ UNCHANGED <<ver, mode>>

DoUnsub(ns) ==
  /\ hist' = Append(hist, [op |-> "unsub", names |-> ns])
  /\ acks' = Append(acks, [t |-> "unsuback", codes |-> IF ver = 5 THEN UnsubCodes(DOMAIN subs, ns) ELSE <<>>])
  /\ subs' = [n \in DOMAIN subs \ {ns[i] : i \in 1..Len(ns)} |-> subs[n]]
  /\ UNCHANGED <<ver, mode>>

Open == Len(hist) < Depth /\ (IF acks = <<>> THEN TRUE ELSE Last(acks).t # "disconnect")
Next == \/ Open /\ \E es \in SubPkts : DoSub(es)
        \/ Open /\ \E ns \in UnsubPkts : DoUnsub(ns)
        \/ ~Open /\ UNCHANGED vars
Spec == Init /\ [][Next]_vars

----------------------------------------------------------------------------
\* deliveries demanded for a QoS-2 publication on probe p (overlap delivery, one member per share group = this session):
\* one copy per matching subscription at its granted QoS (a No Local subscription gets nothing of the session's own)
Copies(p) == {n \in DOMAIN subs : T!Match(F(n).lv, p.lv) /\ ~(p.self /\ subs[n].nl)}
\* a bag of QoS values as <<number of QoS 0 copies, QoS 1, QoS 2>>
RECURSIVE QosBag(_)
QosBag(S) == IF S = {} THEN <<0, 0, 0>>
             ELSE LET n == CHOOSE x \in S : TRUE  r == QosBag(S \ {n}) IN [r EXCEPT ![subs[n].q + 1] = @ + 1]
MaxQ(S) == CHOOSE q \in {subs[n].q : n \in S} : \A n \in S : subs[n].q <= q
\* onlyonce: the matching non-shared subscriptions of a session are served by ONE copy at their maximum QoS
Expect(p) ==
  LET c == Copies(p)
      plain == {n \in c : F(n).share = ""}
      shared == c \ plain
  IN IF mode = "overlap" \/ plain = {} THEN QosBag(c)
     ELSE [QosBag(shared) EXCEPT ![MaxQ(plain) + 1] = @ + 1]

\* ---- design level
\* a SUBACK never grants more than the entry asked for, one code per entry
GrantWithinRequest ==
  \A i \in DOMAIN hist : (hist[i].op = "sub" /\ acks[i].t = "suback") =>
     /\ Len(acks[i].codes) = Len(hist[i].entries)
     /\ \A j \in DOMAIN acks[i].codes : acks[i].codes[j] <= hist[i].entries[j].q
\* the stored subscription is the LAST request for that filter, and the session holds exactly the filters subscribed and
\* not unsubscribed since
RECURSIVE Replay(_, _)
Replay(s, h) ==
  IF h = <<>> THEN s
  ELSE LET o == h[1] IN
       Replay(IF o.op = "sub" THEN (IF ProtoErr(ver, o.entries) THEN s ELSE ApplySub(s, o.entries))
              ELSE [n \in DOMAIN s \ {o.names[i] : i \in 1..Len(o.names)} |-> s[n]], Tail(h))
StateIsHistory == subs = Replay(<< >>, hist)
\* UNSUBACK tells the truth: 0x00 exactly for the filters that were subscribed when the entry was handled
UnsubTruthful ==
  \A i \in DOMAIN hist : (hist[i].op = "unsub" /\ ver = 5) =>
     LET before == Replay(<< >>, SubSeq(hist, 1, i - 1)) IN
     \A j \in DOMAIN acks[i].codes :
        (acks[i].codes[j] = 0) <=> (hist[i].names[j] \in DOMAIN before /\ \A k \in 1..(j - 1) : hist[i].names[k] # hist[i].names[j])

Dump == ~Open => PrintT(ToJson([ver |-> ver, mode |-> mode, steps |-> hist, acks |-> acks,
                                probes |-> {[name |-> p.name, self |-> p.self, want |-> Expect(p)] : p \in Probes}]))
=============================================================================
