------------------------------ MODULE AuthGate ------------------------------
(***************************************************************************)
(* Authentication gate of the broker with the `auth` plugin (property C19).*)
(*                                                                         *)
(*   accounts   what the running broker authenticates against             *)
(*              [User -> Hash \cup {None}],  Hash = <<algorithm, password>> *)
(*   file       what a restarted broker would load (same type)             *)
(*   tokens     broker-visible state owned by an authenticated client      *)
(*              ("victim"): "sess" its session/connection, "sub" its       *)
(*              subscription, "ret" its retained message                   *)
(*                                                                         *)
(* Strings are abstract tokens: two different tokens stand for two         *)
(* different strings.  The near-miss relations (prefix / extension /       *)
(* different case / empty / trailing NUL / 65535 bytes) live in the        *)
(* concretisation chosen by the replayer; the model only needs "equal or   *)
(* not".  Users, Passwords can be stored; UserMiss, PassMiss are           *)
(* attempt-only tokens that are never equal to a stored string.            *)
(*                                                                         *)
(* A CONNECT without the password flag carries no password.  Whether that  *)
(* "matches" an account whose stored password is the empty string is not   *)
(* decided by the property text: result "any" for exactly that case.       *)
(***************************************************************************)
EXTENDS Naturals, Sequences, FiniteSets, TLC, Json

CONSTANTS Users,      \* storable user names
          Passwords,  \* storable passwords
          UserMiss,   \* attempt-only user names
          PassMiss,   \* attempt-only passwords
          EmptyPw,    \* the element of Passwords standing for "" ("-" if there is none)
          Algo,       \* configured hash algorithm: "plain" | "md5" | "sha256" | "bcrypt"
          Shapes,     \* CONNECT shapes \subseteq {"v31","v311","v5","v5am","v5amd"} (am = Authentication Method, d = + Data, am0 = a zero-length Authentication Method)
          Lns,        \* listeners \subseteq {"tcp","ws"}
          ManNone,    \* manners of an attempt while no victim is connected   \subseteq {"own","own+will","victim","victim+will"}
          ManVictim,  \* manners of an attempt while the victim is connected: client id own / the victim's, with / without
                      \* a retained will message
          PreKinds,   \* packets sent without authentication
          PrePhases,  \* \subseteq {"before","afterfail","pipelined","burst"}  (burst: behind a PINGREQ in one write, no CONNECT)
          PreVers,    \* codec version of the unauthenticated packets \subseteq {"v31","v311","v5"}
          AfterTakeover, \* BOOLEAN: keep exploring from the states reached by taking the victim's session over
                      \* (FALSE: only Restart leaves them; they repeat the victim-less states)
          Dev         \* named deviations (known findings), {} = strict

VARIABLES accounts, file, tokens,
          path,       \* bookkeeping (hidden by VIEW): operations that led here
          last        \* bookkeeping (hidden by VIEW): last operation with its predicted result

vars == <<accounts, file, tokens, path, last>>
view == <<accounts, file, tokens>>

None == <<"none">>
Hash(p) == <<Algo, p>>
HashSet == {Hash(p) : p \in Passwords}
AllTokens == {"sess", "sub", "ret"}

Stored(A, u) == A[u] # None
PwOf(h) == h[2]

Init == /\ accounts = [u \in Users |-> None]
        /\ file = [u \in Users |-> None]
        /\ tokens = {}
        /\ path = <<>>
        /\ last = [op |-> "init"]

----------------------------------------------------------------------------
(* account API                                                             *)

Persist(A) == IF "relpath" \in Dev THEN file ELSE A   \* relpath: saved where no start ever looks

Update(u, p) ==
    /\ accounts' = [accounts EXCEPT ![u] = Hash(p)]
    /\ file' = Persist(accounts')
    /\ UNCHANGED tokens
    /\ last' = [op |-> "update", u |-> u, p |-> p]

Delete(u) ==
    /\ accounts' = [accounts EXCEPT ![u] = None]
    /\ file' = IF Stored(accounts, u) THEN Persist(accounts') ELSE file
    /\ UNCHANGED tokens
    /\ last' = [op |-> "delete", u |-> u]

\* Stop + start on the same password file; sessions, subscriptions, retained messages are in memory only
Restart ==
    /\ accounts' = file
    /\ file' = file
    /\ tokens' = {}
    /\ last' = [op |-> "restart"]

----------------------------------------------------------------------------
(* an authenticated client builds the state the unauthenticated must not touch *)

Populate(u) ==
    /\ "sess" \notin tokens
    /\ Stored(accounts, u)
    /\ tokens' = AllTokens
    /\ UNCHANGED <<accounts, file>>
    /\ last' = [op |-> "populate", u |-> u, p |-> PwOf(accounts[u])]

----------------------------------------------------------------------------
(* CONNECT                                                                 *)

\* operational: look the user up, hash the presented password, compare
Lookup(uf, ua)      == IF uf /\ ua \in Users THEN accounts[ua] ELSE None
Presented(pf, pa)   == IF pf THEN Hash(pa) ELSE <<"absent">>
DontCare(uf, ua, pf) == /\ ~pf /\ EmptyPw \in Passwords
                        /\ Lookup(uf, ua) # None /\ Lookup(uf, ua) = Hash(EmptyPw)
Result(shape, uf, ua, pf, pa) ==
    IF "authmethod_rejected" \in Dev /\ shape \in {"v5am", "v5amd", "v5am0"} THEN "reject"
    ELSE IF DontCare(uf, ua, pf) THEN "any"
    ELSE IF Lookup(uf, ua) # None /\ Lookup(uf, ua) = Presented(pf, pa) THEN "accept"
    ELSE "reject"

\* user / password are only on the wire when the flag is set: one representative otherwise
CidOf(m)  == IF m \in {"victim", "victim+will"} THEN "victim" ELSE "own"
WillOf(m) == m \in {"own+will", "victim+will"}

Connect(shape, ln, uf, ua, pf, pa, cid, will) ==
    LET res == Result(shape, uf, ua, pf, pa) IN
    /\ (~uf) => ua = "-"
    /\ (~pf) => pa = "-"
    /\ (res = "any") => (cid = "own" /\ ~will)
    \* an accepted clean-start CONNECT with the victim's client id takes the session over and ends it with its DISCONNECT
    /\ tokens' = IF res = "accept" /\ cid = "victim" THEN tokens \ {"sess", "sub"} ELSE tokens
    /\ UNCHANGED <<accounts, file>>
    /\ last' = [op |-> "connect", shape |-> shape, ln |-> ln, uf |-> uf, ua |-> ua, pf |-> pf, pa |-> pa,
                cid |-> cid, will |-> will, res |-> res]

----------------------------------------------------------------------------
(* packets without authentication: before any CONNECT, after a failed one  *)
(* (waiting for the CONNACK or pipelined behind the CONNECT)               *)

HasValid == \E u \in Users : Stored(accounts, u)
ValidUser == CHOOSE u \in Users : Stored(accounts, u)

PreAuth(kind, phase, ver, ln) ==
    /\ (kind = "connect2") => (phase # "before" /\ HasValid)
    /\ UNCHANGED <<accounts, file, tokens>>
    /\ last' = [op |-> "preauth", kind |-> kind, phase |-> phase, ver |-> ver, ln |-> ln,
                u |-> IF kind = "connect2" THEN ValidUser ELSE "-",
                p |-> IF kind = "connect2" THEN PwOf(accounts[ValidUser]) ELSE "-"]

----------------------------------------------------------------------------
\* the path only has to reach the state: an accepted CONNECT is recorded in its plainest shape
PathOp(o) == IF o.op = "connect" /\ o.res = "accept" THEN [o EXCEPT !.shape = "v311", !.ln = "tcp"] ELSE o

UserAtt == Users \cup UserMiss
PassAtt == Passwords \cup PassMiss

Frozen == ~AfterTakeover /\ tokens = {"ret"}

Next == /\ \/ Restart
           \/ /\ ~Frozen
              /\ \/ \E u \in Users, p \in Passwords : Update(u, p)
                 \/ \E u \in Users : Delete(u)
                 \/ \E u \in Users : Populate(u)
                 \/ \E shape \in Shapes, ln \in Lns, uf \in BOOLEAN, ua \in UserAtt \cup {"-"},
                       pf \in BOOLEAN, pa \in PassAtt \cup {"-"},
                       m \in (IF "sess" \in tokens THEN ManVictim ELSE ManNone) :
                          /\ uf => ua # "-"
                          /\ pf => pa # "-"
                          /\ Connect(shape, ln, uf, ua, pf, pa, CidOf(m), WillOf(m))
                 \/ \E kind \in PreKinds, phase \in PrePhases, ver \in PreVers, ln \in Lns : PreAuth(kind, phase, ver, ln)
        /\ path' = Append(path, PathOp(last'))

Spec == Init /\ [][Next]_vars

----------------------------------------------------------------------------
(* Design-level properties                                                 *)

TypeOK == /\ accounts \in [Users -> HashSet \cup {None}]
          /\ file \in [Users -> HashSet \cup {None}]
          /\ tokens \subseteq AllTokens
          /\ ("sub" \in tokens) => ("sess" \in tokens)

\* declarative reading of the property, stated over the pre-state of the step
ValidDecl(o) == /\ o.uf /\ o.pf
                /\ \E u \in Users : o.ua = u /\ Stored(accounts, u) /\ accounts[u] = <<Algo, o.pa>>
AmbiguousDecl(o) == /\ o.uf /\ ~o.pf
                    /\ \E u \in Users : o.ua = u /\ Stored(accounts, u) /\ PwOf(accounts[u]) = EmptyPw

AcceptIff ==
    [][last'.op = "connect" =>
          /\ (last'.res = "accept") => ValidDecl(last')
          /\ (last'.res = "reject") => ~ValidDecl(last')
          /\ (last'.res = "any") => AmbiguousDecl(last')
          /\ (last'.res \in {"accept", "reject", "any"})]_vars

\* every account operation leaves the file equal to the live accounts (=> a restart loads exactly them)
FileEqualsAccountsAfterOp == file = accounts

RestartLoadsFile == [][last'.op = "restart" => accounts' = file]_vars

PreAuthInert ==
    [][(last'.op = "preauth" \/ (last'.op = "connect" /\ last'.res = "reject"))
          => UNCHANGED <<accounts, file, tokens>>]_vars

\* whoever is accepted never changes the accounts; only a takeover touches the victim
ConnectKeepsAccounts == [][last'.op = "connect" => UNCHANGED <<accounts, file>>]_vars

----------------------------------------------------------------------------
(* Transition dump for the transition-coverage replay                      *)

AccSeq(A) == LET RECURSIVE ToSeq(_)
                 ToSeq(T) == IF T = {} THEN <<>>
                             ELSE LET u == CHOOSE u \in T : TRUE
                                  IN <<[u |-> u, p |-> PwOf(A[u])]>> \o ToSeq(T \ {u})
             IN ToSeq({u \in Users : Stored(A, u)})

Dump == PrintT(ToJson([pre |-> path, op |-> last', acc |-> AccSeq(accounts'), file |-> AccSeq(file'),
                       tok |-> tokens']))
=============================================================================
