------------------------------- MODULE WsConn -------------------------------
(***************************************************************************)
(* MQTT over WebSocket, the byte-stream adapter (property C18).            *)
(* gmqtt: server.wsConn (Read/Write) between gorilla/websocket and the     *)
(* bufio.Reader of the packet reader.                                      *)
(*                                                                         *)
(* The client's data is a sequence of WebSocket messages.  The abstract    *)
(* byte stream the broker has to process is the concatenation of the       *)
(* payloads of the binary messages; a text message ends the connection.    *)
(* Read(n) hands out at most n bytes of the current message and fetches    *)
(* the next message when the current one is used up - n is whatever the    *)
(* caller (bufio) asks for.                                                *)
(*                                                                         *)
(* Byte i of the stream has the value i (position-dependent content): a    *)
(* lost, duplicated or reordered byte changes `out`.                       *)
(***************************************************************************)
EXTENDS WsRead, Sequences, FiniteSets, TLC

CONSTANTS MaxLen,      \* streams of length 0..MaxLen
          MaxMsgs,     \* at most this many messages
          MinPart,     \* 1: no empty messages, 0: empty binary messages allowed
          ReadSizes,   \* the n of Read(n)
          WithText,    \* TRUE: one of the messages may be a text message
          ImplShaped   \* FALSE: the property's reading.  TRUE: named deviation DropLastWhenOneLeft
                       \*        (reset condition of server.go as written)

VARIABLES msgs,    \* messages not yet fetched: sequence of [bin |-> BOOLEAN, data |-> Seq(Nat)]
          have,    \* a current message exists (ws.buf # nil)
          buf,     \* payload of the current message
          r,       \* bytes of buf already returned
          out,     \* all bytes returned by Read so far, in order
          closed,  \* a text message was met: Read reports an error from now on
          stream   \* history variable: what has to be processed = concatenation of the binary payloads
                   \* that precede the first text message

vars == <<msgs, have, buf, r, out, closed, stream>>

----------------------------------------------------------------------------
(* All segmentations: sequences of at most k part lengths >= lo that sum to n. *)
RECURSIVE Comps(_, _, _)
Comps(n, k, lo) ==
    (IF n = 0 THEN {<<>>} ELSE {}) \cup
    (IF k = 0 THEN {}
     ELSE UNION { { <<c>> \o s : s \in Comps(n - c, k - 1, lo) } : c \in lo..n })

RECURSIVE Cut(_, _)          \* cut the byte sequence s into parts of the given lengths
Cut(s, seg) == IF seg = <<>> THEN <<>>
               ELSE <<SubSeq(s, 1, Head(seg))>> \o Cut(SubSeq(s, Head(seg) + 1, Len(s)), Tail(seg))

RECURSIVE ConcatBin(_)       \* concatenation of the payloads up to the first text message
ConcatBin(ms) == IF ms = <<>> \/ ~Head(ms).bin THEN <<>> ELSE Head(ms).data \o ConcatBin(Tail(ms))

Bytes(n) == [i \in 1..n |-> i]

Init == \E n \in 0..MaxLen :
          \E seg \in Comps(n, MaxMsgs, MinPart) :
            \E t \in (IF WithText THEN 0..Len(seg) ELSE {0}) :      \* index of the text message, 0 = none
               /\ msgs = [i \in 1..Len(seg) |-> [bin |-> (i # t), data |-> Cut(Bytes(n), seg)[i]]]
               /\ stream = ConcatBin(msgs)
               /\ have = FALSE /\ buf = <<>> /\ r = 0 /\ out = <<>> /\ closed = FALSE

(* One call of Read(n).  It blocks (is not enabled) when no message is available. *)
Read(n) ==
    /\ ~closed
    /\ have \/ msgs # <<>>
    /\ LET fetch == ~have
           cur   == IF fetch THEN Head(msgs).data ELSE buf
           rest  == IF fetch THEN Tail(msgs) ELSE msgs
       IN IF fetch /\ ~Head(msgs).bin
          THEN \* text message: error, nothing is handed out, the connection ends
               /\ closed' = TRUE
               /\ msgs' = rest
               /\ UNCHANGED <<have, buf, r, out, stream>>
          ELSE LET k    == Take(Len(cur), r, n)
                   r1   == r + k
                   done == IF ImplShaped THEN ExhaustedImpl(Len(cur), r1) ELSE Exhausted(Len(cur), r1)
               IN /\ out' = out \o SubSeq(cur, r + 1, r1)
                  /\ msgs' = rest
                  /\ IF done THEN have' = FALSE /\ buf' = <<>> /\ r' = 0
                             ELSE have' = TRUE /\ buf' = cur /\ r' = r1
                  /\ UNCHANGED <<closed, stream>>

Next == \E n \in ReadSizes : Read(n)

Spec == Init /\ [][Next]_vars /\ WF_vars(Next)

----------------------------------------------------------------------------
(* Design-level properties.                                                *)

Unread == (IF have THEN SubSeq(buf, r + 1, Len(buf)) ELSE <<>>) \o ConcatBin(msgs)

TypeOK == /\ r \in 0..Len(buf)
          /\ ~have => (buf = <<>> /\ r = 0)

\* at every moment: what was handed out followed by what is still to come is the stream -
\* no byte lost, duplicated or reordered, for every split and every sequence of read sizes
ReadsConcatenateToStream == closed \/ (out \o Unread = stream)

\* a text message ends the connection; neither its payload nor anything after it is handed out
TextRejected == closed => out = stream

\* every byte of the stream is eventually handed out (the reader keeps asking)
AllDelivered == <>[](out = stream)

\* Read never hands out more than asked for
ReadBounded == [][Len(out') - Len(out) <= CHOOSE m \in ReadSizes : \A x \in ReadSizes : x <= m]_vars
=============================================================================
