------------------------------ MODULE SubStore ------------------------------
(***************************************************************************)
(* Abstract subscription store (property C02, store layer of C11).         *)
(* subscription.Store of gmqtt: Subscribe / Unsubscribe / UnsubscribeAll   *)
(* and the query modes of Iterate, GetStats, GetClientStats.               *)
(*                                                                         *)
(* The state is the mathematical content of the index: a set of            *)
(* subscriptions keyed by (client, full filter name).  All queries are     *)
(* operators over that set, defined with Topics!Match, i.e. directly from  *)
(* MQTT 4.7 and not from the trie.                                         *)
(***************************************************************************)
EXTENDS Topics, FiniteSets, TLC, Json

CONSTANTS Clients,    \* set of client ids (strings)
          Filters,    \* set of [n: full name, share: share name or "", f: filter without share, lv: levels of f]
          TopicSet,   \* set of [n: topic name, lv: levels]   (the query universe)
          OptSet,     \* set of option records [qos, nl, rap, rh, id]
          MaxLive,    \* bound: live subscriptions
          MaxTotal    \* bound: value of the "total" counter

VARIABLES subs,       \* set of [c, n, o]; (c, n) is a key
          total,      \* subscribe calls that created a subscription (SubscriptionsTotal)
          ctotal,     \* the same per client
          path,       \* bookkeeping (hidden by VIEW): operations that led here
          last        \* bookkeeping (hidden by VIEW): last operation with its result

vars == <<subs, total, ctotal, path, last>>
view == <<subs, total, ctotal>>

FilterByName(n) == CHOOSE x \in Filters : x.n = n

Has(c, n)  == \E s \in subs : s.c = c /\ s.n = n
OfClient(S, c) == {s \in S : s.c = c}

Init == /\ subs = {}
        /\ total = 0
        /\ ctotal = [c \in Clients |-> 0]
        /\ path = <<>>
        /\ last = [op |-> "init"]

Subscribe(c, x, o) ==
    LET existed == Has(c, x.n) IN
    /\ subs' = {s \in subs : ~(s.c = c /\ s.n = x.n)} \cup {[c |-> c, n |-> x.n, o |-> o]}
    /\ total' = IF existed THEN total ELSE total + 1
    /\ ctotal' = IF existed THEN ctotal ELSE [ctotal EXCEPT ![c] = @ + 1]
    /\ last' = [op |-> "sub", c |-> c, n |-> x.n, o |-> o, res |-> existed]

Unsubscribe(c, x) ==
    /\ subs' = {s \in subs : ~(s.c = c /\ s.n = x.n)}
    /\ UNCHANGED <<total, ctotal>>
    /\ last' = [op |-> "unsub", c |-> c, n |-> x.n]

UnsubscribeAll(c) ==
    /\ subs' = {s \in subs : s.c # c}
    /\ UNCHANGED <<total, ctotal>>
    /\ last' = [op |-> "unsuball", c |-> c]

Next == /\ \/ \E c \in Clients, x \in Filters, o \in OptSet : Subscribe(c, x, o)
           \/ \E c \in Clients, x \in Filters : Unsubscribe(c, x)
           \/ \E c \in Clients : UnsubscribeAll(c)
        /\ path' = Append(path, last')

Spec == Init /\ [][Next]_vars

Bound == Cardinality(subs) <= MaxLive /\ total <= MaxTotal

----------------------------------------------------------------------------
(* Queries (the observable side).                                          *)

Shared(s)    == FilterByName(s.n).share # ""
MatchesT(s, t) == Match(FilterByName(s.n).lv, t.lv)

\* lookup for a topic name: the non-shared subscriptions whose filter matches
QMatchNonShared(t) == {s \in subs : ~Shared(s) /\ MatchesT(s, t)}
QMatchShared(t)    == {s \in subs : Shared(s) /\ MatchesT(s, t)}
QByName(n)         == {s \in subs : s.n = n}
QByClient(c)       == OfClient(subs, c)
Current            == Cardinality(subs)
CCurrent(c)        == Cardinality(OfClient(subs, c))

----------------------------------------------------------------------------
(* Design-level properties of the abstract store.                          *)

TypeOK == /\ \A s \in subs : s.c \in Clients /\ s.o \in OptSet /\ \E x \in Filters : x.n = s.n
          /\ \A s1, s2 \in subs : (s1.c = s2.c /\ s1.n = s2.n) => s1 = s2

CountsOK == /\ total >= Current
            /\ \A c \in Clients : ctotal[c] >= CCurrent(c)

\* a member leaving changes nothing but its own entries (C11, store layer)
LeaverIsolated ==
    [][\A c \in Clients :
         (last'.op \in {"unsub", "unsuball"} /\ last'.c = c)
            => {s \in subs' : s.c # c} = {s \in subs : s.c # c}]_vars

\* an unsubscribe of (c, n) removes exactly that entry
UnsubExact ==
    [][last'.op = "unsub" => subs' = {s \in subs : ~(s.c = last'.c /\ s.n = last'.n)}]_vars

----------------------------------------------------------------------------
(* Transition dump for the transition-coverage replay.                     *)

SubsSeq(S) == LET RECURSIVE ToSeq(_)
                  ToSeq(T) == IF T = {} THEN <<>>
                              ELSE LET s == CHOOSE s \in T : TRUE
                                   IN <<[c |-> s.c, n |-> s.n, o |-> s.o]>> \o ToSeq(T \ {s})
              IN ToSeq(S)

CtSeq(f) == LET RECURSIVE ToSeq(_)
                ToSeq(T) == IF T = {} THEN <<>>
                            ELSE LET c == CHOOSE c \in T : TRUE
                                 IN << [c |-> c, v |-> f[c]] >> \o ToSeq(T \ {c})
            IN ToSeq(Clients)

Dump == PrintT(ToJson([pre |-> path, op |-> last', subs |-> SubsSeq(subs'),
                       total |-> total', ctotal |-> CtSeq(ctotal')]))

\* emitted once: the Match relation of the pack (oracle for the replayer)
MatchTable == LET RECURSIVE ToSeq(_)
                  ToSeq(T) == IF T = {} THEN <<>>
                              ELSE LET p == CHOOSE p \in T : TRUE
                                   IN <<[f |-> p[1].n, t |-> p[2].n]>> \o ToSeq(T \ {p})
              IN ToSeq({p \in Filters \X TopicSet : Match(p[1].lv, p[2].lv)})
=============================================================================
