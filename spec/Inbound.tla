------------------------------ MODULE Inbound ------------------------------
(***************************************************************************)
(* Inbound QoS 1/2 on one publisher session (C04).                         *)
(* A *logical* QoS2 message starts with a PUBLISH(QoS2, id) whose id is    *)
(* not awaiting PUBREL and ends with PUBREL(id).  Retransmissions before   *)
(* PUBREL (with or without DUP, before or after resuming the session) are  *)
(* acknowledged but not forwarded.  After a clean start the id set is      *)
(* empty.  Acks: QoS1 -> PUBACK, QoS2 -> PUBREC, PUBREL -> PUBCOMP, same id.*)
(*                                                                         *)
(* Used two ways: TLC checks ExactlyOnce / AckPairing on all histories up  *)
(* to the bound, and (behaviour enumeration) prints every history of       *)
(* length D; the harness replays them on the real broker and the traces    *)
(* are validated against Broker.tla.                                       *)
(***************************************************************************)
EXTENDS Naturals, Sequences, FiniteSets, TLC, Json

CONSTANTS Ids, D

VARIABLES unack,   \* ids awaiting PUBREL
          nmsg,    \* number of logical messages started
          cur,     \* id |-> logical message number of the open QoS2 exchange (0 = none)
          fwd,     \* logical message number |-> how often it was forwarded to subscribers
          acks,    \* sequence of acknowledgements owed so far [t, id]
          hist     \* the history (what the harness will do)

vars == <<unack, nmsg, cur, fwd, acks, hist>>

Init == /\ unack = {} /\ nmsg = 0 /\ cur = [i \in Ids |-> 0] /\ fwd = <<>> /\ acks = <<>> /\ hist = <<>>

Pub2(i, dup) ==
  LET new == i \notin unack IN
  /\ unack' = unack \cup {i}
  /\ nmsg' = IF new THEN nmsg + 1 ELSE nmsg
  /\ cur' = IF new THEN [cur EXCEPT ![i] = nmsg + 1] ELSE cur
  /\ fwd' = IF new THEN Append(fwd, 1) ELSE fwd
  /\ acks' = Append(acks, [t |-> "pubrec", id |-> i])
  /\ hist' = Append(hist, [op |-> "pub2", id |-> i, dup |-> dup, msg |-> IF new THEN nmsg + 1 ELSE cur[i], new |-> new])

Rel(i) ==
  /\ unack' = unack \ {i}
  /\ cur' = [cur EXCEPT ![i] = 0]
  /\ acks' = Append(acks, [t |-> "pubcomp", id |-> i])
  /\ hist' = Append(hist, [op |-> "rel", id |-> i, dup |-> FALSE, msg |-> cur[i], new |-> FALSE])
  /\ UNCHANGED <<nmsg, fwd>>

Pub1(i) ==
  /\ nmsg' = nmsg + 1
  /\ fwd' = Append(fwd, 1)
  /\ acks' = Append(acks, [t |-> "puback", id |-> i])
  /\ hist' = Append(hist, [op |-> "pub1", id |-> i, dup |-> FALSE, msg |-> nmsg + 1, new |-> TRUE])
  /\ UNCHANGED <<unack, cur>>

Reconnect(clean) ==
  /\ unack' = IF clean THEN {} ELSE unack
  /\ cur' = IF clean THEN [i \in Ids |-> 0] ELSE cur
  /\ hist' = Append(hist, [op |-> "reconnect", id |-> 0, dup |-> clean, msg |-> 0, new |-> FALSE])
  /\ UNCHANGED <<nmsg, fwd, acks>>

Next == /\ Len(hist) < D
        /\ \/ \E i \in Ids, d \in BOOLEAN : Pub2(i, d)
           \/ \E i \in Ids : Rel(i)
           \/ \E i \in Ids : Pub1(i)
           \/ \E c \in BOOLEAN : Reconnect(c)

Spec == Init /\ [][Next]_vars

\* every logical message is forwarded exactly once
ExactlyOnce == \A m \in DOMAIN fwd : fwd[m] = 1
\* one acknowledgement per QoS>0 packet / PUBREL, of the matching type, with the same id, in order
AckPairing == /\ Len(acks) = Cardinality({j \in DOMAIN hist : hist[j].op # "reconnect"})
              /\ \A j \in DOMAIN acks : acks[j].id \in Ids
\* ids awaiting PUBREL are exactly those with an open exchange
OpenIffUnack == \A i \in Ids : (i \in unack) <=> (cur[i] # 0)

\* behaviour enumeration: print every history of length D once (hist is part of the state, so each state at depth D is one history)
Dump == (Len(hist) = D) => PrintT(ToJson([hist |-> hist]))
=============================================================================
