------------------------------ MODULE RespCmds ------------------------------
(***************************************************************************)
(* The redis commands used by gmqtt's redis back-end, over a key space of  *)
(* hashes and lists, in functional style: Do(cmd, db) = [db, reply].       *)
(* Definition of the trusted RESP fake (harness/resp); the fake is checked *)
(* against it by transition coverage (lib/resp_lib.py, cmd/respfake).      *)
(* A command is [c |-> name, a |-> <<arguments>>]; a reply is a tagged     *)
(* record (int, ok, nil, bulk, arr, err, status, map, set, scan).          *)
(***************************************************************************)
EXTENDS Integers, Sequences, FiniteSets, TLC, Json

CONSTANTS Keys, KeyCs,     \* key names; KeyCs[k] = the characters of k (for MATCH)
          Fields, Values, Idx, Cnt,
          MaxLen, MaxTotal,   \* bounds: length of a list, number of list elements + hash fields in the store
          Pats,            \* set of [n |-> pattern text, tk |-> token sequence]  (the MATCH table)
          TPats            \* pattern texts used by KEYS / SCAN in the state machine

None == [t |-> "none"]
Mk(t, v) == IF (t = "hash" /\ DOMAIN v = {}) \/ (t = "list" /\ v = <<>>) THEN None ELSE [t |-> t, v |-> v]
RInt(n)  == [t |-> "int", v |-> n]          Bulk(s) == [t |-> "bulk", v |-> s]
Arr(s)  == [t |-> "arr", v |-> s]          Err(s)  == [t |-> "err", v |-> s]
OK      == [t |-> "ok"]                    Nil     == [t |-> "nil"]
WrongType == Err("WRONGTYPE Operation against a key holding the wrong kind of value")
Range(s) == {s[i] : i \in DOMAIN s}
Rev(s)   == [i \in 1..Len(s) |-> s[Len(s) + 1 - i]]
Bulks(s) == Arr([i \in 1..Len(s) |-> Bulk(s[i])])
B2I(b)   == IF b THEN 1 ELSE 0

\* glob patterns: tokens star | any | lit c | cls neg s
One(tk, c) == CASE tk.t = "any" -> TRUE [] tk.t = "lit" -> c = tk.c [] tk.t = "cls" -> (c \in tk.s) # tk.neg
RECURSIVE Glob(_, _)
Glob(p, s) == IF p = <<>> THEN s = <<>>
              ELSE IF p[1].t = "star" THEN \E i \in 0..Len(s) : Glob(Tail(p), SubSeq(s, i + 1, Len(s)))
              ELSE s # <<>> /\ One(p[1], s[1]) /\ Glob(Tail(p), Tail(s))

PN == {p.n : p \in Pats}
Tk(n) == (CHOOSE p \in Pats : p.n = n).tk
\* MATCH as redis does it: KEYS and SCAN take "*" as "no filter"; its matcher stops at the end of the string, so
\* the empty string matches the empty pattern only
Match(n, s) == n = "*" \/ IF s = <<>> THEN Tk(n) = <<>> ELSE Glob(Tk(n), s)

RECURSIVE SetAll(_, _), Rem(_, _, _)
SetAll(h, a) == IF a = <<>> THEN h      \* a = <<f1, v1, f2, v2, ..>>, later pairs win
                ELSE SetAll([f \in DOMAIN h \cup {a[1]} |-> IF f = a[1] THEN a[2] ELSE h[f]], SubSeq(a, 3, Len(a)))
Rem(l, n, v) == IF l = <<>> \/ n = 0 THEN l          \* remove the first n occurrences of v
                ELSE IF Head(l) = v THEN Rem(Tail(l), n - 1, v) ELSE <<Head(l)>> \o Rem(Tail(l), n, v)
Norm(i, n)  == IF i < 0 THEN n + i ELSE i            \* 0-based index, negative = from the tail
Slice(l, a, b) == LET n == Len(l)  lo == IF Norm(a, n) < 0 THEN 0 ELSE Norm(a, n)
                      hi == IF Norm(b, n) >= n THEN n - 1 ELSE Norm(b, n)
                  IN IF lo > hi \/ lo >= n THEN <<>> ELSE SubSeq(l, lo + 1, hi + 1)

Writes == {"DEL", "HSET", "HDEL", "RPUSH", "LPUSH", "LSET", "LREM", "LPOP", "LTRIM", "EXPIRE", "FLUSHDB"}

Do(cmd, db) ==
  LET c == cmd.c   a == cmd.a   k == a[1]   rest == Tail(a)
      h == IF db[k].t = "hash" THEN db[k].v ELSE <<>>      l == IF db[k].t = "list" THEN db[k].v ELSE <<>>
      n == Len(l)
      R(d, r) == [db |-> d, reply |-> r]
      Put(t, v) == [db EXCEPT ![k] = Mk(t, v)]
      Live(p) == {x \in Keys : db[x] # None /\ Match(p, KeyCs[x])}
      OfHash == {"HSET", "HDEL", "HGET", "HMGET", "HGETALL", "HLEN", "HEXISTS"}
      Keyless == {"DEL", "EXISTS", "KEYS", "SCAN", "FLUSHDB", "EXPIRE", "TYPE"}
  IN
  IF c \notin Keyless /\ db[k].t \notin {"none", IF c \in OfHash THEN "hash" ELSE "list"} THEN R(db, WrongType) ELSE
  CASE c = "DEL"     -> R([x \in Keys |-> IF x \in Range(a) THEN None ELSE db[x]], RInt(Cardinality({x \in Range(a) : db[x] # None})))
    [] c = "EXISTS"  -> R(db, RInt(Cardinality({i \in DOMAIN a : db[a[i]] # None})))
    [] c = "TYPE"    -> R(db, [t |-> "status", v |-> db[k].t])
    [] c = "EXPIRE"  -> R(db, RInt(B2I(db[k] # None)))          \* positive timeout; the fake has no clock
    [] c = "FLUSHDB" -> R([x \in Keys |-> None], OK)
    [] c = "KEYS"    -> R(db, [t |-> "set", v |-> Live(a[1])])
    [] c = "SCAN"    -> R(db, [t |-> "scan", v |-> Live(a[1])])   \* union over the iteration from cursor 0 to cursor 0
    [] c = "HSET"    -> LET h2 == SetAll(h, rest) IN R(Put("hash", h2), RInt(Cardinality(DOMAIN h2) - Cardinality(DOMAIN h)))
    [] c = "HDEL"    -> R(Put("hash", [f \in DOMAIN h \ Range(rest) |-> h[f]]), RInt(Cardinality(DOMAIN h \cap Range(rest))))
    [] c = "HGET"    -> R(db, IF a[2] \in DOMAIN h THEN Bulk(h[a[2]]) ELSE Nil)
    [] c = "HMGET"   -> R(db, Arr([i \in 1..Len(rest) |-> IF rest[i] \in DOMAIN h THEN Bulk(h[rest[i]]) ELSE Nil]))
    [] c = "HGETALL" -> R(db, [t |-> "map", v |-> h])
    [] c = "HLEN"    -> R(db, RInt(Cardinality(DOMAIN h)))
    [] c = "HEXISTS" -> R(db, RInt(B2I(a[2] \in DOMAIN h)))
    [] c = "RPUSH"   -> R(Put("list", l \o rest), RInt(n + Len(rest)))
    [] c = "LPUSH"   -> R(Put("list", Rev(rest) \o l), RInt(n + Len(rest)))
    [] c = "LLEN"    -> R(db, RInt(n))
    [] c = "LRANGE"  -> R(db, Bulks(Slice(l, a[2], a[3])))
    [] c = "LTRIM"   -> R(Put("list", Slice(l, a[2], a[3])), OK)
    [] c = "LINDEX"  -> LET i == Norm(a[2], n) IN R(db, IF i < 0 \/ i >= n THEN Nil ELSE Bulk(l[i + 1]))
    [] c = "LPOP"    -> IF n = 0 THEN R(db, Nil) ELSE R(Put("list", Tail(l)), Bulk(Head(l)))
    [] c = "LSET"    -> LET i == Norm(a[2], n) IN
                        IF n = 0 THEN R(db, Err("ERR no such key"))
                        ELSE IF i < 0 \/ i >= n THEN R(db, Err("ERR index out of range"))
                        ELSE R(Put("list", [l EXCEPT ![i + 1] = a[3]]), OK)
    [] c = "LREM"    -> LET l2 == IF a[2] > 0 THEN Rem(l, a[2], a[3]) ELSE IF a[2] = 0 THEN Rem(l, n, a[3])
                                  ELSE Rev(Rem(Rev(l), 0 - a[2], a[3]))
                        IN R(Put("list", l2), RInt(n - Len(l2)))

----------------------------------------------------------------------------
(* The command alphabet of the model and the state machine TLC enumerates.  *)
Seq12(S) == {<<x>> : x \in S} \cup {<<x, y>> : x, y \in S}
C(c, A) == {[c |-> c, a |-> a] : a \in A}
KX(A)   == {<<k>> \o a : k \in Keys, a \in A}
\* a sequence of homogeneous sets (one union would make TLC compare integers with strings)
Cmds == << C("DEL", Seq12(Keys)), C("EXISTS", Seq12(Keys)), C("TYPE", KX({<<>>})), C("EXPIRE", KX({<<100>>})),
   C("FLUSHDB", {<<>>}), C("KEYS", {<<p>> : p \in TPats}), C("SCAN", {<<p, n>> : p \in TPats, n \in {1, 10}}),
   C("HSET", KX({<<f, v>> : f \in Fields, v \in Values} \cup {<<f, v, g, w>> : f, g \in Fields, v, w \in Values})),
   C("HDEL", KX(Seq12(Fields))), C("HGET", KX({<<f>> : f \in Fields})), C("HMGET", KX(Seq12(Fields))),
   C("HGETALL", KX({<<>>})), C("HLEN", KX({<<>>})), C("HEXISTS", KX({<<f>> : f \in Fields})),
   C("RPUSH", KX(Seq12(Values))), C("LPUSH", KX(Seq12(Values))), C("LLEN", KX({<<>>})), C("LPOP", KX({<<>>})),
   C("LRANGE", KX(Idx \X Idx)), C("LTRIM", KX(Idx \X Idx)), C("LINDEX", KX({<<i>> : i \in Idx})),
   C("LSET", KX(Idx \X Values)), C("LREM", KX(Cnt \X Values)) >>

VARIABLES db, path, last
vars == <<db, path, last>>
view == db
Init == db = [k \in Keys |-> None] /\ path = <<>> /\ last = [cmd |-> [c |-> "init", a |-> <<>>]]
Next == \E i \in DOMAIN Cmds : \E cmd \in Cmds[i] : LET r == Do(cmd, db) IN
            /\ db' = r.db
            /\ last' = [cmd |-> cmd, reply |-> r.reply, w |-> cmd.c \in Writes]
            /\ path' = Append(path, [c |-> cmd.c, a |-> cmd.a, w |-> cmd.c \in Writes])
Spec == Init /\ [][Next]_vars
Size(v) == IF v.t = "hash" THEN Cardinality(DOMAIN v.v) ELSE IF v.t = "list" THEN Len(v.v) ELSE 0
RECURSIVE Total(_)
Total(S) == IF S = {} THEN 0 ELSE LET k == CHOOSE x \in S : TRUE IN Size(db[k]) + Total(S \ {k})
Bound == Total(Keys) <= MaxTotal /\ \A k \in Keys : db[k].t = "list" => Len(db[k].v) <= MaxLen

TypeOK == \A k \in Keys : \/ db[k] = None
                          \/ db[k].t = "hash" /\ DOMAIN db[k].v # {} /\ DOMAIN db[k].v \subseteq Fields
                          \/ db[k].t = "list" /\ db[k].v # <<>> /\ Range(db[k].v) \subseteq Values
ReadsAreReads == [][last'.cmd.c \notin Writes => db' = db]_vars
ErrorsChangeNothing == [][last'.reply.t = "err" => db' = db]_vars

Dump == PrintT(ToJson([pre |-> path, op |-> last', db |-> db']))
\* emitted once: the MATCH relation over a universe of strings U (set of [n |-> text, cs |-> characters])
GlobTable(U) == [p \in PN |-> {u.n : u \in {x \in U : Match(p, x.cs)}}]
=============================================================================
