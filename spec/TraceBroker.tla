----------------------------- MODULE TraceBroker -----------------------------
(***************************************************************************)
(* Trace validation for Broker.tla: the lines of an ndjson trace recorded  *)
(* by the wire driver (harness/cmd/wire) are consumed one by one; line l   *)
(* must be explained by the Broker action of its kind with the logged      *)
(* fields.  Many scenarios are concatenated, separated by `reset` lines.   *)
(* The high-water mark of l is kept in TLC register 1 (workers 1); the     *)
(* postcondition demands that the whole trace was consumed.                *)
(***************************************************************************)
EXTENDS Broker, Json, IOUtils, Sequences, Integers

VARIABLE l
tvars == <<bvars, l>>

Trace == ndJsonDeserialize(IOEnv.TRACE)
\* deviations switched on for this validation run: environment variables KF1..KF6 (empty = none)
EnvDeviations == {IOEnv[v] : v \in {"KF1", "KF2", "KF3", "KF4", "KF5", "KF6"} \cap DOMAIN IOEnv} \ {""}
StopAt == IF "STOPAT" \in DOMAIN IOEnv THEN atoi(IOEnv.STOPAT) ELSE 0

ev == Trace[l]
Is(e) == l <= Len(Trace) /\ Trace[l].e = e /\ l' = l + 1

DefaultCfg == [mode |-> "onlyonce", qq0 |-> TRUE, maxinflight |-> 100, sessexpiry |-> 7200,
               srvrecvmax |-> 100, srvaliasmax |-> 10, srvmaxpkt |-> 268435456, msgexpiry |-> 0, maxqueued |-> 1000]

TInit == /\ l = 1 /\ BInit(DefaultCfg)

Msg(x) == [topic |-> x.topic, lv |-> x.lv, sys |-> x.sys, qos |-> x.qos, retain |-> x.retain, empty |-> x.empty,
           tag |-> x.tag, pid |-> x.pid, dup |-> x.dup, alias |-> x.alias, notopic |-> x.notopic, size |-> x.size, fsize |-> x.fsize,
           msgexp |-> x.msgexp, ms |-> x.ms]

TNext ==
  \/ /\ Is("reset")
     /\ cfg' = [mode |-> ev.mode, qq0 |-> ev.qq0, maxinflight |-> ev.maxinflight, sessexpiry |-> ev.sessexpiry,
             srvrecvmax |-> ev.srvrecvmax, srvaliasmax |-> ev.srvaliasmax, srvmaxpkt |-> ev.srvmaxpkt,
             msgexpiry |-> ev.msgexpiry, maxqueued |-> ev.maxqueued]
     /\ subs' = {} /\ conn' = <<>> /\ sess' = <<>> /\ owed' = <<>> /\ gowed' = {}
     /\ ctl' = <<>> /\ ret' = <<>> /\ unack' = <<>> /\ infl' = <<>> /\ last' = <<>>
     /\ ctr' = [pub |-> 0, oid |-> 0]
  \/ Is("connect")     /\ Connect(ev.k, ev.cid, ev.ver, ev.clean, ev.recvmax, ev.expiry, [maxpkt |-> ev.maxpkt, aliasmax |-> ev.aliasmax])
  \/ Is("connack")     /\ \/ Connack(ev.k, ev.sp, ev.code)
                          \/ ConnackFail(ev.k, ev.code)
  \/ Is("subscribe")   /\ Subscribe(ev.k, ev.pid, ev.subid, ev.subs)
  \/ Is("suback")      /\ Suback(ev.k, ev.pid, ev.codes)
  \/ Is("unsubscribe") /\ Unsubscribe(ev.k, ev.pid, ev.names)
  \/ Is("unsuback")    /\ Unsuback(ev.k, ev.pid, ev.n)
  \/ Is("publish")     /\ ClientPublish(ev.k, Msg(ev))
  \/ Is("apipublish")  /\ ApiPublish(Msg(ev))
  \/ Is("puback")      /\ PubAckRecv(ev.k, "puback", ev.pid, ev.code)
  \/ Is("pubrec")      /\ PubAckRecv(ev.k, "pubrec", ev.pid, ev.code)
  \/ Is("pubcomp")     /\ PubAckRecv(ev.k, "pubcomp", ev.pid, ev.code)
  \/ Is("pubrel")      /\ ClientPubrel(ev.k, ev.pid)
  \/ Is("deliver")     /\ Deliver(ev.k, [topic |-> ev.topic, tag |-> ev.tag, qos |-> ev.qos, retain |-> ev.retain,
                                         dup |-> ev.dup, pid |-> ev.pid, ids |-> ev.ids, size |-> ev.size, alias |-> ev.alias,
                                         msgexp |-> ev.msgexp, ms |-> ev.ms])
  \/ Is("cack")        /\ ClientAck(ev.k, ev.t, ev.pid, ev.code)
  \/ Is("relout")      /\ PubrelRecv(ev.k, ev.pid)
  \/ Is("pingreq")     /\ Pingreq(ev.k)
  \/ Is("pingresp")    /\ Pingresp(ev.k)
  \/ Is("disconnect")  /\ ConnEnd(ev.k, ev.expiry)
  \/ Is("abort")       /\ ConnEnd(ev.k, -1)
  \/ Is("eof")         /\ ConnEnd(ev.k, -1)
  \/ Is("srvdisconnect") /\ SrvDisconnect(ev.k, ev.code)
  \/ Is("quiet")       /\ Quiet(ev.ms)
  \/ Is("dropped")     /\ Dropped(ev.cid, ev.tag, ev.reason, ev.ms)
  \/ Is("note")        /\ UNCHANGED bvars

TSpec == TInit /\ [][TNext]_tvars

\* high-water mark; also lets the orchestrator stop at a given line to print the state there
HWM == /\ (IF l > TLCGet(1) THEN TLCSet(1, l) ELSE TRUE)
       /\ (StopAt = 0 \/ l <= StopAt)
ASSUME TLCSet(1, 0)

Accepted == \/ TLCGet(1) = Len(Trace) + 1
            \/ PrintT(<<"TRACE-REJECTED-AT", TLCGet(1), "OF", Len(Trace)>>) /\ FALSE

\* used with STOPAT: reaching line StopAt violates this invariant, so TLC prints the behaviour up to there
NotAtStop == StopAt = 0 \/ l < StopAt
=============================================================================
