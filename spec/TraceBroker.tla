----------------------------- MODULE TraceBroker -----------------------------
(***************************************************************************)
(* Trace validation for Broker.tla: the lines of an ndjson trace recorded  *)
(* by the wire driver (harness/cmd/wire) are consumed one by one; line l   *)
(* must be explained by the Broker action of its kind with the logged      *)
(* fields.  Many scenarios are concatenated, separated by `reset` lines.   *)
(* The high-water mark of l is kept in TLC register 1 (workers 1); the     *)
(* postcondition demands that the whole trace was consumed.                *)
(***************************************************************************)
EXTENDS Broker, Json, IOUtils, Sequences, Integers

VARIABLE l
tvars == <<bvars, l>>

Trace == ndJsonDeserialize(IOEnv.TRACE)
\* deviations switched on for this validation run: environment variables KF1..KF6 (empty = none)
EnvDeviations == {IOEnv[v] : v \in {"KF1", "KF2", "KF3", "KF4", "KF5", "KF6"} \cap DOMAIN IOEnv} \ {""}
StopAt == IF "STOPAT" \in DOMAIN IOEnv THEN atoi(IOEnv.STOPAT) ELSE 0

ev == Trace[l]
Is(e) == l <= Len(Trace) /\ Trace[l].e = e /\ l' = l + 1

DefaultCfg == [mode |-> "onlyonce", qq0 |-> TRUE, maxinflight |-> 100, sessexpiry |-> 7200,
               srvrecvmax |-> 100, srvaliasmax |-> 10, srvmaxpkt |-> 268435456, msgexpiry |-> 0, maxqueued |-> 1000, hooks |-> FALSE, anydisc |-> FALSE]

TInit == /\ l = 1 /\ BInit(DefaultCfg)

\* application properties as one canonical string (absent in traces recorded before they were logged)
PropsOf(x) == IF "props" \in DOMAIN x THEN x.props ELSE ""

\* the interval is 2^31 s or more (then logged minus 2^31); absent in traces recorded before it was logged
BigOf(x) == IF "msgexpbig" \in DOMAIN x THEN x.msgexpbig ELSE FALSE

Msg(x) == [topic |-> x.topic, lv |-> x.lv, sys |-> x.sys, qos |-> x.qos, retain |-> x.retain, empty |-> x.empty,
           tag |-> x.tag, pid |-> x.pid, dup |-> x.dup, alias |-> x.alias, notopic |-> x.notopic, size |-> x.size, fsize |-> x.fsize,
           msgexp |-> x.msgexp, big |-> BigOf(x), ms |-> x.ms, props |-> PropsOf(x)]

TNext ==
  \/ /\ Is("reset")
     /\ cfg' = [mode |-> ev.mode, qq0 |-> ev.qq0, maxinflight |-> ev.maxinflight, sessexpiry |-> ev.sessexpiry,
             srvrecvmax |-> ev.srvrecvmax, srvaliasmax |-> ev.srvaliasmax, srvmaxpkt |-> ev.srvmaxpkt,
             msgexpiry |-> ev.msgexpiry, maxqueued |-> ev.maxqueued, hooks |-> ev.hooks, anydisc |-> ev.anydisc]
     /\ subs' = {} /\ conn' = <<>> /\ sess' = <<>> /\ owed' = <<>> /\ gowed' = {}
     /\ ctl' = <<>> /\ ret' = <<>> /\ unack' = <<>> /\ infl' = <<>> /\ last' = <<>>
     /\ ctr' = [pub |-> 0, oid |-> 0]
     /\ aux' = [wills |-> <<>>, reg |-> <<>>, closedc |-> {}, srvended |-> {}, sockc |-> {}, nreg |-> 0]
  \/ Is("connect")     /\ Connect(ev.k, ev.cid, ev.ver, ev.clean, ev.recvmax, ev.expiry, [maxpkt |-> ev.maxpkt, aliasmax |-> ev.aliasmax],
                                   IF ev.haswill THEN [has |-> TRUE, props |-> PropsOf(ev.will)] @@ ev.will ELSE NoWill, ev.conn, ev.ms)
  \/ Is("connack")     /\ \/ /\ Connack(ev.k, ev.sp, ev.code, ev.ms)
                             \* C05: every acknowledged older connection with this client id had been closed (its end was
                             \* readable) when this CONNACK was read
                             /\ "olderopen" \in DOMAIN ev => ev.olderopen = <<>>
                          \/ ConnackFail(ev.k, ev.code)
  \/ Is("subscribe")   /\ Subscribe(ev.k, ev.pid, ev.subid, ev.subs)
  \/ Is("suback")      /\ Suback(ev.k, ev.pid, ev.codes)
  \/ Is("unsubscribe") /\ Unsubscribe(ev.k, ev.pid, ev.names)
  \/ Is("unsuback")    /\ Unsuback(ev.k, ev.pid, ev.n)
  \/ Is("publish")     /\ ClientPublish(ev.k, Msg(ev))
  \/ Is("apipublish")  /\ ApiPublish(Msg(ev))
  \/ Is("puback")      /\ PubAckRecv(ev.k, "puback", ev.pid, ev.code)
  \/ Is("pubrec")      /\ PubAckRecv(ev.k, "pubrec", ev.pid, ev.code)
  \/ Is("pubcomp")     /\ PubAckRecv(ev.k, "pubcomp", ev.pid, ev.code)
  \/ Is("pubrel")      /\ ClientPubrel(ev.k, ev.pid)
  \/ Is("deliver")     /\ Deliver(ev.k, [topic |-> ev.topic, tag |-> ev.tag, qos |-> ev.qos, retain |-> ev.retain,
                                         dup |-> ev.dup, pid |-> ev.pid, ids |-> ev.ids, size |-> ev.size, alias |-> ev.alias,
                                         msgexp |-> ev.msgexp, big |-> BigOf(ev), ms |-> ev.ms, props |-> PropsOf(ev)])
  \/ Is("cack")        /\ ClientAck(ev.k, ev.t, ev.pid, ev.code)
  \/ Is("relout")      /\ PubrelRecv(ev.k, ev.pid)
  \/ Is("pingreq")     /\ Pingreq(ev.k)
  \/ Is("pingresp")    /\ Pingresp(ev.k)
  \/ Is("disconnect")  /\ IF cfg.hooks THEN ClientBye(ev.k, ev.code, ev.expiry)
                                         ELSE ConnEnd(ev.k, ev.expiry, ev.code = 0 \/ conn[ev.k].ver # 5, ev.ms)
  \/ Is("abort")       /\ IF cfg.hooks THEN ClientGone(ev.k) ELSE ConnEnd(ev.k, -1, FALSE, ev.ms)
  \/ Is("eof")         /\ IF cfg.hooks THEN ClientGone(ev.k) ELSE ConnEnd(ev.k, -1, FALSE, ev.ms)
  \/ Is("terminate")   /\ ApiTerminate(ev.cid, ev.ms)
  \/ Is("hook")        /\ \/ ev.h = "register"   /\ HookRegister(ev.cid, ev.conn, ev.resume, ev.ms)
                          \/ ev.h = "unregister" /\ HookUnregister(ev.cid, ev.conn, ev.ms)
                          \/ ev.h = "closed"     /\ HookClosed(ev.conn)
                          \/ ev.h = "exit.write" /\ HookSockClosed(ev.conn)
                          \/ ev.h = "will"       /\ WillFire(ev.cid, ev.topic, ev.ms)
                          \/ ev.h \notin {"register", "unregister", "closed", "will", "exit.write"} /\ UNCHANGED bvars
  \/ Is("srvdisconnect") /\ SrvDisconnect(ev.k, ev.code)
  \/ Is("quiet")       /\ Quiet(ev.ms)
  \/ Is("view")        /\ ViewOK(ev.subs, ev.online, ev.sessions) /\ RetainedViewOK(ev.retained) /\ UNCHANGED bvars
  \/ Is("dropped")     /\ Dropped(ev.cid, ev.tag, ev.reason, ev.ms)
  \/ Is("note")        /\ UNCHANGED bvars
  \/ Is("raw")         /\ UNCHANGED bvars
  \/ Is("stats")       /\ UNCHANGED bvars

TSpec == TInit /\ [][TNext]_tvars

\* high-water mark; also lets the orchestrator stop at a given line to print the state there
HWM == /\ (IF l > TLCGet(1) THEN TLCSet(1, l) ELSE TRUE)
       /\ (StopAt = 0 \/ l <= StopAt)
ASSUME TLCSet(1, 0)

Accepted == \/ TLCGet(1) = Len(Trace) + 1
            \/ PrintT(<<"TRACE-REJECTED-AT", TLCGet(1), "OF", Len(Trace)>>) /\ FALSE

\* used with STOPAT: reaching line StopAt violates this invariant, so TLC prints the behaviour up to there
NotAtStop == StopAt = 0 \/ l < StopAt
=============================================================================
