------------------------------- MODULE Durable -------------------------------
(***************************************************************************)
(* C09 - durable (redis) sessions survive a crash of the broker process    *)
(* between any two storage commands.                                       *)
(*                                                                         *)
(* The store is modelled at the grain of the redis commands the broker     *)
(* issues: four keys per client id                                         *)
(*      session:<c> (hash)  sub:<c> (hash: full filter -> options)         *)
(*      queue:<c>   (list of elements)   unack:<c> (hash: packet id -> 1)  *)
(* Every broker operation is a *program*: a sequence of stages, a stage is *)
(* a set of commands issued in any order, followed by the acknowledgement  *)
(* written to the client.  The programs are what the property DEMANDS of   *)
(* the command order: an acknowledgement is only written after the command *)
(* that makes the acknowledged fact durable.  `Crash` may happen between   *)
(* any two commands (volatile state and operations in progress are gone,   *)
(* D stays), `Recover` is start-up on D (Rebuild).                         *)
(*                                                                         *)
(* Ghost state G records what the clients have been told: CONNACK, SUBACK  *)
(* / UNSUBACK per (client, filter, options), acknowledgement to the        *)
(* publisher per (message, subscriber), the subscriber's own               *)
(* acknowledgement, QoS2 packet ids awaiting PUBREL.  An operation in      *)
(* flight (request written, acknowledgement not read) leaves the fact      *)
(* undetermined ("may": either state is acceptable after a restart).       *)
(*                                                                         *)
(* RecoverableAfterCrash: at EVERY state, start-up on the current store    *)
(* yields everything acknowledged.  StartupTotal: start-up is defined on   *)
(* every reachable store.                                                  *)
(*                                                                         *)
(* Actions are parameterised by event fields: TraceDurable.tla binds them  *)
(* to the lines of a recorded command journal (+ acknowledgement markers), *)
(* DurableMC.tla drives them from small constant sets.                     *)
(*                                                                         *)
(* Deviations = named as-coded deviations (DESIGN.md 2.5); the empty set   *)
(* is the specification proper.                                            *)
(*   hdel_slice_arg      HDEL sub:<c> is sent with the field "[<filter>]"  *)
(*   session_deleted_before_subs   a session is removed by DEL queue, DEL  *)
(*                       session, DEL sub (demanded: the session key last) *)
(*   phantom_session     DEL session: / DEL sub: for the empty client id   *)
(*                       on a CONNECT with Clean Start 1 that finds nothing*)
(*   unack_not_loaded    start-up does not load unack:<c> into the cache   *)
(*   sub_reload_trims_client_id   start-up files the subscriptions of <c>  *)
(*                       under TrimName[c]                                 *)
(***************************************************************************)
EXTENDS Naturals, Integers, Sequences, FiniteSets, TLC

CONSTANT Deviations
Dev(d) == d \in Deviations

CfgExpiry == 7200          \* session_expiry of the default configuration (seconds)

VARIABLES
  D,     \* durable: [sess: c |-> [exp, ok], sub: c |-> (f |-> options), queue: c |-> <<elements>>, unack: c |-> set of pids]
         \*          (a key is in the domain iff it exists in the store: empty hashes and lists do not exist)
  V,     \* volatile: [up, online: set of c, msub: c |-> (f |-> options), qs: set of c with a queue/unack object,
         \*            cache: c |-> set of pids]
  pc,    \* operations in progress: c |-> [op (record), todo (sequence of sets of commands), ack (record)]
  G,     \* ghost: what the clients have been told (see below)
  used   \* deviations that were needed to explain a command (trace validation)

dvars == <<D, V, pc, G, used>>

Get(f, x, d) == IF x \in DOMAIN f THEN f[x] ELSE d
Put(f, x, v) == [y \in DOMAIN f \cup {x} |-> IF y = x THEN v ELSE f[y]]
Del(f, x)    == [y \in DOMAIN f \ {x} |-> f[y]]
\* hash / list valued keys: writing the empty value removes the key
PutNE(f, x, v, empty) == IF v = empty THEN Del(f, x) ELSE Put(f, x, v)
Min2(a, b) == IF a < b THEN a ELSE b
Max2(a, b) == IF a < b THEN b ELSE a
SetMax(S) == CHOOSE x \in S : \A y \in S : y <= x

Nil == <<>>               \* the empty function

\* ---- values
NoSub == [qos |-> 0 - 1, nl |-> FALSE, rap |-> FALSE, rh |-> 0, sid |-> 0]     \* "no subscription"
NoEl  == [kind |-> "", m |-> "", qos |-> 0, id |-> 0]
PubEl(m, q, id) == [kind |-> "pub", m |-> m, qos |-> q, id |-> id]
RelEl(id)       == [kind |-> "rel", m |-> "", qos |-> 0, id |-> id]

\* ---- commands: one record shape for all (the journal abstraction of the driver uses the same shape)
Cmd(cmd, key, c) == [cmd |-> cmd, key |-> key, c |-> c, f |-> "", o |-> NoSub, pid |-> 0, idx |-> 0, el |-> NoEl,
                     exp |-> 0, ok |-> TRUE]
DelK(key, c)       == Cmd("DEL", key, c)
HSetSess(c, exp)   == [Cmd("HSET", "session", c) EXCEPT !.exp = exp]
HSetSub(c, f, o)   == [Cmd("HSET", "sub", c) EXCEPT !.f = f, !.o = o]
HDelSub(c, f)      == [Cmd("HDEL", "sub", c) EXCEPT !.f = f]
HSetUnack(c, pid)  == [Cmd("HSET", "unack", c) EXCEPT !.pid = pid]
HDelUnack(c, pid)  == [Cmd("HDEL", "unack", c) EXCEPT !.pid = pid]
RPush(c, el)       == [Cmd("RPUSH", "queue", c) EXCEPT !.el = el]
LSet(c, idx, el)   == [Cmd("LSET", "queue", c) EXCEPT !.idx = idx, !.el = el]
LRem(c, el)        == [Cmd("LREM", "queue", c) EXCEPT !.el = el]

Sub(c)   == Get(D.sub, c, Nil)
Queue(c) == Get(D.queue, c, <<>>)
Unack(c) == Get(D.unack, c, {})
MSub(c)  == Get(V.msub, c, Nil)
Cache(c) == Get(V.cache, c, {})

RemoveAt(s, i) == [j \in 1..(Len(s) - 1) |-> IF j < i THEN s[j] ELSE s[j + 1]]
FirstIdx(s, P(_)) == IF \E i \in DOMAIN s : P(s[i]) THEN CHOOSE i \in DOMAIN s : P(s[i]) /\ \A j \in 1..(i - 1) : ~P(s[j]) ELSE 0

\* redis semantics of the commands on the abstract store; a command that redis would refuse is not Applicable
Applicable(x) ==
  /\ x.ok
  /\ x.cmd = "LSET" => (x.idx >= 0 /\ x.idx < Len(Queue(x.c)))

Apply(x) ==
  CASE x.cmd = "DEL" /\ x.key = "session" -> [D EXCEPT !.sess = Del(D.sess, x.c)]
    [] x.cmd = "DEL" /\ x.key = "sub"     -> [D EXCEPT !.sub = Del(D.sub, x.c)]
    [] x.cmd = "DEL" /\ x.key = "queue"   -> [D EXCEPT !.queue = Del(D.queue, x.c)]
    [] x.cmd = "DEL" /\ x.key = "unack"   -> [D EXCEPT !.unack = Del(D.unack, x.c)]
    [] x.cmd = "HSET" /\ x.key = "session" -> [D EXCEPT !.sess = Put(D.sess, x.c, [exp |-> x.exp])]
    [] x.cmd = "HSET" /\ x.key = "sub"    -> [D EXCEPT !.sub = Put(D.sub, x.c, Put(Sub(x.c), x.f, x.o))]
    [] x.cmd = "HDEL" /\ x.key = "sub"    -> [D EXCEPT !.sub = PutNE(D.sub, x.c, Del(Sub(x.c), x.f), Nil)]
    [] x.cmd = "HSET" /\ x.key = "unack"  -> [D EXCEPT !.unack = Put(D.unack, x.c, Unack(x.c) \cup {x.pid})]
    [] x.cmd = "HDEL" /\ x.key = "unack"  -> [D EXCEPT !.unack = PutNE(D.unack, x.c, Unack(x.c) \ {x.pid}, {})]
    [] x.cmd = "RPUSH" /\ x.key = "queue" -> [D EXCEPT !.queue = Put(D.queue, x.c, Append(Queue(x.c), x.el))]
    [] x.cmd = "LSET" /\ x.key = "queue"  -> [D EXCEPT !.queue = Put(D.queue, x.c, [Queue(x.c) EXCEPT ![x.idx + 1] = x.el])]
    [] x.cmd = "LREM" /\ x.key = "queue"  ->
         LET q == Queue(x.c)
             i == FirstIdx(q, LAMBDA e : e = x.el)
         IN  IF i = 0 THEN D ELSE [D EXCEPT !.queue = PutNE(D.queue, x.c, RemoveAt(q, i), <<>>)]
    [] OTHER -> D

KnownCmd(x) == <<x.cmd, x.key>> \in {<<"DEL", "session">>, <<"DEL", "sub">>, <<"DEL", "queue">>, <<"DEL", "unack">>,
                                     <<"HSET", "session">>, <<"HSET", "sub">>, <<"HDEL", "sub">>, <<"HSET", "unack">>,
                                     <<"HDEL", "unack">>, <<"RPUSH", "queue">>, <<"LSET", "queue">>, <<"LREM", "queue">>}

----------------------------------------------------------------------------
(* Start-up on a store                                                     *)

CONSTANT TrimName        \* c |-> the name start-up files c's subscriptions under (deviation sub_reload_trims_client_id)

Rebuild(d) ==
  LET cs == DOMAIN d.sess
      subOf(c) == IF c \in DOMAIN d.sub THEN d.sub[c] ELSE Nil
      loaded == {c \in cs : c \in DOMAIN d.sub}
      nameOf(c) == IF Dev("sub_reload_trims_client_id") THEN Get(TrimName, c, c) ELSE c
      names == {nameOf(c) : c \in loaded}
  IN [up |-> TRUE, online |-> {},
      qs |-> cs,
      \* SubscribeLocked in the order of the stored sessions: several clients filed under one name overwrite each other
      msub |-> [n \in names |-> LET src == CHOOSE c \in loaded : nameOf(c) = n IN subOf(src)],
      cache |-> IF Dev("unack_not_loaded") THEN Nil ELSE [c \in {x \in cs : x \in DOMAIN d.unack} |-> d.unack[c]]]

\* start-up reads every stored session, every subscription of a stored session; it fails on a value it cannot decode
StartupOK(d) ==
  /\ \A c \in DOMAIN d.sess : d.sess[c].exp >= 0
  /\ \A c \in DOMAIN d.sess \cap DOMAIN d.sub : \A f \in DOMAIN d.sub[c] : d.sub[c][f].qos \in 0..2 /\ d.sub[c][f].rh \in 0..2

----------------------------------------------------------------------------
(* Ghost state                                                             *)
(*   G.sess: c |-> "must" | "may"     (absent: nothing demanded)           *)
(*   G.sub:  c |-> (f |-> set of acceptable values, absent f = {NoSub})    *)
(*   G.msg:  c |-> (m |-> [st, q])  st: pend (publisher not acknowledged), *)
(*           must, may (subscriber's ack in flight), done                  *)
(*   G.ids:  c |-> (pid |-> pend | must | may)   inbound QoS2 ids of c     *)
(*   G.fam:  f |-> family of the filter (a topic of family i is matched by *)
(*           exactly the filters of family i: alphabet by construction)    *)
(*   G.have: c |-> set of [m, id, q, st] received on the current connection*)

GSub(c)  == Get(G.sub, c, Nil)
GMsg(c)  == Get(G.msg, c, Nil)
GIds(c)  == Get(G.ids, c, Nil)
Allowed(c, f) == Get(GSub(c), f, {NoSub})
Have(c)  == Get(G.have, c, {})

QMsgs(d, c) == {Get(d.queue, c, <<>>)[i].m : i \in {j \in DOMAIN Get(d.queue, c, <<>>) : Get(d.queue, c, <<>>)[j].kind = "pub"}}

\* what a restart on store d would lose (or wrongly keep), as a set of records; empty = recoverable
Lost(d) ==
  LET R == Rebuild(d)
      must == {c \in DOMAIN G.sess : G.sess[c] = "must"}
  IN  {[c |-> c, what |-> "session", x |-> ""] : c \in {c \in must : c \notin R.qs}}
      \cup UNION {{[c |-> c, x |-> f,
                     what |-> IF Get(Get(R.msub, c, Nil), f, NoSub) = NoSub THEN "sub-missing"
                              ELSE IF f \notin DOMAIN GSub(c) THEN "sub-of-earlier-session"
                              ELSE IF NoSub \in Allowed(c, f) THEN "sub-after-unsuback"
                              ELSE "sub-options"] :
                     f \in {f \in DOMAIN GSub(c) \cup DOMAIN Get(R.msub, c, Nil) :
                              Get(Get(R.msub, c, Nil), f, NoSub) \notin Allowed(c, f)}} : c \in must}
      \cup UNION {{[c |-> c, what |-> "msg", x |-> m] :
                     m \in {m \in DOMAIN GMsg(c) : GMsg(c)[m].st = "must" /\ m \notin QMsgs(d, c)}} : c \in must}
      \cup UNION {{[c |-> c, what |-> "acked-msg", x |-> m] :
                     m \in {m \in DOMAIN GMsg(c) : GMsg(c)[m].st = "done" /\ m \in QMsgs(d, c)}} : c \in must}
      \cup UNION {{[c |-> c, what |-> "qos2id", x |-> ToString(p)] :
                     p \in {p \in DOMAIN GIds(c) : GIds(c)[p] = "must" /\ p \notin Get(R.cache, c, {})}} : c \in must}

RecoverableAfterCrash == Lost(D) = {}
StartupTotal == StartupOK(D)

----------------------------------------------------------------------------
(* Broker operations: request (Try), commands, acknowledgement             *)

Idle(c)   == c \notin DOMAIN pc
Online(c) == V.up /\ c \in V.online

StartExpiry(ver, clean, req) ==
  IF ver # 5 THEN (IF clean THEN 0 ELSE CfgExpiry) ELSE IF req < 0 THEN 0 ELSE Min2(req, CfgExpiry)

\* removing a session: the session key is the commit point, it goes last (a restart between the commands must not
\* leave keys of a session that no longer exists: they would be adopted by a later session with the same client id).
\* As coded (deviation session_deleted_before_subs): DEL queue, DEL session, DEL sub - see OwnerCmd / AsCodedChoice.
Terminate(c) == (IF c \in V.qs THEN << {DelK("queue", c)} >> ELSE << >>) \o << {DelK("sub", c)}, {DelK("session", c)} >>

Start(c, op, todo, ack) == pc' = Put(pc, c, [op |-> op, todo |-> todo, ack |-> ack])

AckRec(op, c) == [op |-> op, c |-> c, sp |-> FALSE, f |-> "", m |-> "", pid |-> 0]

\* every value of g weakened by "or v"
Weaken(fn, v) == [x \in DOMAIN fn |-> fn[x] \cup {v}]

\* CONNECT written by client c
TryConnect(c, clean, ver, reqexp) ==
  LET exp    == StartExpiry(ver, clean, reqexp)
      exists == c \in DOMAIN D.sess
      \* a stored session with expiry 0 only exists while its connection does (or after a crash): it has expired
      resume == exists /\ ~clean /\ c \in V.qs /\ D.sess[c].exp > 0
      fresh  == << {DelK("queue", c)}, {DelK("unack", c)}, {HSetSess(c, exp)} >>
      todo   == IF resume THEN << {HSetSess(c, exp)} >>
                ELSE IF exists THEN Terminate(c) \o fresh
                ELSE fresh
  IN /\ V.up /\ Idle(c) /\ c \notin V.online
     /\ Start(c, [op |-> "connect", clean |-> clean, exp |-> exp, resume |-> resume], todo,
              [AckRec("connack", c) EXCEPT !.sp = resume])
     /\ G' = IF resume THEN G
             ELSE [G EXCEPT !.sess = IF c \in DOMAIN G.sess THEN Put(G.sess, c, "may") ELSE G.sess,
                            !.sub  = IF c \in DOMAIN G.sub THEN Put(G.sub, c, Weaken(G.sub[c], NoSub)) ELSE G.sub,
                            !.msg  = IF c \in DOMAIN G.msg
                                     THEN Put(G.msg, c, [m \in DOMAIN G.msg[c] |->
                                                IF G.msg[c][m].st = "done" THEN G.msg[c][m] ELSE [G.msg[c][m] EXCEPT !.st = "may"]])
                                     ELSE G.msg,
                            !.ids  = IF c \in DOMAIN G.ids THEN Put(G.ids, c, [p \in DOMAIN G.ids[c] |-> "may"]) ELSE G.ids]
     /\ UNCHANGED <<D, V, used>>

DoneConnect(c, op) ==
  /\ V' = [V EXCEPT !.online = V.online \cup {c}, !.qs = V.qs \cup {c},
                    !.msub = IF op.resume THEN V.msub ELSE Del(V.msub, c),
                    !.cache = IF op.resume THEN V.cache ELSE Del(V.cache, c)]
  /\ G' = [G EXCEPT !.sess = IF op.exp > 0 THEN Put(G.sess, c, "must") ELSE Del(G.sess, c),
                    !.sub = IF op.resume THEN G.sub ELSE Del(G.sub, c),
                    !.msg = IF op.resume THEN G.msg ELSE Del(G.msg, c),
                    !.ids = IF op.resume THEN G.ids ELSE Del(G.ids, c),
                    !.have = Del(G.have, c)]

\* SUBSCRIBE with one filter
TrySubscribe(c, f, fam, o) ==
  /\ Online(c) /\ Idle(c)
  /\ Start(c, [op |-> "subscribe", f |-> f, o |-> o], << {HSetSub(c, f, o)} >>, [AckRec("suback", c) EXCEPT !.f = f])
  /\ G' = [G EXCEPT !.sub = Put(G.sub, c, Put(GSub(c), f, Allowed(c, f) \cup {o})), !.fam = Put(G.fam, f, fam)]
  /\ UNCHANGED <<D, V, used>>

DoneSubscribe(c, op) ==
  /\ V' = [V EXCEPT !.msub = Put(V.msub, c, Put(MSub(c), op.f, op.o))]
  /\ G' = [G EXCEPT !.sub = Put(G.sub, c, Put(GSub(c), op.f, {op.o}))]

TryUnsubscribe(c, f) ==
  /\ Online(c) /\ Idle(c)
  /\ Start(c, [op |-> "unsubscribe", f |-> f], << {HDelSub(c, f)} >>, [AckRec("unsuback", c) EXCEPT !.f = f])
  /\ G' = [G EXCEPT !.sub = Put(G.sub, c, Put(GSub(c), f, Allowed(c, f) \cup {NoSub}))]
  /\ UNCHANGED <<D, V, used>>

DoneUnsubscribe(c, op) ==
  /\ V' = [V EXCEPT !.msub = PutNE(V.msub, c, Del(MSub(c), op.f), Nil)]
  /\ G' = [G EXCEPT !.sub = Put(G.sub, c, Put(GSub(c), op.f, {NoSub}))]

\* the filters of c (in table t: f |-> options) that match a topic of family fam published by p
Matching(t, c, fam, p) == {f \in DOMAIN t : Get(G.fam, f, 0) = fam /\ ~(t[f].nl /\ c = p)}

\* PUBLISH QoS 1/2 written by p (dup: the client re-sends an unacknowledged QoS2 publish with the same id)
TryPublish(p, m, fam, qos, pid) ==
  LET isdup == qos = 2 /\ pid \in Cache(p)
      R     == {c \in DOMAIN V.msub \cap V.qs : Matching(V.msub[c], c, fam, p) # {}}
      effq(c) == Min2(qos, SetMax({V.msub[c][f].qos : f \in Matching(V.msub[c], c, fam, p)}))
      st1   == IF qos = 2 /\ ~isdup THEN << {HSetUnack(p, pid)} >> ELSE << >>
      st2   == IF isdup \/ R = {} THEN << >> ELSE << {RPush(c, PubEl(m, effq(c), 0)) : c \in R} >>
      \* ghost: who is certainly a subscriber (an acknowledged subscription, no change in flight), who possibly
      sure(c) == \E f \in DOMAIN GSub(c) : /\ Get(G.fam, f, 0) = fam /\ Cardinality(GSub(c)[f]) = 1
                                            /\ \E o \in GSub(c)[f] : o # NoSub /\ ~(o.nl /\ c = p) /\ Min2(qos, o.qos) > 0
      poss(c) == \E f \in DOMAIN GSub(c) : /\ Get(G.fam, f, 0) = fam
                                            /\ \E o \in GSub(c)[f] : o # NoSub /\ ~(o.nl /\ c = p)
      cs    == {c \in DOMAIN G.sub : poss(c)}
      newst(c) == IF sure(c) /\ Get(G.sess, c, "") = "must" THEN "pend" ELSE "may"
  IN /\ Online(p) /\ Idle(p) /\ qos \in {1, 2}
     /\ Start(p, [op |-> "publish", m |-> m, qos |-> qos, pid |-> pid, dup |-> isdup], st1 \o st2,
              [AckRec(IF qos = 1 THEN "puback" ELSE "pubrec", p) EXCEPT !.m = m, !.pid = pid])
     /\ G' = IF isdup THEN G
             ELSE [G EXCEPT !.msg = [c \in DOMAIN G.msg \cup cs |->
                                       IF c \in cs /\ m \notin DOMAIN GMsg(c)
                                       THEN Put(GMsg(c), m, [st |-> newst(c), q |-> qos])
                                       \* a re-sent publish that is forwarded afresh: who was certain then may not be now
                                       ELSE IF m \in DOMAIN GMsg(c) /\ GMsg(c)[m].st = "pend" /\ ~(c \in cs /\ newst(c) = "pend")
                                       THEN [GMsg(c) EXCEPT ![m].st = "may"]
                                       ELSE GMsg(c)],
                            !.ids = IF qos = 2 /\ Get(G.sess, p, "") = "must"
                                    THEN Put(G.ids, p, Put(GIds(p), pid, "pend")) ELSE G.ids]
     /\ UNCHANGED <<D, V, used>>

DonePublish(p, op) ==
  /\ V' = IF op.qos = 2 THEN [V EXCEPT !.cache = Put(V.cache, p, Cache(p) \cup {op.pid})] ELSE V
  /\ G' = IF op.dup THEN G
          ELSE [G EXCEPT !.msg = [c \in DOMAIN G.msg |->
                                    IF op.m \in DOMAIN G.msg[c] /\ G.msg[c][op.m].st = "pend"
                                    THEN [G.msg[c] EXCEPT ![op.m].st = "must"] ELSE G.msg[c]],
                         !.ids = IF op.qos = 2 /\ op.pid \in DOMAIN GIds(p) /\ GIds(p)[op.pid] = "pend"
                                 THEN Put(G.ids, p, Put(GIds(p), op.pid, "must")) ELSE G.ids]

\* PUBREL written by the publisher p
TryPubrel(p, pid) ==
  /\ Online(p) /\ Idle(p)
  /\ Start(p, [op |-> "pubrel", pid |-> pid], << {HDelUnack(p, pid)} >>, [AckRec("pubcomp", p) EXCEPT !.pid = pid])
  /\ G' = IF pid \in DOMAIN GIds(p) THEN [G EXCEPT !.ids = Put(G.ids, p, Put(GIds(p), pid, "may"))] ELSE G
  /\ UNCHANGED <<D, V, used>>

DonePubrel(p, op) ==
  /\ V' = [V EXCEPT !.cache = PutNE(V.cache, p, Cache(p) \ {op.pid}, {})]
  /\ G' = [G EXCEPT !.ids = IF p \in DOMAIN G.ids THEN PutNE(G.ids, p, Del(GIds(p), op.pid), Nil) ELSE G.ids]

\* the subscriber c acknowledges message m (t = "puback" | "pubrec" | "pubcomp"), received with packet id id
TryCack(c, t, m, id) ==
  LET q  == Queue(c)
      ip == FirstIdx(q, LAMBDA e : e.kind = "pub" /\ e.id = id /\ e.m = m)
      ir == FirstIdx(q, LAMBDA e : e.kind = "rel" /\ e.id = id)
      todo == CASE t = "puback" /\ ip # 0 -> << {LRem(c, q[ip])} >>
                [] t = "pubrec" /\ ip # 0 -> << {LSet(c, ip - 1, RelEl(id))} >>
                [] t = "pubcomp" /\ ir # 0 -> << {LRem(c, q[ir])} >>
                [] OTHER -> << >>
  IN /\ Online(c) /\ Idle(c)
     /\ Start(c, [op |-> "cack", t |-> t, m |-> m, id |-> id], todo, [AckRec("cacked", c) EXCEPT !.m = m, !.pid = id])
     /\ G' = IF t # "pubcomp" /\ m \in DOMAIN GMsg(c) /\ GMsg(c)[m].st # "done"
             THEN [G EXCEPT !.msg = Put(G.msg, c, [GMsg(c) EXCEPT ![m].st = "may"])] ELSE G
     /\ UNCHANGED <<D, V, used>>

DoneCack(c, op) ==
  /\ V' = V
  /\ G' = [G EXCEPT !.msg = IF op.t # "pubcomp" /\ op.m \in DOMAIN GMsg(c)
                            THEN Put(G.msg, c, [GMsg(c) EXCEPT ![op.m].st = "done"]) ELSE G.msg,
                    !.have = Put(G.have, c, {h \in Have(c) : h.id # op.id}
                                            \cup {[h EXCEPT !.st = "rec"] : h \in {x \in Have(c) : x.id = op.id /\ op.t = "pubrec"}})]

\* the connection of c ends (DISCONNECT or TCP close)
TryClose(c) ==
  LET keep == c \in DOMAIN D.sess /\ D.sess[c].exp > 0
  IN /\ Online(c) /\ Idle(c)
     /\ Start(c, [op |-> "close", keep |-> keep], IF keep THEN << >> ELSE Terminate(c), AckRec("closed", c))
     /\ UNCHANGED <<D, V, G, used>>

DoneClose(c, op) ==
  /\ V' = IF op.keep THEN [V EXCEPT !.online = V.online \ {c}]
          ELSE [V EXCEPT !.online = V.online \ {c}, !.qs = V.qs \ {c}, !.msub = Del(V.msub, c), !.cache = Del(V.cache, c)]
  /\ G' = [G EXCEPT !.have = Del(G.have, c)]

\* one command of the operation in progress of some client: it must be in the current stage.
\* Command-level deviations: the as-coded form of a demanded command is accepted instead (and recorded in `used`).
AsCoded(x) == IF Dev("hdel_slice_arg") /\ x.cmd = "HDEL" /\ x.key = "sub" THEN [x EXCEPT !.f = "[" \o x.f \o "]"] ELSE x

\* the session key of a session that is being removed is deleted before its subscriptions
EarlySessionDel(c, x) ==
  /\ Dev("session_deleted_before_subs")
  /\ Len(pc[c].todo) >= 2
  /\ pc[c].todo[1] = {DelK("sub", x.c)} /\ pc[c].todo[2] = {DelK("session", x.c)}
  /\ x = DelK("session", x.c)

OwnerCmd(x) ==
  \E c \in DOMAIN pc :
    /\ Len(pc[c].todo) > 0
    /\ \/ \E y \in Head(pc[c].todo) :
            /\ x = y \/ (x # y /\ x = AsCoded(y))
            /\ used' = IF x = y THEN used ELSE used \cup {"hdel_slice_arg"}
            /\ pc' = Put(pc, c, [pc[c] EXCEPT !.todo = IF Head(pc[c].todo) = {y} THEN Tail(pc[c].todo)
                                                             ELSE << Head(pc[c].todo) \ {y} >> \o Tail(pc[c].todo)])
       \/ /\ EarlySessionDel(c, x)
          /\ used' = used \cup {"session_deleted_before_subs"}
          /\ pc' = Put(pc, c, [pc[c] EXCEPT !.todo = << pc[c].todo[1] >> \o SubSeq(pc[c].todo, 3, Len(pc[c].todo))])
    /\ Applicable(x)
    /\ D' = Apply(x)
    /\ UNCHANGED <<V, G>>

\* the commands the broker may issue next for the operation of c: as coded when a command-level deviation is on
AsCodedChoice(c) ==
  IF Len(pc[c].todo) = 0 THEN {}
  ELSE IF \E x \in {DelK("session", c)} : EarlySessionDel(c, x) THEN {DelK("session", c)}
  ELSE {AsCoded(y) : y \in Head(pc[c].todo)}

\* as coded: a CONNECT with Clean Start 1 that finds no session terminates the session of the empty client id
PhantomCmd(x) ==
  /\ Dev("phantom_session")
  /\ x \in {DelK("session", ""), DelK("sub", "")}
  /\ \E c \in DOMAIN pc : pc[c].op.op = "connect" /\ pc[c].op.clean /\ ~pc[c].op.resume /\ Len(pc[c].todo) = 3
  /\ D' = Apply(x)
  /\ used' = used \cup {"phantom_session"}
  /\ UNCHANGED <<V, pc, G>>

\* the delivery goroutine of an online client: hands out the first element without packet id.
\*   QoS0: removed (LREM); QoS>0: the assigned packet id is written back (LSET) before the PUBLISH is sent
\* the delivery goroutine of c runs from the moment CONNACK has been written (the marker comes later)
Active(c) == Online(c) \/ (V.up /\ c \in DOMAIN pc /\ pc[c].op.op = "connect" /\ pc[c].todo = << >>)

PollCmd(x) ==
  LET c == x.c
      q == Queue(c)
      i == FirstIdx(q, LAMBDA e : e.id = 0)
  IN /\ Active(c) /\ i # 0 /\ x.key = "queue" /\ Applicable(x)
     /\ \/ /\ q[i].qos = 0 /\ x = LRem(c, q[i])
        \/ /\ q[i].qos > 0 /\ x.cmd = "LSET" /\ x.idx = i - 1 /\ x.el.id # 0
           /\ x = LSet(c, i - 1, [q[i] EXCEPT !.id = x.el.id])
           /\ \A j \in DOMAIN q : q[j].id # x.el.id
     /\ D' = Apply(x)
     /\ UNCHANGED <<V, pc, G, used>>

\* in-flight elements are re-written with a fresh in-flight expiry when they are replayed: no abstract change
TouchCmd(x) ==
  /\ x.cmd = "LSET" /\ x.key = "queue" /\ Active(x.c) /\ Applicable(x)
  /\ Queue(x.c)[x.idx + 1] = x.el /\ x.el.id # 0
  /\ UNCHANGED dvars

\* the acknowledgement is written: every command of the program has been issued
Ack(a) ==
  /\ a.c \in DOMAIN pc
  /\ pc[a.c].todo = << >>
  /\ pc[a.c].ack = a
  /\ LET op == pc[a.c].op IN
       CASE op.op = "connect"     -> DoneConnect(a.c, op)
         [] op.op = "subscribe"   -> DoneSubscribe(a.c, op)
         [] op.op = "unsubscribe" -> DoneUnsubscribe(a.c, op)
         [] op.op = "publish"     -> DonePublish(a.c, op)
         [] op.op = "pubrel"      -> DonePubrel(a.c, op)
         [] op.op = "cack"        -> DoneCack(a.c, op)
         [] op.op = "close"       -> DoneClose(a.c, op)
  /\ pc' = Del(pc, a.c)
  /\ UNCHANGED <<D, used>>

\* the subscriber has read PUBLISH m with packet id id: for QoS>0 the identifier is already durable
Got(c, m, id, q) ==
  /\ Online(c)
  /\ q > 0 => \E i \in DOMAIN Queue(c) : Queue(c)[i] = PubEl(m, q, id)
  /\ G' = [G EXCEPT !.have = Put(G.have, c, {h \in Have(c) : h.m # m} \cup {[m |-> m, id |-> id, q |-> q, st |-> "got"]})]
  /\ UNCHANGED <<D, V, pc, used>>

Down == [up |-> FALSE, online |-> {}, msub |-> Nil, qs |-> {}, cache |-> Nil]

Crash ==
  /\ V.up
  /\ V' = Down /\ pc' = Nil
  /\ G' = [G EXCEPT !.have = Nil]
  /\ UNCHANGED <<D, used>>

Recover ==
  /\ ~V.up /\ StartupOK(D)
  /\ V' = Rebuild(D)
  /\ UNCHANGED <<D, pc, G, used>>

DInit ==
  /\ D = [sess |-> Nil, sub |-> Nil, queue |-> Nil, unack |-> Nil]
  /\ V = [Down EXCEPT !.up = TRUE]
  /\ pc = Nil
  /\ G = [sess |-> Nil, sub |-> Nil, msg |-> Nil, ids |-> Nil, fam |-> Nil, have |-> Nil]
  /\ used = {}

=============================================================================
