---------------------------- MODULE TakeOverInd ----------------------------
(* Inductive invariant of the take-over protocol (spec/TakeOver.tla without the schedule/history variables), checked by *)
(* Apalache for N new connections, every parameter vector and every initial situation, for behaviours of any length:   *)
(*   Init => IndInv          (--init=Init    --inv=IndInv --length=0)                                                   *)
(*   IndInv /\ Next => IndInv'  (--init=IndInv  --inv=IndInv --length=1)                                                *)
(*   IndInv => OneLive /\ StoredWhenOnline                                                                             *)
EXTENDS Integers, FiniteSets

N == 5
K == 1..N
A == 0
None == 0 - 1
Conns == K \union {A}

VARIABLES
  \* @type: Int;
  clients,
  \* @type: Bool;
  stored,
  \* @type: Set(Int);
  live,
  \* @type: Set(Int);
  closed,
  \* @type: Int -> Str;
  pc,
  \* @type: Int -> Int;
  old,
  \* @type: Int -> Bool;
  clean,
  \* @type: Int -> Int;
  exp,
  \* @type: Str;
  pre

Exp(k) == IF k = A THEN (IF pre = "online0" THEN 0 ELSE 1000) ELSE exp[k]

Init ==
  /\ pre \in {"none", "offline", "online", "online0"}
  /\ clean \in [K -> BOOLEAN]
  /\ exp \in [K -> {0, 1000}]
  /\ clients = IF pre \in {"online", "online0"} THEN A ELSE None
  /\ stored = (pre # "none")
  /\ live = IF pre \in {"online", "online0"} THEN {A} ELSE {}
  /\ closed = {}
  /\ pc = [k \in K |-> "idle"]
  /\ old = [k \in K |-> None]

Register(k) ==
  /\ clients' = k
  /\ stored' = TRUE
  /\ live' = live \union {k}
  /\ pc' = [pc EXCEPT ![k] = "done"]
  /\ UNCHANGED <<old, closed>>

Read(k) ==
  IF stored /\ clients # None
    THEN /\ pc' = [pc EXCEPT ![k] = "gateA"]
         /\ old' = [old EXCEPT ![k] = clients]
         /\ UNCHANGED <<clients, stored, live, closed>>
    ELSE Register(k)

Enter(k) == pc[k] = "idle" /\ Read(k) /\ UNCHANGED <<clean, exp, pre>>

Teardown(o) ==
  IF o \in closed THEN UNCHANGED <<clients, stored, live, closed>>
  ELSE /\ closed' = closed \union {o}
       /\ live' = live \ {o}
       /\ clients' = IF o \in live THEN None ELSE clients
       /\ stored' = IF o \in live THEN Exp(o) > 0 ELSE stored

RelA(k) ==
  /\ pc[k] = "gateA"
  /\ Teardown(old[k])
  /\ pc' = [pc EXCEPT ![k] = "gateB"]
  /\ UNCHANGED <<old, clean, exp, pre>>

RelB(k) == pc[k] = "gateB" /\ Read(k) /\ UNCHANGED <<clean, exp, pre>>

Next == \E k \in K : Enter(k) \/ RelA(k) \/ RelB(k)

OneLive == /\ Cardinality(live) <= 1
           /\ (clients # None => live = {clients})
           /\ (clients = None => live = {})
StoredWhenOnline == clients # None => stored

IndInv ==
  /\ pre \in {"none", "offline", "online", "online0"}
  /\ clean \in [K -> BOOLEAN]
  /\ exp \in [K -> {0, 1000}]
  /\ stored \in BOOLEAN
  /\ clients \in Conns \union {None}
  /\ live \in SUBSET Conns
  /\ closed \in SUBSET Conns
  /\ pc \in [K -> {"idle", "gateA", "gateB", "done"}]
  /\ old \in [K -> Conns \union {None}]
  /\ live \intersect closed = {}
  /\ OneLive
  /\ StoredWhenOnline
  /\ (A \in live \union closed => pre \in {"online", "online0"})
  /\ \A k \in K :
       /\ (pc[k] = "done") <=> (k \in live \union closed)
       /\ pc[k] = "gateA" => (old[k] \in Conns /\ old[k] # k /\ old[k] \in live \union closed)
       /\ pc[k] = "gateB" => old[k] \in closed

Safety == OneLive /\ StoredWhenOnline
=============================================================================
