----------------------------- MODULE LockOrder -----------------------------
(***************************************************************************)
(* C15, "answers every request within bounded time": the broker-wide locks *)
(* and the order in which the broker's code paths take them.               *)
(*                                                                         *)
(*   srv    srv.mu (sync.Mutex): session table, delivery (the deliverMessage*)
(*          closure of a connection and Publisher.Publish hold it over the   *)
(*          whole distribution of a message), register / unregister          *)
(*   subs   the subscription store's sync.RWMutex (mem.TrieDB): Subscribe /  *)
(*          Unsubscribe write, Iterate (delivery) and GetClientStats read    *)
(*   queue  a session queue's mutex (mem.Queue: Add, Read, Remove notify the *)
(*          statistics while holding it)                                     *)
(*   limiter the packet-id limiter of a connection (packetIDLimiter.cond.L):  *)
(*          a full queue drops an expired in-flight message inside Add and    *)
(*          releases its packet id (NotifyDropped -> pl.release)              *)
(*   stats  statsManager.clientMu (one mutex for the per-client statistics   *)
(*          of ALL clients: every packet read or written takes it)           *)
(*                                                                         *)
(* A path is a sequence of operations <<op, lock>>, op in L (Lock), R       *)
(* (RLock), U (Unlock / RUnlock).  sync.RWMutex as implemented by Go: a     *)
(* writer first announces itself (from then on RLock blocks: writer         *)
(* preference) and then waits for the readers to leave.  TLC explores every *)
(* interleaving of one instance of each path in Paths; a state in which     *)
(* some path is unfinished and none can move is a deadlock of the broker:   *)
(* every later request that needs one of the held locks is never answered.  *)
(*                                                                         *)
(* Which locks the statistics paths take under clientMu is read from the    *)
(* source at check time (harness/cmd/lockorder): TouchReadsStore = a first  *)
(* use of a client's statistics reads the subscription store while holding  *)
(* clientMu; ReadHoldsMu = StatsReader.GetClientStats reads the store while *)
(* holding clientMu.  A deadlock found in the model is turned into a gated   *)
(* script (harness/cmd/conn kind "lockorder") and only what the real broker  *)
(* then does counts.                                                         *)
(***************************************************************************)
EXTENDS Integers, Sequences, FiniteSets, TLC

CONSTANTS TouchReadsStore, ReadHoldsMu,
          PollLimiterFirst,  \* pollInflights takes the packet-id limiter's lock before it reads the queue (read from the source)
          Kinds            \* the paths taken part in this run: subset of DOMAIN Path

Locks == {"srv", "subs", "queue", "stats", "limiter"}
RW == {"subs"}

L(l) == <<"L", l>>
R(l) == <<"R", l>>
U(l) == <<"U", l>>

\* the code paths (server/server.go, server/client.go, server/stats.go, persistence/queue/mem, persistence/subscription/mem)
Path ==
  [ \* PUBLISH handled: srv.mu, Iterate under the store's read lock, per subscriber queue.Add (queue mutex) which notifies
    \* the statistics (clientMu)
    deliver   |-> <<L("srv"), R("subs"), L("queue"), L("stats"), U("stats"), L("limiter"), U("limiter"), U("queue"), U("subs"), U("srv")>>,
    \* SUBSCRIBE / UNSUBSCRIBE of a client: the store's write lock (no srv.mu)
    subscribe |-> <<L("subs"), U("subs")>>,
    \* a packet read or written for a client whose statistics do not exist yet (every new connection: CONNACK)
    touch     |-> IF TouchReadsStore THEN <<L("stats"), R("subs"), U("subs"), U("stats")>> ELSE <<L("stats"), U("stats")>>,
    \* StatsReader.GetClientStats (API)
    statsread |-> IF ReadHoldsMu THEN <<L("stats"), R("subs"), U("subs"), U("stats")>>
                  ELSE <<L("stats"), U("stats"), R("subs"), U("subs")>>,
    \* pollMessageHandler: queue.Read notifies the statistics under the queue mutex
    poll      |-> <<L("queue"), L("stats"), U("stats"), U("queue")>>,
    \* pollInflights (a resumed session): ReadInflight under the queue mutex, the packet ids are marked under the limiter's lock
    pollinfl  |-> IF PollLimiterFirst THEN <<L("limiter"), L("queue"), U("queue"), U("limiter")>>
                  ELSE <<L("queue"), U("queue"), L("limiter"), U("limiter")>>,
    \* CONNECT with Clean Start on an existing session: srv.mu, UnsubscribeAll (store write lock), sessionTerminated (clientMu)
    register  |-> <<L("srv"), L("subs"), U("subs"), L("stats"), U("stats"), U("srv")>> ]

VARIABLES pc,        \* per path: index of the next operation
          holder,    \* per lock: the path holding it exclusively, "" if none
          readers,   \* per RW lock: the paths holding it shared
          pending    \* per RW lock: writers that have announced themselves

vars == <<pc, holder, readers, pending>>

Init == /\ pc = [k \in Kinds |-> 1]
        /\ holder = [l \in Locks |-> ""]
        /\ readers = [l \in RW |-> {}]
        /\ pending = [l \in RW |-> {}]

Done(k) == pc[k] > Len(Path[k])
Op(k) == Path[k][pc[k]]

Step(k) ==
  /\ ~Done(k)
  /\ LET op == Op(k)[1]  l == Op(k)[2] IN
     \/ /\ op = "L" /\ l \notin RW /\ holder[l] = ""
        /\ holder' = [holder EXCEPT ![l] = k]
        /\ pc' = [pc EXCEPT ![k] = @ + 1]
        /\ UNCHANGED <<readers, pending>>
     \/ \* a writer announces itself ...
        /\ op = "L" /\ l \in RW /\ k \notin pending[l] /\ holder[l] = "" /\ pending[l] = {}
        /\ pending' = [pending EXCEPT ![l] = @ \cup {k}]
        /\ UNCHANGED <<pc, holder, readers>>
     \/ \* ... and gets the lock when the readers have left
        /\ op = "L" /\ l \in RW /\ k \in pending[l] /\ readers[l] = {}
        /\ pending' = [pending EXCEPT ![l] = @ \ {k}]
        /\ holder' = [holder EXCEPT ![l] = k]
        /\ pc' = [pc EXCEPT ![k] = @ + 1]
        /\ UNCHANGED readers
     \/ /\ op = "R" /\ holder[l] = "" /\ pending[l] = {}
        /\ readers' = [readers EXCEPT ![l] = @ \cup {k}]
        /\ pc' = [pc EXCEPT ![k] = @ + 1]
        /\ UNCHANGED <<holder, pending>>
     \/ /\ op = "U"
        /\ IF l \in RW /\ k \in readers[l]
             THEN /\ readers' = [readers EXCEPT ![l] = @ \ {k}] /\ UNCHANGED holder
             ELSE /\ holder' = [holder EXCEPT ![l] = ""] /\ UNCHANGED readers
        /\ pc' = [pc EXCEPT ![k] = @ + 1]
        /\ UNCHANGED pending

AllDone == \A k \in Kinds : Done(k)
Next == (\E k \in Kinds : Step(k)) \/ (AllDone /\ UNCHANGED vars)
Spec == Init /\ [][Next]_vars /\ WF_vars(Next)

----------------------------------------------------------------------------
\* no state in which an unfinished path exists and nothing can move (TLC's own deadlock check finds the same states; the
\* invariant gives the counter-example a name)
Stuck == ~AllDone /\ ~ENABLED (\E k \in Kinds : Step(k))
NoLockCycle == ~Stuck
\* a lock is never held exclusively and shared at once; at most one exclusive holder by construction
Exclusive == \A l \in RW : holder[l] # "" => readers[l] = {}
Finishes == <>AllDone
=============================================================================
