------------------------------- MODULE Limiter -------------------------------
(***************************************************************************)
(* Packet-id limiter (property C03: ids non-zero and distinct among the    *)
(* unacknowledged, window bounded by the limit).  DESIGN.md App. B.2.      *)
(*                                                                         *)
(* server.packetIDLimiter of gmqtt: pollPacketIDs / release /              *)
(* batchRelease / markUsedLocked / close.                                  *)
(*                                                                         *)
(* Functional style: every action wraps a pure operator                    *)
(* Do<Op>(st, args) = [st |-> st', ...out], so that the model can also     *)
(* predict the answer of a probe Poll issued from the post-state.          *)
(*                                                                         *)
(* st = [used, limit, free, exit]                                          *)
(*   used  \subseteq 1..MaxId   ids handed out / marked and not released   *)
(*   limit                      window (fixed at construction)             *)
(*   free  \in 1..MaxId         where the cyclic scan for the next id      *)
(*                              starts                                     *)
(*   exit                       closed                                     *)
(*                                                                         *)
(* WHAT THE PROPERTY DEMANDS of Poll(max), enabled iff exit \/ |used| <    *)
(* limit: (not closed) exactly Min(max, limit - |used|) ids, each non-zero *)
(* and in 1..MaxId, none in `used`, pairwise distinct; afterwards they are *)
(* in `used`; |used| <= limit always.  WHICH ids is free.  The code scans  *)
(* cyclically from `free`, which is deterministic, so the model predicts   *)
(* exactly those ids (PollExact is what the replayer compares first); the  *)
(* property-level statement is PollFresh / Window, and the replayer        *)
(* classifies a disagreement by it.                                        *)
(*                                                                         *)
(* Release of an id that is not in use is a no-op (the broker releases     *)
(* whatever id a client acknowledges).  MarkUsed is only applied to ids    *)
(* not in use and only while the window has room (that is how the broker   *)
(* is meant to use it after a reconnect; resending more than the window is *)
(* Outbound's concern, not this component's).                              *)
(***************************************************************************)
EXTENDS Naturals, Sequences, FiniteSets, TLC, Json

CONSTANTS MaxId,      \* largest packet id (65535 in the code; small in the model to reach wrap-around)
          Limits,     \* set of limits explored (chosen in Init), each in 1..MaxId
          PollArgs,   \* set of `max` arguments of Poll (>= 1)
          IdArgs,     \* set of id arguments of Release / MarkUsed (may contain 0 and unused ids)
          Batches,    \* set of sequences of ids: arguments of BatchRelease
          FreeBound,  \* bound: states with free <= FreeBound (= MaxId when wrap-around is to be reached)
          ProbeMax    \* `max` of the probe Poll

VARIABLES st, path, last
vars == <<st, path, last>>
view == st

Min(a, b) == IF a <= b THEN a ELSE b
Range(s) == {s[i] : i \in 1..Len(s)}
Cnt(s) == Cardinality(s.used)

Succ(i) == IF i = MaxId THEN 1 ELSE i + 1

\* next id >= f (cyclically) that is not in U; only evaluated when some id of 1..MaxId is outside U
RECURSIVE NextFree(_, _)
NextFree(f, U) == IF f \notin U THEN f ELSE NextFree(Succ(f), U)

RECURSIVE Take(_, _)
Take(s, n) == IF n = 0 THEN [st |-> s, ids |-> <<>>]
              ELSE LET id == NextFree(s.free, s.used)
                       r  == Take([s EXCEPT !.used = @ \cup {id}, !.free = Succ(id)], n - 1)
                   IN [st |-> r.st, ids |-> <<id>> \o r.ids]

PollEnabled(s) == s.exit \/ Cnt(s) < s.limit          \* otherwise the caller blocks

DoPoll(s, max)   == IF s.exit THEN [st |-> s, ids |-> <<>>]          \* closed: nil
                    ELSE Take(s, Min(max, s.limit - Cnt(s)))
DoRelease(s, id) == [st |-> [s EXCEPT !.used = @ \ {id}]]
DoBatch(s, ids)  == [st |-> [s EXCEPT !.used = @ \ Range(ids)]]
MarkEnabled(s, id) == id \in 1..MaxId /\ id \notin s.used /\ Cnt(s) < s.limit
DoMark(s, id)    == [st |-> [s EXCEPT !.used = @ \cup {id}]]
DoClose(s)       == [st |-> [s EXCEPT !.exit = TRUE]]

Init == /\ st \in {[used |-> {}, limit |-> l, free |-> 1, exit |-> FALSE] : l \in Limits}
        /\ path = <<>>
        /\ last = [op |-> "init"]

Poll(max) == /\ PollEnabled(st)
             /\ LET r == DoPoll(st, max) IN
                /\ st' = r.st
                /\ last' = [op |-> "poll", max |-> max, ids |-> r.ids]

Release(id) == /\ st' = DoRelease(st, id).st
               /\ last' = [op |-> "release", id |-> id]

BatchRelease(ids) == /\ st' = DoBatch(st, ids).st
                     /\ last' = [op |-> "batch", ids |-> ids]

MarkUsed(id) == /\ MarkEnabled(st, id)
                /\ st' = DoMark(st, id).st
                /\ last' = [op |-> "mark", id |-> id]

Close == /\ st' = DoClose(st).st
         /\ last' = [op |-> "close"]

Next == /\ \/ \E m \in PollArgs : Poll(m)
           \/ \E id \in IdArgs : Release(id)
           \/ \E b \in Batches : BatchRelease(b)
           \/ \E id \in IdArgs : MarkUsed(id)
           \/ Close
        /\ path' = Append(path, last')

Spec == Init /\ [][Next]_vars

Bound == st.free <= FreeBound

----------------------------------------------------------------------------
(* Design-level properties.                                                *)

TypeOK == /\ \A i \in st.used : i \in 1..MaxId
          /\ st.free \in 1..MaxId
          /\ st.limit \in 1..MaxId
          /\ st.exit \in BOOLEAN

\* C03: the number of ids in use never exceeds the window
Window == Cnt(st) <= st.limit

\* C03: what a Poll hands out is fresh: non-zero, in range, not in use before, pairwise distinct, as many as the window allows
PollFresh ==
    [][last'.op = "poll" =>
         LET ids == last'.ids IN
         /\ \A i \in 1..Len(ids) : ids[i] # 0 /\ ids[i] \in 1..MaxId /\ ids[i] \notin st.used
         /\ \A i, j \in 1..Len(ids) : i # j => ids[i] # ids[j]
         /\ Len(ids) = (IF st.exit THEN 0 ELSE Min(last'.max, st.limit - Cnt(st)))
         /\ st'.used = st.used \cup Range(ids)]_vars

\* a Poll that is not blocked and not closed yields at least one id
PollProgress == [][(last'.op = "poll" /\ ~st.exit) => Len(last'.ids) >= 1]_vars

\* releases take away exactly the named ids, nothing else changes; closing is permanent
ReleaseExact ==
    [][/\ last'.op = "release" => st'.used = st.used \ {last'.id}
       /\ last'.op = "batch" => st'.used = st.used \ Range(last'.ids)
       /\ last'.op = "mark" => (last'.id \notin st.used /\ st'.used = st.used \cup {last'.id})
       /\ st.exit => st'.exit
       /\ st'.limit = st.limit]_vars

----------------------------------------------------------------------------
(* Transition dump for the transition-coverage replay: prefix, operation   *)
(* with the predicted answer, `upre` (ids in use before the operation, to  *)
(* classify a wrong Poll answer by PollFresh), projection of the           *)
(* post-state (`used`, `blocked`) and the predicted answer of the probe    *)
(* Poll(ProbeMax) from the post-state (`probe.en` = the probe is enabled,  *)
(* i.e. must not be issued otherwise).                                     *)
Dump == PrintT(ToJson([limit |-> st.limit, pre |-> path, op |-> last', upre |-> st.used,
                       used |-> st'.used, blocked |-> ~PollEnabled(st'), exit |-> st'.exit,
                       probe |-> [en |-> PollEnabled(st'),
                                  ids |-> IF PollEnabled(st') THEN DoPoll(st', ProbeMax).ids ELSE <<>>]]))
=============================================================================
