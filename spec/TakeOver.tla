------------------------------ MODULE TakeOver ------------------------------
(***************************************************************************)
(* C05, second clause: simultaneous CONNECTs on ONE client id at the grain *)
(* of the code (server/server.go lockDuplicatedID / registerClient /        *)
(* unregisterClient / client.internalClose).                                *)
(*                                                                         *)
(* A new connection k                                                      *)
(*   Enter(k)  takes srv.mu and reads the session store and srv.clients:   *)
(*             nobody online -> it keeps the lock and registers (Register); *)
(*             somebody online (o) -> it drops the lock and parks at gate   *)
(*             "takeover.unlocked" (pc = "gateA", old = o);                 *)
(*   RelA(k)   setError / Close on o and waits for o.closed (o's teardown:  *)
(*             unregisterClient under srv.mu, then close(closed)); parks at *)
(*             gate "takeover.oldclosed" (pc = "gateB");                    *)
(*   RelB(k)   loops: takes the lock again and re-reads (= Enter).          *)
(* With every runner parked except the released one the execution between  *)
(* two gates is sequential, so a schedule = the order of arrivals and gate *)
(* releases.  TLC enumerates every schedule (hist is part of the state) and *)
(* prints each complete one; the harness forces it on the real broker       *)
(* through the blocking gate hooks (schedule gating) and the recorded trace *)
(* is validated against Broker.tla.                                         *)
(*                                                                         *)
(* Design level: OneLive (at most one live registered connection, and the   *)
(* client table points at it), DisplacedClosedFirst, termination.  The      *)
(* constant Mutant switches on as-could-be-coded mistakes (self-test: each  *)
(* must violate OneLive in the model).                                      *)
(***************************************************************************)
EXTENDS Integers, Sequences, FiniteSets, TLC, Json

CONSTANTS N,        \* number of new connections
          Pres,     \* initial situations: subset of {"none", "offline", "online", "online0"}
          ParSet,   \* set of parameter sequences <<[clean, exp], ...>> of length N (exp = session expiry, 0 or > 0)
          Mutant    \* "" | "no_recheck" (register after the wait without looking again) | "relock_window" (the lock
                    \* is dropped between the read that found nobody online and the registration: the defect repaired
                    \* by 4a051de)

VARIABLES clients,  \* srv.clients[id]: the registered connection, None if nobody
          stored,   \* a session record exists in the session store
          live,     \* connections that were registered and whose teardown has not finished
          closed,   \* connections whose closed channel is closed
          pc, old,  \* per new connection
          par,      \* parameters of this behaviour
          pre,      \* initial situation
          regs,     \* sequence of registrations [k, resume]
          hist      \* the schedule

vars == <<clients, stored, live, closed, pc, old, par, pre, regs, hist>>

K == 1..N
A == 0          \* the connection that exists before the storm (pre = online / online0)
None == 0 - 1

Exp(k) == IF k = A THEN (IF pre = "online0" THEN 0 ELSE 1000) ELSE par[k].exp

Init ==
  /\ pre \in Pres
  /\ par \in ParSet
  /\ clients = IF pre \in {"online", "online0"} THEN A ELSE None
  /\ stored = (pre # "none")
  /\ live = IF pre \in {"online", "online0"} THEN {A} ELSE {}
  /\ closed = {}
  /\ pc = [k \in K |-> "idle"]
  /\ old = [k \in K |-> None]
  /\ regs = <<>>
  /\ hist = <<>>

\* registerClient with srv.mu held since the read that found nobody online
Register(k) ==
  LET resume == stored /\ ~par[k].clean IN
  /\ clients' = k
  /\ stored' = TRUE
  /\ live' = live \cup {k}
  /\ regs' = Append(regs, [k |-> k, resume |-> resume])
  /\ pc' = [pc EXCEPT ![k] = "done"]
  /\ UNCHANGED <<old, closed>>

\* lock; read store and table
Read(k) ==
  IF stored /\ clients # None
    THEN /\ pc' = [pc EXCEPT ![k] = "gateA"]
         /\ old' = [old EXCEPT ![k] = clients]
         /\ UNCHANGED <<clients, stored, live, closed, regs>>
    ELSE IF Mutant = "relock_window"
           THEN /\ pc' = [pc EXCEPT ![k] = "regwait"]
                /\ UNCHANGED <<clients, stored, live, closed, regs, old>>
           ELSE Register(k)

\* (mutant relock_window only) the registration that follows a read made under an earlier critical section
RegLate(k) ==
  /\ pc[k] = "regwait"
  /\ Register(k)
  /\ hist' = Append(hist, [op |-> "internal", k |-> k])
  /\ UNCHANGED <<par, pre>>

Enter(k) ==
  /\ pc[k] = "idle"
  /\ Read(k)
  /\ hist' = Append(hist, [op |-> "arrive", k |-> k])
  /\ UNCHANGED <<par, pre>>

\* teardown of connection o (unregisterClient deletes srv.clients[id] whoever is in it; the session stays iff expiry > 0)
Teardown(o) ==
  IF o \in closed THEN UNCHANGED <<clients, stored, live, closed>>
  ELSE /\ closed' = closed \cup {o}
       /\ live' = live \ {o}
       /\ clients' = IF o \in live THEN None ELSE clients
       /\ stored' = IF o \in live THEN Exp(o) > 0 ELSE stored

RelA(k) ==
  /\ pc[k] = "gateA"
  /\ Teardown(old[k])
  /\ pc' = [pc EXCEPT ![k] = "gateB"]
  /\ hist' = Append(hist, [op |-> "release", k |-> k, point |-> "takeover.unlocked"])
  /\ UNCHANGED <<old, regs, par, pre>>

RelB(k) ==
  /\ pc[k] = "gateB"
  /\ IF Mutant = "no_recheck" THEN Register(k) ELSE Read(k)
  /\ hist' = Append(hist, [op |-> "release", k |-> k, point |-> "takeover.oldclosed"])
  /\ UNCHANGED <<par, pre>>

AllDone == \A k \in K : pc[k] = "done"

Next == \/ \E k \in K : Enter(k) \/ RelA(k) \/ RelB(k) \/ RegLate(k)
        \/ AllDone /\ UNCHANGED vars

Spec == Init /\ [][Next]_vars /\ WF_vars(Next)

----------------------------------------------------------------------------
\* at most one live registered connection, and the table points at it
OneLive == /\ Cardinality(live) <= 1
           /\ clients # None => live = {clients}
           /\ clients = None => live = {}
\* a connection is registered only when every earlier registered connection has finished its teardown
DisplacedClosedFirst == \A i \in DOMAIN regs : \A j \in 1..(i - 1) : regs[j].k \in closed \/ regs[j].k = regs[i].k
\* a session record exists whenever somebody is registered
StoredWhenOnline == clients # None => stored
\* every behaviour ends with everybody served: the last one to register is online, all others are closed
Ends == <>[](AllDone /\ clients \in K /\ \A k \in K : k = clients \/ k \in closed)

\* behaviour enumeration: one line per complete schedule
Dump == AllDone => PrintT(ToJson([pre |-> pre, par |-> par, steps |-> hist, regs |-> regs, final |-> clients]))
=============================================================================
