------------------------------- MODULE Broker -------------------------------
(***************************************************************************)
(* The broker as seen on the wire: sessions, connections, subscriptions,   *)
(* retained messages, delivery obligations and owed control packets.       *)
(*                                                                         *)
(* Every action is parameterised by the fields of one observable event     *)
(* (a packet written by a scripted client, a packet read from the broker,  *)
(* an API call, a barrier).  TraceBroker.tla binds the actions to the      *)
(* lines of a recorded trace; MCBroker.tla drives them from small          *)
(* constant sets for the design-level checks.                              *)
(*                                                                         *)
(* Delivery is specified declaratively as *obligations*: a publication     *)
(* creates, for every session that must receive a copy, a record of what   *)
(* that copy must look like (QoS, RETAIN, subscription identifiers).  A    *)
(* PUBLISH read from the broker must discharge exactly one obligation of   *)
(* that session; at a barrier (Quiet) nothing dischargeable may be left.   *)
(* Packet identifiers of outbound messages are tracked per session         *)
(* (inflight) so that ids, DUP and the window can be judged (C03).         *)
(***************************************************************************)
EXTENDS Topics, FiniteSets, TLC, Integers

\* Named deviations (known findings, DESIGN.md 2.5): the empty set is the specification proper.  A trace rejected
\* by the specification proper is re-validated with exactly one listed deviation switched on; each deviation
\* describes one recorded defect of the implementation as precisely as possible and nothing else.
CONSTANT Deviations
Dev(d) == d \in Deviations

VARIABLES
  cfg,      \* scenario configuration [mode, qq0 (queue_qos0), maxinflight]
  subs,     \* set of [c, n, share, lv, sys, o]   o = [qos, nl, rap, rh, id];  key (c, n)
  conn,     \* connection k |-> [cid, ver, st \in {"connecting","up","down"}, clean, recvmax]
  sess,     \* client id |-> [exists, online (k or 0), ver]     (sessions that exist)
  owed,     \* client id |-> set of delivery obligations
  gowed,    \* set of group obligations (shared subscriptions: one member, the choice is the broker's)
  ctl,      \* connection k |-> set of control packets the broker owes on k
  ret,      \* retained store: topic name |-> [tag, qos, lv, sys]
  unack,    \* client id |-> set of inbound QoS2 packet ids awaiting PUBREL
  infl,     \* client id |-> set of outbound inflight entries [pid, tag, phase \in {"pub","rel"}, qos]
  last,     \* <<subscriber cid, publisher cid>> |-> highest publication index received (per-pair order)
  ctr,      \* counters [pub (publication index), oid (obligation ids)]
  aux       \* [wills: client id |-> will not yet published [m, due, st], reg: client id |-> registered connection
            \*  (from the broker's own register/unregister hook events), closedc: connections whose teardown finished]

bvars == <<cfg, subs, conn, sess, owed, gowed, ctl, ret, unack, infl, last, ctr, aux>>

API == "@api"         \* publisher id of the in-process Publisher
RET == "@retained"    \* "publisher" of retained replays (exempt from the order clause)

Get(f, x, d) == IF x \in DOMAIN f THEN f[x] ELSE d
Put(f, x, v) == [y \in DOMAIN f \cup {x} |-> IF y = x THEN v ELSE f[y]]
Owed(c)  == Get(owed, c, {})
Ctl(k)   == Get(ctl, k, {})
Unack(c) == Get(unack, c, {})
Infl(c)  == Get(infl, c, {})
Up(k)    == k \in DOMAIN conn /\ conn[k].st = "up"
Online(c) == c \in DOMAIN sess /\ sess[c].online # 0 /\ conn[sess[c].online].st = "up"
\* the client has ended (or seen the end of) the session's connection, the broker has not finished it yet (hook mode)
Closing(c) == c \in DOMAIN sess /\ sess[c].online # 0 /\ conn[sess[c].online].st = "closing"
SeqToSet(s) == {s[i] : i \in DOMAIN s}

BInit(c) ==
  /\ cfg = c
  /\ subs = {} /\ conn = <<>> /\ sess = <<>> /\ owed = <<>> /\ gowed = {}
  /\ ctl = <<>> /\ ret = <<>> /\ unack = <<>> /\ infl = <<>> /\ last = <<>>
  /\ ctr = [pub |-> 0, oid |-> 0]
  /\ aux = [wills |-> <<>>, reg |-> <<>>, closedc |-> {}, srvended |-> {}, sockc |-> {}, nreg |-> 0]

----------------------------------------------------------------------------
(* Sessions and connections                                                *)

\* the session expiry interval a connection starts with: v3 - none for clean sessions, the configured one
\* otherwise; v5 - min(requested, configured), absent (-1) meaning 0
StartExpiry(ver, clean, req) ==
  IF ver # 5 THEN (IF clean THEN 0 ELSE cfg.sessexpiry)
  ELSE IF req < 0 THEN 0 ELSE Min(req, cfg.sessexpiry)

NoWill == [has |-> FALSE]

\* CONNECT written by the client on a fresh connection k (at harness time ms)
\* lim = [maxpkt, aliasmax]: the client's Maximum Packet Size and Topic Alias Maximum (0 = not given)
\* w = NoWill or [has |-> TRUE, topic, lv, sys, qos, retain, tag, delay]
Connect(k, cid, ver, clean, recvmax, expiry, lim, w, addr, ms) ==
  /\ k \notin DOMAIN conn
  /\ conn' = Put(conn, k, [cid |-> cid, ver |-> ver, st |-> "connecting", clean |-> clean, recvmax |-> recvmax,
                          expiry |-> StartExpiry(ver, clean, expiry), sawfresh |-> FALSE,
                          maxpkt |-> lim.maxpkt, aliasmax |-> lim.aliasmax,
                          open |-> 0,          \* inbound QoS>0 publications on k the broker has not finished (C13)
                          aliasin |-> <<>>,    \* inbound alias bindings made on k
                          dying |-> {},        \* reason codes of the DISCONNECT the broker owes before closing k
                          disc |-> FALSE,      \* that DISCONNECT has been read
                          will |-> w, addr |-> addr, t0 |-> ms, force |-> FALSE, resumed |-> FALSE,
                          regseq |-> 0,        \* position in the order of registrations (0: not registered)
                          bye |-> [has |-> FALSE, code |-> 0, exp |-> 0 - 1]])
  /\ UNCHANGED <<cfg, subs, sess, owed, gowed, ctl, ret, unack, infl, last, ctr, aux>>

\* the state a session is reduced to when its connection goes away: QoS0 copies not yet read may or may
\* may not come later (opt), QoS>0 copies may come back with DUP (carried)
Carry(S) == {[ob EXCEPT !.opt = (ob.qos = 0) \/ ob.opt, !.carried = TRUE] : ob \in S}

EndSessionState(c) ==
  /\ subs' = {s \in subs : s.c # c}
  /\ owed' = [x \in DOMAIN owed \ {c} |-> owed[x]]
  /\ unack' = [x \in DOMAIN unack \ {c} |-> unack[x]]
  /\ infl' = [x \in DOMAIN infl \ {c} |-> infl[x]]
  /\ gowed' = {g \in {[h EXCEPT !.members = {m \in h.members : m.c # c}] : h \in gowed} : g.members # {}}

\* ---- time.  Harness milliseconds; an event logged at ms happened in the broker within [ms, ms + slack] for inputs
\* (logged before the write) and within [ms - slack, ms] for outputs (logged after the read).
WinMs == 450          \* decisive instants of timed scenarios keep at least this distance from every deadline
WillLateMs == 500

\* C05: may / must the session of the CONNECT on k be resumed?  A session is over when a Clean Start, an administrative
\* termination or the elapse of its expiry interval - measured from the end of its last connection - ended it.
ResumeVerdicts(k, msa) ==
  LET c == conn[k].cid IN
  IF conn[k].clean \/ c \notin DOMAIN sess THEN {FALSE}
  \* take-over of a live session: the displaced connection ends now, and with expiry interval 0 so does its session
  ELSE IF sess[c].online # 0 THEN {conn[sess[c].online].expiry > 0 /\ ~conn[sess[c].online].force}
  ELSE IF msa < sess[c].expireAt - WinMs THEN {TRUE}
  ELSE IF conn[k].t0 > sess[c].expireAt + WinMs THEN {FALSE}
  ELSE {TRUE, FALSE}

\* C08: what becomes of the will of connection k of client c when that connection ends at ms
\* (suppress: a DISCONNECT that removes the will; e: session expiry interval that now applies)
Wills == aux.wills
WillAtEnd(W, c, k, suppress, e, ms) ==
  IF ~conn[k].will.has \/ suppress THEN W
  ELSE LET d == IF e = 0 THEN 0 ELSE Min(conn[k].will.delay, e) IN
       Put(W, c, [m |-> conn[k].will, due |-> ms + d * 1000, st |-> "pending"])

\* the session of c has ended (clean start, termination, expiry): a will still waiting is published now
WillAtSessionEnd(W, c, ms) ==
  IF c \in DOMAIN W /\ W[c].st # "due" THEN [W EXCEPT ![c] = [@ EXCEPT !.due = Min(@, ms), !.st = "pending"]] ELSE W

\* the session of c is resumed by a CONNECT logged at msc and acknowledged at msa: a will whose delay has not
\* passed must not be published any more
WillAtResume(W, c, msc, msa) ==
  IF c \notin DOMAIN W THEN W
  ELSE IF msa < W[c].due - WinMs THEN [x \in DOMAIN W \ {c} |-> W[x]]
  ELSE IF msc > W[c].due + WinMs THEN W                   \* it was due before: it must have been / be published
  ELSE [W EXCEPT ![c].st = "maybe"]

\* Connection k of client c becomes THE connection of the session (sp: the session is resumed).
\* A previous connection of the same client id is displaced (its obligations are void from now on; its will is
\* treated like that of any connection that ended without DISCONNECT).
Attach(k, sp, ms, st) ==
  LET c == conn[k].cid
      old == IF c \in DOMAIN sess THEN sess[c].online ELSE 0
      conn1 == IF old # 0 /\ old # k THEN [conn EXCEPT ![old].st = "down"] ELSE conn
      w1 == IF old # 0 /\ old # k THEN WillAtEnd(Wills, c, old, FALSE, conn[old].expiry, conn[k].t0) ELSE Wills
      w2 == IF sp THEN WillAtResume(w1, c, conn[k].t0, ms) ELSE WillAtSessionEnd(w1, c, conn[k].t0) IN
  /\ sp \in ResumeVerdicts(k, ms)
  /\ conn' = [conn1 EXCEPT ![k].st = st, ![k].resumed = sp, ![k].regseq = aux.nreg + 1]
  /\ sess' = Put(sess, c, [online |-> k, ver |-> conn[k].ver, expireAt |-> 0])
  /\ ctl' = IF old # 0 /\ old # k THEN Put(ctl, old, {}) ELSE ctl
  /\ aux' = [aux EXCEPT !.wills = w2, !.nreg = @ + 1]
  /\ IF sp
       THEN /\ owed' = Put(owed, c, Carry(Owed(c)))
            \* everything this session has received and not fully acknowledged must be retransmitted first (C03)
            /\ infl' = Put(infl, c, {[e EXCEPT !.rs = TRUE] : e \in Infl(c)})
            /\ UNCHANGED <<subs, unack, gowed>>
       ELSE EndSessionState(c)
  /\ UNCHANGED <<cfg, ret, last, ctr>>

\* successful CONNACK read on k at ms.  sp = Session Present must be a verdict the specification allows.
\* Without instrumentation the CONNACK is where the connection is seen to attach.  With the broker's register events
\* in the trace (cfg.hooks) the attachment happened at the register event, in the broker's own order - which is what
\* makes traces with simultaneous CONNECTs on one client id explainable; the CONNACK must then carry the same verdict,
\* and it may arrive after the connection has been displaced again.
Connack(k, sp, code, ms) ==
  /\ k \in DOMAIN conn /\ code = 0
  /\ IF ~cfg.hooks
       THEN conn[k].st = "connecting" /\ Attach(k, sp, ms, "up")
       ELSE /\ conn[k].st \in {"registered", "down"} /\ conn[k].resumed = sp
            /\ conn' = IF conn[k].st = "registered" THEN [conn EXCEPT ![k].st = "up"] ELSE conn
            /\ UNCHANGED <<cfg, subs, sess, owed, gowed, ctl, ret, unack, infl, last, ctr, aux>>

\* CONNACK with a failure code: the connection is dead, nothing else changes
ConnackFail(k, code) ==
  /\ k \in DOMAIN conn /\ conn[k].st = "connecting"
  /\ code # 0
  /\ conn' = [conn EXCEPT ![k].st = "down"]
  /\ UNCHANGED <<cfg, subs, sess, owed, gowed, ctl, ret, unack, infl, last, ctr, aux>>

\* the connection k is over at ms (client closed it, client sent DISCONNECT, or the broker closed it).
\* The session outlives the connection iff its expiry interval is not 0 and it was not terminated; newexp >= 0 is the
\* interval a v5 DISCONNECT carried; suppress: the DISCONNECT removed the will (reason code 0x00; any v3 DISCONNECT).
\* Once the connection is over nothing read on it is part of the trace any more.
ConnEnd(k, newexp, suppress0, ms) ==
  LET c == conn[k].cid
      void == conn[k].ver = 5 /\ newexp > 0 /\ conn[k].expiry = 0      \* Protocol Error, see HookUnregister
      suppress == suppress0 /\ ~void
      e0 == IF newexp >= 0 /\ ~void /\ conn[k].ver = 5 THEN newexp ELSE conn[k].expiry
      e == IF conn[k].force THEN 0 ELSE e0
      keep == e > 0 IN
  /\ k \in DOMAIN conn
  /\ conn' = [conn EXCEPT ![k].st = "down", ![k].expiry = IF conn[k].st = "down" THEN @ ELSE e]
  /\ ctl' = Put(ctl, k, {})
  /\ IF c \in DOMAIN sess /\ sess[c].online = k
       THEN /\ aux' = [aux EXCEPT !.wills = WillAtEnd(Wills, c, k, suppress, e, ms)]
            /\ IF keep
              THEN /\ sess' = [sess EXCEPT ![c].online = 0, ![c].expireAt = ms + e * 1000]
                   /\ owed' = Put(owed, c, Carry(Owed(c)))
                   /\ UNCHANGED <<subs, unack, infl, gowed>>
              ELSE /\ sess' = [x \in DOMAIN sess \ {c} |-> sess[x]]
                   /\ EndSessionState(c)
       ELSE UNCHANGED <<sess, owed, subs, unack, infl, gowed, aux>>
  /\ UNCHANGED <<cfg, ret, last, ctr>>

\* ClientService.TerminateSession(c) entered at ms: the session ends whatever its expiry interval; an attached
\* connection is closed by the broker (its end is observed separately)
ApiTerminate(c, ms) ==
  IF c \in DOMAIN sess /\ sess[c].online # 0
    THEN /\ conn' = [conn EXCEPT ![sess[c].online].force = TRUE]
         /\ UNCHANGED <<cfg, subs, sess, owed, gowed, ctl, ret, unack, infl, last, ctr, aux>>
    ELSE /\ sess' = [x \in DOMAIN sess \ {c} |-> sess[x]]
         /\ aux' = [aux EXCEPT !.wills = WillAtSessionEnd(Wills, c, ms)]
         /\ EndSessionState(c)
         /\ UNCHANGED <<cfg, conn, ctl, ret, last, ctr>>

\* ---- events of the broker's own instrumentation (logged under its lock, in its order)
Reg(c) == Get(aux.reg, c, "")

\* a connection was put into the table of online clients: nobody else may be registered under that client id, and
\* every earlier connection of that id has finished its teardown (C05: closed before the newer one is acknowledged)
KOf(addr) == CHOOSE k \in DOMAIN conn : conn[k].addr = addr
\* nobody else is registered under that client id, and the socket of every connection of that id which the BROKER ended
\* (displaced, terminated ...: it was unregistered while its client had not ended it) is closed (its writeLoop has exited:
\* event exit.write).  The statement demands the network connection to be closed, not the end of the whole teardown: a
\* third CONNECT may be registered between unregister and the `closed` event of a displaced connection.  The wire-level
\* form of the same demand is `olderopen` of the connack event (TraceBroker).
RegOK(c, addr) ==
  /\ Reg(c) = ""
  /\ \A a \in aux.srvended : (\E k \in DOMAIN conn : conn[k].addr = a /\ conn[k].cid = c) => a \in aux.sockc

HookRegister(c, addr, resume, ms) ==
  /\ RegOK(c, addr)
  /\ \E k \in DOMAIN conn : conn[k].addr = addr /\ conn[k].cid = c /\ conn[k].st = "connecting"
  /\ resume \in ResumeVerdicts(KOf(addr), ms)
  /\ LET k == KOf(addr)
         old == IF c \in DOMAIN sess THEN sess[c].online ELSE 0
         conn1 == IF old # 0 /\ old # k THEN [conn EXCEPT ![old].st = "down"] ELSE conn
         w1 == IF old # 0 /\ old # k THEN WillAtEnd(Wills, c, old, FALSE, conn[old].expiry, conn[k].t0) ELSE Wills
         w2 == IF resume THEN WillAtResume(w1, c, conn[k].t0, ms) ELSE WillAtSessionEnd(w1, c, conn[k].t0) IN
     /\ conn' = [conn1 EXCEPT ![k].st = "registered", ![k].resumed = resume, ![k].regseq = aux.nreg + 1]
     /\ sess' = Put(sess, c, [online |-> k, ver |-> conn[k].ver, expireAt |-> 0])
     /\ ctl' = IF old # 0 /\ old # k THEN Put(ctl, old, {}) ELSE ctl
     /\ aux' = [aux EXCEPT !.wills = w2, !.reg = Put(@, c, addr), !.nreg = @ + 1]
     /\ IF resume
          THEN /\ owed' = Put(owed, c, Carry(Owed(c)))
               /\ infl' = Put(infl, c, {[e EXCEPT !.rs = TRUE] : e \in Infl(c)})
               /\ UNCHANGED <<subs, unack, gowed>>
          ELSE EndSessionState(c)
  /\ UNCHANGED <<cfg, ret, last, ctr>>

\* hook mode: what the client side saw of the end of connection k before the broker finished it
ClientBye(k, code, exp) ==
  /\ k \in DOMAIN conn
  /\ conn' = [conn EXCEPT ![k].bye = [has |-> TRUE, code |-> code, exp |-> exp],
                          ![k].st = IF @ = "up" \/ @ = "registered" THEN "closing" ELSE @]
  /\ UNCHANGED <<cfg, subs, sess, owed, gowed, ctl, ret, unack, infl, last, ctr, aux>>

ClientGone(k) ==
  /\ k \in DOMAIN conn
  /\ conn' = [conn EXCEPT ![k].st = IF @ = "up" \/ @ = "registered" THEN "closing" ELSE @]
  /\ UNCHANGED <<cfg, subs, sess, owed, gowed, ctl, ret, unack, infl, last, ctr, aux>>

\* the broker removed the connection from the table of online clients (its own event, under its lock): in hook mode
\* this is where the connection ends for the session (expiry clock, will)
HookUnregister(c, addr, ms) ==
  LET k == KOf(addr)
      srv == conn[k].st \notin {"closing", "down"}      \* the broker ended it: the client had not
      b == conn[k].bye
      \* a DISCONNECT that sets a non-zero Session Expiry Interval on a session whose interval is 0 is a Protocol Error
      \* (MQTT 5 3.14.2.2.2): it is not a DISCONNECT that ends the connection normally - the will stays, the interval too
      void == b.has /\ conn[k].ver = 5 /\ b.exp > 0 /\ conn[k].expiry = 0
      e0 == IF b.has /\ ~void /\ b.exp >= 0 /\ conn[k].ver = 5 THEN b.exp ELSE conn[k].expiry
      e == IF conn[k].force THEN 0 ELSE e0
      suppress == b.has /\ ~void /\ (b.code = 0 \/ conn[k].ver # 5)
      keep == e > 0
      reg1 == Put(aux.reg, c, "")
      se1 == IF srv THEN aux.srvended \cup {addr} ELSE aux.srvended IN
  /\ Reg(c) = addr
  /\ \E kk \in DOMAIN conn : conn[kk].addr = addr
  /\ conn' = [conn EXCEPT ![k].st = "down", ![k].expiry = e]
  /\ ctl' = Put(ctl, k, {})
  /\ IF c \in DOMAIN sess /\ sess[c].online = k
       THEN /\ aux' = [aux EXCEPT !.reg = reg1, !.srvended = se1, !.wills = WillAtEnd(Wills, c, k, suppress, e, ms)]
            /\ IF keep
              THEN /\ sess' = [sess EXCEPT ![c].online = 0, ![c].expireAt = ms + e * 1000]
                   /\ owed' = Put(owed, c, Carry(Owed(c)))
                   /\ UNCHANGED <<subs, unack, infl, gowed>>
              ELSE /\ sess' = [x \in DOMAIN sess \ {c} |-> sess[x]]
                   /\ EndSessionState(c)
       ELSE /\ aux' = [aux EXCEPT !.reg = reg1, !.srvended = se1]
            /\ UNCHANGED <<sess, owed, subs, unack, infl, gowed>>
  /\ UNCHANGED <<cfg, ret, last, ctr>>

HookClosed(addr) ==
  /\ aux' = [aux EXCEPT !.closedc = @ \cup {addr}]
  /\ UNCHANGED <<cfg, subs, conn, sess, owed, gowed, ctl, ret, unack, infl, last, ctr>>

\* writeLoop of the connection has returned: its deferred function has closed the socket
HookSockClosed(addr) ==
  /\ aux' = [aux EXCEPT !.sockc = @ \cup {addr}]
  /\ UNCHANGED <<cfg, subs, conn, sess, owed, gowed, ctl, ret, unack, infl, last, ctr>>

----------------------------------------------------------------------------
(* Subscriptions and retained replay                                       *)

SubKey(s) == <<s.c, s.n>>

\* obligations created by replaying the retained store to one new subscription (n: a fresh number)
Replay(c, sub, existed, ver, n) ==
  IF sub.share # "" \/ (ver = 5 /\ (sub.o.rh = 2 \/ (sub.o.rh = 1 /\ existed))) THEN {}
  ELSE {[key |-> sub.n, tag |-> ret[t].tag, topic |-> t, src |-> RET, idx |-> 0 - n,
         qos |-> Min(ret[t].qos, sub.o.qos),
         \* [MQTT-3.3.1-8], MQTT 5 3.8.3.1: a message sent because a subscription was made has RETAIN = 1
         retains |-> IF Dev("replay_retain_follows_rap") THEN {sub.o.rap} ELSE {TRUE},
         ids |-> {}, anyids |-> TRUE,
         t0 |-> 0, L |-> 0, orig |-> 0, origbig |-> FALSE,      \* a replayed message starts a fresh lifetime: nothing is demanded (C12)
         props |-> ret[t].props,
         opt |-> FALSE, carried |-> FALSE] : t \in {x \in DOMAIN ret : Match(sub.lv, ret[x].lv)}}

\* SUBSCRIBE with the topics in order (ts: sequence of [n, share, lv, sys, qos, nl, rap, rh]); the broker owes a
\* SUBACK whose codes are the granted QoS; each new non-shared subscription gets the retained replay.
RECURSIVE SubFold(_, _, _, _, _, _, _)
SubFold(c, ver, subid, ts, S, O, oid) ==
  IF ts = <<>> THEN [subs |-> S, owed |-> O, oid |-> oid]
  ELSE LET t == Head(ts)
           existed == \E s \in S : s.c = c /\ s.n = t.n
           ns == [c |-> c, n |-> t.n, share |-> t.share, lv |-> t.lv, sys |-> t.sys,
                  o |-> [qos |-> t.qos, nl |-> t.nl, rap |-> t.rap, rh |-> t.rh, id |-> subid]]
           rp == Replay(c, ns, existed, ver, oid)
       IN SubFold(c, ver, subid, Tail(ts), {s \in S : ~(s.c = c /\ s.n = t.n)} \cup {ns}, O \cup rp, oid + 1)

Subscribe(k, pid, subid, ts) ==
  LET c == conn[k].cid
      r == SubFold(c, conn[k].ver, subid, ts, subs, Owed(c), ctr.oid) IN
  /\ Up(k)
  /\ subs' = r.subs
  /\ owed' = Put(owed, c, r.owed)
  /\ ctr' = [ctr EXCEPT !.oid = r.oid]
  /\ ctl' = Put(ctl, k, Ctl(k) \cup {[t |-> "suback", pid |-> pid, codes |-> [i \in DOMAIN ts |-> ts[i].qos]]})
  /\ UNCHANGED <<cfg, conn, sess, gowed, ret, unack, infl, last, aux>>

Unsubscribe(k, pid, names) ==
  LET c == conn[k].cid IN
  /\ Up(k)
  /\ subs' = {s \in subs : ~(s.c = c /\ s.n \in SeqToSet(names))}
  /\ gowed' = gowed    \* copies already decided stay owed to whoever was picked
  /\ ctl' = Put(ctl, k, Ctl(k) \cup {[t |-> "unsuback", pid |-> pid, n |-> IF conn[k].ver = 5 THEN Len(names) ELSE 0]})
  /\ UNCHANGED <<cfg, conn, sess, owed, ret, unack, infl, last, ctr, aux>>

\* a control packet of type t read on k: it must be owed, with these fields
CtlRecv(k, pkt) ==
  /\ k \in DOMAIN conn
  /\ pkt \in Ctl(k)
  /\ ctl' = [ctl EXCEPT ![k] = @ \ {pkt}]

Suback(k, pid, codes) ==
  /\ CtlRecv(k, [t |-> "suback", pid |-> pid, codes |-> codes])
  /\ UNCHANGED <<cfg, subs, conn, sess, owed, gowed, ret, unack, infl, last, ctr, aux>>

Unsuback(k, pid, n) ==
  /\ CtlRecv(k, [t |-> "unsuback", pid |-> pid, n |-> n])
  /\ UNCHANGED <<cfg, subs, conn, sess, owed, gowed, ret, unack, infl, last, ctr, aux>>

----------------------------------------------------------------------------
(* Publication: who is owed what                                           *)

NonSharedHits(src, lv, sys) ==
  {s \in subs : s.share = "" /\ Match(s.lv, lv) /\ ~(s.o.nl /\ s.c = src)}

Groups(lv) == {<<s.share, s.n>> : s \in {x \in subs : x.share # "" /\ Match(x.lv, lv)}}

MaxQ(S) == CHOOSE q \in {s.o.qos : s \in S} : \A s \in S : s.o.qos <= q

IdSet(S) == {s.o.id : s \in S} \ {0}

\* a session keeps a copy iff it is online, or the copy is QoS>0, or QoS0 queueing is configured
Keeps(c, q) == Online(c) \/ q > 0 \/ cfg.qq0

\* the obligations of one publication (before numbering): a set of [c, qos, retains, ids]
Copies(src, m) ==
  LET hits == NonSharedHits(src, m.lv, m.sys) IN
  IF cfg.mode = "overlap"
    THEN {[c |-> s.c, key |-> s.n, qos |-> Min(m.qos, s.o.qos), retains |-> {m.retain /\ s.o.rap},
           ids |-> IdSet({s})] : s \in hits}
    ELSE {[c |-> c, key |-> "", qos |-> Min(m.qos, MaxQ({s \in hits : s.c = c})),
           \* RETAIN follows RAP of *a* matching subscription of maximal QoS (weakest reading)
           retains |-> {m.retain /\ s.o.rap : s \in {x \in hits : x.c = c /\ x.o.qos = MaxQ({y \in hits : y.c = c})}},
           ids |-> IdSet({s \in hits : s.c = c})] : c \in {s.c : s \in hits}}

Matched(src, m) == NonSharedHits(src, m.lv, m.sys) # {} \/ Groups(m.lv) # {}

\* the effect of a publication from publisher src (client id, or API): new obligations.
\* (idx, session, key) identifies an obligation; idx is the publication index used by the order clause.
\* C13: a copy larger than the Maximum Packet Size of the session's current connection is dropped whole
Fits(c, m) == ~Online(c) \/ conn[sess[c].online].maxpkt = 0 \/ m.fsize <= conn[sess[c].online].maxpkt

\* C12: the lifetime of a message in seconds (0 = unlimited): the publisher's Message Expiry Interval, capped by the
\* configured maximum message lifetime when that is not 0 (no interval => the configured one)
\* TLC integers are 32 bit: an interval of 2^31 seconds or more is logged as (value - 2^31, big = TRUE).  A big interval
\* never runs out inside a scenario: with no configured cap nothing is demanded of its lifetime (L = 0).
Lifetime(m) == IF cfg.msgexpiry > 0
                 THEN (IF ~m.big /\ m.msgexp > 0 /\ m.msgexp <= cfg.msgexpiry THEN m.msgexp ELSE cfg.msgexpiry)
                 ELSE IF m.big THEN 0 ELSE m.msgexp

Publication(src, m) ==
  LET cps  == {x \in Copies(src, m) : Keeps(x.c, x.qos) /\ Fits(x.c, m)}
      idx  == ctr.pub + 1
      mk(x) == [key |-> x.key, tag |-> m.tag, topic |-> m.topic, src |-> src, idx |-> idx, qos |-> x.qos,
                retains |-> x.retains, ids |-> x.ids, anyids |-> FALSE, opt |-> (x.qos = 0 /\ Closing(x.c)), carried |-> Closing(x.c),
                t0 |-> m.ms, L |-> Lifetime(m), orig |-> m.msgexp, origbig |-> m.big, props |-> m.props]
      gmk(g) == [share |-> g[1], n |-> g[2], tag |-> m.tag, topic |-> m.topic, src |-> src, idx |-> idx,
                 mqos |-> m.qos, retain |-> m.retain, t0 |-> m.ms, L |-> Lifetime(m), orig |-> m.msgexp, origbig |-> m.big, props |-> m.props,
                 members |-> {[c |-> s.c, qos |-> s.o.qos, rap |-> s.o.rap, id |-> s.o.id] :
                                s \in {x \in subs : x.share = g[1] /\ x.n = g[2]}}]
  IN
  /\ owed' = [c \in DOMAIN owed \cup {x.c : x \in cps} |-> Owed(c) \cup {mk(x) : x \in {y \in cps : y.c = c}}]
  /\ gowed' = gowed \cup {gmk(g) : g \in Groups(m.lv)}
  /\ ctr' = [ctr EXCEPT !.pub = idx]

RetainUpdate(m) ==
  IF ~m.retain THEN ret' = ret
  ELSE IF m.empty THEN ret' = [t \in DOMAIN ret \ {m.topic} |-> ret[t]]
  ELSE ret' = Put(ret, m.topic, [tag |-> m.tag, qos |-> m.qos, lv |-> m.lv, sys |-> m.sys, props |-> m.props])

\* C13, inbound limits of a v5 connection: what makes the broker end the connection, with which reason codes
AliasUsed(m) == m.alias # 0 \/ m.notopic
Offences(k, m) ==
  IF conn[k].ver # 5 THEN {}
  ELSE (IF m.qos > 0 /\ conn[k].open >= cfg.srvrecvmax THEN {147} ELSE {})                       \* 0x93 Receive Maximum exceeded
       \cup (IF m.size > cfg.srvmaxpkt THEN {149} ELSE {})                                      \* 0x95 Packet too large
       \cup (IF AliasUsed(m) /\ (m.alias = 0 \/ m.alias > cfg.srvaliasmax) THEN {148} ELSE {})   \* 0x94 Topic Alias invalid
       \cup (IF m.notopic /\ m.alias \notin DOMAIN conn[k].aliasin /\ m.alias # 0 /\ m.alias <= cfg.srvaliasmax
              THEN {148, 130} ELSE {})                                                          \* unbound alias: 0x94 / 0x82

\* PUBLISH written by the client on k.  m = [topic, lv, sys, qos, retain, empty, tag, pid, dup, alias, notopic, size, fsize]
\* (topic = the topic the client means; with notopic the packet carries only the alias)
\* QoS2: a packet id awaiting PUBREL is a retransmission - acknowledged, not forwarded again (C04).
ClientPublish(k, m) ==
  LET c == conn[k].cid
      isdup == m.qos = 2 /\ m.pid \in Unack(c)
      v5 == conn[k].ver = 5
      codes == IF ~v5 THEN {0} ELSE IF isdup THEN {0, 16} ELSE IF Matched(c, m) THEN {0} ELSE {0, 16}
      ack == IF m.qos = 1 THEN {[t |-> "puback", pid |-> m.pid, codes |-> codes]}
             ELSE IF m.qos = 2 THEN {[t |-> "pubrec", pid |-> m.pid, codes |-> codes]} ELSE {}
      off == Offences(k, m) IN
  /\ Up(k) /\ conn[k].dying = {}
  /\ IF off # {}
       THEN \* the client overstepped a limit the CONNACK advertised: the broker owes a DISCONNECT with that reason
            /\ conn' = [conn EXCEPT ![k].dying = off]
            /\ UNCHANGED <<owed, gowed, ctr, ret, unack, ctl>>
       ELSE /\ IF isdup THEN UNCHANGED <<owed, gowed, ctr, ret>>
               ELSE Publication(c, m) /\ RetainUpdate(m)
            /\ (m.notopic => conn[k].aliasin[m.alias] = m.topic)     \* scenario sanity: the script means the bound topic
            /\ unack' = IF m.qos = 2 THEN Put(unack, c, Unack(c) \cup {m.pid}) ELSE unack
            /\ ctl' = Put(ctl, k, Ctl(k) \cup ack)
            /\ conn' = [conn EXCEPT ![k].open = IF v5 /\ m.qos > 0 THEN @ + 1 ELSE @,
                                     ![k].aliasin = IF v5 /\ m.alias # 0 /\ ~m.notopic THEN Put(@, m.alias, m.topic) ELSE @]
  /\ UNCHANGED <<cfg, subs, sess, infl, last, aux>>

\* DISCONNECT read from the broker on k: only when owed, with one of the demanded reason codes.  A client that
\* stays within the advertised limits is never disconnected for them.
SrvDisconnect(k, code) ==
  /\ k \in DOMAIN conn
  /\ \/ code \in conn[k].dying
     \* 0x8E Session taken over: only while / after another connection of the same client id takes over: one whose
     \* CONNECT is being processed, or one that was registered after k (a connection whose CONNECT was sent earlier may
     \* well be registered later)
     \/ code = 142 /\ \E k2 \in DOMAIN conn : /\ k2 # k /\ conn[k2].cid = conn[k].cid
                                                /\ (conn[k2].st = "connecting" \/ conn[k2].regseq > conn[k].regseq)
     \* scenarios that make the client misbehave on purpose (malformed packet, keep-alive timeout): any error code
     \/ cfg.anydisc /\ code >= 128
  /\ conn' = [conn EXCEPT ![k].disc = TRUE]
  /\ UNCHANGED <<cfg, subs, sess, owed, gowed, ctl, ret, unack, infl, last, ctr, aux>>

\* Publisher().Publish(m): delivery only (no OnMsgArrived, no retained store)
ApiPublish(m) ==
  /\ Publication(API, m)
  /\ UNCHANGED <<cfg, subs, conn, sess, ctl, ret, unack, infl, last, aux>>

\* C08: the broker publishes the will of client c (its own hook event, at ms): only a will that is waiting, not
\* before its delay has passed; the publication is an ordinary one from publisher c.
WillEarlyMs == 200
WillFire(c, topic, ms) ==
  /\ c \in DOMAIN Wills
  /\ Wills[c].m.topic = topic
  /\ ms >= Wills[c].due - WillEarlyMs
  /\ (Wills[c].st = "pending" => ms <= Wills[c].due + WillLateMs)
  /\ LET w == Wills[c].m
         m == [topic |-> w.topic, lv |-> w.lv, sys |-> w.sys, qos |-> w.qos, retain |-> w.retain, empty |-> FALSE,
               tag |-> w.tag, pid |-> 0, dup |-> FALSE, alias |-> 0, notopic |-> FALSE, size |-> 0, fsize |-> 0,
               msgexp |-> 0, big |-> FALSE, ms |-> ms, props |-> w.props] IN
     \* a will registered with Will Retain = 1 is published as a retained message ([MQTT-3.1.2-17]): it is kept (C07)
     Publication(c, m) /\ RetainUpdate(m)
  /\ aux' = [aux EXCEPT !.wills = [x \in DOMAIN Wills \ {c} |-> Wills[x]]]
  /\ UNCHANGED <<cfg, subs, conn, sess, ctl, unack, infl, last>>

\* PUBACK / PUBREC read on k: owed, with an acceptable reason code
PubAckRecv(k, t, pid, code) ==
  /\ k \in DOMAIN conn
  /\ \E p \in Ctl(k) : /\ p.t = t /\ p.pid = pid /\ code \in p.codes
                       /\ ctl' = [ctl EXCEPT ![k] = @ \ {p}]
  \* the exchange is finished for the broker's Receive Maximum: PUBACK, PUBCOMP, or a failing PUBREC
  /\ conn' = IF conn[k].ver = 5 /\ conn[k].open > 0 /\ (t = "puback" \/ t = "pubcomp" \/ (t = "pubrec" /\ code >= 128))
               THEN [conn EXCEPT ![k].open = @ - 1] ELSE conn
  /\ UNCHANGED <<cfg, subs, sess, owed, gowed, ret, unack, infl, last, ctr, aux>>

\* PUBREL written by the client: the broker owes a PUBCOMP; the id is free again
ClientPubrel(k, pid) ==
  LET c == conn[k].cid IN
  /\ Up(k)
  /\ unack' = Put(unack, c, Unack(c) \ {pid})
  /\ ctl' = Put(ctl, k, Ctl(k) \cup {[t |-> "pubcomp", pid |-> pid, codes |-> {0, 146}]})
  /\ UNCHANGED <<cfg, subs, conn, sess, owed, gowed, ret, infl, last, ctr, aux>>

----------------------------------------------------------------------------
(* Deliveries read from the broker                                          *)

IdsOK(k, got, ob) == IF conn[k].ver = 5 THEN (ob.anyids \/ SeqToSet(got) = ob.ids) ELSE got = <<>>

\* per (publisher, subscriber) order: indices received from one publisher never go down
OrderOK(c, ob, dup) == ob.src = RET \/ dup \/ ob.carried \/ ob.idx >= Get(last, <<c, ob.src>>, 0)

PidOK(c, p) == IF p.qos = 0 THEN TRUE
               ELSE p.pid # 0 /\ (\A e \in Infl(c) : e.pid # p.pid)

\* entries of session c still to be retransmitted on the current connection, and the next one (original order)
Resend(c) == {e \in Infl(c) : e.rs}
IsNextResend(c, e) == e \in Resend(c) /\ \A x \in Resend(c) : e.n <= x.n

\* C12.  Times are harness milliseconds: t0 was logged before the publication was written, p.ms after the delivery
\* was read, so the message waited at most p.ms - t0.  LateMs / the one-second slack absorb logging latency.
LateMs == 400
Expired(ob, ms) == ob.L > 0 /\ ms > ob.t0 + ob.L * 1000 + LateMs
ExpiryOK(k, ob, p) ==
  /\ ~Expired(ob, p.ms)                                  \* never delivered once its lifetime has elapsed
  /\ (conn[k].ver = 5 /\ (ob.orig > 0 \/ ob.origbig)) =>  \* remaining lifetime forwarded: original - whole seconds waited
        LET w == (p.ms - ob.t0) \div 1000 IN
        IF ob.origbig
          \* published with 2^31 seconds or more: what is forwarded after a few seconds still is (both logged minus 2^31)
          THEN /\ p.big /\ p.msgexp >= 0 /\ p.msgexp <= ob.orig
               /\ (Dev("forwarded_expiry_is_elapsed") \/ (ob.orig - p.msgexp >= w - 1 /\ ob.orig - p.msgexp <= w + 1))     \* (no 32-bit overflow in this form)
          ELSE /\ ~p.big
               /\ p.msgexp >= 1 /\ p.msgexp <= ob.orig          \* never absent (-1), never more than the original
               /\ (IF Dev("forwarded_expiry_is_elapsed")
                     THEN TRUE
                     ELSE p.msgexp >= Max(1, Min(ob.orig, ob.L) - w - 1) /\ p.msgexp <= Max(1, ob.orig - w + 1))

\* The application properties of a message (Payload Format Indicator, Content Type, Response Topic, Correlation Data,
\* User Properties in order - one canonical string, "" = none) are forwarded unaltered to an MQTT 5 subscriber
\* ([MQTT-3.3.2-4/15/16/17/18/20]); MQTT 3 has no properties.
FwdProps(k, props) == IF conn[k].ver = 5 THEN props ELSE ""

\* does obligation ob of session c explain the PUBLISH p read on k ?
FitsOwed(c, k, ob, p) ==
  /\ ob.tag = p.tag /\ ob.topic = p.topic /\ ob.qos = p.qos /\ p.retain \in ob.retains
  /\ p.props = FwdProps(k, ob.props)
  /\ IdsOK(k, p.ids, ob)
  /\ (p.dup => ob.carried)                 \* the first transmission has DUP = 0
  /\ OrderOK(c, ob, p.dup)
  /\ ExpiryOK(k, ob, p)

\* does the group obligation g explain it, c being member mb ?
FitsGroup(c, k, g, mb, p) ==
  /\ mb.c = c /\ g.tag = p.tag /\ g.topic = p.topic /\ p.props = FwdProps(k, g.props)
  /\ p.qos = Min(g.mqos, mb.qos) /\ p.retain = (g.retain /\ mb.rap)
  /\ (conn[k].ver = 5 => SeqToSet(p.ids) = {mb.id} \ {0}) /\ (conn[k].ver # 5 => p.ids = <<>>)
  /\ (p.dup \/ g.idx >= Get(last, <<c, g.src>>, 0))
  /\ ExpiryOK(k, g, p)

\* C03: retransmissions (DUP = 1) come before anything new on a connection, and nothing new is sent while
\* something this session is known to hold unacknowledged has not been retransmitted
SeqOK(c, k, p) == /\ (p.dup => ~conn[k].sawfresh)
                  /\ (~p.dup => Resend(c) = {})
                  \* C13: never larger than the client's Maximum Packet Size; aliases within 1..Topic Alias Maximum
                  \* (that an alias-only PUBLISH resolves to the real topic is the topic equality of FitsOwed: the
                  \* driver resolves aliases with the bindings it received on this connection)
                  /\ (conn[k].maxpkt = 0 \/ p.size <= conn[k].maxpkt)
                  /\ (p.alias = 0 \/ (p.alias >= 1 /\ p.alias <= conn[k].aliasmax))

Explained(k, p) ==
  LET c == conn[k].cid IN
  \/ \E ob \in Owed(c) : FitsOwed(c, k, ob, p)
  \/ \E g \in gowed : \E mb \in g.members : FitsGroup(c, k, g, mb, p)
  \/ (p.dup /\ p.qos > 0 /\ \E e \in Infl(c) : e.pid = p.pid /\ e.tag = p.tag /\ e.phase = "pub" /\ e.qos = p.qos)

\* PUBLISH read on k: p = [topic, tag, qos, retain, dup, pid, ids]
Deliver(k, p) ==
  LET c == conn[k].cid
      track == IF p.qos > 0 THEN Put(infl, c, Infl(c) \cup {[pid |-> p.pid, tag |-> p.tag, phase |-> "pub", qos |-> p.qos,
                                                            n |-> ctr.oid, k |-> k, rs |-> FALSE]}) ELSE infl IN
  /\ Up(k)
  /\ \/ \* (a) a fresh copy: discharges one obligation of this session
        /\ \E ob \in Owed(c) :
             /\ FitsOwed(c, k, ob, p)
             /\ owed' = [owed EXCEPT ![c] = @ \ {ob}]
             /\ last' = IF ob.src = RET THEN last ELSE Put(last, <<c, ob.src>>, Max(ob.idx, Get(last, <<c, ob.src>>, 0)))
        /\ PidOK(c, p) /\ SeqOK(c, k, p)
        /\ infl' = track
        /\ UNCHANGED gowed
     \/ \* (b) the copy of a share group, this session being the member the broker picked
        /\ \E g \in gowed : \E mb \in g.members :
             /\ FitsGroup(c, k, g, mb, p)
             /\ gowed' = gowed \ {g}
             /\ last' = Put(last, <<c, g.src>>, Max(g.idx, Get(last, <<c, g.src>>, 0)))
        /\ PidOK(c, p) /\ SeqOK(c, k, p)
        /\ infl' = track
        /\ UNCHANGED owed
     \/ \* (c) retransmission of something this session already received and has not fully acknowledged:
        \*     same packet id, DUP = 1, in the original order, before anything new
        /\ p.dup /\ p.qos > 0 /\ ~conn[k].sawfresh
        /\ \E e \in Infl(c) : /\ e.pid = p.pid /\ e.tag = p.tag /\ e.phase = "pub" /\ e.qos = p.qos
                               /\ IsNextResend(c, e)
                               /\ infl' = [infl EXCEPT ![c] = (@ \ {e}) \cup {[e EXCEPT !.rs = FALSE, !.k = k]}]
        /\ UNCHANGED <<owed, gowed, last>>
  /\ conn' = IF p.dup THEN conn ELSE [conn EXCEPT ![k].sawfresh = TRUE]
  /\ ctr' = [ctr EXCEPT !.oid = @ + 1]
  /\ UNCHANGED <<cfg, subs, sess, ctl, ret, unack, aux>>

\* client acknowledges a delivery: PUBACK(pid) / PUBCOMP(pid) end it, PUBREC(pid) moves it to the PUBREL phase
ClientAck(k, t, pid, code) ==
  LET c == conn[k].cid IN
  /\ Up(k)
  /\ infl' = IF t = "puback" \/ t = "pubcomp" \/ (t = "pubrec" /\ code >= 128)
               THEN Put(infl, c, {e \in Infl(c) : e.pid # pid})
               ELSE Put(infl, c, {IF e.pid = pid THEN [e EXCEPT !.phase = "rel"] ELSE e : e \in Infl(c)})
  /\ ctl' = IF t = "pubrec" /\ code < 128 THEN Put(ctl, k, Ctl(k) \cup {[t |-> "pubrel", pid |-> pid]}) ELSE ctl
  /\ UNCHANGED <<cfg, subs, conn, sess, owed, gowed, ret, unack, last, ctr, aux>>

\* PUBREL read on k: owed after our PUBREC, or a retransmission for an entry in the PUBREL phase
PubrelRecv(k, pid) ==
  LET c == conn[k].cid IN
  /\ k \in DOMAIN conn
  /\ \/ /\ [t |-> "pubrel", pid |-> pid] \in Ctl(k)
        /\ ctl' = [ctl EXCEPT ![k] = @ \ {[t |-> "pubrel", pid |-> pid]}]
        /\ infl' = infl
     \/ \* retransmitted PUBREL after a reconnect: in the original order, before anything new
        /\ [t |-> "pubrel", pid |-> pid] \notin Ctl(k)
        /\ ~conn[k].sawfresh
        /\ \E e \in Infl(c) : /\ e.pid = pid /\ e.phase = "rel" /\ IsNextResend(c, e)
                               /\ infl' = [infl EXCEPT ![c] = (@ \ {e}) \cup {[e EXCEPT !.rs = FALSE]}]
        /\ ctl' = ctl
  /\ UNCHANGED <<cfg, subs, conn, sess, owed, gowed, ret, unack, last, ctr, aux>>

Pingreq(k) ==
  /\ Up(k)
  /\ ctl' = Put(ctl, k, Ctl(k) \cup {[t |-> "pingresp", n |-> Cardinality({p \in Ctl(k) : p.t = "pingresp"}) + 1]})
  /\ UNCHANGED <<cfg, subs, conn, sess, owed, gowed, ret, unack, infl, last, ctr, aux>>

Pingresp(k) ==
  /\ k \in DOMAIN conn
  /\ \E p \in Ctl(k) : p.t = "pingresp" /\ ctl' = [ctl EXCEPT ![k] = @ \ {p}]
  /\ UNCHANGED <<cfg, subs, conn, sess, owed, gowed, ret, unack, infl, last, ctr, aux>>

----------------------------------------------------------------------------
(* Barrier: the driver has established that the broker has nothing more to say.                       *)

Dischargeable(c, ms) == {ob \in Owed(c) : ~ob.opt /\ ~Expired(ob, ms)}
\* expired copies of an online, unblocked session must have been dropped AND reported (OnMsgDropped) by now
Unreported(c, ms) == {ob \in Owed(c) : ~ob.opt /\ Expired(ob, ms + 2 * LateMs)}

\* a group copy is parked legitimately only while one of its members is offline (it may be queued there)
GroupParked(g) == \E mb \in g.members : ~Online(mb.c)

\* the window of connection k: min(the client's Receive Maximum, the broker's max_inflight)
Limit(k) == Min(IF conn[k].recvmax = 0 THEN 65535 ELSE conn[k].recvmax, cfg.maxinflight)

\* unacknowledged PUBLISH packets (re)transmitted on connection k (a QoS2 exchange counts until PUBCOMP)
WindowOf(c, k) == {e \in Infl(c) : e.k = k /\ ~e.rs}
\* the flow-control window of the session's current connection may be full: nothing more can be demanded right
\* now.  (Lenient on purpose: a broker may also count exchanges whose PUBLISH was sent on an earlier connection and
\* that still await PUBCOMP; the bound itself - WindowOK - counts only what the statement counts.)
Blocked(c) == Online(c) /\ Cardinality({e \in Infl(c) : ~e.rs}) >= Limit(sess[c].online)

QuietOK(ms) ==
  /\ \A c \in DOMAIN sess : (Online(c) /\ ~Blocked(c)) => (Dischargeable(c, ms) = {} /\ Unreported(c, ms) = {})
  /\ \A c \in DOMAIN sess : (Online(c) /\ ~Blocked(c)) => Resend(c) = {}   \* everything unacknowledged was retransmitted
  /\ \A g \in gowed : GroupParked(g) \/ Expired(g, ms) \/ \E mb \in g.members : Blocked(mb.c)
  /\ \A k \in DOMAIN conn : conn[k].st = "up" => Ctl(k) = {}
  \* C08: a will whose time has come has been published
  /\ \A c \in DOMAIN Wills : Wills[c].st = "pending" => ms <= Wills[c].due + WillLateMs
  \* a client that overstepped an advertised limit has been disconnected with the reason code
  /\ \A k \in DOMAIN conn : conn[k].dying # {} => (conn[k].st = "down" /\ conn[k].disc)

Quiet(ms) == QuietOK(ms) /\ UNCHANGED bvars

\* The broker's own view of its state at a quiescence point, read through its public services (SubscriptionService.Iterate,
\* ClientService.IterateClient / IterateSession): for every client that both sides see online, the stored subscriptions are
\* exactly the ones this specification holds (filter as subscribed, granted QoS), and it has a stored session; a connection the
\* specification has up is registered.  (Clients only one side sees online - a socket the broker is still tearing down - and
\* sessions within their expiry window are not compared.)
\* ... and the retained store as RetainedService.Iterate shows it holds exactly the last non-empty retained publication of every
\* topic (payload tag, QoS) - C07 at the level of the state, not only through what a later subscriber is sent
RetainedViewOK(vret) ==
  {[t |-> x.t, tag |-> x.tag, q |-> x.q] : x \in SeqToSet(vret)} = {[t |-> t, tag |-> ret[t].tag, q |-> ret[t].qos] : t \in DOMAIN ret}

ViewOK(vsubs, vonline, vsessions) ==
  LET both == {c \in SeqToSet(vonline) : Online(c)}
      real == {[c |-> x.c, n |-> x.n, q |-> x.q] : x \in {y \in SeqToSet(vsubs) : y.c \in both}}
      mine == {[c |-> s.c, n |-> s.n, q |-> s.o.qos] : s \in {y \in subs : y.c \in both}}
  IN /\ real = mine
     /\ both \subseteq SeqToSet(vsessions)
     /\ \A c \in DOMAIN sess : Online(c) => c \in SeqToSet(vonline)

\* OnMsgDropped reported by the broker (hook event): the copy of `tag` queued for session c was dropped.
\* reason "expired": only for a copy whose lifetime is (about to be) over; "toolarge": only for a copy larger than the
\* subscriber's Maximum Packet Size (those are not owed in the first place, see Fits); "full": the session queue is full.
EarlyMs == 150
Dropped(c, tag, reason, ms) ==
  /\ \/ /\ reason = "expired"
        /\ \E ob \in Owed(c) : /\ ob.tag = tag /\ ob.L > 0 /\ ms >= ob.t0 + ob.L * 1000 - EarlyMs
                                /\ owed' = [owed EXCEPT ![c] = @ \ {ob}]
     \/ /\ reason = "toolarge"
        /\ owed' = owed
     \/ /\ reason = "full"
        /\ Cardinality(Owed(c)) >= cfg.maxqueued
        /\ \E ob \in Owed(c) : ob.tag = tag /\ owed' = [owed EXCEPT ![c] = @ \ {ob}]
  /\ UNCHANGED <<cfg, subs, conn, sess, gowed, ctl, ret, unack, infl, last, ctr, aux>>

----------------------------------------------------------------------------
(* State invariants (evaluated on every state of every validated trace and in the model-checking runs) *)

\* C03: packet ids of messages awaiting PUBACK/PUBCOMP are non-zero and pairwise distinct
IdsDistinct == \A c \in DOMAIN infl : \A e1, e2 \in infl[c] : (e1.pid = e2.pid => e1 = e2) /\ e1.pid # 0

\* C03: the client never holds more unacknowledged QoS>0 deliveries than min(Receive Maximum, max_inflight)
WindowOK == \A c \in DOMAIN sess : Online(c) => Cardinality(WindowOf(c, sess[c].online)) <= Limit(sess[c].online)

\* a (client, filter) pair is stored once
SubsKeyed == \A s1, s2 \in subs : SubKey(s1) = SubKey(s2) => s1 = s2

\* at most one connection is attached to a client id (C05)
OneConnPerId == \A k1, k2 \in DOMAIN conn :
                  (conn[k1].st = "up" /\ conn[k2].st = "up" /\ conn[k1].cid = conn[k2].cid) => k1 = k2
=============================================================================
