------------------------------ MODULE EnhAuth ------------------------------
(***************************************************************************)
(* Enhanced authentication and re-authentication of one MQTT 5 connection  *)
(* as a state machine (growth beyond the listed properties, DESIGN.md 9/11; *)
(* MQTT 5 section 4.12, 3.15).                                              *)
(*                                                                         *)
(* A case = does the broker have an enhanced-authentication handler, the   *)
(* Authentication Method of CONNECT (none / M), the verdicts the handler   *)
(* will give in order (ok / cont / fail), and the packets the client sends *)
(* after CONNECT:                                                          *)
(*   authM / authX     AUTH 0x18 Continue with method M / another method    *)
(*   reauthM / reauthX AUTH 0x19 Re-authenticate with method M / another    *)
(*   ping              PINGREQ                                              *)
(* The module is a function from cases to the replies MQTT demands; TLC     *)
(* enumerates the cases, checks the coherence statements below and prints   *)
(* one line per case; harness/cmd/enhauth runs each on a real broker whose  *)
(* hooks give the scripted verdicts.  Dev = named as-coded deviations.      *)
(*                                                                         *)
(* Replies: [t, code, m] with t in connack / auth / disconnect / pingresp /  *)
(* closed (the connection is closed without a packet) / silence (nothing),  *)
(* code the reason code                                                     *)
(* (FAIL = any code >= 0x80), m = the packet carries Authentication Method  *)
(* M ([MQTT-4.12.0-5]: every AUTH and the successful CONNACK do).            *)
(***************************************************************************)
EXTENDS Integers, Sequences, FiniteSets, TLC, Json

CONSTANTS Hooks,      \* subset of BOOLEAN
          Methods,    \* subset of {"none", "M"}
          Verdicts,   \* set of sequences over {"ok", "cont", "fail"}
          Scripts,    \* set of sequences over {"authM", "authX", "reauthM", "reauthX", "ping"}
          Dev

VARIABLE c
Cases == {[hook |-> h, method |-> m, v |-> v, steps |-> s] : h \in Hooks, m \in Methods, v \in Verdicts, s \in Scripts}

D(d) == d \in Dev
FAIL == 128         \* stands for "some reason code >= 0x80"
BADMETHOD == 140    \* 0x8C Bad authentication method (0x87 Not authorized is allowed too: the driver accepts both)
PROTO == 130        \* 0x82 Protocol Error

R(t, code, m) == [t |-> t, code |-> code, m |-> m]

\* the verdict the handler gives next (a script that runs out of verdicts ends with ok)
NextV(v, i) == IF i <= Len(v) THEN v[i] ELSE "ok"

\* state: [ph, vi (index of the next verdict), out (replies so far)]
\*   ph: "hs" handshake waiting for the client's AUTH, "up" authenticated, "re" re-authentication in progress, "closed"
Connect(x) ==
  IF x.method = "none" THEN [ph |-> "up", vi |-> 1, out |-> <<R("connack", 0, FALSE)>>]
  ELSE IF ~x.hook THEN [ph |-> "closed", vi |-> 1,
                        out |-> <<R("connack", IF D("bad_method_answered_unspecified") THEN FAIL ELSE BADMETHOD, FALSE)>>]     \* 4.12: 0x8C or 0x87, then close
  ELSE CASE NextV(x.v, 1) = "ok"   -> [ph |-> "up", vi |-> 2, out |-> <<R("connack", 0, ~D("connack_without_method"))>>]
         [] NextV(x.v, 1) = "cont" -> [ph |-> "hs", vi |-> 2, out |-> <<R("auth", 24, TRUE)>>]
         [] NextV(x.v, 1) = "fail" -> [ph |-> "closed", vi |-> 2, out |-> <<R("connack", FAIL, FALSE)>>]

\* a Protocol Error before CONNACK: the connection is closed, at most a failing CONNACK is sent, never CONNACK 0
HsError(st) == [st EXCEPT !.ph = "closed", !.out = Append(@, R("connack", FAIL, FALSE))]
\* a Protocol Error after CONNACK: DISCONNECT 0x82 and close
UpError(st) == [st EXCEPT !.ph = "closed", !.out = Append(@, R("disconnect", PROTO, FALSE))]

Step(x, st, p) ==
  CASE st.ph = "closed" -> st
    [] st.ph = "hs" /\ D("handshake_auth_never_read") ->
         \* as coded readLoop waits for the end of the handshake after the first packet: nothing the client sends after the
         \* broker's AUTH is read; the connection stays as it is until the 5 s CONNECT timer closes it
         [st EXCEPT !.out = Append(@, R("silence", 0, FALSE))]
    [] st.ph = "hs" ->
         IF p = "authM"
         THEN CASE NextV(x.v, st.vi) = "ok"   -> [ph |-> "up", vi |-> st.vi + 1, out |-> Append(st.out, R("connack", 0, ~D("connack_without_method")))]
                [] NextV(x.v, st.vi) = "cont" -> [ph |-> "hs", vi |-> st.vi + 1, out |-> Append(st.out, R("auth", 24, TRUE))]
                [] NextV(x.v, st.vi) = "fail" -> [ph |-> "closed", vi |-> st.vi + 1, out |-> Append(st.out, R("connack", FAIL, FALSE))]
         ELSE HsError(st)                       \* another method, a re-authentication request or any other packet before CONNACK
    [] st.ph \in {"up", "re"} ->
         IF p = "ping" THEN [st EXCEPT !.out = Append(@, R("pingresp", 0, FALSE))]
         ELSE IF x.method = "none" THEN UpError(st)                      \* [MQTT-4.12.0-6/7]: no method in CONNECT, no AUTH ever
         ELSE IF D("reauth_method_compared_with_data") THEN
              \* as coded the method of the connection is compared with the packet's Authentication DATA: the driver's AUTH
              \* packets carry data different from the method, so every AUTH after CONNACK is a Protocol Error
              UpError(st)
         ELSE IF (p = "reauthM" /\ st.ph = "up") \/ (p = "authM" /\ st.ph = "re")
         THEN CASE NextV(x.v, st.vi) = "ok"   -> [ph |-> "up", vi |-> st.vi + 1, out |-> Append(st.out, R("auth", 0, TRUE))]
                [] NextV(x.v, st.vi) = "cont" -> [ph |-> "re", vi |-> st.vi + 1, out |-> Append(st.out, R("auth", 24, TRUE))]
                [] NextV(x.v, st.vi) = "fail" -> [ph |-> "closed", vi |-> st.vi + 1, out |-> Append(st.out, R("disconnect", FAIL, FALSE))]
         ELSE UpError(st)                       \* another method, Continue outside an exchange, a second request inside one

RECURSIVE Run(_, _, _)
Run(x, st, ps) == IF ps = <<>> THEN st ELSE Run(x, Step(x, st, Head(ps)), Tail(ps))

Out(x) == LET e == Run(x, Connect(x), x.steps) IN [case |-> x, replies |-> e.out, open |-> e.ph # "closed", ph |-> e.ph]

Init == c \in Cases
Next == UNCHANGED c
Spec == Init /\ [][Next]_c

----------------------------------------------------------------------------
\* design level: coherence of the demanded replies
Replies == Out(c).replies
\* the broker never sends AUTH, and never names a method in CONNACK, to a client whose CONNECT had no method [MQTT-4.12.0-6]
NoAuthWithoutMethod == c.method = "none" => \A i \in DOMAIN Replies : Replies[i].t # "auth" /\ ~Replies[i].m
\* every AUTH packet and the successful CONNACK carry the method of CONNECT [MQTT-4.12.0-5]
MethodEchoed == c.method = "M" => \A i \in DOMAIN Replies :
                   (Replies[i].t = "auth" \/ (Replies[i].t = "connack" /\ Replies[i].code = 0)) => Replies[i].m
\* CONNACK 0 is sent at most once and only after the handler said ok (or no method was used)
AcceptedOnlyAfterOk ==
  LET acc == {i \in DOMAIN Replies : Replies[i].t = "connack" /\ Replies[i].code = 0} IN
  /\ Cardinality(acc) <= 1
  /\ (acc # {} /\ c.method = "M") => (c.hook /\ NextV(c.v, 1) # "fail")
\* nothing is answered after the connection has been closed
SilentAfterClose == D("handshake_auth_never_read") \/ \A i \in DOMAIN Replies : (Replies[i].t \in {"disconnect"} \/ (Replies[i].t = "connack" /\ Replies[i].code # 0)) => i = Len(Replies)

Dump == PrintT(ToJson(Out(c)))
=============================================================================
