----------------------------- MODULE TraceStats -----------------------------
(***************************************************************************)
(* Trace validation for Stats.tla (C20): the lines of an ndjson trace      *)
(* recorded by the wire driver with "hooks": true are consumed one by one; *)
(* every line updates the ground-truth counters, a `stats` line (logged at *)
(* a quiescent point: barrier, short settle, snapshot) must show exactly   *)
(* the numbers the specification demands.  Scenarios are separated by      *)
(* `reset` lines.  High-water mark in TLC register 1, POSTCONDITION.       *)
(* When a snapshot does not match, the demanded snapshot is printed as     *)
(* JSON so that the orchestrator can list the fields that differ.          *)
(***************************************************************************)
EXTENDS Stats, Json, IOUtils, Sequences

VARIABLE l
tvars == <<svars, l>>

Trace == ndJsonDeserialize(IOEnv.TRACE)
EnvDeviations == {IOEnv[v] : v \in {"KF1", "KF2", "KF3", "KF4", "KF5", "KF6"} \cap DOMAIN IOEnv} \ {""}
StopAt == IF "STOPAT" \in DOMAIN IOEnv THEN atoi(IOEnv.STOPAT) ELSE 0

ev == Trace[l]
Is(e) == l <= Len(Trace) /\ Trace[l].e = e /\ l' = l + 1

TInit == l = 1 /\ SInit([maxqueued |-> 1000])

\* lifecycle and queue events of the broker; everything else the instrumentation logs is not used
UsedHooks == {"register", "unregister", "terminated", "enqueue"}

Snapshot(snap) ==
  /\ \/ SnapshotOK(snap)
     \/ /\ ~SnapshotOK(snap)
        /\ PrintT(<<"SNAPSHOT-MISMATCH", l, ToJson([demanded |-> Expected(0), slack |-> InflightSlack,
                                                     queues_sane |-> QueuesSane])>>)
        /\ FALSE
  /\ UNCHANGED svars

TNext ==
  \/ Is("reset")       /\ ev.hooks /\ Reset([maxqueued |-> ev.maxqueued])
  \/ Is("connect")     /\ Connect(ev.k, ev.cid, ev.ver, ev.conn, ev.size)
  \/ Is("connack")     /\ Connack(ev.k, ev.code, ev.size)
  \/ Is("subscribe")   /\ PacketIn(ev.k, "Subscribe", ev.size)
  \/ Is("suback")      /\ PacketOut(ev.k, "Suback", ev.size)
  \/ Is("unsubscribe") /\ PacketIn(ev.k, "Unsubscribe", ev.size)
  \/ Is("unsuback")    /\ PacketOut(ev.k, "Unsuback", ev.size)
  \/ Is("publish")     /\ Publish(ev.k, ev.qos, ev.size)
  \/ Is("puback")      /\ PacketOut(ev.k, "Puback", ev.size)
  \/ Is("pubrec")      /\ PacketOut(ev.k, "Pubrec", ev.size)
  \/ Is("pubcomp")     /\ PacketOut(ev.k, "Pubcomp", ev.size)
  \/ Is("pubrel")      /\ PacketIn(ev.k, "Pubrel", ev.size)
  \/ Is("deliver")     /\ Deliver(ev.k, ev.qos, ev.pid, ev.tag, ev.size)
  \/ Is("cack")        /\ ClientAck(ev.k, ev.t, ev.pid, ev.code, ev.size)
  \/ Is("relout")      /\ PacketOut(ev.k, "Pubrel", ev.size)
  \/ Is("pingreq")     /\ PacketIn(ev.k, "Pingreq", ev.size)
  \/ Is("pingresp")    /\ PacketOut(ev.k, "Pingresp", ev.size)
  \/ Is("disconnect")  /\ PacketIn(ev.k, "Disconnect", ev.size)
  \/ Is("srvdisconnect") /\ PacketOut(ev.k, "Disconnect", ev.size)
  \* raw bytes written by the client: type and size are those of the packet the bytes encode (added to the line by
  \* the orchestrator from the first byte and the length of `hex`)
  \/ Is("raw")         /\ PacketIn(ev.k, ev.ptype, ev.size)
  \/ Is("hook")        /\ \/ ev.h = "register"   /\ Register(ev.conn, ev.cid, ev.resume)
                          \/ ev.h = "unregister" /\ Unregister(ev.conn, ev.cid)
                          \/ ev.h = "terminated" /\ Terminated(ev.cid, ev.reason)
                          \/ ev.h = "enqueue"    /\ Enqueue(ev.dst, ev.err)
                          \/ ev.h \notin UsedHooks /\ UNCHANGED svars
  \/ Is("dropped")     /\ Dropped(ev.cid, ev.qos, ev.reason, ev.tag)
  \/ Is("stats")       /\ Snapshot(ev.snap)
  \* the end of a connection as the client sees it, API calls and driver bookkeeping carry no statistics themselves
  \/ Is("abort")       /\ UNCHANGED svars
  \/ Is("eof")         /\ UNCHANGED svars
  \/ Is("terminate")   /\ UNCHANGED svars
  \/ Is("apipublish")  /\ UNCHANGED svars
  \/ Is("quiet")       /\ UNCHANGED svars
  \/ Is("note")        /\ UNCHANGED svars
  \/ Is("view")        /\ UNCHANGED svars      \* (the broker's view of its stores at a quiescence point: judged by TraceBroker)

TSpec == TInit /\ [][TNext]_tvars

HWM == /\ (IF l > TLCGet(1) THEN TLCSet(1, l) ELSE TRUE)
       /\ (StopAt = 0 \/ l <= StopAt)
ASSUME TLCSet(1, 0)

Accepted == \/ TLCGet(1) = Len(Trace) + 1
            \/ PrintT(<<"TRACE-REJECTED-AT", TLCGet(1), "OF", Len(Trace)>>) /\ FALSE

NotAtStop == StopAt = 0 \/ l < StopAt
=============================================================================
