------------------------------ MODULE FedEmit ------------------------------
(***************************************************************************)
(* The emission side of C16 at the grain of hooks.go: OnSubscribedWrapper, *)
(* OnUnsubscribedWrapper and OnSessionTerminatedWrapper first update the   *)
(* reference counter (localSubStore, its own lock) and only then take      *)
(* memberMu and queue the event for the peers.  Hooks of different MQTT    *)
(* clients run on different goroutines (no common lock in the core), so    *)
(* the two steps of one hook can enclose both steps of another.            *)
(* FedStream.tla treats an emission as one step; this module checks that   *)
(* abstraction: the event order in the queue must agree with the order of  *)
(* the counter updates (InOrder).  As coded it does not; the counterexample*)
(* (unsubscribe step 1, subscribe steps 1+2, unsubscribe step 2) is run on *)
(* the real hook wrappers by harness/cmd/fedstream -probe hookrace.        *)
(* Fixes = {"atomic_emission"} models the proposed repair (memberMu held   *)
(* across both steps).                                                     *)
(***************************************************************************)
EXTENDS Integers, Sequences, FiniteSets, TLC

CONSTANTS Clients, Fixes

VARIABLES idx,      \* clients that hold the (one) topic
          queue,    \* events queued for the peer: "sub" / "unsub"
          pc,       \* per client: "idle" | "sub2" | "unsub2" (step 1 done, event not yet queued) | "none2" (nothing to queue)
          did       \* per client: hook calls made (bound)

vars == <<idx, queue, pc, did>>
Atomic == "atomic_emission" \in Fixes

Init == idx = {} /\ queue = <<>> /\ pc = [c \in Clients |-> "idle"] /\ did = [c \in Clients |-> 0]

\* with the repair a hook may only start while no other hook is between its steps (memberMu)
MayStart(c) == pc[c] = "idle" /\ did[c] < 2 /\ (Atomic => \A d \in Clients : pc[d] = "idle")

Sub1(c) == /\ MayStart(c) /\ c \notin idx
           /\ idx' = idx \cup {c}
           /\ pc' = [pc EXCEPT ![c] = IF idx = {} THEN "sub2" ELSE "none2"]
           /\ did' = [did EXCEPT ![c] = @ + 1] /\ UNCHANGED queue
Unsub1(c) == /\ MayStart(c) /\ c \in idx
             /\ idx' = idx \ {c}
             /\ pc' = [pc EXCEPT ![c] = IF idx' = {} THEN "unsub2" ELSE "none2"]
             /\ did' = [did EXCEPT ![c] = @ + 1] /\ UNCHANGED queue
Step2(c) == /\ pc[c] # "idle"
            /\ queue' = IF pc[c] = "sub2" THEN Append(queue, "sub")
                        ELSE IF pc[c] = "unsub2" THEN Append(queue, "unsub") ELSE queue
            /\ pc' = [pc EXCEPT ![c] = "idle"] /\ UNCHANGED <<idx, did>>

Next == \E c \in Clients : Sub1(c) \/ Unsub1(c) \/ Step2(c)
Spec == Init /\ [][Next]_vars

\* when no hook is between its steps, what the peer will believe after applying the queue equals the truth
InOrder == (\A c \in Clients : pc[c] = "idle") =>
              LET believed == Len(queue) > 0 /\ queue[Len(queue)] = "sub" IN believed = (idx # {})
=============================================================================
