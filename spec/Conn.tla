-------------------------------- MODULE Conn --------------------------------
(***************************************************************************)
(* C15 -- the goroutines of gmqtt connections, as coded in                  *)
(* server/client.go (serve, readLoop, writeLoop, connectWithTimeOut,        *)
(* readHandle, pollMessageHandler, setError, write, internalClose) and      *)
(* server/server.go (lockDuplicatedID, registerClient, unregisterClient,    *)
(* Stop), with the mem queue's and the packet-id limiter's condition        *)
(* variables.  PlusCal; the translation below is committed.                 *)
(*                                                                          *)
(* One connection k is the processes read(k), write(k), serve(k) (whose     *)
(* first phase is hs = connectWithTimeOut, which runs on serve's            *)
(* goroutine), poll(k), handle(k); peer(k) is the (unfair) remote end.      *)
(* stop is Server.Stop (its first step, the call, is not fair), api makes  *)
(* administrative calls under srv.mu.                                       *)
(*                                                                          *)
(* Whether a channel operation is guarded by `<-client.close` is NOT        *)
(* written down here: it is the constant record Ops, filled at check time   *)
(* from the go/ast extraction harness/cmd/chanops (lib/conn_lib.py).        *)
(* Dev is the set of named deviations (known findings); a deviation makes   *)
(* the model behave as the repaired code would, the properties are never    *)
(* changed.                                                                 *)
(*                                                                          *)
(* Abstraction of the bounds (DESIGN.md B.4): `in` and `out` have capacity  *)
(* 8 in the code and CapIn/CapOut (1..2) here.  A buffered channel matters  *)
(* only through "has room / is full / is empty"; every blocking pattern of  *)
(* capacity 8 with n packets appears with capacity c and n-(8-c) packets.   *)
(* Therefore the peer must be allowed at least CapIn+3 packets (CONNECT,    *)
(* the packet that ends readHandle, CapIn to fill `in`, one that blocks):   *)
(* ASSUME ... Budget >= CapIn + 3 below (as long as that send is unguarded).  CapSock is the room in the kernel's   *)
(* socket buffers after the peer stopped reading.                           *)
(***************************************************************************)
EXTENDS Integers, Sequences, FiniteSets, TLC

CONSTANTS
  NConn,         \* connections
  CapIn, CapOut, CapSock, QMax, PlLimit,
  Budget,        \* packets one peer may send
  FirstKinds,    \* what a peer may send first:  subset of {"connect","badconnect"}
  RestKinds,     \* ... and afterwards:          subset of {"ok","ping","ack","bad","mal","disc"}
  V5,            \* set of connections that speak MQTT 5 (DISCONNECT with reason code is owed)
  SameId,        \* all connections use one client id (take-over)
  PriorSession,  \* a stored session without online client exists for that id (window of lockDuplicatedID)
  KeepAlive,     \* the client asked for a keep alive (read deadline after CONNECT)
  WillDelay,     \* sessions carry a delayed will (timer goroutine started in unregisterClient)
  ApiCalls,      \* number of administrative calls
  PeerMayStall,  \* peers may stop reading
  WithStop,      \* Stop may be called
  PeerMayClose,  \* peers may close their socket at any time
  PeerReads,     \* peers read what the broker sends (FALSE: they never do, from the start)
  TrackOwed,     \* count the requests a peer is waiting for (only needed for Responsive)
  Ops,           \* record extracted from the source, see conn_lib.py
  Dev            \* enabled deviations


K == 1..NConn
Min(a, b) == IF a < b THEN a ELSE b

RdIds == {10 * k + 1 : k \in K}
WrIds == {10 * k + 2 : k \in K}
SvIds == {10 * k + 3 : k \in K}
PlIds == {10 * k + 4 : k \in K}
HdIds == {10 * k + 5 : k \in K}
PrIds == {10 * k + 6 : k \in K}
WtIds == IF WillDelay THEN {10 * k + 7 : k \in K} ELSE {}
C(self) == self \div 10

\* ---- source facts, overridden by the as-repaired deviations
GInSend      == Ops.in_send_guard \/ "in_send_unguarded" \in Dev
GConnected   == Ops.connected_recv_guard
GErrConnack  == Ops.errconnack_send_guard
GWrite       == Ops.write_guard
\* the budget that fills an unguarded `in` is only needed while the send is unguarded
ASSUME GInSend \/ Budget >= CapIn + 3
WLoopClose   == Ops.writeloop_select_close
WDrain       == Ops.writeloop_drains_on_close      \* the close branch of writeLoop still writes a queued CONNACK / DISCONNECT
HsTimeout    == Ops.hs_select_timeout
SetErrWrites == Ops.seterror_write_in_once \/ Ops.seterror_offer_in_once
SetErrNonBlk == Ops.seterror_offer_in_once \/ "seterror_blocks_in_once" \in Dev        \* as repaired: the DISCONNECT is offered, never waited for
CloseUnreg   == Ops.hsfail_closes_sock \/ "unregistered_not_closed" \in Dev   \* as repaired: failed handshake closes the socket ...
StopAll      == Ops.stop_tracks_all \/ "unregistered_not_closed" \in Dev      \* ... and Stop closes and awaits every accepted connection
CloseOnErr   == Ops.writeloop_exit_closes_sock \/ "no_close_after_error" \in Dev    \* as repaired: writeLoop closes the socket whenever it returns
StopTimers   == "will_timer_outlives_stop" \in Dev                            \* as repaired: Stop cancels pending will timers
KeepLock     == ~Ops.relock_window \/ "c05_relock_window" \in Dev             \* (as repaired) lockDuplicatedID keeps srv.mu when there is no online client

(* --algorithm Conn {
variables
  listenerOpen = TRUE, stopCalled = FALSE, stopReturned = FALSE,
  unloads = 0, onstops = 0,
  mu = 0,                                   \* srv.mu: 0 free, else owner
  sess = PriorSession,                      \* a session is stored for the shared client id
  accepted = [k \in K |-> "no"],            \* "no" | "yes" | "refused"
  c2s = [k \in K |-> "none"],               \* the next packet on its way to the broker (flow control: one slot)
  sent = [k \in K |-> 0],
  owed = [k \in K |-> 0],                   \* requests the peer is still waiting for (connack / ack; a protocol error is owed the close)
  after = [k \in K |-> FALSE],              \* the peer has sent DISCONNECT: nothing is owed any more
  peerReading = [k \in K |-> PeerReads],
  peerClosed = [k \in K |-> FALSE],
  srvClosed = [k \in K |-> FALSE],          \* rwc.Close() has been called
  s2c = [k \in K |-> 0],                    \* packets written after the peer stopped reading
  inq = [k \in K |-> <<>>], inClosed = [k \in K |-> FALSE],
  outq = [k \in K |-> <<>>],
  closeCh = [k \in K |-> FALSE], connectedCh = [k \in K |-> FALSE], closedCh = [k \in K |-> FALSE],
  once = [k \in K |-> "idle"],              \* errOnce: idle | running | done
  isConnected = [k \in K |-> FALSE], registered = [k \in K |-> FALSE], hasStores = [k \in K |-> FALSE],
  live = [k \in K |-> {}],                  \* goroutines of the connection that have not exited
  spawnPH = [k \in K |-> "pending"],        \* poll/handle: pending | yes | no
  qlen = [k \in K |-> 0], qclosed = [k \in K |-> FALSE],
  plused = [k \in K |-> 0], plexit = [k \in K |-> FALSE],
  willT = [k \in K |-> "none"];             \* none | armed | done

define {
  Others(c) == {o \in K \ {c} : registered[o]}
  Alive(k) == live[k] # {} \/ willT[k] = "armed"
  NeedsDisc(k) == k \in V5 /\ isConnected[k] /\ SetErrWrites
  \* writeLoop's drain: for { select { case p := <-out: [write it if CONNACK / DISCONNECT] ; default: return } } --
  \* everything before the first such packet is received and discarded without blocking
  OwedIdx(q) == {i \in 1..Len(q) : q[i] \in {"connack", "disconnect"}}
  Drained(q) == IF OwedIdx(q) = {} THEN <<>>
                ELSE SubSeq(q, CHOOSE i \in OwedIdx(q) : \A j \in OwedIdx(q) : i <= j, Len(q))
}

\* client.write: select { case <-client.close: ; case client.out <- p: }
macro Write(c, p) {
  if (GWrite) {
    either { await closeCh[c] } or { await Len(outq[c]) < CapOut; outq[c] := Append(outq[c], p) }
  } else {
    await Len(outq[c]) < CapOut; outq[c] := Append(outq[c], p)
  }
}

\* client.setError(err) with err == nil, io errors, ErrConnectTimeOut, queue.ErrClosed ... (not a *codes.Error), or with a
\* *codes.Error before CONNECT succeeded / on a v3 connection: the body of errOnce.Do cannot block, the call is one step.
\* A caller arriving while another caller is inside the Once waits for it (sync.Once).
macro SetErrorPlain(c) {
  await once[c] # "running";
  if (once[c] = "idle") { closeCh[c] := TRUE; once[c] := "done" }
}

\* client.setError(err) with a *codes.Error:
\*   errOnce.Do(func(){ if v5 && connected { client.write(DISCONNECT) }; close(client.close) })
procedure setError(c = 0)
{
se0: await once[c] # "running";           \* sync.Once: later callers wait until the first has returned
     if (once[c] = "idle") {
       if (NeedsDisc(c) /\ ~SetErrNonBlk) {
         once[c] := "running";
se1:     Write(c, "disconnect");
se2:     closeCh[c] := TRUE; once[c] := "done"
       } else {
         if (NeedsDisc(c) /\ ~closeCh[c] /\ Len(outq[c]) < CapOut) { outq[c] := Append(outq[c], "disconnect") };
         closeCh[c] := TRUE; once[c] := "done"
       }
     };
se3: return
}

\* ------------------------------------------------------------------ readLoop
fair process (read \in RdIds)
variable rp = "none";
{
r0: await accepted[C(self)] # "no";
    if (accepted[C(self)] = "refused") { goto Done };
r1: while (TRUE) {
      \* packetReader.ReadPacket(): a packet, or an error (socket closed by either side, read deadline)
      either { await srvClosed[C(self)]; rp := "ioerr" }
      or     { await ~srvClosed[C(self)] /\ c2s[C(self)] # "none"; rp := c2s[C(self)]; c2s[C(self)] := "none" }
      or     { await ~srvClosed[C(self)] /\ c2s[C(self)] = "none" /\ peerClosed[C(self)]; rp := "ioerr" }
      or     { await ~srvClosed[C(self)] /\ c2s[C(self)] = "none" /\ KeepAlive /\ isConnected[C(self)]; rp := "ioerr" };
      if (rp = "ioerr") { goto r5 }
      else if (rp = "mal") { call setError(C(self)); goto r6 };       \* malformed packet: *codes.Error
r3:   \* client.in <- packet
      if (GInSend) {
        either { await closeCh[C(self)]; goto r5 }
        or     { await Len(inq[C(self)]) < CapIn; inq[C(self)] := Append(inq[C(self)], rp) }
      } else {
        await Len(inq[C(self)]) < CapIn; inq[C(self)] := Append(inq[C(self)], rp)
      };
r4:   \* <-client.connected
      if (GConnected) { await connectedCh[C(self)] \/ closeCh[C(self)] } else { await connectedCh[C(self)] }
    };
r5: SetErrorPlain(C(self));
r6: inClosed[C(self)] := TRUE;                                 \* close(client.in)
    live[C(self)] := live[C(self)] \ {"read"}                  \* exit.read ; readWg.Done()
}

\* ------------------------------------------------------------------ writeLoop
fair process (write \in WrIds)
variable wp = "none";
{
w0: await accepted[C(self)] # "no";
    if (accepted[C(self)] = "refused") { goto Done };
w1: while (TRUE) {
      either { await WLoopClose /\ closeCh[C(self)]; if (WDrain) { goto wd } else { goto w4 } }
      or     { await outq[C(self)] # <<>>; wp := Head(outq[C(self)]); outq[C(self)] := Tail(outq[C(self)]) };
w2:   \* writePacket: blocks while the peer does not read and the buffers are full; fails once the socket is closed
      either { await srvClosed[C(self)]; goto w4 }
      or     { await ~srvClosed[C(self)] /\ peerClosed[C(self)];
               either { goto w4 } or { if (wp = "disconnect") { srvClosed[C(self)] := TRUE; goto w4 } } }
      or     { await ~srvClosed[C(self)] /\ ~peerClosed[C(self)] /\ (peerReading[C(self)] \/ s2c[C(self)] < CapSock);
               if (~peerReading[C(self)]) { s2c[C(self)] := s2c[C(self)] + 1 };
               if (wp \in {"connack", "ack"} /\ owed[C(self)] > 0) { owed[C(self)] := owed[C(self)] - 1 };
               if (wp = "disconnect") { srvClosed[C(self)] := TRUE; goto w4 } }     \* rwc.Close() after DISCONNECT
    };
wd: \* case <-client.close: drain client.out without blocking; only a CONNACK / DISCONNECT is still written
    if (Drained(outq[C(self)]) = <<>>) {
      outq[C(self)] := <<>>;
      goto w4
    } else {
      wp := Head(Drained(outq[C(self)]));
      outq[C(self)] := Tail(Drained(outq[C(self)]))
    };
wd2: \* writePacket of the drain: the same socket write -- blocks while the peer does not read, fails once the socket is closed
    either { await srvClosed[C(self)]; goto w4 }
    or     { await ~srvClosed[C(self)] /\ peerClosed[C(self)];
             either { goto w4 } or { goto wd } }
    or     { await ~srvClosed[C(self)] /\ ~peerClosed[C(self)] /\ (peerReading[C(self)] \/ s2c[C(self)] < CapSock);
             if (~peerReading[C(self)]) { s2c[C(self)] := s2c[C(self)] + 1 };
             if (wp = "connack" /\ owed[C(self)] > 0) { owed[C(self)] := owed[C(self)] - 1 };
             goto wd };
w4: SetErrorPlain(C(self));
    live[C(self)] := live[C(self)] \ {"write"};                \* exit.write ; wg.Done()
    if (CloseOnErr) { srvClosed[C(self)] := TRUE }
}

\* ------------------------------------------------------------------ serve (connectWithTimeOut, join, internalClose)
fair process (serve \in SvIds)
variables hp = "none", hok = FALSE, old = 0;
{
s0: await accepted[C(self)] # "no";
    if (accepted[C(self)] = "refused") { goto Done };
    \* (the accept put serve, read, write into live)
hs1: \* connectWithTimeOut: select { case p := <-client.in: ; case <-timeout.C: }
    either { await inq[C(self)] # <<>>; hp := Head(inq[C(self)]); inq[C(self)] := Tail(inq[C(self)]) }
    or     { await inq[C(self)] = <<>> /\ inClosed[C(self)]; hp := "nil" }
    or     { await HsTimeout /\ inq[C(self)] = <<>> /\ ~inClosed[C(self)]; hp := "timeout" };
    if (hp = "nil") {
      hok := TRUE;                        \* `if p == nil { return }` leaves err == nil, so ok = true
      goto hs9
    } else if (hp = "timeout") {
      goto hs8                            \* ErrConnectTimeOut is not a *codes.Error
    } else if (hp # "connect") {
      goto hs7
    };
reg1: await mu = 0;                       \* lockDuplicatedID: Lock; look up session and online client
      if (SameId /\ Others(C(self)) # {}) {
        old := CHOOSE o \in Others(C(self)) : TRUE;          \* ... Unlock
        call setError(old);               \* oldClient.setError(SessionTakenOver)
        goto reg4
      } else if (SameId /\ sess /\ ~KeepLock) {
        goto reg6                         \* stored session, no online client: Unlock ... Lock again
      } else {
        mu := self;                       \* no stored session: the lock is kept
        goto reg7
      };
reg4: srvClosed[old] := TRUE;             \* oldClient.Close()
reg5: await closedCh[old];                \* <-oldClient.closed
      goto reg1;
reg6: await mu = 0; mu := self;
reg7: isConnected[C(self)] := TRUE;       \* registerClient (srv.mu held), deferred Unlock
      registered[C(self)] := TRUE;
      hasStores[C(self)] := TRUE;
      qclosed[C(self)] := FALSE;
      sess := TRUE;
      mu := 0;
      hok := TRUE;
reg8: Write(C(self), "connack");
      goto hs9;
hs7: \* sendErrConnack: cli.out <- connack
     if (GErrConnack) {
       either { await closeCh[C(self)] } or { await Len(outq[C(self)]) < CapOut; outq[C(self)] := Append(outq[C(self)], "connack") }
     } else {
       await Len(outq[C(self)]) < CapOut; outq[C(self)] := Append(outq[C(self)], "connack")
     };
hs8: SetErrorPlain(C(self));              \* not connected: no DISCONNECT
hs9: connectedCh[C(self)] := TRUE;        \* close(client.connected); back in serve:
     if (hok) {
       spawnPH[C(self)] := "yes";
       live[C(self)] := live[C(self)] \cup {"poll", "handle"};
       goto sv2
     } else {
       spawnPH[C(self)] := "no";
       if (CloseUnreg) { goto sv1 } else { goto sv2 }
     };
sv1: await "write" \notin live[C(self)];  \* (only as repaired) failed handshake: client.wg.Wait(); rwc.Close()
     srvClosed[C(self)] := TRUE;
sv2: await "read" \notin live[C(self)];   \* readWg.Wait(); queueStore.Close(); pl.close()
     if (hasStores[C(self)]) { qclosed[C(self)] := TRUE; plexit[C(self)] := TRUE };
sv4: await live[C(self)] \cap {"write", "poll", "handle"} = {};      \* client.wg.Wait()
     srvClosed[C(self)] := TRUE;          \* rwc.Close()
sv6: if (isConnected[C(self)]) {          \* internalClose: unregisterClient under srv.mu
       await mu = 0;
       registered[C(self)] := FALSE;
       if (WillDelay) { willT[C(self)] := "armed" }
     };
     closedCh[C(self)] := TRUE;           \* close(client.closed)
     live[C(self)] := {}
}

\* ------------------------------------------------------------------ pollMessageHandler
fair process (poll \in PlIds)
{
p0: await spawnPH[C(self)] # "pending" \/ accepted[C(self)] = "refused";
    if (spawnPH[C(self)] # "yes") { goto Done }
    else if (~hasStores[C(self)]) { goto p5 };      \* nil queueStore: the panic is recovered by the deferred function
p2: while (TRUE) {
      \* pl.pollPacketIDs (cond.Wait while used >= limit && !exit), then queueStore.Read (cond.Wait while empty && !closed);
      \* serve closes queue and limiter together, so one wait
      await plexit[C(self)] \/ qclosed[C(self)] \/ (plused[C(self)] < PlLimit /\ qlen[C(self)] > 0);
      if (plexit[C(self)] \/ qclosed[C(self)]) { goto p5 }
      else { qlen[C(self)] := qlen[C(self)] - 1; plused[C(self)] := plused[C(self)] + 1 };
p4:   Write(C(self), "publish")
    };
p5: SetErrorPlain(C(self));
    live[C(self)] := live[C(self)] \ {"poll"}                  \* exit.poll ; wg.Done()
}

\* ------------------------------------------------------------------ readHandle
fair process (handle \in HdIds)
variable pk = "none";
{
h0: await spawnPH[C(self)] # "pending" \/ accepted[C(self)] = "refused";
    if (spawnPH[C(self)] # "yes") { goto Done };
h1: while (TRUE) {
      \* for packet := range client.in
      either { await inq[C(self)] # <<>>; pk := Head(inq[C(self)]); inq[C(self)] := Tail(inq[C(self)]) }
      or     { await inq[C(self)] = <<>> /\ inClosed[C(self)]; pk := "nil" };
      if (pk = "nil" \/ pk = "disc") {
        goto h6
      } else if (pk = "bad") {
        call setError(C(self));           \* a handler returned a *codes.Error
        goto h7
      } else if (pk = "ack") {
        if (plused[C(self)] > 0) { plused[C(self)] := plused[C(self)] - 1 };     \* pl.release + Signal
        goto h1
      } else if (pk = "ping") {
        skip                              \* pingreqHandler: only the answer
      } else {
        await mu = 0;                     \* publishHandler: deliverMessage under srv.mu (into the own queue)
        if (hasStores[C(self)]) { qlen[C(self)] := Min(qlen[C(self)] + 1, QMax) }
      };
h5:   Write(C(self), "ack")
    };
h6: SetErrorPlain(C(self));
h7: live[C(self)] := live[C(self)] \ {"handle"}                \* exit.handle ; wg.Done()
}

\* ------------------------------------------------------------------ delayed will (goroutine started by unregisterClient)
fair process (will \in WtIds)
{
wl0: await closedCh[C(self)] \/ accepted[C(self)] = "refused";
     if (willT[C(self)] # "armed") { goto Done };
wl1: await mu = 0;                        \* the timer fired (or the will was cancelled): srv.mu, sendWillLocked
     willT[C(self)] := "done"
}

\* ------------------------------------------------------------------ the remote end (no fairness)
process (peer \in PrIds)
{
e0: either { await listenerOpen; accepted[C(self)] := "yes"; live[C(self)] := {"serve", "read", "write"} }
    or     { await ~listenerOpen; accepted[C(self)] := "refused"; spawnPH[C(self)] := "no"; goto Done };
e1: while (~peerClosed[C(self)] /\ ~srvClosed[C(self)]) {      \* (once the broker has closed the socket the peer is done)
      either { await sent[C(self)] < Budget /\ ~srvClosed[C(self)] /\ c2s[C(self)] = "none";
               with (kd \in IF sent[C(self)] = 0 THEN FirstKinds ELSE RestKinds) {
                 c2s[C(self)] := kd;
                 if (TrackOwed /\ kd = "disc") { after[C(self)] := TRUE; owed[C(self)] := 0 }
                 else if (TrackOwed /\ kd \in {"connect", "badconnect", "ok", "ping", "bad", "mal"} /\ ~after[C(self)]) { owed[C(self)] := owed[C(self)] + 1 }
               };
               sent[C(self)] := sent[C(self)] + 1 }
      or     { await peerReading[C(self)] /\ PeerMayStall; peerReading[C(self)] := FALSE }
      or     { await PeerMayClose; peerClosed[C(self)] := TRUE }
    }
}

\* ------------------------------------------------------------------ Server.Stop (when it is called is not fair: `:-`)
fair process (stop = 1)
variable snap = {};
{
st0:- await WithStop;
     stopCalled := TRUE; listenerOpen := FALSE;               \* exit(); listeners closed
st1: await mu = 0;                                             \* srv.mu: c.Close() for every registered client
     snap := IF StopAll THEN {k \in K : accepted[k] = "yes" /\ ~closedCh[k]} ELSE {k \in K : registered[k]};
     srvClosed := [k \in K |-> srvClosed[k] \/ k \in snap];
st3: await \A k \in snap : closedCh[k];                        \* <-done (the context has no deadline here)
     unloads := unloads + 1; onstops := onstops + 1;           \* Unload of every plugin, OnStop
     if (StopTimers) { willT := [k \in K |-> IF willT[k] = "armed" THEN "done" ELSE willT[k]] };
     stopReturned := TRUE
}

\* ------------------------------------------------------------------ administrative calls (critical sections of srv.mu)
fair process (api = 2)
variable n = 0;
{
a1: while (n < ApiCalls) {
      await mu = 0;
      either { srvClosed := [k \in K |-> srvClosed[k] \/ registered[k]] }             \* ClientService.TerminateSession
      or     { qlen := [k \in K |-> IF registered[k] THEN Min(qlen[k] + 1, QMax) ELSE qlen[k]] };  \* Publisher.Publish
      n := n + 1
    }
}
} *)
\* BEGIN TRANSLATION
VARIABLES pc, listenerOpen, stopCalled, stopReturned, unloads, onstops, mu, 
          sess, accepted, c2s, sent, owed, after, peerReading, peerClosed, 
          srvClosed, s2c, inq, inClosed, outq, closeCh, connectedCh, closedCh, 
          once, isConnected, registered, hasStores, live, spawnPH, qlen, 
          qclosed, plused, plexit, willT, stack

(* define statement *)
Others(c) == {o \in K \ {c} : registered[o]}
Alive(k) == live[k] # {} \/ willT[k] = "armed"
NeedsDisc(k) == k \in V5 /\ isConnected[k] /\ SetErrWrites


OwedIdx(q) == {i \in 1..Len(q) : q[i] \in {"connack", "disconnect"}}
Drained(q) == IF OwedIdx(q) = {} THEN <<>>
              ELSE SubSeq(q, CHOOSE i \in OwedIdx(q) : \A j \in OwedIdx(q) : i <= j, Len(q))

VARIABLES c, rp, wp, hp, hok, old, pk, snap, n

vars == << pc, listenerOpen, stopCalled, stopReturned, unloads, onstops, mu, 
           sess, accepted, c2s, sent, owed, after, peerReading, peerClosed, 
           srvClosed, s2c, inq, inClosed, outq, closeCh, connectedCh, 
           closedCh, once, isConnected, registered, hasStores, live, spawnPH, 
           qlen, qclosed, plused, plexit, willT, stack, c, rp, wp, hp, hok, 
           old, pk, snap, n >>

ProcSet == (RdIds) \cup (WrIds) \cup (SvIds) \cup (PlIds) \cup (HdIds) \cup (WtIds) \cup (PrIds) \cup {1} \cup {2}

Init == (* Global variables *)
        /\ listenerOpen = TRUE
        /\ stopCalled = FALSE
        /\ stopReturned = FALSE
        /\ unloads = 0
        /\ onstops = 0
        /\ mu = 0
        /\ sess = PriorSession
        /\ accepted = [k \in K |-> "no"]
        /\ c2s = [k \in K |-> "none"]
        /\ sent = [k \in K |-> 0]
        /\ owed = [k \in K |-> 0]
        /\ after = [k \in K |-> FALSE]
        /\ peerReading = [k \in K |-> PeerReads]
        /\ peerClosed = [k \in K |-> FALSE]
        /\ srvClosed = [k \in K |-> FALSE]
        /\ s2c = [k \in K |-> 0]
        /\ inq = [k \in K |-> <<>>]
        /\ inClosed = [k \in K |-> FALSE]
        /\ outq = [k \in K |-> <<>>]
        /\ closeCh = [k \in K |-> FALSE]
        /\ connectedCh = [k \in K |-> FALSE]
        /\ closedCh = [k \in K |-> FALSE]
        /\ once = [k \in K |-> "idle"]
        /\ isConnected = [k \in K |-> FALSE]
        /\ registered = [k \in K |-> FALSE]
        /\ hasStores = [k \in K |-> FALSE]
        /\ live = [k \in K |-> {}]
        /\ spawnPH = [k \in K |-> "pending"]
        /\ qlen = [k \in K |-> 0]
        /\ qclosed = [k \in K |-> FALSE]
        /\ plused = [k \in K |-> 0]
        /\ plexit = [k \in K |-> FALSE]
        /\ willT = [k \in K |-> "none"]
        (* Procedure setError *)
        /\ c = [ self \in ProcSet |-> 0]
        (* Process read *)
        /\ rp = [self \in RdIds |-> "none"]
        (* Process write *)
        /\ wp = [self \in WrIds |-> "none"]
        (* Process serve *)
        /\ hp = [self \in SvIds |-> "none"]
        /\ hok = [self \in SvIds |-> FALSE]
        /\ old = [self \in SvIds |-> 0]
        (* Process handle *)
        /\ pk = [self \in HdIds |-> "none"]
        (* Process stop *)
        /\ snap = {}
        (* Process api *)
        /\ n = 0
        /\ stack = [self \in ProcSet |-> << >>]
        /\ pc = [self \in ProcSet |-> CASE self \in RdIds -> "r0"
                                        [] self \in WrIds -> "w0"
                                        [] self \in SvIds -> "s0"
                                        [] self \in PlIds -> "p0"
                                        [] self \in HdIds -> "h0"
                                        [] self \in WtIds -> "wl0"
                                        [] self \in PrIds -> "e0"
                                        [] self = 1 -> "st0"
                                        [] self = 2 -> "a1"]

se0(self) == /\ pc[self] = "se0"
             /\ once[c[self]] # "running"
             /\ IF once[c[self]] = "idle"
                   THEN /\ IF NeedsDisc(c[self]) /\ ~SetErrNonBlk
                              THEN /\ once' = [once EXCEPT ![c[self]] = "running"]
                                   /\ pc' = [pc EXCEPT ![self] = "se1"]
                                   /\ UNCHANGED << outq, closeCh >>
                              ELSE /\ IF NeedsDisc(c[self]) /\ ~closeCh[c[self]] /\ Len(outq[c[self]]) < CapOut
                                         THEN /\ outq' = [outq EXCEPT ![c[self]] = Append(outq[c[self]], "disconnect")]
                                         ELSE /\ TRUE
                                              /\ outq' = outq
                                   /\ closeCh' = [closeCh EXCEPT ![c[self]] = TRUE]
                                   /\ once' = [once EXCEPT ![c[self]] = "done"]
                                   /\ pc' = [pc EXCEPT ![self] = "se3"]
                   ELSE /\ pc' = [pc EXCEPT ![self] = "se3"]
                        /\ UNCHANGED << outq, closeCh, once >>
             /\ UNCHANGED << listenerOpen, stopCalled, stopReturned, unloads, 
                             onstops, mu, sess, accepted, c2s, sent, owed, 
                             after, peerReading, peerClosed, srvClosed, s2c, 
                             inq, inClosed, connectedCh, closedCh, isConnected, 
                             registered, hasStores, live, spawnPH, qlen, 
                             qclosed, plused, plexit, willT, stack, c, rp, wp, 
                             hp, hok, old, pk, snap, n >>

se1(self) == /\ pc[self] = "se1"
             /\ IF GWrite
                   THEN /\ \/ /\ closeCh[c[self]]
                              /\ outq' = outq
                           \/ /\ Len(outq[c[self]]) < CapOut
                              /\ outq' = [outq EXCEPT ![c[self]] = Append(outq[c[self]], "disconnect")]
                   ELSE /\ Len(outq[c[self]]) < CapOut
                        /\ outq' = [outq EXCEPT ![c[self]] = Append(outq[c[self]], "disconnect")]
             /\ pc' = [pc EXCEPT ![self] = "se2"]
             /\ UNCHANGED << listenerOpen, stopCalled, stopReturned, unloads, 
                             onstops, mu, sess, accepted, c2s, sent, owed, 
                             after, peerReading, peerClosed, srvClosed, s2c, 
                             inq, inClosed, closeCh, connectedCh, closedCh, 
                             once, isConnected, registered, hasStores, live, 
                             spawnPH, qlen, qclosed, plused, plexit, willT, 
                             stack, c, rp, wp, hp, hok, old, pk, snap, n >>

se2(self) == /\ pc[self] = "se2"
             /\ closeCh' = [closeCh EXCEPT ![c[self]] = TRUE]
             /\ once' = [once EXCEPT ![c[self]] = "done"]
             /\ pc' = [pc EXCEPT ![self] = "se3"]
             /\ UNCHANGED << listenerOpen, stopCalled, stopReturned, unloads, 
                             onstops, mu, sess, accepted, c2s, sent, owed, 
                             after, peerReading, peerClosed, srvClosed, s2c, 
                             inq, inClosed, outq, connectedCh, closedCh, 
                             isConnected, registered, hasStores, live, spawnPH, 
                             qlen, qclosed, plused, plexit, willT, stack, c, 
                             rp, wp, hp, hok, old, pk, snap, n >>

se3(self) == /\ pc[self] = "se3"
             /\ pc' = [pc EXCEPT ![self] = Head(stack[self]).pc]
             /\ c' = [c EXCEPT ![self] = Head(stack[self]).c]
             /\ stack' = [stack EXCEPT ![self] = Tail(stack[self])]
             /\ UNCHANGED << listenerOpen, stopCalled, stopReturned, unloads, 
                             onstops, mu, sess, accepted, c2s, sent, owed, 
                             after, peerReading, peerClosed, srvClosed, s2c, 
                             inq, inClosed, outq, closeCh, connectedCh, 
                             closedCh, once, isConnected, registered, 
                             hasStores, live, spawnPH, qlen, qclosed, plused, 
                             plexit, willT, rp, wp, hp, hok, old, pk, snap, n >>

setError(self) == se0(self) \/ se1(self) \/ se2(self) \/ se3(self)

r0(self) == /\ pc[self] = "r0"
            /\ accepted[C(self)] # "no"
            /\ IF accepted[C(self)] = "refused"
                  THEN /\ pc' = [pc EXCEPT ![self] = "Done"]
                  ELSE /\ pc' = [pc EXCEPT ![self] = "r1"]
            /\ UNCHANGED << listenerOpen, stopCalled, stopReturned, unloads, 
                            onstops, mu, sess, accepted, c2s, sent, owed, 
                            after, peerReading, peerClosed, srvClosed, s2c, 
                            inq, inClosed, outq, closeCh, connectedCh, 
                            closedCh, once, isConnected, registered, hasStores, 
                            live, spawnPH, qlen, qclosed, plused, plexit, 
                            willT, stack, c, rp, wp, hp, hok, old, pk, snap, n >>

r1(self) == /\ pc[self] = "r1"
            /\ \/ /\ srvClosed[C(self)]
                  /\ rp' = [rp EXCEPT ![self] = "ioerr"]
                  /\ c2s' = c2s
               \/ /\ ~srvClosed[C(self)] /\ c2s[C(self)] # "none"
                  /\ rp' = [rp EXCEPT ![self] = c2s[C(self)]]
                  /\ c2s' = [c2s EXCEPT ![C(self)] = "none"]
               \/ /\ ~srvClosed[C(self)] /\ c2s[C(self)] = "none" /\ peerClosed[C(self)]
                  /\ rp' = [rp EXCEPT ![self] = "ioerr"]
                  /\ c2s' = c2s
               \/ /\ ~srvClosed[C(self)] /\ c2s[C(self)] = "none" /\ KeepAlive /\ isConnected[C(self)]
                  /\ rp' = [rp EXCEPT ![self] = "ioerr"]
                  /\ c2s' = c2s
            /\ IF rp'[self] = "ioerr"
                  THEN /\ pc' = [pc EXCEPT ![self] = "r5"]
                       /\ UNCHANGED << stack, c >>
                  ELSE /\ IF rp'[self] = "mal"
                             THEN /\ /\ c' = [c EXCEPT ![self] = C(self)]
                                     /\ stack' = [stack EXCEPT ![self] = << [ procedure |->  "setError",
                                                                              pc        |->  "r6",
                                                                              c         |->  c[self] ] >>
                                                                          \o stack[self]]
                                  /\ pc' = [pc EXCEPT ![self] = "se0"]
                             ELSE /\ pc' = [pc EXCEPT ![self] = "r3"]
                                  /\ UNCHANGED << stack, c >>
            /\ UNCHANGED << listenerOpen, stopCalled, stopReturned, unloads, 
                            onstops, mu, sess, accepted, sent, owed, after, 
                            peerReading, peerClosed, srvClosed, s2c, inq, 
                            inClosed, outq, closeCh, connectedCh, closedCh, 
                            once, isConnected, registered, hasStores, live, 
                            spawnPH, qlen, qclosed, plused, plexit, willT, wp, 
                            hp, hok, old, pk, snap, n >>

r3(self) == /\ pc[self] = "r3"
            /\ IF GInSend
                  THEN /\ \/ /\ closeCh[C(self)]
                             /\ pc' = [pc EXCEPT ![self] = "r5"]
                             /\ inq' = inq
                          \/ /\ Len(inq[C(self)]) < CapIn
                             /\ inq' = [inq EXCEPT ![C(self)] = Append(inq[C(self)], rp[self])]
                             /\ pc' = [pc EXCEPT ![self] = "r4"]
                  ELSE /\ Len(inq[C(self)]) < CapIn
                       /\ inq' = [inq EXCEPT ![C(self)] = Append(inq[C(self)], rp[self])]
                       /\ pc' = [pc EXCEPT ![self] = "r4"]
            /\ UNCHANGED << listenerOpen, stopCalled, stopReturned, unloads, 
                            onstops, mu, sess, accepted, c2s, sent, owed, 
                            after, peerReading, peerClosed, srvClosed, s2c, 
                            inClosed, outq, closeCh, connectedCh, closedCh, 
                            once, isConnected, registered, hasStores, live, 
                            spawnPH, qlen, qclosed, plused, plexit, willT, 
                            stack, c, rp, wp, hp, hok, old, pk, snap, n >>

r4(self) == /\ pc[self] = "r4"
            /\ IF GConnected
                  THEN /\ connectedCh[C(self)] \/ closeCh[C(self)]
                  ELSE /\ connectedCh[C(self)]
            /\ pc' = [pc EXCEPT ![self] = "r1"]
            /\ UNCHANGED << listenerOpen, stopCalled, stopReturned, unloads, 
                            onstops, mu, sess, accepted, c2s, sent, owed, 
                            after, peerReading, peerClosed, srvClosed, s2c, 
                            inq, inClosed, outq, closeCh, connectedCh, 
                            closedCh, once, isConnected, registered, hasStores, 
                            live, spawnPH, qlen, qclosed, plused, plexit, 
                            willT, stack, c, rp, wp, hp, hok, old, pk, snap, n >>

r5(self) == /\ pc[self] = "r5"
            /\ once[(C(self))] # "running"
            /\ IF once[(C(self))] = "idle"
                  THEN /\ closeCh' = [closeCh EXCEPT ![(C(self))] = TRUE]
                       /\ once' = [once EXCEPT ![(C(self))] = "done"]
                  ELSE /\ TRUE
                       /\ UNCHANGED << closeCh, once >>
            /\ pc' = [pc EXCEPT ![self] = "r6"]
            /\ UNCHANGED << listenerOpen, stopCalled, stopReturned, unloads, 
                            onstops, mu, sess, accepted, c2s, sent, owed, 
                            after, peerReading, peerClosed, srvClosed, s2c, 
                            inq, inClosed, outq, connectedCh, closedCh, 
                            isConnected, registered, hasStores, live, spawnPH, 
                            qlen, qclosed, plused, plexit, willT, stack, c, rp, 
                            wp, hp, hok, old, pk, snap, n >>

r6(self) == /\ pc[self] = "r6"
            /\ inClosed' = [inClosed EXCEPT ![C(self)] = TRUE]
            /\ live' = [live EXCEPT ![C(self)] = live[C(self)] \ {"read"}]
            /\ pc' = [pc EXCEPT ![self] = "Done"]
            /\ UNCHANGED << listenerOpen, stopCalled, stopReturned, unloads, 
                            onstops, mu, sess, accepted, c2s, sent, owed, 
                            after, peerReading, peerClosed, srvClosed, s2c, 
                            inq, outq, closeCh, connectedCh, closedCh, once, 
                            isConnected, registered, hasStores, spawnPH, qlen, 
                            qclosed, plused, plexit, willT, stack, c, rp, wp, 
                            hp, hok, old, pk, snap, n >>

read(self) == r0(self) \/ r1(self) \/ r3(self) \/ r4(self) \/ r5(self)
                 \/ r6(self)

w0(self) == /\ pc[self] = "w0"
            /\ accepted[C(self)] # "no"
            /\ IF accepted[C(self)] = "refused"
                  THEN /\ pc' = [pc EXCEPT ![self] = "Done"]
                  ELSE /\ pc' = [pc EXCEPT ![self] = "w1"]
            /\ UNCHANGED << listenerOpen, stopCalled, stopReturned, unloads, 
                            onstops, mu, sess, accepted, c2s, sent, owed, 
                            after, peerReading, peerClosed, srvClosed, s2c, 
                            inq, inClosed, outq, closeCh, connectedCh, 
                            closedCh, once, isConnected, registered, hasStores, 
                            live, spawnPH, qlen, qclosed, plused, plexit, 
                            willT, stack, c, rp, wp, hp, hok, old, pk, snap, n >>

w1(self) == /\ pc[self] = "w1"
            /\ \/ /\ WLoopClose /\ closeCh[C(self)]
                  /\ IF WDrain
                        THEN /\ pc' = [pc EXCEPT ![self] = "wd"]
                        ELSE /\ pc' = [pc EXCEPT ![self] = "w4"]
                  /\ UNCHANGED <<outq, wp>>
               \/ /\ outq[C(self)] # <<>>
                  /\ wp' = [wp EXCEPT ![self] = Head(outq[C(self)])]
                  /\ outq' = [outq EXCEPT ![C(self)] = Tail(outq[C(self)])]
                  /\ pc' = [pc EXCEPT ![self] = "w2"]
            /\ UNCHANGED << listenerOpen, stopCalled, stopReturned, unloads, 
                            onstops, mu, sess, accepted, c2s, sent, owed, 
                            after, peerReading, peerClosed, srvClosed, s2c, 
                            inq, inClosed, closeCh, connectedCh, closedCh, 
                            once, isConnected, registered, hasStores, live, 
                            spawnPH, qlen, qclosed, plused, plexit, willT, 
                            stack, c, rp, hp, hok, old, pk, snap, n >>

w2(self) == /\ pc[self] = "w2"
            /\ \/ /\ srvClosed[C(self)]
                  /\ pc' = [pc EXCEPT ![self] = "w4"]
                  /\ UNCHANGED <<owed, srvClosed, s2c>>
               \/ /\ ~srvClosed[C(self)] /\ peerClosed[C(self)]
                  /\ \/ /\ pc' = [pc EXCEPT ![self] = "w4"]
                        /\ UNCHANGED srvClosed
                     \/ /\ IF wp[self] = "disconnect"
                              THEN /\ srvClosed' = [srvClosed EXCEPT ![C(self)] = TRUE]
                                   /\ pc' = [pc EXCEPT ![self] = "w4"]
                              ELSE /\ pc' = [pc EXCEPT ![self] = "w1"]
                                   /\ UNCHANGED srvClosed
                  /\ UNCHANGED <<owed, s2c>>
               \/ /\ ~srvClosed[C(self)] /\ ~peerClosed[C(self)] /\ (peerReading[C(self)] \/ s2c[C(self)] < CapSock)
                  /\ IF ~peerReading[C(self)]
                        THEN /\ s2c' = [s2c EXCEPT ![C(self)] = s2c[C(self)] + 1]
                        ELSE /\ TRUE
                             /\ s2c' = s2c
                  /\ IF wp[self] \in {"connack", "ack"} /\ owed[C(self)] > 0
                        THEN /\ owed' = [owed EXCEPT ![C(self)] = owed[C(self)] - 1]
                        ELSE /\ TRUE
                             /\ owed' = owed
                  /\ IF wp[self] = "disconnect"
                        THEN /\ srvClosed' = [srvClosed EXCEPT ![C(self)] = TRUE]
                             /\ pc' = [pc EXCEPT ![self] = "w4"]
                        ELSE /\ pc' = [pc EXCEPT ![self] = "w1"]
                             /\ UNCHANGED srvClosed
            /\ UNCHANGED << listenerOpen, stopCalled, stopReturned, unloads, 
                            onstops, mu, sess, accepted, c2s, sent, after, 
                            peerReading, peerClosed, inq, inClosed, outq, 
                            closeCh, connectedCh, closedCh, once, isConnected, 
                            registered, hasStores, live, spawnPH, qlen, 
                            qclosed, plused, plexit, willT, stack, c, rp, wp, 
                            hp, hok, old, pk, snap, n >>

wd(self) == /\ pc[self] = "wd"
            /\ IF Drained(outq[C(self)]) = <<>>
                  THEN /\ outq' = [outq EXCEPT ![C(self)] = <<>>]
                       /\ pc' = [pc EXCEPT ![self] = "w4"]
                       /\ wp' = wp
                  ELSE /\ wp' = [wp EXCEPT ![self] = Head(Drained(outq[C(self)]))]
                       /\ outq' = [outq EXCEPT ![C(self)] = Tail(Drained(outq[C(self)]))]
                       /\ pc' = [pc EXCEPT ![self] = "wd2"]
            /\ UNCHANGED << listenerOpen, stopCalled, stopReturned, unloads, 
                            onstops, mu, sess, accepted, c2s, sent, owed, 
                            after, peerReading, peerClosed, srvClosed, s2c, 
                            inq, inClosed, closeCh, connectedCh, closedCh, 
                            once, isConnected, registered, hasStores, live, 
                            spawnPH, qlen, qclosed, plused, plexit, willT, 
                            stack, c, rp, hp, hok, old, pk, snap, n >>

wd2(self) == /\ pc[self] = "wd2"
             /\ \/ /\ srvClosed[C(self)]
                   /\ pc' = [pc EXCEPT ![self] = "w4"]
                   /\ UNCHANGED <<owed, s2c>>
                \/ /\ ~srvClosed[C(self)] /\ peerClosed[C(self)]
                   /\ \/ /\ pc' = [pc EXCEPT ![self] = "w4"]
                      \/ /\ pc' = [pc EXCEPT ![self] = "wd"]
                   /\ UNCHANGED <<owed, s2c>>
                \/ /\ ~srvClosed[C(self)] /\ ~peerClosed[C(self)] /\ (peerReading[C(self)] \/ s2c[C(self)] < CapSock)
                   /\ IF ~peerReading[C(self)]
                         THEN /\ s2c' = [s2c EXCEPT ![C(self)] = s2c[C(self)] + 1]
                         ELSE /\ TRUE
                              /\ s2c' = s2c
                   /\ IF wp[self] = "connack" /\ owed[C(self)] > 0
                         THEN /\ owed' = [owed EXCEPT ![C(self)] = owed[C(self)] - 1]
                         ELSE /\ TRUE
                              /\ owed' = owed
                   /\ pc' = [pc EXCEPT ![self] = "wd"]
             /\ UNCHANGED << listenerOpen, stopCalled, stopReturned, unloads, 
                             onstops, mu, sess, accepted, c2s, sent, after, 
                             peerReading, peerClosed, srvClosed, inq, inClosed, 
                             outq, closeCh, connectedCh, closedCh, once, 
                             isConnected, registered, hasStores, live, spawnPH, 
                             qlen, qclosed, plused, plexit, willT, stack, c, 
                             rp, wp, hp, hok, old, pk, snap, n >>

w4(self) == /\ pc[self] = "w4"
            /\ once[(C(self))] # "running"
            /\ IF once[(C(self))] = "idle"
                  THEN /\ closeCh' = [closeCh EXCEPT ![(C(self))] = TRUE]
                       /\ once' = [once EXCEPT ![(C(self))] = "done"]
                  ELSE /\ TRUE
                       /\ UNCHANGED << closeCh, once >>
            /\ live' = [live EXCEPT ![C(self)] = live[C(self)] \ {"write"}]
            /\ IF CloseOnErr
                  THEN /\ srvClosed' = [srvClosed EXCEPT ![C(self)] = TRUE]
                  ELSE /\ TRUE
                       /\ UNCHANGED srvClosed
            /\ pc' = [pc EXCEPT ![self] = "Done"]
            /\ UNCHANGED << listenerOpen, stopCalled, stopReturned, unloads, 
                            onstops, mu, sess, accepted, c2s, sent, owed, 
                            after, peerReading, peerClosed, s2c, inq, inClosed, 
                            outq, connectedCh, closedCh, isConnected, 
                            registered, hasStores, spawnPH, qlen, qclosed, 
                            plused, plexit, willT, stack, c, rp, wp, hp, hok, 
                            old, pk, snap, n >>

write(self) == w0(self) \/ w1(self) \/ w2(self) \/ wd(self) \/ wd2(self)
                  \/ w4(self)

s0(self) == /\ pc[self] = "s0"
            /\ accepted[C(self)] # "no"
            /\ IF accepted[C(self)] = "refused"
                  THEN /\ pc' = [pc EXCEPT ![self] = "Done"]
                  ELSE /\ pc' = [pc EXCEPT ![self] = "hs1"]
            /\ UNCHANGED << listenerOpen, stopCalled, stopReturned, unloads, 
                            onstops, mu, sess, accepted, c2s, sent, owed, 
                            after, peerReading, peerClosed, srvClosed, s2c, 
                            inq, inClosed, outq, closeCh, connectedCh, 
                            closedCh, once, isConnected, registered, hasStores, 
                            live, spawnPH, qlen, qclosed, plused, plexit, 
                            willT, stack, c, rp, wp, hp, hok, old, pk, snap, n >>

hs1(self) == /\ pc[self] = "hs1"
             /\ \/ /\ inq[C(self)] # <<>>
                   /\ hp' = [hp EXCEPT ![self] = Head(inq[C(self)])]
                   /\ inq' = [inq EXCEPT ![C(self)] = Tail(inq[C(self)])]
                \/ /\ inq[C(self)] = <<>> /\ inClosed[C(self)]
                   /\ hp' = [hp EXCEPT ![self] = "nil"]
                   /\ inq' = inq
                \/ /\ HsTimeout /\ inq[C(self)] = <<>> /\ ~inClosed[C(self)]
                   /\ hp' = [hp EXCEPT ![self] = "timeout"]
                   /\ inq' = inq
             /\ IF hp'[self] = "nil"
                   THEN /\ hok' = [hok EXCEPT ![self] = TRUE]
                        /\ pc' = [pc EXCEPT ![self] = "hs9"]
                   ELSE /\ IF hp'[self] = "timeout"
                              THEN /\ pc' = [pc EXCEPT ![self] = "hs8"]
                              ELSE /\ IF hp'[self] # "connect"
                                         THEN /\ pc' = [pc EXCEPT ![self] = "hs7"]
                                         ELSE /\ pc' = [pc EXCEPT ![self] = "reg1"]
                        /\ hok' = hok
             /\ UNCHANGED << listenerOpen, stopCalled, stopReturned, unloads, 
                             onstops, mu, sess, accepted, c2s, sent, owed, 
                             after, peerReading, peerClosed, srvClosed, s2c, 
                             inClosed, outq, closeCh, connectedCh, closedCh, 
                             once, isConnected, registered, hasStores, live, 
                             spawnPH, qlen, qclosed, plused, plexit, willT, 
                             stack, c, rp, wp, old, pk, snap, n >>

reg1(self) == /\ pc[self] = "reg1"
              /\ mu = 0
              /\ IF SameId /\ Others(C(self)) # {}
                    THEN /\ old' = [old EXCEPT ![self] = CHOOSE o \in Others(C(self)) : TRUE]
                         /\ /\ c' = [c EXCEPT ![self] = old'[self]]
                            /\ stack' = [stack EXCEPT ![self] = << [ procedure |->  "setError",
                                                                     pc        |->  "reg4",
                                                                     c         |->  c[self] ] >>
                                                                 \o stack[self]]
                         /\ pc' = [pc EXCEPT ![self] = "se0"]
                         /\ mu' = mu
                    ELSE /\ IF SameId /\ sess /\ ~KeepLock
                               THEN /\ pc' = [pc EXCEPT ![self] = "reg6"]
                                    /\ mu' = mu
                               ELSE /\ mu' = self
                                    /\ pc' = [pc EXCEPT ![self] = "reg7"]
                         /\ UNCHANGED << stack, c, old >>
              /\ UNCHANGED << listenerOpen, stopCalled, stopReturned, unloads, 
                              onstops, sess, accepted, c2s, sent, owed, after, 
                              peerReading, peerClosed, srvClosed, s2c, inq, 
                              inClosed, outq, closeCh, connectedCh, closedCh, 
                              once, isConnected, registered, hasStores, live, 
                              spawnPH, qlen, qclosed, plused, plexit, willT, 
                              rp, wp, hp, hok, pk, snap, n >>

reg4(self) == /\ pc[self] = "reg4"
              /\ srvClosed' = [srvClosed EXCEPT ![old[self]] = TRUE]
              /\ pc' = [pc EXCEPT ![self] = "reg5"]
              /\ UNCHANGED << listenerOpen, stopCalled, stopReturned, unloads, 
                              onstops, mu, sess, accepted, c2s, sent, owed, 
                              after, peerReading, peerClosed, s2c, inq, 
                              inClosed, outq, closeCh, connectedCh, closedCh, 
                              once, isConnected, registered, hasStores, live, 
                              spawnPH, qlen, qclosed, plused, plexit, willT, 
                              stack, c, rp, wp, hp, hok, old, pk, snap, n >>

reg5(self) == /\ pc[self] = "reg5"
              /\ closedCh[old[self]]
              /\ pc' = [pc EXCEPT ![self] = "reg1"]
              /\ UNCHANGED << listenerOpen, stopCalled, stopReturned, unloads, 
                              onstops, mu, sess, accepted, c2s, sent, owed, 
                              after, peerReading, peerClosed, srvClosed, s2c, 
                              inq, inClosed, outq, closeCh, connectedCh, 
                              closedCh, once, isConnected, registered, 
                              hasStores, live, spawnPH, qlen, qclosed, plused, 
                              plexit, willT, stack, c, rp, wp, hp, hok, old, 
                              pk, snap, n >>

reg6(self) == /\ pc[self] = "reg6"
              /\ mu = 0
              /\ mu' = self
              /\ pc' = [pc EXCEPT ![self] = "reg7"]
              /\ UNCHANGED << listenerOpen, stopCalled, stopReturned, unloads, 
                              onstops, sess, accepted, c2s, sent, owed, after, 
                              peerReading, peerClosed, srvClosed, s2c, inq, 
                              inClosed, outq, closeCh, connectedCh, closedCh, 
                              once, isConnected, registered, hasStores, live, 
                              spawnPH, qlen, qclosed, plused, plexit, willT, 
                              stack, c, rp, wp, hp, hok, old, pk, snap, n >>

reg7(self) == /\ pc[self] = "reg7"
              /\ isConnected' = [isConnected EXCEPT ![C(self)] = TRUE]
              /\ registered' = [registered EXCEPT ![C(self)] = TRUE]
              /\ hasStores' = [hasStores EXCEPT ![C(self)] = TRUE]
              /\ qclosed' = [qclosed EXCEPT ![C(self)] = FALSE]
              /\ sess' = TRUE
              /\ mu' = 0
              /\ hok' = [hok EXCEPT ![self] = TRUE]
              /\ pc' = [pc EXCEPT ![self] = "reg8"]
              /\ UNCHANGED << listenerOpen, stopCalled, stopReturned, unloads, 
                              onstops, accepted, c2s, sent, owed, after, 
                              peerReading, peerClosed, srvClosed, s2c, inq, 
                              inClosed, outq, closeCh, connectedCh, closedCh, 
                              once, live, spawnPH, qlen, plused, plexit, willT, 
                              stack, c, rp, wp, hp, old, pk, snap, n >>

reg8(self) == /\ pc[self] = "reg8"
              /\ IF GWrite
                    THEN /\ \/ /\ closeCh[(C(self))]
                               /\ outq' = outq
                            \/ /\ Len(outq[(C(self))]) < CapOut
                               /\ outq' = [outq EXCEPT ![(C(self))] = Append(outq[(C(self))], "connack")]
                    ELSE /\ Len(outq[(C(self))]) < CapOut
                         /\ outq' = [outq EXCEPT ![(C(self))] = Append(outq[(C(self))], "connack")]
              /\ pc' = [pc EXCEPT ![self] = "hs9"]
              /\ UNCHANGED << listenerOpen, stopCalled, stopReturned, unloads, 
                              onstops, mu, sess, accepted, c2s, sent, owed, 
                              after, peerReading, peerClosed, srvClosed, s2c, 
                              inq, inClosed, closeCh, connectedCh, closedCh, 
                              once, isConnected, registered, hasStores, live, 
                              spawnPH, qlen, qclosed, plused, plexit, willT, 
                              stack, c, rp, wp, hp, hok, old, pk, snap, n >>

hs7(self) == /\ pc[self] = "hs7"
             /\ IF GErrConnack
                   THEN /\ \/ /\ closeCh[C(self)]
                              /\ outq' = outq
                           \/ /\ Len(outq[C(self)]) < CapOut
                              /\ outq' = [outq EXCEPT ![C(self)] = Append(outq[C(self)], "connack")]
                   ELSE /\ Len(outq[C(self)]) < CapOut
                        /\ outq' = [outq EXCEPT ![C(self)] = Append(outq[C(self)], "connack")]
             /\ pc' = [pc EXCEPT ![self] = "hs8"]
             /\ UNCHANGED << listenerOpen, stopCalled, stopReturned, unloads, 
                             onstops, mu, sess, accepted, c2s, sent, owed, 
                             after, peerReading, peerClosed, srvClosed, s2c, 
                             inq, inClosed, closeCh, connectedCh, closedCh, 
                             once, isConnected, registered, hasStores, live, 
                             spawnPH, qlen, qclosed, plused, plexit, willT, 
                             stack, c, rp, wp, hp, hok, old, pk, snap, n >>

hs8(self) == /\ pc[self] = "hs8"
             /\ once[(C(self))] # "running"
             /\ IF once[(C(self))] = "idle"
                   THEN /\ closeCh' = [closeCh EXCEPT ![(C(self))] = TRUE]
                        /\ once' = [once EXCEPT ![(C(self))] = "done"]
                   ELSE /\ TRUE
                        /\ UNCHANGED << closeCh, once >>
             /\ pc' = [pc EXCEPT ![self] = "hs9"]
             /\ UNCHANGED << listenerOpen, stopCalled, stopReturned, unloads, 
                             onstops, mu, sess, accepted, c2s, sent, owed, 
                             after, peerReading, peerClosed, srvClosed, s2c, 
                             inq, inClosed, outq, connectedCh, closedCh, 
                             isConnected, registered, hasStores, live, spawnPH, 
                             qlen, qclosed, plused, plexit, willT, stack, c, 
                             rp, wp, hp, hok, old, pk, snap, n >>

hs9(self) == /\ pc[self] = "hs9"
             /\ connectedCh' = [connectedCh EXCEPT ![C(self)] = TRUE]
             /\ IF hok[self]
                   THEN /\ spawnPH' = [spawnPH EXCEPT ![C(self)] = "yes"]
                        /\ live' = [live EXCEPT ![C(self)] = live[C(self)] \cup {"poll", "handle"}]
                        /\ pc' = [pc EXCEPT ![self] = "sv2"]
                   ELSE /\ spawnPH' = [spawnPH EXCEPT ![C(self)] = "no"]
                        /\ IF CloseUnreg
                              THEN /\ pc' = [pc EXCEPT ![self] = "sv1"]
                              ELSE /\ pc' = [pc EXCEPT ![self] = "sv2"]
                        /\ live' = live
             /\ UNCHANGED << listenerOpen, stopCalled, stopReturned, unloads, 
                             onstops, mu, sess, accepted, c2s, sent, owed, 
                             after, peerReading, peerClosed, srvClosed, s2c, 
                             inq, inClosed, outq, closeCh, closedCh, once, 
                             isConnected, registered, hasStores, qlen, qclosed, 
                             plused, plexit, willT, stack, c, rp, wp, hp, hok, 
                             old, pk, snap, n >>

sv1(self) == /\ pc[self] = "sv1"
             /\ "write" \notin live[C(self)]
             /\ srvClosed' = [srvClosed EXCEPT ![C(self)] = TRUE]
             /\ pc' = [pc EXCEPT ![self] = "sv2"]
             /\ UNCHANGED << listenerOpen, stopCalled, stopReturned, unloads, 
                             onstops, mu, sess, accepted, c2s, sent, owed, 
                             after, peerReading, peerClosed, s2c, inq, 
                             inClosed, outq, closeCh, connectedCh, closedCh, 
                             once, isConnected, registered, hasStores, live, 
                             spawnPH, qlen, qclosed, plused, plexit, willT, 
                             stack, c, rp, wp, hp, hok, old, pk, snap, n >>

sv2(self) == /\ pc[self] = "sv2"
             /\ "read" \notin live[C(self)]
             /\ IF hasStores[C(self)]
                   THEN /\ qclosed' = [qclosed EXCEPT ![C(self)] = TRUE]
                        /\ plexit' = [plexit EXCEPT ![C(self)] = TRUE]
                   ELSE /\ TRUE
                        /\ UNCHANGED << qclosed, plexit >>
             /\ pc' = [pc EXCEPT ![self] = "sv4"]
             /\ UNCHANGED << listenerOpen, stopCalled, stopReturned, unloads, 
                             onstops, mu, sess, accepted, c2s, sent, owed, 
                             after, peerReading, peerClosed, srvClosed, s2c, 
                             inq, inClosed, outq, closeCh, connectedCh, 
                             closedCh, once, isConnected, registered, 
                             hasStores, live, spawnPH, qlen, plused, willT, 
                             stack, c, rp, wp, hp, hok, old, pk, snap, n >>

sv4(self) == /\ pc[self] = "sv4"
             /\ live[C(self)] \cap {"write", "poll", "handle"} = {}
             /\ srvClosed' = [srvClosed EXCEPT ![C(self)] = TRUE]
             /\ pc' = [pc EXCEPT ![self] = "sv6"]
             /\ UNCHANGED << listenerOpen, stopCalled, stopReturned, unloads, 
                             onstops, mu, sess, accepted, c2s, sent, owed, 
                             after, peerReading, peerClosed, s2c, inq, 
                             inClosed, outq, closeCh, connectedCh, closedCh, 
                             once, isConnected, registered, hasStores, live, 
                             spawnPH, qlen, qclosed, plused, plexit, willT, 
                             stack, c, rp, wp, hp, hok, old, pk, snap, n >>

sv6(self) == /\ pc[self] = "sv6"
             /\ IF isConnected[C(self)]
                   THEN /\ mu = 0
                        /\ registered' = [registered EXCEPT ![C(self)] = FALSE]
                        /\ IF WillDelay
                              THEN /\ willT' = [willT EXCEPT ![C(self)] = "armed"]
                              ELSE /\ TRUE
                                   /\ willT' = willT
                   ELSE /\ TRUE
                        /\ UNCHANGED << registered, willT >>
             /\ closedCh' = [closedCh EXCEPT ![C(self)] = TRUE]
             /\ live' = [live EXCEPT ![C(self)] = {}]
             /\ pc' = [pc EXCEPT ![self] = "Done"]
             /\ UNCHANGED << listenerOpen, stopCalled, stopReturned, unloads, 
                             onstops, mu, sess, accepted, c2s, sent, owed, 
                             after, peerReading, peerClosed, srvClosed, s2c, 
                             inq, inClosed, outq, closeCh, connectedCh, once, 
                             isConnected, hasStores, spawnPH, qlen, qclosed, 
                             plused, plexit, stack, c, rp, wp, hp, hok, old, 
                             pk, snap, n >>

serve(self) == s0(self) \/ hs1(self) \/ reg1(self) \/ reg4(self)
                  \/ reg5(self) \/ reg6(self) \/ reg7(self) \/ reg8(self)
                  \/ hs7(self) \/ hs8(self) \/ hs9(self) \/ sv1(self)
                  \/ sv2(self) \/ sv4(self) \/ sv6(self)

p0(self) == /\ pc[self] = "p0"
            /\ spawnPH[C(self)] # "pending" \/ accepted[C(self)] = "refused"
            /\ IF spawnPH[C(self)] # "yes"
                  THEN /\ pc' = [pc EXCEPT ![self] = "Done"]
                  ELSE /\ IF ~hasStores[C(self)]
                             THEN /\ pc' = [pc EXCEPT ![self] = "p5"]
                             ELSE /\ pc' = [pc EXCEPT ![self] = "p2"]
            /\ UNCHANGED << listenerOpen, stopCalled, stopReturned, unloads, 
                            onstops, mu, sess, accepted, c2s, sent, owed, 
                            after, peerReading, peerClosed, srvClosed, s2c, 
                            inq, inClosed, outq, closeCh, connectedCh, 
                            closedCh, once, isConnected, registered, hasStores, 
                            live, spawnPH, qlen, qclosed, plused, plexit, 
                            willT, stack, c, rp, wp, hp, hok, old, pk, snap, n >>

p2(self) == /\ pc[self] = "p2"
            /\ plexit[C(self)] \/ qclosed[C(self)] \/ (plused[C(self)] < PlLimit /\ qlen[C(self)] > 0)
            /\ IF plexit[C(self)] \/ qclosed[C(self)]
                  THEN /\ pc' = [pc EXCEPT ![self] = "p5"]
                       /\ UNCHANGED << qlen, plused >>
                  ELSE /\ qlen' = [qlen EXCEPT ![C(self)] = qlen[C(self)] - 1]
                       /\ plused' = [plused EXCEPT ![C(self)] = plused[C(self)] + 1]
                       /\ pc' = [pc EXCEPT ![self] = "p4"]
            /\ UNCHANGED << listenerOpen, stopCalled, stopReturned, unloads, 
                            onstops, mu, sess, accepted, c2s, sent, owed, 
                            after, peerReading, peerClosed, srvClosed, s2c, 
                            inq, inClosed, outq, closeCh, connectedCh, 
                            closedCh, once, isConnected, registered, hasStores, 
                            live, spawnPH, qclosed, plexit, willT, stack, c, 
                            rp, wp, hp, hok, old, pk, snap, n >>

p4(self) == /\ pc[self] = "p4"
            /\ IF GWrite
                  THEN /\ \/ /\ closeCh[(C(self))]
                             /\ outq' = outq
                          \/ /\ Len(outq[(C(self))]) < CapOut
                             /\ outq' = [outq EXCEPT ![(C(self))] = Append(outq[(C(self))], "publish")]
                  ELSE /\ Len(outq[(C(self))]) < CapOut
                       /\ outq' = [outq EXCEPT ![(C(self))] = Append(outq[(C(self))], "publish")]
            /\ pc' = [pc EXCEPT ![self] = "p2"]
            /\ UNCHANGED << listenerOpen, stopCalled, stopReturned, unloads, 
                            onstops, mu, sess, accepted, c2s, sent, owed, 
                            after, peerReading, peerClosed, srvClosed, s2c, 
                            inq, inClosed, closeCh, connectedCh, closedCh, 
                            once, isConnected, registered, hasStores, live, 
                            spawnPH, qlen, qclosed, plused, plexit, willT, 
                            stack, c, rp, wp, hp, hok, old, pk, snap, n >>

p5(self) == /\ pc[self] = "p5"
            /\ once[(C(self))] # "running"
            /\ IF once[(C(self))] = "idle"
                  THEN /\ closeCh' = [closeCh EXCEPT ![(C(self))] = TRUE]
                       /\ once' = [once EXCEPT ![(C(self))] = "done"]
                  ELSE /\ TRUE
                       /\ UNCHANGED << closeCh, once >>
            /\ live' = [live EXCEPT ![C(self)] = live[C(self)] \ {"poll"}]
            /\ pc' = [pc EXCEPT ![self] = "Done"]
            /\ UNCHANGED << listenerOpen, stopCalled, stopReturned, unloads, 
                            onstops, mu, sess, accepted, c2s, sent, owed, 
                            after, peerReading, peerClosed, srvClosed, s2c, 
                            inq, inClosed, outq, connectedCh, closedCh, 
                            isConnected, registered, hasStores, spawnPH, qlen, 
                            qclosed, plused, plexit, willT, stack, c, rp, wp, 
                            hp, hok, old, pk, snap, n >>

poll(self) == p0(self) \/ p2(self) \/ p4(self) \/ p5(self)

h0(self) == /\ pc[self] = "h0"
            /\ spawnPH[C(self)] # "pending" \/ accepted[C(self)] = "refused"
            /\ IF spawnPH[C(self)] # "yes"
                  THEN /\ pc' = [pc EXCEPT ![self] = "Done"]
                  ELSE /\ pc' = [pc EXCEPT ![self] = "h1"]
            /\ UNCHANGED << listenerOpen, stopCalled, stopReturned, unloads, 
                            onstops, mu, sess, accepted, c2s, sent, owed, 
                            after, peerReading, peerClosed, srvClosed, s2c, 
                            inq, inClosed, outq, closeCh, connectedCh, 
                            closedCh, once, isConnected, registered, hasStores, 
                            live, spawnPH, qlen, qclosed, plused, plexit, 
                            willT, stack, c, rp, wp, hp, hok, old, pk, snap, n >>

h1(self) == /\ pc[self] = "h1"
            /\ \/ /\ inq[C(self)] # <<>>
                  /\ pk' = [pk EXCEPT ![self] = Head(inq[C(self)])]
                  /\ inq' = [inq EXCEPT ![C(self)] = Tail(inq[C(self)])]
               \/ /\ inq[C(self)] = <<>> /\ inClosed[C(self)]
                  /\ pk' = [pk EXCEPT ![self] = "nil"]
                  /\ inq' = inq
            /\ IF pk'[self] = "nil" \/ pk'[self] = "disc"
                  THEN /\ pc' = [pc EXCEPT ![self] = "h6"]
                       /\ UNCHANGED << qlen, plused, stack, c >>
                  ELSE /\ IF pk'[self] = "bad"
                             THEN /\ /\ c' = [c EXCEPT ![self] = C(self)]
                                     /\ stack' = [stack EXCEPT ![self] = << [ procedure |->  "setError",
                                                                              pc        |->  "h7",
                                                                              c         |->  c[self] ] >>
                                                                          \o stack[self]]
                                  /\ pc' = [pc EXCEPT ![self] = "se0"]
                                  /\ UNCHANGED << qlen, plused >>
                             ELSE /\ IF pk'[self] = "ack"
                                        THEN /\ IF plused[C(self)] > 0
                                                   THEN /\ plused' = [plused EXCEPT ![C(self)] = plused[C(self)] - 1]
                                                   ELSE /\ TRUE
                                                        /\ UNCHANGED plused
                                             /\ pc' = [pc EXCEPT ![self] = "h1"]
                                             /\ qlen' = qlen
                                        ELSE /\ IF pk'[self] = "ping"
                                                   THEN /\ TRUE
                                                        /\ qlen' = qlen
                                                   ELSE /\ mu = 0
                                                        /\ IF hasStores[C(self)]
                                                              THEN /\ qlen' = [qlen EXCEPT ![C(self)] = Min(qlen[C(self)] + 1, QMax)]
                                                              ELSE /\ TRUE
                                                                   /\ qlen' = qlen
                                             /\ pc' = [pc EXCEPT ![self] = "h5"]
                                             /\ UNCHANGED plused
                                  /\ UNCHANGED << stack, c >>
            /\ UNCHANGED << listenerOpen, stopCalled, stopReturned, unloads, 
                            onstops, mu, sess, accepted, c2s, sent, owed, 
                            after, peerReading, peerClosed, srvClosed, s2c, 
                            inClosed, outq, closeCh, connectedCh, closedCh, 
                            once, isConnected, registered, hasStores, live, 
                            spawnPH, qclosed, plexit, willT, rp, wp, hp, hok, 
                            old, snap, n >>

h5(self) == /\ pc[self] = "h5"
            /\ IF GWrite
                  THEN /\ \/ /\ closeCh[(C(self))]
                             /\ outq' = outq
                          \/ /\ Len(outq[(C(self))]) < CapOut
                             /\ outq' = [outq EXCEPT ![(C(self))] = Append(outq[(C(self))], "ack")]
                  ELSE /\ Len(outq[(C(self))]) < CapOut
                       /\ outq' = [outq EXCEPT ![(C(self))] = Append(outq[(C(self))], "ack")]
            /\ pc' = [pc EXCEPT ![self] = "h1"]
            /\ UNCHANGED << listenerOpen, stopCalled, stopReturned, unloads, 
                            onstops, mu, sess, accepted, c2s, sent, owed, 
                            after, peerReading, peerClosed, srvClosed, s2c, 
                            inq, inClosed, closeCh, connectedCh, closedCh, 
                            once, isConnected, registered, hasStores, live, 
                            spawnPH, qlen, qclosed, plused, plexit, willT, 
                            stack, c, rp, wp, hp, hok, old, pk, snap, n >>

h6(self) == /\ pc[self] = "h6"
            /\ once[(C(self))] # "running"
            /\ IF once[(C(self))] = "idle"
                  THEN /\ closeCh' = [closeCh EXCEPT ![(C(self))] = TRUE]
                       /\ once' = [once EXCEPT ![(C(self))] = "done"]
                  ELSE /\ TRUE
                       /\ UNCHANGED << closeCh, once >>
            /\ pc' = [pc EXCEPT ![self] = "h7"]
            /\ UNCHANGED << listenerOpen, stopCalled, stopReturned, unloads, 
                            onstops, mu, sess, accepted, c2s, sent, owed, 
                            after, peerReading, peerClosed, srvClosed, s2c, 
                            inq, inClosed, outq, connectedCh, closedCh, 
                            isConnected, registered, hasStores, live, spawnPH, 
                            qlen, qclosed, plused, plexit, willT, stack, c, rp, 
                            wp, hp, hok, old, pk, snap, n >>

h7(self) == /\ pc[self] = "h7"
            /\ live' = [live EXCEPT ![C(self)] = live[C(self)] \ {"handle"}]
            /\ pc' = [pc EXCEPT ![self] = "Done"]
            /\ UNCHANGED << listenerOpen, stopCalled, stopReturned, unloads, 
                            onstops, mu, sess, accepted, c2s, sent, owed, 
                            after, peerReading, peerClosed, srvClosed, s2c, 
                            inq, inClosed, outq, closeCh, connectedCh, 
                            closedCh, once, isConnected, registered, hasStores, 
                            spawnPH, qlen, qclosed, plused, plexit, willT, 
                            stack, c, rp, wp, hp, hok, old, pk, snap, n >>

handle(self) == h0(self) \/ h1(self) \/ h5(self) \/ h6(self) \/ h7(self)

wl0(self) == /\ pc[self] = "wl0"
             /\ closedCh[C(self)] \/ accepted[C(self)] = "refused"
             /\ IF willT[C(self)] # "armed"
                   THEN /\ pc' = [pc EXCEPT ![self] = "Done"]
                   ELSE /\ pc' = [pc EXCEPT ![self] = "wl1"]
             /\ UNCHANGED << listenerOpen, stopCalled, stopReturned, unloads, 
                             onstops, mu, sess, accepted, c2s, sent, owed, 
                             after, peerReading, peerClosed, srvClosed, s2c, 
                             inq, inClosed, outq, closeCh, connectedCh, 
                             closedCh, once, isConnected, registered, 
                             hasStores, live, spawnPH, qlen, qclosed, plused, 
                             plexit, willT, stack, c, rp, wp, hp, hok, old, pk, 
                             snap, n >>

wl1(self) == /\ pc[self] = "wl1"
             /\ mu = 0
             /\ willT' = [willT EXCEPT ![C(self)] = "done"]
             /\ pc' = [pc EXCEPT ![self] = "Done"]
             /\ UNCHANGED << listenerOpen, stopCalled, stopReturned, unloads, 
                             onstops, mu, sess, accepted, c2s, sent, owed, 
                             after, peerReading, peerClosed, srvClosed, s2c, 
                             inq, inClosed, outq, closeCh, connectedCh, 
                             closedCh, once, isConnected, registered, 
                             hasStores, live, spawnPH, qlen, qclosed, plused, 
                             plexit, stack, c, rp, wp, hp, hok, old, pk, snap, 
                             n >>

will(self) == wl0(self) \/ wl1(self)

e0(self) == /\ pc[self] = "e0"
            /\ \/ /\ listenerOpen
                  /\ accepted' = [accepted EXCEPT ![C(self)] = "yes"]
                  /\ live' = [live EXCEPT ![C(self)] = {"serve", "read", "write"}]
                  /\ pc' = [pc EXCEPT ![self] = "e1"]
                  /\ UNCHANGED spawnPH
               \/ /\ ~listenerOpen
                  /\ accepted' = [accepted EXCEPT ![C(self)] = "refused"]
                  /\ spawnPH' = [spawnPH EXCEPT ![C(self)] = "no"]
                  /\ pc' = [pc EXCEPT ![self] = "Done"]
                  /\ live' = live
            /\ UNCHANGED << listenerOpen, stopCalled, stopReturned, unloads, 
                            onstops, mu, sess, c2s, sent, owed, after, 
                            peerReading, peerClosed, srvClosed, s2c, inq, 
                            inClosed, outq, closeCh, connectedCh, closedCh, 
                            once, isConnected, registered, hasStores, qlen, 
                            qclosed, plused, plexit, willT, stack, c, rp, wp, 
                            hp, hok, old, pk, snap, n >>

e1(self) == /\ pc[self] = "e1"
            /\ IF ~peerClosed[C(self)] /\ ~srvClosed[C(self)]
                  THEN /\ \/ /\ sent[C(self)] < Budget /\ ~srvClosed[C(self)] /\ c2s[C(self)] = "none"
                             /\ \E kd \in IF sent[C(self)] = 0 THEN FirstKinds ELSE RestKinds:
                                  /\ c2s' = [c2s EXCEPT ![C(self)] = kd]
                                  /\ IF TrackOwed /\ kd = "disc"
                                        THEN /\ after' = [after EXCEPT ![C(self)] = TRUE]
                                             /\ owed' = [owed EXCEPT ![C(self)] = 0]
                                        ELSE /\ IF TrackOwed /\ kd \in {"connect", "badconnect", "ok", "ping", "bad", "mal"} /\ ~after[C(self)]
                                                   THEN /\ owed' = [owed EXCEPT ![C(self)] = owed[C(self)] + 1]
                                                   ELSE /\ TRUE
                                                        /\ owed' = owed
                                             /\ after' = after
                             /\ sent' = [sent EXCEPT ![C(self)] = sent[C(self)] + 1]
                             /\ UNCHANGED <<peerReading, peerClosed>>
                          \/ /\ peerReading[C(self)] /\ PeerMayStall
                             /\ peerReading' = [peerReading EXCEPT ![C(self)] = FALSE]
                             /\ UNCHANGED <<c2s, sent, owed, after, peerClosed>>
                          \/ /\ PeerMayClose
                             /\ peerClosed' = [peerClosed EXCEPT ![C(self)] = TRUE]
                             /\ UNCHANGED <<c2s, sent, owed, after, peerReading>>
                       /\ pc' = [pc EXCEPT ![self] = "e1"]
                  ELSE /\ pc' = [pc EXCEPT ![self] = "Done"]
                       /\ UNCHANGED << c2s, sent, owed, after, peerReading, 
                                       peerClosed >>
            /\ UNCHANGED << listenerOpen, stopCalled, stopReturned, unloads, 
                            onstops, mu, sess, accepted, srvClosed, s2c, inq, 
                            inClosed, outq, closeCh, connectedCh, closedCh, 
                            once, isConnected, registered, hasStores, live, 
                            spawnPH, qlen, qclosed, plused, plexit, willT, 
                            stack, c, rp, wp, hp, hok, old, pk, snap, n >>

peer(self) == e0(self) \/ e1(self)

st0 == /\ pc[1] = "st0"
       /\ WithStop
       /\ stopCalled' = TRUE
       /\ listenerOpen' = FALSE
       /\ pc' = [pc EXCEPT ![1] = "st1"]
       /\ UNCHANGED << stopReturned, unloads, onstops, mu, sess, accepted, c2s, 
                       sent, owed, after, peerReading, peerClosed, srvClosed, 
                       s2c, inq, inClosed, outq, closeCh, connectedCh, 
                       closedCh, once, isConnected, registered, hasStores, 
                       live, spawnPH, qlen, qclosed, plused, plexit, willT, 
                       stack, c, rp, wp, hp, hok, old, pk, snap, n >>

st1 == /\ pc[1] = "st1"
       /\ mu = 0
       /\ snap' = IF StopAll THEN {k \in K : accepted[k] = "yes" /\ ~closedCh[k]} ELSE {k \in K : registered[k]}
       /\ srvClosed' = [k \in K |-> srvClosed[k] \/ k \in snap']
       /\ pc' = [pc EXCEPT ![1] = "st3"]
       /\ UNCHANGED << listenerOpen, stopCalled, stopReturned, unloads, 
                       onstops, mu, sess, accepted, c2s, sent, owed, after, 
                       peerReading, peerClosed, s2c, inq, inClosed, outq, 
                       closeCh, connectedCh, closedCh, once, isConnected, 
                       registered, hasStores, live, spawnPH, qlen, qclosed, 
                       plused, plexit, willT, stack, c, rp, wp, hp, hok, old, 
                       pk, n >>

st3 == /\ pc[1] = "st3"
       /\ \A k \in snap : closedCh[k]
       /\ unloads' = unloads + 1
       /\ onstops' = onstops + 1
       /\ IF StopTimers
             THEN /\ willT' = [k \in K |-> IF willT[k] = "armed" THEN "done" ELSE willT[k]]
             ELSE /\ TRUE
                  /\ willT' = willT
       /\ stopReturned' = TRUE
       /\ pc' = [pc EXCEPT ![1] = "Done"]
       /\ UNCHANGED << listenerOpen, stopCalled, mu, sess, accepted, c2s, sent, 
                       owed, after, peerReading, peerClosed, srvClosed, s2c, 
                       inq, inClosed, outq, closeCh, connectedCh, closedCh, 
                       once, isConnected, registered, hasStores, live, spawnPH, 
                       qlen, qclosed, plused, plexit, stack, c, rp, wp, hp, 
                       hok, old, pk, snap, n >>

stop == st0 \/ st1 \/ st3

a1 == /\ pc[2] = "a1"
      /\ IF n < ApiCalls
            THEN /\ mu = 0
                 /\ \/ /\ srvClosed' = [k \in K |-> srvClosed[k] \/ registered[k]]
                       /\ qlen' = qlen
                    \/ /\ qlen' = [k \in K |-> IF registered[k] THEN Min(qlen[k] + 1, QMax) ELSE qlen[k]]
                       /\ UNCHANGED srvClosed
                 /\ n' = n + 1
                 /\ pc' = [pc EXCEPT ![2] = "a1"]
            ELSE /\ pc' = [pc EXCEPT ![2] = "Done"]
                 /\ UNCHANGED << srvClosed, qlen, n >>
      /\ UNCHANGED << listenerOpen, stopCalled, stopReturned, unloads, onstops, 
                      mu, sess, accepted, c2s, sent, owed, after, peerReading, 
                      peerClosed, s2c, inq, inClosed, outq, closeCh, 
                      connectedCh, closedCh, once, isConnected, registered, 
                      hasStores, live, spawnPH, qclosed, plused, plexit, willT, 
                      stack, c, rp, wp, hp, hok, old, pk, snap >>

api == a1

(* Allow infinite stuttering to prevent deadlock on termination. *)
Terminating == /\ \A self \in ProcSet: pc[self] = "Done"
               /\ UNCHANGED vars

Next == stop \/ api
           \/ (\E self \in ProcSet: setError(self))
           \/ (\E self \in RdIds: read(self))
           \/ (\E self \in WrIds: write(self))
           \/ (\E self \in SvIds: serve(self))
           \/ (\E self \in PlIds: poll(self))
           \/ (\E self \in HdIds: handle(self))
           \/ (\E self \in WtIds: will(self))
           \/ (\E self \in PrIds: peer(self))
           \/ Terminating

Spec == /\ Init /\ [][Next]_vars
        /\ \A self \in RdIds : WF_vars(read(self)) /\ WF_vars(setError(self))
        /\ \A self \in WrIds : WF_vars(write(self))
        /\ \A self \in SvIds : WF_vars(serve(self)) /\ WF_vars(setError(self))
        /\ \A self \in PlIds : WF_vars(poll(self))
        /\ \A self \in HdIds : WF_vars(handle(self)) /\ WF_vars(setError(self))
        /\ \A self \in WtIds : WF_vars(will(self))
        /\ WF_vars((pc[1] # "st0") /\ stop)
        /\ WF_vars(api)

Termination == <>(\A self \in ProcSet: pc[self] = "Done")

\* END TRANSLATION

-----------------------------------------------------------------------------
\* Properties (C15)

\* Stop returns ...
StopReturns == stopCalled ~> stopReturned
\* a connection whose socket is closed (by either side) is torn down completely
SockClosedLeadsToClosed == \A k \in K : (accepted[k] = "yes" /\ (srvClosed[k] \/ peerClosed[k])) ~> closedCh[k]
\* ... after which no goroutine of any connection (registered or not) and no will timer is left
NothingAliveAfterStop == stopReturned => \A k \in K : ~Alive(k)
\* Unload / OnStop exactly once
OnceOnly == unloads <= 1 /\ onstops <= 1 /\ (stopReturned => unloads = 1 /\ onstops = 1)
\* every request is answered, or the broker closes the connection (a peer that stopped reading or went away is owed nothing)
Responsive == \A k \in K : (owed[k] > 0) ~> (owed[k] = 0 \/ srvClosed[k] \/ peerClosed[k] \/ ~peerReading[k])
\* C05: at most one registered connection per client id
OneRegistered == SameId => Cardinality({k \in K : registered[k]}) <= 1

TypeOK == /\ mu \in {0} \cup SvIds
          /\ \A k \in K : Len(inq[k]) <= CapIn /\ Len(outq[k]) <= CapOut /\ qlen[k] <= QMax /\ s2c[k] <= CapSock
=============================================================================
