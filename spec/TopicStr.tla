------------------------------ MODULE TopicStr ------------------------------
(***************************************************************************)
(* Character-level view of topic names and filters (MQTT 4.7.1, 4.7.3):    *)
(* enumerates all strings up to MaxLen over a small alphabet, classifies   *)
(* them as valid topic names / valid topic filters, splits them into       *)
(* levels and evaluates Topics!Match.  Used to generate the exhaustive     *)
(* (name, filter) table the exported TopicMatch helper is compared with    *)
(* (C02) and the validity table of C06.                                    *)
(***************************************************************************)
EXTENDS Sequences, Naturals, FiniteSets, TLC, Json

CONSTANTS Chars,     \* set of one-character strings; contains "/", "+", "#", "$"
          MaxLen

CharSeqs == UNION {[1..k -> Chars] : k \in 1..MaxLen}

RECURSIVE ToStr(_)
ToStr(cs) == IF cs = <<>> THEN "" ELSE Head(cs) \o ToStr(Tail(cs))

\* split at "/" : a sequence of levels, each a sequence of characters
RECURSIVE SplitLv(_)
SplitLv(s) == IF s = <<>> THEN << <<>> >>
              ELSE IF Head(s) = "/" THEN << <<>> >> \o SplitLv(Tail(s))
              ELSE LET r == SplitLv(Tail(s)) IN << <<Head(s)>> \o r[1] >> \o Tail(r)

Levels(s) == LET l == SplitLv(s) IN [i \in 1..Len(l) |-> ToStr(l[i])]

HasChar(s, c) == \E i \in 1..Len(s) : s[i] = c

\* [MQTT-4.7.1-1] [MQTT-4.7.3-1]: at least one character, no wildcard characters
ValidName(s) == Len(s) >= 1 /\ ~HasChar(s, "+") /\ ~HasChar(s, "#")

\* [MQTT-4.7.1-2] '#' alone in the last level; [MQTT-4.7.1-3] '+' occupies an entire level
ValidFilter(s) == /\ Len(s) >= 1
                  /\ LET l == SplitLv(s) IN
                     \A i \in 1..Len(l) :
                        /\ HasChar(l[i], "+") => Len(l[i]) = 1
                        /\ HasChar(l[i], "#") => (Len(l[i]) = 1 /\ i = Len(l))

Names   == {s \in CharSeqs : ValidName(s)}
FiltersC == {s \in CharSeqs : ValidFilter(s)}

SysLevelsC == {ToStr(s) : s \in {x \in CharSeqs : x[1] = "$" /\ ~HasChar(x, "/")}}

T == INSTANCE Topics WITH SysLevels <- SysLevelsC

MatchC(f, n) == T!Match(Levels(f), Levels(n))

SetToSeq(S) == LET RECURSIVE G(_)
                   G(X) == IF X = {} THEN <<>> ELSE LET x == CHOOSE x \in X : TRUE IN <<x>> \o G(X \ {x})
               IN G(S)

\* one line: all strings with their classification; then one line per valid name with the filters matching it
DumpAll ==
  /\ PrintT(ToJson([strings |-> {[s |-> ToStr(x), vn |-> ValidName(x), vf |-> ValidFilter(x)] : x \in CharSeqs}]))
  /\ \A n \in Names : PrintT(ToJson([name |-> ToStr(n), m |-> {ToStr(f) : f \in {g \in FiltersC : MatchC(g, n)}}]))

VARIABLE dummy
Init == dummy = 0
Next == UNCHANGED dummy
Spec == Init /\ [][Next]_dummy
=============================================================================
