---------------------------- MODULE TraceDurable ----------------------------
(***************************************************************************)
(* Trace validation for Durable.tla (C09).  The trace is the command       *)
(* journal of the RESP fake with the driver's markers in journal order     *)
(* (harness/cmd/durable record): one line per journal entry, histories are *)
(* separated by `reset` lines.                                             *)
(*   try    a client is about to write a request   -> Try<Op>              *)
(*   cmd    a write command reached the store      -> the next command of  *)
(*          the program of an operation in progress, or a step of the      *)
(*          delivery goroutine of an online client                         *)
(*   ack    a client has READ an acknowledgement   -> Ack: legal only when *)
(*          every command of the program has been issued                   *)
(*   got    a subscriber has read a PUBLISH                                *)
(*   crash / recover   the store stopped accepting commands and a new      *)
(*          broker was started on it                                       *)
(* After every consumed line the specification prints the `required` state *)
(* of the journal prefix ending there (what a restart on that prefix must  *)
(* yield) together with Lost(D) - what start-up on that prefix would lose  *)
(* according to the model - and the command-level deviations used so far.  *)
(* lib/durable_lib.py feeds `required` to the fault-enumeration phase.     *)
(***************************************************************************)
EXTENDS Durable, Json, IOUtils

VARIABLES l, hid
tvars == <<dvars, l, hid>>

Trace == ndJsonDeserialize(IOEnv.TRACE)
EnvDeviations == {IOEnv[v] : v \in {"KF1", "KF2", "KF3", "KF4", "KF5", "KF6"} \cap DOMAIN IOEnv} \ {""}
NoTrim == Nil

ev == Trace[l]
Is(e) == l <= Len(Trace) /\ Trace[l].e = e /\ l' = l + 1

TInit == l = 1 /\ hid = "" /\ DInit

OptsOf(o) == [qos |-> o.qos, nl |-> o.nl, rap |-> o.rap, rh |-> o.rh, sid |-> o.sid]
ElOf(e)   == [kind |-> e.kind, m |-> e.m, qos |-> e.qos, id |-> e.id]
CmdOf(x)  == [cmd |-> x.cmd, key |-> x.key, c |-> x.c, f |-> x.f, o |-> OptsOf(x.o), pid |-> x.pid, idx |-> x.idx,
              el |-> ElOf(x.el), exp |-> x.exp, ok |-> x.ok]
AckOf(x)  == [op |-> x.op, c |-> x.c, sp |-> x.sp, f |-> x.f, m |-> x.m, pid |-> x.pid]

TNext ==
  \/ /\ Is("reset") /\ hid' = ev.h
     /\ D' = [sess |-> Nil, sub |-> Nil, queue |-> Nil, unack |-> Nil]
     /\ V' = [Down EXCEPT !.up = TRUE] /\ pc' = Nil
     /\ G' = [sess |-> Nil, sub |-> Nil, msg |-> Nil, ids |-> Nil, fam |-> Nil, have |-> Nil]
     /\ used' = {}
  \/ /\ Is("try") /\ UNCHANGED hid
     /\ \/ ev.op = "connect"     /\ TryConnect(ev.c, ev.clean, ev.ver, ev.exp)
        \/ ev.op = "subscribe"   /\ TrySubscribe(ev.c, ev.f, ev.fam, OptsOf(ev.o))
        \/ ev.op = "unsubscribe" /\ TryUnsubscribe(ev.c, ev.f)
        \/ ev.op = "publish"     /\ TryPublish(ev.c, ev.m, ev.fam, ev.qos, ev.pid)
        \/ ev.op = "pubrel"      /\ TryPubrel(ev.c, ev.pid)
        \/ ev.op = "cack"        /\ TryCack(ev.c, ev.t, ev.m, ev.pid)
        \/ ev.op = "close"       /\ TryClose(ev.c)
  \/ /\ Is("cmd") /\ UNCHANGED hid
     /\ LET x == CmdOf(ev) IN OwnerCmd(x) \/ PhantomCmd(x) \/ PollCmd(x) \/ TouchCmd(x)
  \/ Is("ack")     /\ UNCHANGED hid /\ Ack(AckOf(ev))
  \/ Is("got")     /\ UNCHANGED hid /\ Got(ev.c, ev.m, ev.pid, ev.qos)
  \/ Is("crash")   /\ UNCHANGED hid /\ Crash
  \/ Is("recover") /\ UNCHANGED hid /\ Recover
  \/ Is("end")     /\ UNCHANGED <<dvars, hid>>
  \/ Is("note")    /\ UNCHANGED <<dvars, hid>>

TSpec == TInit /\ [][TNext]_tvars

\* ---- the required state of the prefix, as sets of flat records (ToJson prints them as arrays of objects)
ReqSess == {[c |-> c, st |-> G.sess[c]] : c \in DOMAIN G.sess}
ReqSubs == UNION {{[c |-> c, f |-> f, allowed |-> G.sub[c][f]] : f \in DOMAIN G.sub[c]} : c \in DOMAIN G.sub}
ReqMsgs == UNION {{[c |-> c, m |-> m, st |-> G.msg[c][m].st, q |-> G.msg[c][m].q] : m \in DOMAIN G.msg[c]} : c \in DOMAIN G.msg}
ReqIds  == UNION {{[c |-> c, pid |-> p, st |-> G.ids[c][p]] : p \in DOMAIN G.ids[c]} : c \in DOMAIN G.ids}

Out == [h |-> hid, k |-> Trace[l - 1].k, sess |-> ReqSess, subs |-> ReqSubs, msgs |-> ReqMsgs, ids |-> ReqIds,
        lost |-> Lost(D), used |-> used, sok |-> StartupOK(D), up |-> V.up]

\* high-water mark (TLC register 1, workers 1); every new state reached by consuming a journal entry is printed once
HWM == /\ (IF l > TLCGet(1) THEN TLCSet(1, l) ELSE TRUE)
       /\ (l > 1 /\ Trace[l - 1].e # "reset") => PrintT(ToJson(Out))
ASSUME TLCSet(1, 0)

Accepted == \/ TLCGet(1) = Len(Trace) + 1
            \/ PrintT(<<"TRACE-REJECTED-AT", TLCGet(1), "OF", Len(Trace)>>) /\ FALSE
=============================================================================
