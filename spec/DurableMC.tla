------------------------------ MODULE DurableMC ------------------------------
(***************************************************************************)
(* Design-level check of Durable.tla: small constant sets drive the        *)
(* actions; clients, broker commands, the delivery goroutine, Crash and    *)
(* Recover interleave freely.  Invariants: RecoverableAfterCrash,          *)
(* StartupTotal, CommandsWellFormed.                                       *)
(* With Deviations = {} the programs are the demanded ones and the         *)
(* invariants hold; with an as-coded deviation switched on TLC finds the   *)
(* counter-example by design (used as a self-test of the invariant; a      *)
(* model-only counter-example is never a verdict - lib/durable_lib.py      *)
(* observes the defect on the real code by fault enumeration).             *)
(***************************************************************************)
EXTENDS Durable

CONSTANTS
  Clients,      \* client ids
  Vers,         \* c |-> [ver, exp]  protocol version and requested expiry (v5; -1 = none)
  Filters,      \* f |-> family
  OptVals,      \* set of option records subscriptions are made with
  Msgs,         \* m |-> [fam, qos, pid]   (a re-sent publish keeps its packet id)
  MaxOps,       \* bound on the number of client requests
  MaxCrash      \* bound on the number of crashes

VARIABLES nops, ncrash, tried
mvars == <<dvars, nops, ncrash, tried>>

MCInit ==
  /\ D = [sess |-> Nil, sub |-> Nil, queue |-> Nil, unack |-> Nil]
  /\ V = [Down EXCEPT !.up = TRUE]
  /\ pc = Nil
  /\ G = [sess |-> Nil, sub |-> Nil, msg |-> Nil, ids |-> Nil, fam |-> Filters, have |-> Nil]
  /\ used = {}
  /\ nops = 0 /\ ncrash = 0 /\ tried = {}

ClientStep ==
  /\ nops < MaxOps /\ nops' = nops + 1 /\ UNCHANGED ncrash
  /\ \E c \in Clients :
       \/ \E clean \in BOOLEAN : TryConnect(c, clean, Vers[c].ver, Vers[c].exp) /\ UNCHANGED tried
       \/ \E f \in DOMAIN Filters, o \in OptVals : TrySubscribe(c, f, Filters[f], o) /\ UNCHANGED tried
       \/ \E f \in DOMAIN Filters : f \in DOMAIN MSub(c) /\ TryUnsubscribe(c, f) /\ UNCHANGED tried
       \* a message is published once; an unreleased QoS2 publish may be re-sent by its publisher with the same id
       \/ \E m \in DOMAIN Msgs :
            /\ \/ m \notin {t.m : t \in tried}
               \/ Msgs[m].qos = 2 /\ [m |-> m, c |-> c] \in tried /\ Msgs[m].pid \in DOMAIN GIds(c)
            /\ TryPublish(c, m, Msgs[m].fam, Msgs[m].qos, Msgs[m].pid)
            /\ tried' = tried \cup {[m |-> m, c |-> c]}
       \/ \E p \in DOMAIN GIds(c) : GIds(c)[p] = "must" /\ TryPubrel(c, p) /\ UNCHANGED tried
       \/ \E h \in Have(c) : /\ \/ h.q = 1 /\ TryCack(c, "puback", h.m, h.id)
                                \/ h.q = 2 /\ h.st = "got" /\ TryCack(c, "pubrec", h.m, h.id)
                                \/ h.q = 2 /\ h.st = "rec" /\ TryCack(c, "pubcomp", h.m, h.id)
                             /\ UNCHANGED tried
       \/ TryClose(c) /\ UNCHANGED tried

\* the broker issues the next command of some operation (as coded when a command-level deviation is on)
BrokerCmd ==
  /\ \E c \in DOMAIN pc : \E x \in AsCodedChoice(c) : OwnerCmd(x)
  /\ UNCHANGED <<nops, ncrash, tried>>

BrokerAck ==
  /\ \E c \in DOMAIN pc : Ack(pc[c].ack)
  /\ UNCHANGED <<nops, ncrash, tried>>

\* delivery to an online client: the poller's command and the client's read in one step
FreeId(c) == CHOOSE i \in 1..(Len(Queue(c)) + 1) : \A j \in DOMAIN Queue(c) : Queue(c)[j].id # i
BrokerPoll ==
  /\ \E c \in V.online :
       LET q == Queue(c)
           i == FirstIdx(q, LAMBDA e : e.id = 0)
       IN /\ i # 0
          /\ IF q[i].qos = 0 THEN /\ D' = Apply(LRem(c, q[i])) /\ G' = G
             ELSE /\ D' = Apply(LSet(c, i - 1, [q[i] EXCEPT !.id = FreeId(c)]))
                  /\ G' = [G EXCEPT !.have = Put(G.have, c, {h \in Have(c) : h.m # q[i].m}
                                                  \cup {[m |-> q[i].m, id |-> FreeId(c), q |-> q[i].qos, st |-> "got"]})]
  /\ UNCHANGED <<V, pc, used, nops, ncrash, tried>>

\* replay after a resumed CONNECT: the client reads the in-flight elements again (no command)
BrokerReplay ==
  /\ \E c \in V.online : \E i \in DOMAIN Queue(c) :
       LET e == Queue(c)[i] IN
         /\ e.id # 0 /\ ~\E h \in Have(c) : h.id = e.id
         /\ G' = [G EXCEPT !.have = Put(G.have, c, Have(c) \cup
                     {IF e.kind = "pub" THEN [m |-> e.m, id |-> e.id, q |-> e.qos, st |-> "got"]
                                         ELSE [m |-> e.m, id |-> e.id, q |-> 2, st |-> "rec"]})]
  /\ UNCHANGED <<D, V, pc, used, nops, ncrash, tried>>

MCCrash   == ncrash < MaxCrash /\ Crash /\ ncrash' = ncrash + 1 /\ UNCHANGED <<nops, tried>>
MCRecover == Recover /\ UNCHANGED <<nops, ncrash, tried>>

MCNext == ClientStep \/ BrokerCmd \/ BrokerAck \/ BrokerPoll \/ BrokerReplay \/ MCCrash \/ MCRecover

MCSpec == MCInit /\ [][MCNext]_mvars

\* the model never asks for a command outside the vocabulary
CommandsWellFormed == \A c \in DOMAIN pc : \A i \in DOMAIN pc[c].todo : \A x \in pc[c].todo[i] : KnownCmd(x)

\* non-vacuity witnesses (checked as invariants that MUST be violated, during development)
NeverMustMsg == ~\E c \in DOMAIN G.msg : \E m \in DOMAIN G.msg[c] : G.msg[c][m].st = "must" /\ ~V.up
NeverMustId  == ~\E c \in DOMAIN G.ids : \E p \in DOMAIN G.ids[c] : G.ids[c][p] = "must" /\ ~V.up
=============================================================================
