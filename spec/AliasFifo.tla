------------------------------ MODULE AliasFifo ------------------------------
(***************************************************************************)
(* Outbound topic-alias manager (property C13, outbound alias clause).     *)
(*                                                                         *)
(* server.TopicAliasManager.Check(publish) answers (alias, exist) and      *)
(* writeLoop (server/client.go) turns the answer into the PUBLISH that     *)
(* goes to the client:                                                     *)
(*   exist            : topic name empty, Topic Alias = alias              *)
(*                      (an "alias-only" PUBLISH)                          *)
(*   ~exist, alias#0  : topic name + Topic Alias = alias; the client       *)
(*                      (re)binds alias -> topic                           *)
(*   ~exist, alias=0  : topic name, no alias                               *)
(*                                                                         *)
(* What the property demands is stated over the CLIENT's view of the       *)
(* connection, `bound`: the alias -> topic bindings made by the packets    *)
(* sent so far.  THE RULE (Valid below) is two lines:                      *)
(*   exist  => alias is bound, and bound to exactly this topic             *)
(*   ~exist => alias = 0 or alias \in 1..Max                               *)
(* Which alias is chosen, which binding is evicted, whether an alias is    *)
(* used at all is free.  `SpecFree` is that property-level specification   *)
(* (every valid answer is a step).  `Spec` drives the same client view by  *)
(* the reference policy of topicalias/fifo (list of (topic, alias), oldest *)
(* first, eviction of the head re-uses its alias) and enumerates every     *)
(* input history up to length L; PolicyValid says that the reference       *)
(* policy only gives valid answers, i.e. refines SpecFree.                 *)
(***************************************************************************)
EXTENDS Naturals, Sequences, FiniteSets, TLC, Json

CONSTANTS TopicsA,    \* set of topic names (strings)
          MaxSet,     \* set of Topic Alias Maximum values explored (chosen in Init)
          L           \* bound: length of the input history

VARIABLES max,        \* the client's Topic Alias Maximum (>= 1; with 0 the broker never asks the manager)
          bound,      \* client view: function from a subset of 1..max to TopicsA
          q,          \* reference policy: sequence of [topic, alias], oldest first
          hist,       \* input history: the topics checked so far
          last        \* last step [t, alias, exist]

vars == <<max, bound, q, hist, last>>

----------------------------------------------------------------------------
(* THE RULE: is the answer (alias, exist) to Check(t) acceptable for a     *)
(* client whose view is b?                                                 *)
Valid(b, mx, t, alias, exist) ==
    IF exist THEN alias \in DOMAIN b /\ b[alias] = t       \* alias-only PUBLISH resolves to the real topic
             ELSE alias = 0 \/ alias \in 1..mx             \* a (re)binding uses an alias the client allows

(* the client view after the PUBLISH built from that answer                *)
After(b, t, alias, exist) ==
    IF ~exist /\ alias # 0
    THEN [x \in DOMAIN b \cup {alias} |-> IF x = alias THEN t ELSE b[x]]
    ELSE b

----------------------------------------------------------------------------
(* Reference policy: FIFO.                                                 *)
Pos(s, t) == {i \in 1..Len(s) : s[i].topic = t}

RefAnswer(s, mx, t) ==
    IF Pos(s, t) # {} THEN [alias |-> s[CHOOSE i \in Pos(s, t) : TRUE].alias, exist |-> TRUE]
    ELSE IF Len(s) = mx THEN [alias |-> s[1].alias, exist |-> FALSE]
    ELSE [alias |-> Len(s) + 1, exist |-> FALSE]

RefNext(s, mx, t) ==
    IF Pos(s, t) # {} THEN s
    ELSE IF Len(s) = mx THEN Append(Tail(s), [topic |-> t, alias |-> s[1].alias])
    ELSE Append(s, [topic |-> t, alias |-> Len(s) + 1])

Init == /\ max \in MaxSet
        /\ bound = [x \in {} |-> 0]
        /\ q = <<>>
        /\ hist = <<>>
        /\ last = [t |-> "", alias |-> 0, exist |-> FALSE]

Check(t) ==
    LET a == RefAnswer(q, max, t) IN
    /\ bound' = After(bound, t, a.alias, a.exist)
    /\ q' = RefNext(q, max, t)
    /\ hist' = Append(hist, t)
    /\ last' = [t |-> t, alias |-> a.alias, exist |-> a.exist]
    /\ UNCHANGED max

Next == \E t \in TopicsA : Check(t)

Spec == Init /\ [][Next]_vars

Bound == Len(hist) <= L

----------------------------------------------------------------------------
(* Property-level specification: any valid answer.                         *)
CheckFree(t) ==
    \E alias \in 0..max, exist \in BOOLEAN :
        /\ Valid(bound, max, t, alias, exist)
        /\ bound' = After(bound, t, alias, exist)
        /\ last' = [t |-> t, alias |-> alias, exist |-> exist]
        /\ UNCHANGED <<max, q, hist>>

SpecFree == Init /\ [][\E t \in TopicsA : CheckFree(t)]_vars
viewFree == <<max, bound>>

----------------------------------------------------------------------------
(* Invariants (both specifications).                                       *)

TypeOK == /\ DOMAIN bound \subseteq 1..max
          /\ \A a \in DOMAIN bound : bound[a] \in TopicsA

\* C13: alias in 1..max whenever one is sent; an alias-only PUBLISH resolves to the real topic
AliasOutValid == [][last'.alias # 0 => last'.alias \in 1..max]_vars
AliasResolves == [][last'.exist => (last'.alias \in DOMAIN bound /\ bound[last'.alias] = last'.t)]_vars

\* the reference policy refines the property-level specification: whatever is asked next, its answer is valid
PolicyValid == \A t \in TopicsA :
                  LET a == RefAnswer(q, max, t) IN Valid(bound, max, t, a.alias, a.exist)

\* the reference policy's list is exactly the client view (no stale index entries), aliases distinct
ListIsView == /\ Len(q) <= max
              /\ \A i, j \in 1..Len(q) : i # j => (q[i].alias # q[j].alias /\ q[i].topic # q[j].topic)
              /\ DOMAIN bound = {q[i].alias : i \in 1..Len(q)}
              /\ \A i \in 1..Len(q) : bound[q[i].alias] = q[i].topic

----------------------------------------------------------------------------
(* Dump for the replay: one line per generated transition = per input      *)
(* history of length <= L (hist is part of the state, so nothing is        *)
(* merged): the history, the next topic and the reference answer (the      *)
(* latter is informational; the replayer judges the real answers by        *)
(* Valid over the client view it observes).                                *)
Dump == PrintT(ToJson([max |-> max, pre |-> hist, t |-> last'.t,
                       ref |-> [alias |-> last'.alias, exist |-> last'.exist]]))
=============================================================================
