------------------------------- MODULE Stats -------------------------------
(***************************************************************************)
(* C20 - the broker's statistics as a function of the observable trace.    *)
(*                                                                         *)
(* Ground truth is what the scripted clients wrote and read (packet type   *)
(* and size from the independent codec), what OnMsgDropped reported, and   *)
(* the broker's own lifecycle events (register / unregister / terminated,  *)
(* logged under srv.mu) plus `enqueue` (one per copy put into a session    *)
(* queue).  Every action is parameterised by the fields of one trace       *)
(* event; TraceStats.tla binds them to trace lines, StatsEnv.tla drives    *)
(* them from a small alphabet for the design-level conservation check.     *)
(*                                                                         *)
(* Events relied on (and nothing else):                                    *)
(*   packets/bytes received  connect (counted when the connection is       *)
(*                           registered), subscribe, unsubscribe, publish, *)
(*                           pubrel, cack (PUBACK/PUBREC/PUBCOMP written   *)
(*                           by the client), pingreq, disconnect, raw      *)
(*   packets/bytes sent      connack, suback, unsuback, puback, pubrec,    *)
(*                           pubcomp, relout (PUBREL), deliver (PUBLISH),  *)
(*                           pingresp, srvdisconnect                       *)
(*   messages received/sent  publish / deliver, by the QoS on the wire     *)
(*   messages dropped        dropped (cid, qos, reason) = OnMsgDropped     *)
(*   session queue           hook enqueue (+1), dropped (-1), deliver      *)
(*                           (QoS0: -1; QoS>0 with a packet id that is not *)
(*                           in flight: in flight +1), cack PUBACK/PUBCOMP/*)
(*                           refusing PUBREC for an in-flight id (-1, -1), *)
(*                           hook terminated (queue gone)                  *)
(*   sessions                hook register / unregister / terminated       *)
(*                                                                         *)
(* Reading of the two gauges (the statement says "equal the session        *)
(* queue's contents"): QueuedCurrent = number of copies held by the        *)
(* session queue, whether not yet handed out or handed out (QoS>0) and not *)
(* yet acknowledged; InflightCurrent = the latter only.  This is the       *)
(* weakest reading under which the gauge can be read off the queue and it  *)
(* is the one the implementation documents by its decrements (an           *)
(* acknowledgement lowers both).  "queued and not handed out" is           *)
(* QueuedCurrent - InflightCurrent.                                        *)
(*                                                                         *)
(* Per-client records: a record exists from the first thing counted for    *)
(* the client id and is deleted when the session terminates; what it had   *)
(* accumulated moves to `retired`.  Global = sum of live records +         *)
(* retired, kept twice on purpose: `glob` is accumulated event by event,   *)
(* the invariant Conservation relates it to rec and retired.               *)
(*                                                                         *)
(* A packet is attributed to the *incarnation* of the session its          *)
(* connection was registered for: outputs are logged after they have been  *)
(* read, so the last packets of a displaced connection may be logged after *)
(* the broker has terminated that session and a new one with the same id   *)
(* exists; they belong to the retired totals, not to the new record.       *)
(***************************************************************************)
EXTENDS Integers, FiniteSets, TLC

\* Named deviations (known findings, DESIGN.md 2.5); the empty set is the specification proper.
CONSTANT Deviations
Dev(d) == d \in Deviations

PT == {"Auth", "Connack", "Connect", "Disconnect", "Pingreq", "Pingresp", "Puback", "Pubcomp", "Publish",
       "Pubrec", "Pubrel", "Suback", "Subscribe", "Unsuback", "Unsubscribe"}
QS == 0..2
RS == {"ExceedsMaxPacketSize", "Expired", "InflightExpired", "Internal", "QueueFull"}
\* reason reported through OnMsgDropped (as logged by the driver) -> counter
Reason(r) == CASE r = "full" -> "QueueFull" [] r = "expired" -> "Expired" [] r = "expiredinflight" -> "InflightExpired"
               [] r = "toolarge" -> "ExceedsMaxPacketSize" [] OTHER -> "Internal"
\* SessionTerminatedReason as logged by the terminated hook
TermName(r) == CASE r = 0 -> "Normal" [] r = 1 -> "TakenOver" [] OTHER -> "Expired"

VARIABLES
  scfg,     \* [maxqueued]
  conns,    \* connection k |-> [cid, addr, ver, csize (bytes of its CONNECT), inc (incarnation it was registered for, -1 = none)]
  incn,     \* client id |-> number of sessions of that id that have terminated
  sess,     \* client id |-> "online" | "offline"       (sessions that exist)
  rec,      \* client id |-> counters                   (live per-client records)
  retired,  \* counters of deleted records
  glob,     \* counters, accumulated globally
  q,        \* client id |-> [len (copies held by the session queue), infl (set of [pid, tag] handed out, unacknowledged)]
  g         \* global gauges and connection totals

svars == <<scfg, conns, incn, sess, rec, retired, glob, q, g>>

Get(f, x, d) == IF x \in DOMAIN f THEN f[x] ELSE d
Put(f, x, v) == [y \in DOMAIN f \cup {x} |-> IF y = x THEN v ELSE f[y]]
Del(f, x)    == [y \in DOMAIN f \ {x} |-> f[y]]

RECURSIVE SumOver(_, _)
SumOver(f, S) == IF S = {} THEN 0 ELSE LET x == CHOOSE y \in S : TRUE IN f[x] + SumOver(f, S \ {x})
Sum(f) == SumOver(f, DOMAIN f)

ZeroPT == [t \in PT |-> 0]
ZeroC == [bin |-> ZeroPT, nin |-> ZeroPT, bout |-> ZeroPT, nout |-> ZeroPT,
          recv |-> [x \in QS |-> 0], sent |-> [x \in QS |-> 0], drop |-> [x \in QS |-> [r \in RS |-> 0]]]
PlusC(a, b) == [bin  |-> [t \in PT |-> a.bin[t] + b.bin[t]],   nin  |-> [t \in PT |-> a.nin[t] + b.nin[t]],
                bout |-> [t \in PT |-> a.bout[t] + b.bout[t]], nout |-> [t \in PT |-> a.nout[t] + b.nout[t]],
                recv |-> [x \in QS |-> a.recv[x] + b.recv[x]], sent |-> [x \in QS |-> a.sent[x] + b.sent[x]],
                drop |-> [x \in QS |-> [r \in RS |-> a.drop[x][r] + b.drop[x][r]]]]
RECURSIVE SumC(_, _)
SumC(f, S) == IF S = {} THEN ZeroC ELSE LET x == CHOOSE y \in S : TRUE IN PlusC(f[x], SumC(f, S \ {x}))

In(c, t, n)   == [c EXCEPT !.bin[t] = @ + n, !.nin[t] = @ + 1]
Out(c, t, n)  == [c EXCEPT !.bout[t] = @ + n, !.nout[t] = @ + 1]

ZeroG == [queued |-> 0, inflight |-> 0, leakq |-> 0, leaki |-> 0, hand |-> 0, bursts |-> {}, connected |-> 0, disconnected |-> 0, created |-> 0,
          term |-> [r \in {"Normal", "TakenOver", "Expired"} |-> 0]]

SInit(c) ==
  /\ scfg = c /\ conns = <<>> /\ incn = <<>> /\ sess = <<>> /\ rec = <<>> /\ retired = ZeroC /\ glob = ZeroC
  /\ q = <<>> /\ g = ZeroG

\* everything a scenario starts from (fresh broker)
Reset(c) ==
  /\ scfg' = c /\ conns' = <<>> /\ incn' = <<>> /\ sess' = <<>> /\ rec' = <<>> /\ retired' = ZeroC /\ glob' = ZeroC
  /\ q' = <<>> /\ g' = ZeroG

\* connection k still belongs to the live incarnation of its client id
Live(k) == /\ k \in DOMAIN conns /\ conns[k].inc >= 0
           /\ conns[k].inc = Get(incn, conns[k].cid, 0)
           /\ conns[k].cid \in DOMAIN rec

\* apply the counter update F to the global accumulator and to the record the connection's packets belong to
Count(k, F(_)) ==
  /\ glob' = F(glob)
  /\ IF Live(k) THEN rec' = [rec EXCEPT ![conns[k].cid] = F(@)] /\ UNCHANGED retired
               ELSE retired' = F(retired) /\ UNCHANGED rec

----------------------------------------------------------------------------
(* connections and sessions                                                *)

\* CONNECT written on a fresh connection; it is counted when (and for whom) the broker registers the connection
Connect(k, cid, ver, addr, size) ==
  /\ k \notin DOMAIN conns
  /\ conns' = Put(conns, k, [cid |-> cid, addr |-> addr, ver |-> ver, csize |-> size, inc |-> 0 - 1])
  /\ UNCHANGED <<scfg, incn, sess, rec, retired, glob, q, g>>

\* the broker registered the connection with peer address addr for client id cid (hook, under srv.mu)
Register(addr, cid, resume) ==
  \E k \in DOMAIN conns :
    /\ conns[k].addr = addr /\ conns[k].cid = cid /\ conns[k].inc < 0
    /\ IF resume THEN cid \in DOMAIN sess /\ sess[cid] = "offline" /\ cid \in DOMAIN q
                 ELSE cid \notin DOMAIN sess
    /\ conns' = [conns EXCEPT ![k].inc = Get(incn, cid, 0)]
    /\ sess' = Put(sess, cid, "online")
    /\ glob' = In(glob, "Connect", conns[k].csize)
    /\ rec' = Put(rec, cid, In(Get(rec, cid, ZeroC), "Connect", conns[k].csize))
    /\ q' = IF resume THEN q ELSE Put(q, cid, [len |-> 0, infl |-> {}])
    /\ g' = [g EXCEPT !.connected = @ + 1, !.created = @ + (IF resume THEN 0 ELSE 1)]
    /\ UNCHANGED <<scfg, incn, retired>>

\* the broker unregistered that connection: the session is offline (a `terminated` follows if it is not kept)
Unregister(addr, cid) ==
  /\ cid \in DOMAIN sess /\ sess[cid] = "online"
  /\ \E k \in DOMAIN conns : conns[k].addr = addr /\ conns[k].cid = cid /\ conns[k].inc = Get(incn, cid, 0)
  /\ sess' = [sess EXCEPT ![cid] = "offline"]
  /\ g' = [g EXCEPT !.disconnected = @ + 1]
  /\ UNCHANGED <<scfg, conns, incn, rec, retired, glob, q>>

\* the session ended (reason as logged): record deleted, its queue is gone
Terminated(cid, reason) ==
  /\ cid \in DOMAIN sess /\ sess[cid] = "offline"
  /\ sess' = Del(sess, cid)
  /\ incn' = Put(incn, cid, Get(incn, cid, 0) + 1)
  /\ retired' = PlusC(retired, Get(rec, cid, ZeroC))
  /\ rec' = Del(rec, cid)
  /\ q' = Del(q, cid)
  /\ LET ql == Get(q, cid, [len |-> 0, infl |-> {}]) IN
     g' = [g EXCEPT !.term[TermName(reason)] = @ + 1,
                    \* deviation: nothing tells the statistics that the queue of a removed session is gone
                    !.queued = IF Dev("gauges_leak_on_session_end") THEN @ ELSE @ - ql.len,
                    !.inflight = IF Dev("gauges_leak_on_session_end") THEN @ ELSE @ - Cardinality(ql.infl),
                    !.leakq = IF Dev("gauges_leak_on_session_end") THEN @ + ql.len ELSE @,
                    !.leaki = IF Dev("gauges_leak_on_session_end") THEN @ + Cardinality(ql.infl) ELSE @]
  /\ UNCHANGED <<scfg, conns, glob>>

----------------------------------------------------------------------------
(* packets                                                                 *)

\* a control packet of type t and size n written by the client on k / read by the client from k
PacketIn(k, t, n) ==
  /\ k \in DOMAIN conns /\ t \in PT
  /\ Count(k, LAMBDA c : In(c, t, n))
  /\ UNCHANGED <<scfg, conns, incn, sess, q, g>>

PacketOut(k, t, n) ==
  /\ k \in DOMAIN conns /\ t \in PT
  /\ Count(k, LAMBDA c : Out(c, t, n))
  /\ UNCHANGED <<scfg, conns, incn, sess, q, g>>

\* CONNACK read from k.  A refused connection was never registered: its CONNECT and CONNACK are counted globally
\* only (there is no session a record could belong to).
Connack(k, code, n) ==
  /\ k \in DOMAIN conns
  /\ IF conns[k].inc < 0
       THEN /\ code # 0
            /\ Count(k, LAMBDA c : Out(In(c, "Connect", conns[k].csize), "Connack", n))
       ELSE Count(k, LAMBDA c : Out(c, "Connack", n))
  /\ UNCHANGED <<scfg, conns, incn, sess, q, g>>

\* PUBLISH written by the client
Publish(k, qos, n) ==
  /\ k \in DOMAIN conns /\ qos \in QS
  /\ Count(k, LAMBDA c : [In(c, "Publish", n) EXCEPT !.recv[qos] = @ + 1])
  /\ UNCHANGED <<scfg, conns, incn, sess, q, g>>

\* PUBLISH read by the client from k
Deliver(k, qos, pid, tag, n) ==
  /\ k \in DOMAIN conns /\ qos \in QS
  /\ Count(k, LAMBDA c : [Out(c, "Publish", n) EXCEPT !.sent[qos] = @ + 1])
  /\ LET cid == conns[k].cid IN
     IF ~Live(k) \/ cid \notin DOMAIN q THEN UNCHANGED <<q, g>>
     ELSE IF qos = 0 THEN /\ q' = [q EXCEPT ![cid].len = @ - 1]
                          /\ g' = [g EXCEPT !.queued = @ - 1]
     ELSE IF \E e \in q[cid].infl : e.pid = pid THEN UNCHANGED <<q, g>>      \* retransmission
     ELSE /\ q' = [q EXCEPT ![cid].infl = @ \cup {[pid |-> pid, tag |-> tag]}]
          /\ g' = [g EXCEPT !.inflight = @ + 1, !.hand = @ + 1, !.bursts = @ \cup {k}]
  /\ UNCHANGED <<scfg, conns, incn, sess>>

\* PUBACK / PUBREC / PUBCOMP written by the client on k
ClientAck(k, t, pid, code, n) ==
  /\ k \in DOMAIN conns
  /\ Count(k, LAMBDA c : In(c, CASE t = "puback" -> "Puback" [] t = "pubrec" -> "Pubrec" [] OTHER -> "Pubcomp", n))
  /\ LET cid == conns[k].cid
         final == t \in {"puback", "pubcomp"} \/ (t = "pubrec" /\ code >= 128 /\ conns[k].ver = 5) IN
     IF Live(k) /\ cid \in DOMAIN q /\ final /\ \E e \in q[cid].infl : e.pid = pid
       THEN /\ q' = [q EXCEPT ![cid] = [len |-> @.len - 1, infl |-> {e \in @.infl : e.pid # pid}]]
            /\ g' = [g EXCEPT !.queued = @ - 1, !.inflight = @ - 1]
       ELSE UNCHANGED <<q, g>>
  /\ UNCHANGED <<scfg, conns, incn, sess>>

----------------------------------------------------------------------------
(* session queues                                                          *)

\* one copy was put into the queue of session dst (hook, under srv.mu; err = the queue refused it)
Enqueue(dst, err) ==
  /\ IF err \/ dst \notin DOMAIN q THEN UNCHANGED <<q, g>>
     ELSE /\ q' = [q EXCEPT ![dst].len = @ + 1]
          /\ g' = [g EXCEPT !.queued = @ + 1]
  /\ UNCHANGED <<scfg, conns, incn, sess, rec, retired, glob>>

\* OnMsgDropped(cid, message of QoS qos, reason)
Dropped(cid, qos, reason, tag) ==
  /\ qos \in QS
  /\ LET F(c) == [c EXCEPT !.drop[qos][Reason(reason)] = @ + 1] IN
     /\ glob' = F(glob)
     /\ rec' = Put(rec, cid, F(Get(rec, cid, ZeroC)))
  /\ IF cid \notin DOMAIN q \/ Reason(reason) = "Internal" THEN UNCHANGED <<q, g>>
     ELSE IF reason = "expiredinflight" /\ \E e \in q[cid].infl : e.tag = tag
       THEN \E e \in {x \in q[cid].infl : x.tag = tag} :
              /\ q' = [q EXCEPT ![cid] = [len |-> @.len - 1, infl |-> @.infl \ {e}]]
              /\ g' = [g EXCEPT !.queued = @ - 1, !.inflight = @ - 1]
       ELSE /\ q' = [q EXCEPT ![cid].len = @ - 1]
            /\ g' = [g EXCEPT !.queued = @ - 1]
  /\ UNCHANGED <<scfg, conns, incn, sess, retired>>

----------------------------------------------------------------------------
(* the snapshot the statistics must show at a quiescent point              *)

PacketMap(m) == [t \in PT \cup {"Total"} |->
                   IF t = "Total" THEN Sum(m)
                   ELSE IF t = "Auth" /\ Dev("auth_missing_in_stats_copy") THEN 0 ELSE m[t]]
PacketStats(c) == [BytesReceived |-> PacketMap(c.bin), ReceivedTotal |-> PacketMap(c.nin),
                   BytesSent |-> PacketMap(c.bout), SentTotal |-> PacketMap(c.nout)]

QosStats(c, x, perclient) ==
  LET misfiled == perclient /\ Dev("client_qos_counted_as_qos0") IN
  [DroppedTotal |-> c.drop[x],
   ReceivedTotal |-> IF misfiled THEN (IF x = 0 THEN Sum(c.recv) ELSE 0) ELSE c.recv[x],
   SentTotal     |-> IF misfiled THEN (IF x = 0 THEN Sum(c.sent) ELSE 0) ELSE c.sent[x]]
MessageStats(c, perclient, queued, inflight) ==
  [Qos0 |-> QosStats(c, 0, perclient), Qos1 |-> QosStats(c, 1, perclient), Qos2 |-> QosStats(c, 2, perclient),
   QueuedCurrent |-> queued, InflightCurrent |-> inflight]

NOnline  == Cardinality({c \in DOMAIN sess : sess[c] = "online"})
NOffline == Cardinality({c \in DOMAIN sess : sess[c] = "offline"})

\* d: by how much the global in-flight gauge may lag (0 in the specification proper)
InflightSlack == IF Dev("global_inflight_counts_batches") THEN 0..(g.hand - Cardinality(g.bursts)) ELSE {0}

Expected(d) ==
  [global |-> [PacketStats |-> PacketStats(glob),
               MessageStats |-> MessageStats(glob, FALSE, g.queued, g.inflight - d),
               ConnectionStats |-> [ConnectedTotal |-> g.connected, DisconnectedTotal |-> g.disconnected,
                                    SessionCreatedTotal |-> g.created,
                                    SessionTerminated |-> [Normal |-> g.term["Normal"], TakenOver |-> g.term["TakenOver"],
                                                           Expired |-> g.term["Expired"]],
                                    ActiveCurrent |-> NOnline, InactiveCurrent |-> NOffline]],
   clients |-> [c \in DOMAIN rec |->
                  LET ql == Get(q, c, [len |-> 0, infl |-> {}]) IN
                  [PacketStats |-> PacketStats(rec[c]),
                   MessageStats |-> MessageStats(rec[c], TRUE, ql.len, Cardinality(ql.infl))]]]

\* the part of a logged snapshot that the property speaks about (subscription statistics are not part of it)
Project(snap) ==
  [global |-> [PacketStats |-> snap.global.PacketStats, MessageStats |-> snap.global.MessageStats,
               ConnectionStats |-> snap.global.ConnectionStats],
   clients |-> [c \in DOMAIN snap.clients |->
                  [PacketStats |-> snap.clients[c].PacketStats, MessageStats |-> snap.clients[c].MessageStats]]]

\* ground truth itself must be sane at a quiescent point: no queue longer than configured, in flight within the queue
QueuesSane == \A c \in DOMAIN q : /\ q[c].len >= Cardinality(q[c].infl)
                                  /\ q[c].len <= scfg.maxqueued

SnapshotOK(snap) == QueuesSane /\ \E d \in InflightSlack : Project(snap) = Expected(d)

----------------------------------------------------------------------------
(* conservation: what TLC checks on every reachable state of the design-level run and of every validated trace *)

Conservation == glob = PlusC(SumC(rec, DOMAIN rec), retired)
SessionsConserved ==
  /\ g.created - Sum(g.term) = Cardinality(DOMAIN sess)
  /\ g.connected - g.disconnected = NOnline
  /\ DOMAIN q = DOMAIN sess
  /\ DOMAIN rec = DOMAIN sess          \* a record exists exactly for the sessions that exist
GaugesConserved ==
  /\ g.queued = SumOver([c \in DOMAIN q |-> q[c].len], DOMAIN q) + g.leakq
  /\ g.inflight = SumOver([c \in DOMAIN q |-> Cardinality(q[c].infl)], DOMAIN q) + g.leaki
  /\ Dev("gauges_leak_on_session_end") \/ (g.leakq = 0 /\ g.leaki = 0)
TotalsMonotone == \A t \in PT : glob.bin[t] >= glob.nin[t] /\ glob.bout[t] >= glob.nout[t]
=============================================================================
