"""C09 - durable (redis) sessions survive a crash between any two storage commands.

  design_check(ctx, ...)      TLC on spec/DurableMC.tla (Durable.tla driven from small constant sets): RecoverableAfterCrash,
                              StartupTotal, CommandsWellFormed with the demanded command order; self-test: an as-coded
                              deviation switched on must violate RecoverableAfterCrash
  gen_histories(rng, n, ...)  seeded client histories (steps for harness/cmd/durable)
  record(ctx, histories)      real in-process broker, persistence.type = redis on the RESP fake: command journal + markers
  validate(ctx, recorded)     spec/TraceDurable.tla: the journal is a behaviour of Durable.tla; per journal prefix the
                              `required` state, what the model says a restart would lose, the command-level deviations used
  restart(ctx, recorded, plan) fault enumeration: a new broker on every chosen journal prefix, compared with `required`

The oracle of the fault enumeration is the specification: `required` is printed by TLC, the generator below only
schedules client steps (it has to know which deliveries to wait for)."""
import json, os, subprocess, threading
import vlib
from vlib import tla_str, tla_set

# command-level deviations the trace specification may use to explain a journal (each use is reported);
# start-up deviations are only used by the design-level self-test: the real start-up is observed by the restarts
CMD_DEVIATIONS = ["hdel_slice_arg", "phantom_session", "session_deleted_before_subs"]
RECOVER_DEVIATIONS = ["unack_not_loaded", "sub_reload_trims_client_id"]

# client ids: strings.TrimLeft(id, "sub:") changes the second group
SAFE_IDS = ["c1", "k2", "dev-3", "x:4", "z5"]
TRIM_IDS = ["sub1", "bus2", "u3", ":x4", "s", "b5u"]
EPHEMERAL_IDS = ["p0", "pub9"]

FAMS = {
    1: {"topic": "t/1/x", "plain": ["t/1/x", "t/1/+", "t/1/#", "+/1/x"], "shared": ["t/1/x", "t/1/#"]},
    2: {"topic": "t/2/x", "plain": ["t/2/x", "t/2/+", "t/2/#", "+/2/x"], "shared": ["t/2/x", "t/2/+"]},
    3: {"topic": "$d/3/x", "plain": ["$d/3/x", "$d/3/#", "$d/+/x"], "shared": ["$d/3/x"]},
}
SIDS = [0, 0, 1, 7, 268435455]


# ------------------------------------------------------------------------------------------------ histories

class _Gen:
    """bookkeeping of one history: what the generator must know to schedule recv steps"""

    def __init__(self, rng, hid, kind):
        self.rng, self.hid, self.kind = rng, hid, kind
        self.steps = []
        self.clients = {}
        self.online = set()
        self.subs = {}       # c -> fam -> (filter, opts)
        self.pending = {}    # c -> [(m, effq)] stored for c, not received on the current connection
        self.got = {}        # c -> {m: [effq, "got"|"rec"]} received on the current connection, not fully acknowledged
        self.rel = {}        # c -> {m} PUBREC processed in an earlier connection: PUBREL is re-sent, PUBCOMP still owed
        self.unrel = {}      # c -> [pid] QoS2 publishes of c awaiting PUBREL
        self.tainted = set() # clients whose stored state is undetermined (an operation of theirs was cut): left alone
        self.dirty = set()   # families the generator does not publish to any more
        self.nmsg = 0
        self.npid = 0
        self.lives = 1
        self.everunsub = set()
        self.persistent_now = {}

    def add(self, **st):
        self.steps.append(st)

    def opts(self, c, shared):
        r = self.rng
        o = {"qos": r.choice([0, 1, 1, 2, 2]), "nl": False, "rap": False, "rh": 0, "sid": 0}
        if self.clients[c]["ver"] == 5:
            o["nl"] = (not shared) and r.random() < 0.3
            o["rap"] = r.random() < 0.5
            o["rh"] = r.choice([0, 1, 2])
            o["sid"] = r.choice(SIDS)
        return o

    def connect(self, c, clean=False):
        self.add(op="connect", c=c, clean=clean)
        self.online.add(c)
        persistent = (self.clients[c]["ver"] < 5 and not clean) or (self.clients[c]["ver"] == 5 and self.clients[c]["exp"] > 0)
        if clean or not persistent or c not in self.subs:
            self.subs[c], self.pending[c], self.rel[c], self.unrel[c] = {}, [], set(), []
        self.got[c] = {}
        self.persistent_now[c] = persistent
        # an unreleased QoS2 publish of this broker life is sent again with DUP and the same packet id
        for u in list(self.unrel.get(c, [])):
            if u["life"] == self.lives and self.rng.random() < 0.6:
                self.add(op="publish", c=c, topic=u["topic"], fam=u["fam"], m=u["m"], qos=2, pid=u["pid"], dup=True)
        # replay: in-flight first, then the rest (the driver waits for payloads, the order does not matter to it)
        todo, self.pending[c] = self.pending[c], []
        for m, q in todo:
            self.add(op="recv", c=c, m=m)
            if q > 0:
                self.got[c][m] = [q, "got"]
                self.ackmaybe(c, m)

    def close(self, c, cut=None):
        st = {"op": "close", "c": c, "how": self.rng.choice(["disconnect", "abort"])}
        if cut is not None:
            st["cut"] = cut
        self.steps.append(st)
        self.offline(c)

    def offline(self, c):
        self.online.discard(c)
        if not self.persistent_now.get(c):
            for d in (self.subs, self.pending, self.got, self.rel, self.unrel):
                d.pop(c, None)
            return
        back = []
        for m, (q, st) in self.got.get(c, {}).items():
            if st == "got":
                back.append((m, q))
            else:
                self.rel[c].add(m)
        self.pending[c] = back + self.pending.get(c, [])
        self.got[c] = {}

    def crash(self):
        self.add(op="crash")
        self.lives += 1
        for c in list(self.online):
            self.offline(c)
        # ephemeral sessions left in the store have expired
        for c in list(self.subs):
            if not self.persistent_now.get(c):
                for d in (self.subs, self.pending, self.got, self.rel, self.unrel):
                    d.pop(c, None)
        self.dirty |= self.everunsub

    def subscribe(self, c):
        r = self.rng
        fam = r.choice(sorted(FAMS))
        shared = r.random() < 0.3
        if fam in self.subs[c] and r.random() < 0.5:
            f = self.subs[c][fam][0]           # same filter, other options: the stored value is overwritten
            shared = f.startswith("$share/")
        else:
            if fam in self.subs[c]:
                self.unsubscribe(c, fam)       # at most one subscription of a client per family (alphabet by construction)
            base = r.choice(FAMS[fam]["shared" if shared else "plain"])
            f = "$share/g-%s/%s" % (c.replace("/", "_"), base) if shared else base
        o = self.opts(c, shared)
        self.add(op="subscribe", c=c, f=f, fam=fam, o=o)
        self.subs[c][fam] = (f, o)

    def unsubscribe(self, c, fam):
        f, _ = self.subs[c].pop(fam)
        self.add(op="unsubscribe", c=c, f=f)
        self.everunsub.add(fam)

    def ackmaybe(self, c, m):
        """the subscriber's acknowledgement flow for a message it has just read: complete, partial or withheld"""
        r = self.rng
        q, st = self.got[c][m]
        x = r.random()
        if q == 1:
            if x < 0.55:
                self.cack(c, m, "puback")
        else:
            if x < 0.7:
                self.cack(c, m, "pubrec")
                if x < 0.4:
                    self.cack(c, m, "pubcomp")

    def cack(self, c, m, t):
        self.add(op="cack", c=c, m=m, t=t)
        if t == "pubrec":
            self.got[c][m][1] = "rec"
        else:
            self.got[c].pop(m, None)
            self.rel.get(c, set()).discard(m)

    def publish(self, p, fam, qos):
        self.nmsg += 1
        self.npid += 1
        m = "%s.m%d" % (self.hid, self.nmsg)
        pid = self.npid
        self.add(op="publish", c=p, topic=FAMS[fam]["topic"], fam=fam, m=m, qos=qos, pid=pid, dup=False)
        for c in sorted(self.subs):
            if fam not in self.subs[c]:
                continue
            f, o = self.subs[c][fam]
            if o["nl"] and c == p:
                continue
            q = min(qos, o["qos"])
            if c in self.online:
                self.add(op="recv", c=c, m=m)
                if q > 0:
                    self.got[c][m] = [q, "got"]
                    self.ackmaybe(c, m)
            else:
                self.pending[c].append((m, q))
        if qos == 2:
            if self.rng.random() < 0.5:
                self.add(op="pubrel", c=p, pid=pid)
            else:
                self.unrel[p].append({"pid": pid, "m": m, "topic": FAMS[fam]["topic"], "fam": fam, "life": self.lives})


def gen_history(rng, hid, kind="single"):
    """kind: single (one broker life), lives (crashes between steps), orphan (a session removal / clean start is cut
    between two commands, then a new session with the same client id)"""
    g = _Gen(rng, hid, kind)
    r = rng
    if kind == "single":
        ids = r.sample(SAFE_IDS, r.choice([1, 2])) + r.sample(TRIM_IDS, r.choice([1, 1, 2]))
    else:
        ids = r.sample(SAFE_IDS, r.choice([2, 3]))
    r.shuffle(ids)
    for c in ids:
        ver = r.choice([4, 4, 5, 5, 3])
        g.clients[c] = {"ver": ver, "exp": r.choice([60, 3600, 2147483647]) if ver == 5 else -1}
    eph = r.choice(EPHEMERAL_IDS)
    g.clients[eph] = {"ver": r.choice([4, 5]), "exp": -1}
    persistent = list(ids)

    if kind == "orphan":
        return _gen_orphan(g, persistent, eph)

    nsteps = r.randint(14, 30)
    ncrash = 0
    for c in persistent[:2]:
        g.connect(c)
        g.subscribe(c)
    spins = 0
    while len(g.steps) < nsteps and spins < 400:
        spins += 1
        x = r.random()
        on = [c for c in persistent if c in g.online]
        off = [c for c in persistent if c not in g.online]
        if x < 0.12 and off:
            c = r.choice(off)
            v5 = g.clients[c]["ver"] == 5
            g.connect(c, clean=v5 and c in g.subs and r.random() < 0.15)
        elif x < 0.22 and on:
            g.close(r.choice(on))
        elif x < 0.42 and on:
            g.subscribe(r.choice(on))
        elif x < 0.50 and on:
            c = r.choice(on)
            if g.subs[c]:
                g.unsubscribe(c, r.choice(sorted(g.subs[c])))
        elif x < 0.80:
            cand = list(on) + [eph, eph]
            p = r.choice(cand)
            if p not in g.online:
                g.connect(p, clean=True)
            fams = [f for f in FAMS if f not in g.dirty]
            if not fams:
                continue
            g.publish(p, r.choice(fams), r.choice([1, 2, 2]))
            if p == eph and r.random() < 0.3:
                g.close(p)
        elif x < 0.88:
            # late acknowledgements
            late = [(c, m) for c in on for m in g.got.get(c, {})]
            if late:
                c, m = r.choice(late)
                q, st = g.got[c][m]
                g.cack(c, m, "puback" if q == 1 else ("pubrec" if st == "got" else "pubcomp"))
        elif x < 0.93:
            pubs = [(c, u) for c in g.online for u in g.unrel.get(c, [])]
            if pubs:
                c, u = r.choice(pubs)
                g.unrel[c].remove(u)
                g.add(op="pubrel", c=c, pid=u["pid"])
        elif kind == "lives" and ncrash < 2 and len(g.steps) > 6:
            g.crash()
            ncrash += 1
    if kind == "lives" and ncrash == 0:
        g.crash()
        for c in persistent[:1]:
            g.connect(c)
    for c in sorted(g.online):
        g.close(c)
    return {"id": hid, "kind": kind, "clients": g.clients, "steps": g.steps}


def _gen_orphan(g, persistent, eph):
    """a session is being removed (ephemeral session closed, or Clean Start 1 over a stored session) when the broker dies
    between two of the commands; after the restart a NEW session is made with the same client id and acknowledged"""
    r = g.rng
    c = persistent[0]
    other = persistent[1]
    variant = r.choice(["ephemeral-close", "clean-start"])
    g.connect(other)
    g.subscribe(other)
    if variant == "ephemeral-close":
        g.clients[c] = {"ver": r.choice([3, 4]), "exp": -1}
        g.connect(c, clean=True)                   # v3 Clean Session 1: the session ends with the connection
        g.subscribe(c)
        g.subscribe(c)
        g.close(c, cut=r.choice([1, 2]))           # DEL queue | DEL session | DEL sub
        g.lives += 1
    else:
        g.clients[c] = {"ver": 5, "exp": 3600}
        g.connect(c, clean=False)
        g.subscribe(c)
        g.subscribe(c)
        g.close(c)
        g.steps.append({"op": "connect", "c": c, "clean": True, "cut": r.choice([1, 2, 3, 4, 5])})
        g.online.discard(c)
        g.lives += 1
    for x in list(g.online):
        g.offline(x)
    # the new session: nothing is known to the generator about what the store holds for c, so c only connects and leaves
    g.steps.append({"op": "connect", "c": c, "clean": False})
    g.steps.append({"op": "close", "c": c, "how": "disconnect"})
    g.connect(other)
    g.close(other)
    return {"id": g.hid, "kind": "orphan:" + variant, "clients": g.clients, "steps": g.steps}


def gen_histories(rng, n, tag, mix=(0.6, 0.25, 0.15)):
    out = []
    for i in range(n):
        x = rng.random()
        kind = "single" if x < mix[0] else ("lives" if x < mix[0] + mix[1] else "orphan")
        out.append(gen_history(rng, "%s%d" % (tag, i), kind))
    return out


# ------------------------------------------------------------------------------------------------ record

def _run(cmd, timeout):
    r = subprocess.run(["timeout", str(timeout)] + cmd, stdout=subprocess.PIPE, stderr=subprocess.PIPE, text=True)
    if r.returncode != 0:
        raise vlib.MachineryError("durable driver failed rc=%s: %s" % (r.returncode, (r.stderr or r.stdout)[-2000:]))
    return json.loads(r.stdout.strip().splitlines()[-1])


def record(ctx, histories, name="rec", par=8, timeout=600, binary=None):
    bindir = binary or ctx.go_build(["./cmd/durable"])
    d = ctx.tmp("durable_" + name)
    hp, jp = os.path.join(d, "histories.ndjson"), os.path.join(d, "journals.ndjson")
    with open(hp, "w") as fh:
        for h in histories:
            fh.write(json.dumps(h) + "\n")
    stats = _run([os.path.join(bindir, "durable"), "record", "-in", hp, "-out", jp, "-par", str(par)], timeout)
    recs = {}
    with open(jp) as fh:
        for line in fh:
            r = json.loads(line)
            recs[r["id"]] = r
    fatal = [r for r in recs.values() if r.get("fatal")]
    vlib.log("[durable] recorded %d histories: %d journal entries, %d commands, %d not executable" % (
        stats["histories"], stats["entries"], stats["commands"], len(fatal)))
    return recs, jp, stats


# ------------------------------------------------------------------------------------------------ trace validation

TV_CFG = """SPECIFICATION TSpec
CONSTANTS
 Deviations <- mc_Dev
 TrimName <- NoTrim
CONSTRAINT HWM
POSTCONDITION Accepted
CHECK_DEADLOCK FALSE
"""


def _tv_part(ctx, recs, ids, name, deviations, timeout):
    """validate the journals of the histories `ids` in one TLC run; returns (outputs by (h, k), rejected history id or None,
    line info, TlcResult)"""
    d = ctx.tmp("tv_" + name)
    tp = os.path.join(d, "trace.ndjson")
    starts = []
    n = 0
    with open(tp, "w") as fh:
        for h in ids:
            fh.write(json.dumps({"e": "reset", "h": h}) + "\n")
            n += 1
            starts.append((n, h))
            for e in recs[h]["entries"]:
                fh.write(json.dumps(e["ev"]) + "\n")
                n += 1
    outs = {}

    def on_line(o):
        key = (o["h"], o["k"])
        if key in outs and outs[key] != o:
            outs[key] = {"ambiguous": [outs[key], o]}
        else:
            outs[key] = o

    def keep(line):
        return "TRACE-REJECTED-AT" in line
    body = "mc_Dev == %s\n" % tla_set([tla_str(x) for x in deviations])
    res = ctx.tlc("TraceDurable", body, TV_CFG, name="TraceDurable_" + name, workers=1, timeout=timeout, env={"TRACE": tp},
                  on_line=on_line, keep_lines=keep, java_opts=["-Dtlc2.tool.queue.IStateQueue=StateDeque"])
    import re
    hwm = None
    for line in res.kept:
        m = re.search(r'"TRACE-REJECTED-AT", (\d+), "OF", (\d+)', line)
        if m:
            hwm = int(m.group(1))
    if res.rc == 0 and res.violation is None:
        return outs, None, None, res
    if hwm is None:
        raise vlib.MachineryError("TraceDurable failed without a position:\n" + "\n".join(res.tail[-30:]))
    bad = None
    for ln, h in starts:
        if ln <= hwm:
            bad = (ln, h)
    ln, h = bad
    rel = hwm - ln       # index into entries (1-based k) of the line that could not be explained
    return outs, h, rel, res


def validate(ctx, recs, name="tv", jvms=4, deviations=CMD_DEVIATIONS, timeout=900):
    """returns (outs {(h,k): output}, rejected [{h, k, event}]): histories whose journal the specification cannot explain are
    cut out and reported, the others are validated completely"""
    ids = sorted(h for h in recs if not recs[h].get("fatal"))
    jvms = max(1, min(jvms, len(ids) // 3 or 1))
    parts = [ids[i::jvms] for i in range(jvms)]
    outs, rejected, errors, skipped = {}, [], [], []
    lock = threading.Lock()

    def work(pi):
        try:
            todo = list(parts[pi])
            rounds = 0
            while todo:
                rounds += 1
                o, bad, rel, res = _tv_part(ctx, recs, todo, "%s_p%d_r%d" % (name, pi, rounds), deviations, timeout)
                with lock:
                    if bad is None:
                        outs.update(o)
                        return
                    i = todo.index(bad)
                    good = set(todo[:i])
                    outs.update({k: v for k, v in o.items() if k[0] in good})
                    ent = recs[bad]["entries"]
                    rejected.append({"h": bad, "k": rel, "event": ent[rel - 1]["ev"] if 0 < rel <= len(ent) else None,
                                     "before": [e["ev"] for e in ent[max(0, rel - 6):rel - 1]]})
                    todo = todo[i + 1:]
                if rounds > 6 and todo:
                    # every rejected journal is reported by the caller; the rest of this part stays unexamined (counted)
                    with lock:
                        skipped.extend(todo)
                    return
        except Exception as e:      # noqa
            errors.append(e)
    ths = [threading.Thread(target=work, args=(i,)) for i in range(jvms)]
    for t in ths:
        t.start()
    for t in ths:
        t.join()
    if errors:
        raise errors[0]
    amb = [k for k, v in outs.items() if "ambiguous" in v]
    if amb:
        raise vlib.MachineryError("TraceDurable found two explanations with different required states at %s" % amb[:3])
    if skipped:
        ctx.cov["journals_unexamined_after_rejections"] = len(skipped)
        if not rejected:
            raise vlib.MachineryError("journals left unexamined although none was rejected")
    return outs, rejected


# ------------------------------------------------------------------------------------------------ fault enumeration

def req_of(o):
    return {"sess": o["sess"], "subs": o["subs"], "msgs": o["msgs"], "ids": o["ids"]}


def nontrivial(o):
    """a prefix demands something of the restart: a session that must be there"""
    return any(s["st"] == "must" for s in o["sess"])


def plan_prefixes(rng, recs, outs, budget=None):
    """all prefixes (budget None) or a seeded sample that always contains the prefixes ending right before and right after
    each acknowledgement marker.  Prefixes with the same store contents and the same required state are the same case."""
    cases = []
    for h in sorted(recs):
        r = recs[h]
        if r.get("fatal"):
            continue
        ncmd = 0
        seen = set()
        per = []
        for e in r["entries"]:
            k = e["k"]
            if e["ev"]["e"] == "cmd":
                ncmd += 1
            o = outs.get((h, k))
            if o is None:
                continue
            if not o.get("up", True):
                continue     # between `crash` and `recover` the store equals the one before: same case
            key = (ncmd, json.dumps(req_of(o), sort_keys=True))
            if key in seen:
                continue
            seen.add(key)
            ack = e["ev"]["e"] == "ack"
            per.append({"h": h, "k": k, "req": req_of(o), "prio": ack, "nontrivial": nontrivial(o)})
        # the prefix right before an ack marker
        ks = {c["k"]: c for c in per}
        for c in list(per):
            if c["prio"] and c["k"] - 1 in ks:
                ks[c["k"] - 1]["prio"] = True
        cases += per
    if budget is None or len(cases) <= budget:
        return cases
    prio = [c for c in cases if c["prio"] and c["nontrivial"]]
    rest = [c for c in cases if not (c["prio"] and c["nontrivial"])]
    rng.shuffle(prio)
    rng.shuffle(rest)
    pick = prio[:budget]
    pick += rest[:max(0, budget - len(pick))]
    return sorted(pick, key=lambda c: (c["h"], c["k"]))


def restart(ctx, jp, cases, name="fe", par=16, timeout=1500, binary=None, rate=0):
    bindir = binary or ctx.go_build(["./cmd/durable"])
    d = ctx.tmp("durable_" + name)
    pp, op = os.path.join(d, "plan.ndjson"), os.path.join(d, "results.ndjson")
    with open(pp, "w") as fh:
        for c in cases:
            fh.write(json.dumps({"h": c["h"], "k": c["k"], "req": c["req"]}) + "\n")
    stats = _run([os.path.join(bindir, "durable"), "restart", "-journals", jp, "-plan", pp, "-out", op, "-par", str(par),
                  "-rate", str(rate)], timeout)
    results = [json.loads(l) for l in open(op)]
    vlib.log("[durable] %d restarts: %d facts compared, %d divergences, %d without verdict (machinery)" % (
        stats["restarts"], stats["checked"], stats["divergences"], stats["trouble"]))
    return results, stats


# ------------------------------------------------------------------------------------------------ design-level check

MC_CFG = """SPECIFICATION MCSpec
CONSTANTS
 Clients <- mc_Clients
 Vers <- mc_Vers
 Filters <- mc_Filters
 OptVals <- mc_OptVals
 Msgs <- mc_Msgs
 TrimName <- mc_Trim
 Deviations <- mc_Dev
 MaxOps = %d
 MaxCrash = %d
INVARIANTS RecoverableAfterCrash StartupTotal CommandsWellFormed
CHECK_DEADLOCK FALSE
"""


def mc_body(deviations=(), v1=4, v2=5):
    return "\n".join([
        'mc_Clients == {"c1", "s2"}',
        'mc_Vers == [c \\in {"c1","s2"} |-> IF c = "c1" THEN [ver |-> %d, exp |-> 0-1] ELSE [ver |-> %d, exp |-> 3600]]' % (v1, v2),
        'mc_Filters == [f \\in {"fa","fb"} |-> IF f = "fa" THEN 1 ELSE 2]',
        "mc_O(q, nl) == [qos |-> q, nl |-> nl, rap |-> FALSE, rh |-> 0, sid |-> 0]",
        "mc_OptVals == {mc_O(1, FALSE), mc_O(2, FALSE)}",
        'mc_Msgs == [m \\in {"m1","m2"} |-> IF m = "m1" THEN [fam |-> 1, qos |-> 1, pid |-> 1] ELSE [fam |-> 2, qos |-> 2, pid |-> 2]]',
        'mc_Trim == [c \\in {"s2"} |-> "2"]',
        "mc_Dev == " + tla_set([tla_str(x) for x in deviations]),
    ])


def design_check(ctx, maxops, maxcrash, deviations=(), workers=8, timeout=1500, name=None, count=True):
    res = ctx.tlc("DurableMC", mc_body(deviations), MC_CFG % (maxops, maxcrash), name=name or ("DurableMC_%d_%d" % (maxops, maxcrash)),
                  workers=workers, timeout=timeout, heap="8g", count=count)
    return res
