"""C18 machinery: WsConn.tla (design level), WsSeg.tla (TLC enumerates segmentations) -> harness/cmd/wsconn
(real broker, real WebSocket listener, TCP twin as reference)."""
import json, os, subprocess, threading, time
import vlib
from vlib import tla_str

# ---------------------------------------------------------------------------------------------- design level

CONN_CFG = """SPECIFICATION Spec
CONSTANTS
 MaxLen = %(maxlen)d
 MaxMsgs = %(maxmsgs)d
 MinPart = %(minpart)d
 WithText = %(text)s
 ImplShaped = %(impl)s
 ReadSizes <- mc_ReadSizes
INVARIANTS TypeOK ReadsConcatenateToStream TextRejected
PROPERTIES AllDelivered ReadBounded
"""


def design_run(ctx, name, maxlen, maxmsgs, minpart, text, impl, workers=2):
    cfg = CONN_CFG % {"maxlen": maxlen, "maxmsgs": maxmsgs, "minpart": minpart, "text": "TRUE" if text else "FALSE",
                      "impl": "TRUE" if impl else "FALSE"}
    return ctx.tlc("WsConn", "mc_ReadSizes == 1..4", cfg, name="WsConn_" + name, workers=workers, timeout=600, count=False,
                   java_opts=["-XX:ParallelGCThreads=2"])


# ---------------------------------------------------------------------------------------------- streams

BASE_PUBS = [(0, 0), (1, 1), (0, 1000), (1, 1022), (0, 1023), (1, 1024), (0, 1025), (1, 3000)]


def prof(name, ver=4, sub=True, pubs=(), ping=True, no_disc=False, empty_id=False):
    return {"name": name, "ver": ver, "sub": sub, "pubs": [{"q": q, "n": n} for q, n in pubs], "ping": ping,
            "no_disc": no_disc, "empty_id": empty_id}


def describe(binpath, profiles, tmpdir):
    path = os.path.join(tmpdir, "profiles.json")
    with open(path, "w") as fh:
        json.dump(profiles, fh)
    r = subprocess.run([binpath, "-profiles", path, "-describe"], stdout=subprocess.PIPE, stderr=subprocess.PIPE, text=True, timeout=60)
    if r.returncode != 0:
        raise vlib.MachineryError("wsconn -describe failed: " + r.stderr[-2000:])
    return path, {g["name"]: g for g in json.loads(r.stdout)}


def random_pubs(rng, extra):
    """the boundary sizes in a seed-chosen order plus `extra` seed-chosen sizes"""
    pubs = list(BASE_PUBS) + [(rng.randint(0, 1), rng.choice([rng.randint(2, 999), rng.randint(1018, 1030), rng.randint(1026, 2100),
                                                               rng.randint(2040, 2056), rng.randint(2100, 5000)])) for _ in range(extra)]
    rng.shuffle(pubs)
    return pubs


def make_profiles(ctx, binpath):
    """profiles of the run; min1025 is sized with the help of -describe (CONNECT + PUBLISH = 1025 bytes exactly)"""
    rng = ctx.rng
    ps = [prof("tiny", sub=False, no_disc=True, empty_id=True),
          prof("mini", pubs=[(1, 3), (0, 0)]),
          prof("big", pubs=BASE_PUBS),
          prof("big5", ver=5, pubs=BASE_PUBS),
          prof("bigr", pubs=random_pubs(rng, 3), no_disc=True)]
    if ctx.tier == "thorough":
        ps += [prof("bigr2", pubs=random_pubs(rng, 4)), prof("bigr5", ver=5, pubs=random_pubs(rng, 3), no_disc=True)]
    # many small packets (30 x ~70 bytes): run against a broker with max_packet_size 512 (PACK_MAXPKT), where every MQTT
    # packet fits but WebSocket messages of 1024..4096 bytes carry several of them
    ps.append(prof("pack", pubs=[(1, 40 + (i * 7) % 23) for i in range(30)]))
    # the LAST thing written to the client is a delivery of exactly 1024 / 2048 bytes (the size of the write buffer and twice
    # that; topic s/NNNNNNN: 14 bytes of header + payload, 15 with the MQTT 5 property length), nothing follows it
    ps += [prof("wlast1024", pubs=[(1, 40), (0, 1010)], ping=False, no_disc=True),
           prof("wlast2048", pubs=[(0, 2034)], ping=False, no_disc=True),
           prof("wlast1024v5", ver=5, pubs=[(0, 1009)], ping=False, no_disc=True)]
    probe = prof("min1025", sub=False, pubs=[(1, 500)], ping=False, no_disc=True)
    _, g = describe(binpath, [probe], ctx.tmp("wsprobe"))
    ps.append(prof("min1025", sub=False, pubs=[(1, 500 + 1025 - g["min1025"]["n"])], ping=False, no_disc=True))
    path, geo = describe(binpath, ps, ctx.tmp("wsprof"))
    if geo["min1025"]["n"] != 1025:
        raise vlib.MachineryError("could not size the min1025 stream: %d" % geo["min1025"]["n"])
    return ps, path, geo


# ---------------------------------------------------------------------------------------------- TLC jobs

SEG_CFG = """SPECIFICATION Spec
CONSTANTS
 StreamName = %(name)s
 Pk <- mc_Pk
 HasDisc = %(disc)s
 Fams <- mc_Fams
 BufSize = 1024
 MaxChunks = %(maxchunks)d
 Trail = %(trail)d
CONSTRAINT Bound
CONSTRAINT Emit
INVARIANTS TypeOK IsSegmentation
"""


def tla_intset(xs):
    return "{" + ", ".join(str(x) for x in sorted(set(xs))) + "}"


def tla_pairs(ps):
    return "{" + ", ".join("<<%d, %d>>" % p for p in ps) + "}"


class Job:
    def __init__(self, stream, fams, simulate=None, depth=None, tag="mc", trail=0):
        self.stream, self.fams, self.simulate, self.depth, self.tag, self.trail = stream, fams, simulate, depth, tag, trail


SIZES = [1, 2, 3, 7, 512, 1022, 1023, 1024, 1025, 1026, 2047, 2048, 2049, 4096, 4097]
LENS = [1023, 1024, 1025, 1026, 2047, 2048, 2049]


def plan(ctx, geo):
    rng, q = ctx.rng, ctx.tier == "quick"
    jobs = []
    n = lambda s: geo[s]["n"]
    phases = lambda sizes, k: [(s, rng.randint(1, s - 1)) for s in rng.sample([x for x in sizes if x > 1], k)]
    # tiny (16 bytes, CONNECT PINGREQ): every composition / every segmentation with <= 3 cuts
    lo = rng.randint(0, n("tiny") - 10)
    jobs.append(Job("tiny", "{AllComps}" if not q else "{KCuts(3), Window(%d, %d)}" % (lo, lo + 9)))
    # mini (echoed publishes, 73 bytes)
    small = [1, 2, 3, 5, 7, 11, 16, 30, 64]
    w = 8 if q else 11
    wins = ", ".join("Window(%d, %d)" % (a, a + w) for a in [rng.randint(0, n("mini") - 2 - w) for _ in range(1 if q else 3)])
    jobs.append(Job("mini", "BoundaryFams \\cup Merged(BndAlls \\cup Singles) \\cup UniformFams(%s, %s) \\cup Merged(UniformFams({1, 7}, {})) "
                            "\\cup Empties({1, 3}) \\cup TextFams \\cup TextEmptyFams \\cup {KCuts(%d), %s}" % (
                                tla_intset(small), tla_pairs(phases(small, 3)), 1 if q else 2, wins)))
    for w in ("wlast1024", "wlast2048", "wlast1024v5"):
        jobs.append(Job(w, "Singles \\cup UniformFams({1, 1024}, {})"))
    # min1025: CONNECT + PUBLISH = 1025 bytes: every single cut (and none)
    jobs.append(Job("min1025", "{KCuts(1)} \\cup UniformFams({1, 2, 512, 1023, 1024}, {})"))
    # the big streams
    sizes = [s for s in SIZES if not (q and s in (2, 3))]
    full = ("BoundaryFams \\cup Merged(BndAlls \\cup Singles) \\cup UniformFams(%s, %s) \\cup Merged(UniformFams({1024, 1025, 4097}, {})) "
            "\\cup SpanFams(%s) \\cup Empties({1}) \\cup TextFams \\cup TextEmptyFams")
    if q:   # the 16 510-message variant (a 1-byte and an empty message alternating) only in the thorough tier
        full = full.replace("Empties({1})", "{f \\in Empties({1}) : f.t = \"empties\" \\/ f.a > 1}")
    lite = "BndAlls \\cup Singles \\cup UniformFams({7, 1023, 1024, 1025, 2049}, {}) \\cup SpanFams({1025, 2049})"
    jobs.append(Job("big", full % (tla_intset(sizes), tla_pairs(phases(sizes, 3 if q else 6)), tla_intset(LENS))))
    jobs.append(Job("big", "{Walk}", simulate="num=%d" % (40 if q else 2500), depth=120, tag="walk"))
    for s in [x for x in geo if x.startswith("big") and x != "big"]:
        jobs.append(Job(s, lite if q else full % (tla_intset(sizes), tla_pairs(phases(sizes, 4)), tla_intset(LENS))))
        jobs.append(Job(s, "{Walk}", simulate="num=%d" % (15 if q else 800), depth=120, tag="walk"))
    return jobs


def plan_trail(ctx, geo):
    """bytes behind DISCONNECT in the same message (more than the 1024-byte reader holds): never processed, and never seen by any
    other connection.  Run on a broker of its own, one scenario at a time, each followed by fresh connections (-victims)."""
    rng = ctx.rng
    return [Job("mini", "Merged(BndAlls \\cup Singles)", tag="trail", trail=rng.choice([1025, 3000])),
            Job("big", "Merged(BndAlls) \\cup Merged(UniformFams({1024, 1025, 4097}, {}))", tag="trail", trail=rng.choice([1100, 2049, 5000]))]


PACK_MAXPKT = 512


def plan_pack(ctx, geo):
    """segmentations of the stream `pack` for the broker with the small max_packet_size: one message, messages of 600..4096
    bytes, single cuts, walks"""
    q = ctx.tier == "quick"
    return [Job("pack", "Singles \\cup UniformFams({600, 1024, 1025, 2048, 4096}, {}) \\cup {KCuts(1)}"),
            Job("pack", "{Walk}", simulate="num=%d" % (20 if q else 400), depth=120, tag="walk")]


def job_body(geo, job):
    g = geo[job.stream]
    pk = ", ".join("[h |-> %d, b |-> %d]" % (p["h"], p["b"]) for p in g["pk"])
    return "mc_Pk == <<%s>>\nmc_Fams == %s\n" % (pk, job.fams)


def job_cfg(geo, job):
    g = geo[job.stream]
    return SEG_CFG % {"name": tla_str(job.stream), "disc": "TRUE" if g["pk"][-1]["kind"] == "DISCONNECT" else "FALSE",
                      "maxchunks": 200 if job.simulate else 100000, "trail": job.trail}


# ---------------------------------------------------------------------------------------------- run

class Driver:
    """the wsconn process; scenario lines are fed while TLC is still enumerating"""

    def __init__(self, binpath, profpath, args):
        self.p = subprocess.Popen([binpath, "-profiles", profpath, "-raw"] + args, stdin=subprocess.PIPE, stdout=subprocess.PIPE,
                                  stderr=subprocess.PIPE, text=True, bufsize=1 << 16)
        self.lock = threading.Lock()
        self.seen = set()
        self.fed = 0
        self.dups = 0
        self.out = []
        self.err = []
        self.t_out = threading.Thread(target=lambda: self.out.extend(self.p.stdout.readlines()), daemon=True)
        self.t_err = threading.Thread(target=lambda: self.err.extend(self.p.stderr.readlines()), daemon=True)
        self.t_out.start()
        self.t_err.start()

    def feed(self, js):
        if not isinstance(js, str):
            js = json.dumps(js)
        o = json.loads(js)
        key = (o["stream"], tuple(o["seg"]), o["text"], o.get("trail", 0))
        with self.lock:
            if key in self.seen:
                self.dups += 1
                return
            self.seen.add(key)
            self.fed += 1
            try:
                self.p.stdin.write(js + "\n")
            except (BrokenPipeError, ValueError):
                pass

    def finish(self, timeout):
        try:
            self.p.stdin.close()
        except BrokenPipeError:
            pass
        try:
            self.p.wait(timeout=timeout)
        except subprocess.TimeoutExpired:
            self.p.kill()
            raise vlib.MachineryError("the wsconn driver did not finish within %ss" % timeout)
        self.t_out.join(10)
        self.t_err.join(10)
        summary, divs = None, []
        for line in self.out:
            o = json.loads(line)
            if o["kind"] == "machinery":
                raise vlib.MachineryError("wsconn driver: " + o["what"])
            if o["kind"] == "summary":
                summary = o
            elif o["kind"] == "div":
                divs.append(o)
        if self.p.returncode != 0 or summary is None:
            raise vlib.MachineryError("wsconn driver failed rc=%s\n%s" % (self.p.returncode, "".join(self.err)[-3000:]))
        if summary["n"] != self.fed:
            raise vlib.MachineryError("wsconn driver executed %d of %d segmentations" % (summary["n"], self.fed))
        return summary, divs


def run_jobs(ctx, geo, jobs, driver, extra_threads=()):
    """all TLC jobs in parallel threads (JVM start-up dominates the small ones); returns [(job, TlcResult)]"""
    results, errors = [], []
    sem = threading.Semaphore(10)

    def work(i, job):
        with sem:
            try:
                res = ctx.tlc("WsSeg", job_body(geo, job), job_cfg(geo, job), name="WsSeg_%s_%s_%d" % (job.stream, job.tag, i),
                              workers=1 if job.simulate else 2, timeout=900, on_line=driver.feed, simulate=job.simulate, depth=job.depth,
                              count=False, java_opts=["-XX:ParallelGCThreads=2"])
                if res.violation or res.rc != 0:
                    raise vlib.MachineryError("WsSeg enumeration failed for %s:\n%s" % (job.stream, res.violation or "\n".join(res.tail[-30:])))
                results.append((job, res))
                if os.environ.get("VERIF_DEBUG"):
                    vlib.log("[C18 debug] t=%.1f TLC %s/%s done: %d lines, wall %.1fs" % (time.time() - ctx.t0, job.stream, job.tag, res.lines, res.wall))
            except BaseException as e:      # re-raised in the main thread
                errors.append(e)

    ths = [threading.Thread(target=work, args=(i, j)) for i, j in enumerate(jobs)] + list(extra_threads)
    for t in ths:
        t.start()
    for t in ths:
        t.join()
    if errors:
        raise errors[0]
    return results
