#!/usr/bin/env python3
"""Seeded changes (written by independent sub-agents that only saw a property's text and a scratch worktree).

  seeded.py import <Cxx> <srcdir>      copy <srcdir>/out/<n>/{patch.diff,demo_test.go,meta.json} to /verif/seeded/<Cxx>-<n>/
  seeded.py eval <Cxx>-<n> [tier]      in a scratch worktree of /repo HEAD: confirm (demo passes clean, patch applies, builds, existing
                                       suite passes, demo fails with the patch), then run ./check <Cxx> against the changed tree
                                       (VERIF_REPO) and record the outcome in meta.json.  /repo itself is never touched.
"""
import json, os, re, shutil, subprocess, sys, time

VERIF = os.path.dirname(os.path.dirname(os.path.abspath(__file__)))
SEED = os.path.join(VERIF, "seeded")
ENV = dict(os.environ, GOFLAGS="-mod=mod", GOPROXY="off", GOSUMDB="off", GOTOOLCHAIN="local")


def sh(cmd, cwd=None, env=None, timeout=3000):
    r = subprocess.run(cmd, cwd=cwd, env=env or ENV, stdout=subprocess.PIPE, stderr=subprocess.STDOUT, text=True, timeout=timeout)
    return r.returncode, r.stdout


def do_import(pid, src):
    for n in sorted(os.listdir(os.path.join(src, "out"))):
        d = os.path.join(src, "out", n)
        if not os.path.isfile(os.path.join(d, "patch.diff")):
            continue
        dst = os.path.join(SEED, "%s-%s" % (pid, n))
        os.makedirs(dst, exist_ok=True)
        for f in os.listdir(d):
            if os.path.isfile(os.path.join(d, f)):
                shutil.copy(os.path.join(d, f), dst)
        print("imported", dst)


def demo_cmd(meta):
    cmd = meta.get("demo", {}).get("cmd", "")
    place = meta.get("demo", {}).get("place_in", "server").strip("./") or "server"
    m = re.search(r"-run\s+'?\"?([^\s'\"]+)", cmd)
    pat = m.group(1) if m else "."
    return place, pat


def do_eval(sid, tier="quick"):
    d = os.path.join(SEED, sid)
    pid = sid.split("-")[0]
    meta = json.load(open(os.path.join(d, "meta.json")))
    wt = "/tmp/seedrun_" + sid
    ev = {"at": time.strftime("%Y-%m-%d %H:%M:%S"), "repo_head": sh(["git", "-C", "/repo", "log", "--format=%h", "-1"])[1].strip()}
    sh(["git", "-C", "/repo", "worktree", "remove", "--force", wt])
    rc, out = sh(["git", "-C", "/repo", "worktree", "add", "--detach", wt, "HEAD"])
    if rc != 0:
        print(out)
        return 2
    try:
        place, pat = demo_cmd(meta)
        os.makedirs(os.path.join(wt, place), exist_ok=True)
        shutil.copy(os.path.join(d, "demo_test.go"), os.path.join(wt, place, "zz_seeded_demo_test.go"))
        run_demo = ["go1.26", "test", "-vet=off", "-count=1", "-run", pat, "./" + place + "/"]
        rc, out = sh(run_demo, cwd=wt)
        ev["demo_clean_passes"] = rc == 0
        rc, out = sh(["git", "apply", os.path.join(d, "patch.diff")], cwd=wt)
        ev["patch_applies"] = rc == 0
        if rc != 0:
            ev["apply_error"] = out[-500:]
        rc, out = sh(["go1.26", "build", "./..."], cwd=wt)
        ev["builds"] = rc == 0
        rc, out = sh(run_demo, cwd=wt)
        ev["demo_fails_with_patch"] = rc != 0
        os.remove(os.path.join(wt, place, "zz_seeded_demo_test.go"))
        rc, out = sh(["go1.26", "test", "-vet=off", "-count=1", "./..."], cwd=wt)
        fails = [l for l in out.splitlines() if l.startswith("--- FAIL") or l.startswith("FAIL")]
        other = [l for l in fails if "TestRedis" not in l and "gmqtt/persistence\t" not in l and l.strip() != "FAIL"]
        ev["existing_suite_passes"] = not other
        if other:
            ev["suite_failures"] = other[:10]
        confirmed = all(ev.get(k) for k in ("demo_clean_passes", "patch_applies", "builds", "demo_fails_with_patch", "existing_suite_passes"))
        ev["confirmed"] = confirmed
        if confirmed:
            evdir = wt + "_evidence"
            os.makedirs(evdir, exist_ok=True)
            env = dict(os.environ, VERIF_REPO=wt, VERIF_EVID=evdir)
            t0 = time.time()
            rc, out = sh([os.path.join(VERIF, "check"), pid, tier], cwd=VERIF, env=env, timeout=6000)
            viol = [l for l in out.splitlines() if l.startswith("VIOLATION")]
            detail = [l.strip() for l in out.splitlines() if l.startswith("  ") and len(l) > 10][:3]
            ev["check"] = {"cmd": "VERIF_REPO=<changed tree> ./check %s %s" % (pid, tier), "exit": rc, "violations": len(viol),
                           "first": detail, "wall_s": round(time.time() - t0, 1)}
            ev["detected"] = rc == 1 and len(viol) > 0
            shutil.rmtree(evdir, ignore_errors=True)
            if rc == 2:
                ev["check"]["tail"] = out[-600:]
        meta["evaluation"] = ev
        json.dump(meta, open(os.path.join(d, "meta.json"), "w"), indent=1)
        print(sid, json.dumps({k: v for k, v in ev.items() if k in ("confirmed", "detected", "check")})[:600])
    finally:
        sh(["git", "-C", "/repo", "worktree", "remove", "--force", wt])
        shutil.rmtree(wt, ignore_errors=True)
    return 0


def do_recheck(sid, tier="quick"):
    """an already confirmed change: only run the owning check against the changed tree again and refresh the record"""
    d = os.path.join(SEED, sid)
    pid = sid.split("-")[0]
    meta = json.load(open(os.path.join(d, "meta.json")))
    ev = meta.get("evaluation") or {}
    if not ev.get("confirmed"):
        return do_eval(sid, tier)
    wt = "/tmp/seedrun_" + sid
    sh(["git", "-C", "/repo", "worktree", "remove", "--force", wt])
    rc, out = sh(["git", "-C", "/repo", "worktree", "add", "--detach", wt, "HEAD"])
    if rc != 0:
        print(out)
        return 2
    try:
        rc, out = sh(["git", "apply", os.path.join(d, "patch.diff")], cwd=wt)
        if rc != 0:
            ev["patch_applies"] = False
            ev["apply_error"] = out[-500:]
            ev["detected"] = None
        else:
            evdir = wt + "_evidence"
            os.makedirs(evdir, exist_ok=True)
            env = dict(ENV, VERIF_REPO=wt, VERIF_EVID=evdir)
            t0 = time.time()
            rc, out = sh([os.path.join(VERIF, "check"), pid, tier], cwd=VERIF, env=env, timeout=6000)
            viol = [l for l in out.splitlines() if l.startswith("VIOLATION")]
            detail = [l.strip() for l in out.splitlines() if l.startswith("  ") and len(l) > 10][:3]
            ev["check"] = {"cmd": "VERIF_REPO=<changed tree> ./check %s %s" % (pid, tier), "exit": rc, "violations": len(viol),
                           "first": detail, "wall_s": round(time.time() - t0, 1)}
            ev["detected"] = rc == 1 and len(viol) > 0
            if rc == 2:
                ev["check"]["tail"] = out[-600:]
            shutil.rmtree(evdir, ignore_errors=True)
        ev["at"] = time.strftime("%Y-%m-%d %H:%M:%S")
        ev["repo_head"] = sh(["git", "-C", "/repo", "log", "--format=%h", "-1"])[1].strip()
        meta["evaluation"] = ev
        json.dump(meta, open(os.path.join(d, "meta.json"), "w"), indent=1)
        print(sid, json.dumps({k: v for k, v in ev.items() if k in ("confirmed", "detected", "check")})[:400])
    finally:
        sh(["git", "-C", "/repo", "worktree", "remove", "--force", wt])
        shutil.rmtree(wt, ignore_errors=True)
    return 0


if __name__ == "__main__":
    if sys.argv[1] == "import":
        do_import(sys.argv[2], sys.argv[3])
    elif sys.argv[1] == "recheck":
        sys.exit(do_recheck(sys.argv[2], sys.argv[3] if len(sys.argv) > 3 else "quick"))
    elif sys.argv[1] == "eval":
        sys.exit(do_eval(sys.argv[2], sys.argv[3] if len(sys.argv) > 3 else "quick"))
