"""C20 - statistics.  Runs the wire driver on scenarios with `stats` steps, validates the recorded traces with TLC against
spec/TraceStats.tla (Stats.tla = the statistics as a function of the observable trace), lists the fields of a rejected
snapshot that differ from what the specification demands, attributes strict rejections to named deviations (known
findings), and runs the design-level conservation check (spec/StatsEnv.tla)."""
import json, os, re, threading
import vlib, trace_lib

CFG_TMPL = """SPECIFICATION TSpec
CONSTANTS
 Deviations <- EnvDeviations
CONSTRAINT HWM
POSTCONDITION Accepted
CHECK_DEADLOCK FALSE
INVARIANTS
%s
"""
INV = ("Conservation", "SessionsConserved", "GaugesConserved")
MODULE = "TraceStats"

# deviations of Stats.tla (each one = one recorded defect; the check only uses those listed as open findings)
DEVIATIONS = ("client_qos_counted_as_qos0", "global_inflight_counts_batches", "gauges_leak_on_session_end",
              "auth_missing_in_stats_copy")

PTYPE = {1: "Connect", 2: "Connack", 3: "Publish", 4: "Puback", 5: "Pubrec", 6: "Pubrel", 7: "Pubcomp", 8: "Subscribe",
         9: "Suback", 10: "Unsubscribe", 11: "Unsuback", 12: "Pingreq", 13: "Pingresp", 14: "Disconnect", 15: "Auth"}


def open_deviations(ctx):
    """open known findings of this property that name a deviation.  VERIF_KF_EXTRA=<file> adds entries of a proposal
    file (same format as known_findings.json) - used to try proposed entries before they are merged."""
    extra = os.environ.get("VERIF_KF_EXTRA")
    if extra and not getattr(ctx, "_kf_extra", False):
        ctx._kf_extra = True
        ctx.kf = list(ctx.kf) + json.load(open(extra)).get("findings", [])
    return [k for k in ctx.kf if k.get("status") == "open" and k.get("property") == ctx.pid and k.get("deviation") in DEVIATIONS]


def annotate(lines):
    """`raw` lines (bytes written by a scripted client) get the MQTT packet type and size their bytes encode (first
    byte / length of the hex string); nothing else is touched"""
    out = []
    for ln in lines:
        if '"e":"raw"' in ln:
            e = json.loads(ln)
            b = bytes.fromhex(e["hex"])
            e["ptype"] = PTYPE.get(b[0] >> 4, "Unknown")
            e["size"] = len(b)
            ln = json.dumps(e, separators=(",", ":"))
        out.append(ln)
    return out


def workload(lines):
    """what the recorded traces exercised (measured, for the evidence): events per kind, drops per reason, terminations
    per reason, deliveries per QoS, copies in flight / queued at snapshots"""
    w = {"events": {}, "dropped": {}, "terminated": {}, "deliver_qos": {}, "publish_qos": {}, "snapshots_with_inflight": 0,
         "snapshots_with_queued": 0, "resumes": 0, "raw_types": {}}

    def inc(d, k):
        d[str(k)] = d.get(str(k), 0) + 1
    for ln in lines:
        try:
            e = json.loads(ln)
        except ValueError:
            continue
        k = e.get("e")
        if k == "hook":
            k = "hook:" + e.get("h", "?")
            if e.get("h") == "terminated":
                inc(w["terminated"], {0: "normal", 1: "takenover", 2: "expired"}.get(e.get("reason"), "?"))
            if e.get("h") == "register" and e.get("resume"):
                w["resumes"] += 1
            if e.get("h", "").startswith(("exit.", "stop.")) or e.get("h") == "closed":
                continue
        inc(w["events"], k)
        if k == "dropped":
            inc(w["dropped"], e.get("reason"))
        elif k == "deliver":
            inc(w["deliver_qos"], e.get("qos"))
        elif k == "publish":
            inc(w["publish_qos"], e.get("qos"))
        elif k == "raw":
            inc(w["raw_types"], e.get("ptype"))
        elif k == "stats":
            ms = e["snap"]["global"]["MessageStats"]
            if any(c["MessageStats"]["InflightCurrent"] > 0 for c in e["snap"]["clients"].values()):
                w["snapshots_with_inflight"] += 1
            if any(c["MessageStats"]["QueuedCurrent"] > 0 for c in e["snap"]["clients"].values()):
                w["snapshots_with_queued"] += 1
    return w


def tlc_validate(ctx, trace_path, deviation=(), stopat=0, timeout=900, count=False, invariants=INV):
    """returns (accepted, hwm, res, mismatch) - mismatch = {"line", "demanded", "slack"} of a rejected snapshot or None"""
    inv = list(invariants)
    if stopat:
        inv.append("NotAtStop")
    cfg = CFG_TMPL % "\n".join(" " + i for i in inv)
    env = {"TRACE": trace_path}
    deviation = list(deviation)
    for i in range(6):
        env["KF%d" % (i + 1)] = deviation[i] if i < len(deviation) else ""
    if stopat:
        env["STOPAT"] = str(stopat)
    res = ctx.tlc(MODULE, "", cfg, name=MODULE, workers=1, timeout=timeout, env=env,
                  keep_lines=lambda ln: "TRACE-REJECTED-AT" in ln or "SNAPSHOT-MISMATCH" in ln,
                  java_opts=["-Dtlc2.tool.queue.IStateQueue=StateDeque"], count=count)
    hwm = None
    mismatch = None
    for line in res.kept:
        m = re.search(r'"TRACE-REJECTED-AT", (\d+), "OF", (\d+)', line)
        if m:
            hwm = int(m.group(1))
        m = re.match(r'<<"SNAPSHOT-MISMATCH", (\d+), (".*")>>\s*$', line)
        if m:
            try:
                d = json.loads(json.loads(m.group(2)))
                mismatch = {"line": int(m.group(1)), "demanded": d["demanded"], "slack": d.get("slack", [0]), "queues_sane": d.get("queues_sane")}
            except ValueError as e:
                raise vlib.MachineryError("cannot parse the demanded snapshot printed by TLC: %s" % e)
    accepted = res.rc == 0 and res.violation is None
    return accepted, hwm, res, mismatch


def project(snap):
    return {"global": {k: snap["global"][k] for k in ("PacketStats", "MessageStats", "ConnectionStats")},
            "clients": {c: {k: v[k] for k in ("PacketStats", "MessageStats")} for c, v in snap["clients"].items()}}


def diff(observed, demanded, slack=(0,), path=""):
    """fields of the observed snapshot that differ from the demanded one: [{path, observed, demanded}]"""
    out = []
    if demanded == [] and isinstance(observed, dict):
        demanded = {}       # ToJson prints a function with an empty domain as an empty array
    if isinstance(demanded, dict) and isinstance(observed, dict):
        for k in sorted(set(demanded) | set(observed)):
            p = path + "." + k if path else k
            if k not in observed:
                out.append({"path": p, "observed": "absent", "demanded": "present" if isinstance(demanded[k], dict) else demanded[k]})
            elif k not in demanded:
                out.append({"path": p, "observed": "present" if isinstance(observed[k], dict) else observed[k], "demanded": "absent"})
            else:
                out += diff(observed[k], demanded[k], slack, p)
        return out
    if path == "global.MessageStats.InflightCurrent" and len(slack) > 1:
        if observed not in [demanded - d for d in slack]:
            out.append({"path": path, "observed": observed, "demanded": "%d..%d" % (demanded - max(slack), demanded)})
        return out
    if observed != demanded:
        out.append({"path": path, "observed": observed, "demanded": demanded})
    return out


def general(path):
    """field path with the client id abstracted (signature of a divergence)"""
    p = path.split(".")
    if p[0] == "clients" and len(p) > 1:
        p[1] = "*"
    return ".".join(p)


def explain(seg, rel, mismatch):
    """diff for the scenario-relative line rel of segment seg (a `stats` line) against the demanded snapshot"""
    try:
        ev = json.loads(seg[rel - 1])
    except (ValueError, IndexError):
        return None
    if ev.get("e") != "stats" or not mismatch:
        return None
    return diff(project(ev["snap"]), mismatch["demanded"], tuple(mismatch.get("slack") or (0,)))


def _validate_part(ctx, todo, lines, by_id, name, d, devs, max_reject):
    rejected = []
    rounds = 0
    nvalid = 0
    while todo and rounds <= max_reject:
        rounds += 1
        cur = os.path.join(d, "%s_r%d.ndjson" % (name, rounds))
        with open(cur, "w") as fh:
            for e in todo:
                fh.write("\n".join(lines[e["from"] - 1: e["to"]]) + "\n")
        acc, hwm, res, mm = tlc_validate(ctx, cur, deviation=devs, count=True)
        if acc:
            nvalid += len(todo)
            todo = []
            break
        if "Invariant" in (res.violation or "") and hwm is not None:
            hwm -= 1
            why = "after this event " + (res.violation or "").splitlines()[0]
        elif hwm is None:
            m = re.findall(r"/\\ l = (\d+)", "\n".join(res.tail))
            hwm = int(m[-1]) - 1 if m else None
            why = "invariant: " + (res.violation or "")[:300]
        else:
            why = "the statistics logged here differ from what the specification demands" if mm else \
                  "no action of the specification explains this event"
        if hwm is None:
            raise vlib.MachineryError("trace rejected but no position found:\n" + "\n".join(res.tail[-30:]))
        pos = 0
        bad = None
        rel = 0
        for e in todo:
            n = e["to"] - e["from"] + 1
            if pos < hwm <= pos + n:
                bad, rel = e, hwm - pos
                break
            pos += n
        if bad is None:
            raise vlib.MachineryError("rejected line %s outside every scenario" % hwm)
        seg = lines[bad["from"] - 1: bad["to"]]
        r = {"scenario": by_id[bad["id"]], "trace": seg, "line": rel, "event": seg[rel - 1] if 0 < rel <= len(seg) else None,
             "why": why, "notes": bad.get("notes")}
        if mm and mm["line"] == hwm:
            r["diff"] = explain(seg, rel, mm)
            r["queues_sane"] = mm.get("queues_sane")
        rejected.append(r)
        k = todo.index(bad)
        nvalid += k
        todo = todo[k + 1:]
    return rejected, nvalid, len(todo)


def _locate(todo, hwm):
    pos = 0
    for e in todo:
        n = e["to"] - e["from"] + 1
        if pos < hwm <= pos + n:
            return e, hwm - pos
        pos += n
    return None, 0


def _leave_one_out(ctx, index, lines, by_id, name, d, devs, dv, skip):
    """is deviation dv needed?  The whole batch is validated with every open deviation but dv; the first scenario that
    is rejected then (and is accepted with dv, since the lenient pass accepted it) shows the recorded defect.
    Returns None or {scenario, line, fields}."""
    rest = [e for e in index if e["id"] not in skip]
    # growing chunks: TLC reads the whole file before it starts, and the first occurrence usually comes early
    chunks = []
    for size in (40, 200):
        if rest:
            chunks.append(rest[:size])
            rest = rest[size:]
    while rest:
        chunks.append(rest[:600])
        rest = rest[600:]
    for ci, todo in enumerate(chunks):
        cur = os.path.join(d, "%s_without_%s_%d.ndjson" % (name, dv, ci))
        with open(cur, "w") as fh:
            for e in todo:
                fh.write("\n".join(lines[e["from"] - 1: e["to"]]) + "\n")
        acc, hwm, res, mm = tlc_validate(ctx, cur, deviation=[x for x in devs if x != dv])
        os.remove(cur)
        if acc:
            continue
        if "Invariant" in (res.violation or "") and hwm is not None:
            hwm -= 1
        if hwm is None:
            raise vlib.MachineryError("leave-one-out pass for %s rejected without a position:\n%s" % (dv, "\n".join(res.tail[-20:])))
        bad, rel = _locate(todo, hwm)
        if bad is None:
            raise vlib.MachineryError("rejected line %s outside every scenario" % hwm)
        seg = lines[bad["from"] - 1: bad["to"]]
        fields = explain(seg, rel, mm) if mm and mm["line"] == hwm else None
        return {"scenario": bad["id"], "line": rel, "fields": fields, "event": None if fields else (seg[rel - 1][:300] if 0 < rel <= len(seg) else None)}
    return None


def validate(ctx, scenarios, name, par=32, jvms=3, max_reject=4):
    """Run the scenarios on the real broker and validate the traces.
    Verdict pass: the deviations of the open known findings of this property are switched on, so that the whole of
    every trace is examined; whatever is rejected there is explained by no recorded finding.  With no open finding
    this is the specification proper.
    Attribution passes (concurrently, one per open deviation): the batch is validated with that one deviation switched
    off; a rejection there is an occurrence of exactly that recorded defect (=> KNOWN-FINDING); no rejection means the
    defect did not show (e.g. it has been repaired).
    Returns (rejected, stats); stats["needs"] = {deviation: occurrence or None}."""
    devs = [k["deviation"] for k in open_deviations(ctx)]
    by_id = {s["id"]: s for s in scenarios}
    tp, index, stats = trace_lib.run_wire(ctx, scenarios, name, par=par)
    lines = annotate(open(tp).read().splitlines())
    stats["snapshots"] = sum(1 for ln in lines if ln.startswith('{"e":"stats"'))
    stats["workload"] = workload(lines)
    d = os.path.dirname(tp)
    jvms = max(1, min(jvms, len(index) // 3 or 1))
    parts = [index[i::jvms] for i in range(jvms)]
    results = {}
    needs = {}
    errors = []

    def work(pi):
        try:
            results[pi] = _validate_part(ctx, list(parts[pi]), lines, by_id, "%s_p%d" % (name, pi), d, devs, max_reject)
        except Exception as e:      # noqa
            errors.append(e)

    def loo(dv):
        try:
            needs[dv] = _leave_one_out(ctx, index, lines, by_id, name, d, devs, dv, ())
        except Exception as e:      # noqa
            errors.append(e)
    ths = [threading.Thread(target=work, args=(i,)) for i in range(jvms)] + [threading.Thread(target=loo, args=(dv,)) for dv in devs]
    for t in ths:
        t.start()
    for t in ths:
        t.join()
    if errors:
        raise errors[0]
    rejected = []
    nvalid = unexamined = 0
    for i in range(jvms):
        rj, nv, un = results[i]
        rejected += rj
        nvalid += nv
        unexamined += un
    stats["validated"] = nvalid
    stats["rejected"] = len(rejected)
    stats["unexamined"] = unexamined
    bad = {r["scenario"]["id"] for r in rejected}
    for dv in devs:
        n = 0
        while needs.get(dv) and needs[dv]["scenario"] in bad and n < 3:
            # that scenario is rejected whatever is switched on: it says nothing about this deviation
            n += 1
            needs[dv] = _leave_one_out(ctx, index, lines, by_id, name, d, devs, dv, bad)
    stats["needs"] = needs
    if scenarios:
        first = lines[index[0]["from"] - 1: index[0]["to"]]
        ctx.sample({"scenario": scenarios[0]["id"], "cfg": scenarios[0].get("cfg"), "first_steps": scenarios[0]["steps"][:8],
                    "first_events": [ln[:300] for ln in first[:6]]})
    return rejected, stats


def single(ctx, scenario, name, slow=False, deviation=()):
    """re-run one scenario alone and validate it; returns (accepted, info)"""
    tp, index, stats = trace_lib.run_wire(ctx, [scenario], name, par=1, slow=slow)
    lines = annotate(open(tp).read().splitlines())
    with open(tp, "w") as fh:
        fh.write("\n".join(lines) + "\n")
    acc, hwm, res, mm = tlc_validate(ctx, tp, deviation=deviation)
    info = {"trace": lines, "line": hwm}
    if not acc:
        if "Invariant" in (res.violation or "") and hwm is not None:
            hwm -= 1
            info["why"] = "after this event " + (res.violation or "").splitlines()[0]
        elif hwm is None:
            m = re.findall(r"/\\ l = (\d+)", "\n".join(res.tail))
            hwm = int(m[-1]) - 1 if m else len(lines)
            info["why"] = "invariant: " + (res.violation or "")[:400]
        else:
            info["why"] = "the statistics logged here differ from what the specification demands" if mm else \
                          "no action of the specification explains this event"
        info["line"] = hwm
        info["event"] = lines[hwm - 1] if 0 < hwm <= len(lines) else None
        if mm and mm["line"] == hwm:
            info["diff"] = explain(lines, hwm, mm)
    return acc, info


def signature(r):
    if r.get("diff"):
        return "stats:" + general(r["diff"][0]["path"])
    return "trace:" + trace_lib.sig_of(r.get("event") or "")


def describe(r):
    sc = r["scenario"]
    if r.get("diff"):
        fields = "; ".join("%s observed %s demanded %s" % (x["path"], x["observed"], x["demanded"]) for x in r["diff"][:6])
        more = " (+%d more fields)" % (len(r["diff"]) - 6) if len(r["diff"]) > 6 else ""
        return "scenario %s, snapshot at line %s: %s%s" % (sc["id"], r["line"], fields, more)
    return "trace of scenario %s rejected at line %s: %s -- %s" % (sc["id"], r["line"], (r.get("event") or "")[:300], r.get("why"))


def confirm(ctx, rejected, needs, limit=4):
    """* every open deviation that the attribution pass found necessary => KNOWN-FINDING (with the occurrence);
       * scenarios rejected although the deviations of all open findings were on (or there are none): re-executed alone
         in slow mode (settle after every barrier); still rejected => VIOLATION with the fields that differ; accepted
         => counted as timing_unconfirmed (a snapshot taken before the broker had finished counting)."""
    ctx.cov["rejected_scenarios"] = len(rejected)
    devs = open_deviations(ctx)
    by_dev = {k["deviation"]: k for k in devs}
    occ = ctx.cov.setdefault("known_finding_occurrences", {})
    for dv, hit in (needs or {}).items():
        if hit:
            ctx.known_finding(by_dev[dv]["what"])
            occ[dv] = {"scenario": hit["scenario"], "line": hit["line"], "fields": (hit.get("fields") or [])[:8], "event": hit.get("event")}
        else:
            occ[dv] = None
    nconf = 0
    for r in rejected:
        sc = r["scenario"]
        nconf += 1
        if nconf > limit:
            continue
        acc, info = single(ctx, sc, "slow_" + re.sub(r"\W", "_", sc["id"]), slow=True, deviation=list(by_dev))
        if acc:
            ctx.cov["timing_unconfirmed"] = ctx.cov.get("timing_unconfirmed", 0) + 1
            ctx.cov.setdefault("timing_unconfirmed_samples", []).append(
                {"scenario": sc["id"], "line": r["line"], "fields": (r.get("diff") or [])[:6], "why": r.get("why"),
                 "event": None if r.get("diff") else (r.get("event") or "")[:300]})
            continue
        r2 = {"scenario": sc, "trace": info["trace"], "line": info["line"], "event": info.get("event"), "why": info.get("why"),
              "diff": info.get("diff")}
        ctx.violation(describe(r2), {"signature": signature(r2), "kind": "wire-trace+stats", "scenario": sc, "line": r2["line"],
                                     "event": (r2.get("event") or "")[:4000], "why": r2.get("why"), "fields": r2.get("diff"),
                                     "first_run_fields": r.get("diff"), "trace": r2["trace"]})
    if ctx.cov.get("timing_unconfirmed", 0) > 5:
        raise vlib.MachineryError("too many timing-dependent rejections (%d): machinery not trustworthy on this machine" % ctx.cov["timing_unconfirmed"])


# ------------------------------------------------------------------------------------------ design-level run

ENV_CFG = """SPECIFICATION ESpec
CONSTANTS
 Deviations <- mc_Dev
 CIDs <- mc_CIDs
 MaxK = %(maxk)d
 MaxSteps = %(steps)d
 InTypes <- mc_In
 OutTypes <- mc_Out
 QoSs <- mc_QoSs
 Pids <- mc_Pids
 Reasons <- mc_Reasons
CHECK_DEADLOCK FALSE
INVARIANTS
 Conservation
 SessionsConserved
 GaugesConserved
 QueuesWellFormed
 SnapshotConserved
"""


def design_level(ctx, steps, maxk=3, cids=("a", "b"), devs=(), workers=None, timeout=900):
    """TLC checks the conservation invariants of Stats.tla on every event sequence of at most `steps` events over a
    small alphabet (StatsEnv.tla)"""
    body = "\n".join([
        "mc_CIDs == %s" % vlib.tla_set([vlib.tla_str(c) for c in cids]),
        'mc_In == {"Pingreq"}', 'mc_Out == {"Pingresp"}', "mc_QoSs == {0, 1}", "mc_Pids == {1, 2}",
        'mc_Reasons == {"full", "expiredinflight"}',
        "mc_Dev == %s" % vlib.tla_set([vlib.tla_str(x) for x in devs])])
    res = ctx.tlc("StatsEnv", body, ENV_CFG % {"maxk": maxk, "steps": steps}, name="StatsEnv", workers=workers, timeout=timeout)
    if res.violation:
        raise vlib.MachineryError("the specification Stats.tla violates its own conservation invariants (model error):\n" + res.violation[:1500])
    return res
