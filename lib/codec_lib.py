"""C06: TLC-generated codec vectors (spec/Codec.tla) piped into the real gmqtt decoder/encoder (harness/cmd/codec)."""
import json, os, subprocess
import vlib
from vlib import tla_val

CFG = """SPECIFICATION Spec
CONSTANTS
 Types <- mc_Types
 Vers <- mc_Vers
 D <- mc_D
 S <- mc_S
 PropSel <- mc_PropSel
 FaultSel <- mc_FaultSel
 RichFaults <- mc_Rich
"""

# several TLC processes run side by side (one per packet-type group): keep each JVM's helper threads few
JAVA_OPTS = ["-Xss512m", "-XX:ParallelGCThreads=2", "-XX:CICompilerCount=2"]

GROUPS = [
    ("connect", ["CONNECT"]),
    ("pub", ["CONNACK", "PUBLISH"]),
    ("rest", ["PUBACK", "PUBREC", "PUBREL", "PUBCOMP", "SUBSCRIBE", "UNSUBSCRIBE", "SUBACK", "UNSUBACK", "PINGREQ",
              "PINGRESP", "DISCONNECT", "AUTH"]),
]
ALL_TYPES = [t for _, ts in GROUPS for t in ts]
PROP_IDS = [1, 2, 3, 8, 9, 11, 17, 18, 19, 21, 22, 23, 24, 25, 26, 28, 31, 33, 34, 35, 36, 37, 38, 39, 40, 41, 42]


def b(s):
    """str/bytes -> list of byte values (a TLA+ sequence over 0..255)"""
    return list(s.encode("utf-8")) if isinstance(s, str) else list(s)


def u32(n):
    return [(n >> 24) & 255, (n >> 16) & 255, (n >> 8) & 255, n & 255]


# boundary domains (DESIGN.md C06); the first `core` entries of each list are always present
U16 = [0, 1, 65535, 127, 128, 16383, 16384, 255, 256]
U32 = [u32(x) for x in (0, 1, 0xFFFFFFFF, 127, 128, 16383, 16384, 65535, 2097151, 2097152, 268435455, 268435456,
                        0x7FFFFFFF, 0x80000000)]
VBI = [1, 127, 128, 16383, 16384, 2097151, 2097152, 268435455]
STR = [b(""), b("a"), b("a/b"), b("\ufffd"), b("\u00e9"), b("\u20ac"), b("\U0001F600"), b("\ufeff"), b("$SYS/x"), b("/"), b("a b")]
BIN = [[], [1], [255, 0], [0], [97], [0xC3]]
PAY = [[], [1], [1, 2]]
BIG1 = [123, 124, 125, 126]            # PUBLISH remaining length around 127/128
BIG2 = [16379, 16380, 16381, 16382]    # ... around 16383/16384
FILT = [b(x) for x in ("a", "+", "#", "a/b", "a/+", "a/#", "+/+", "/", "a/", "/a", "+/a/#", "$share/g/a", "$share/g/+",
                       "$share/g/#", "$SYS/#", "$share", "\u00e9/+", "$share/g//", "//")]
BADSTR = [[0xC3], [0], [0xED, 0xA0, 0x80], [0xC3, 0x28], [97, 0], [0xC0, 0x80], [0xF4, 0x90, 0x80, 0x80], [0xFF], [0xE2, 0x82],
          [0xF8, 0x88, 0x80, 0x80, 0x80]]
BADFILT = [b(x) for x in ("", "a+", "+a", "a/#/b", "#a", "a#", "a/+b", "#/a", "a/b+/c", "++", "##", "a/#/", "+#")]
BADSHARE = [b(x) for x in ("$share/", "$share//a", "$share/g", "$share/g/", "$share/+/a", "$share/#/a", "$share/g+/a",
                           "$share/g/a+", "$share/g/#/a", "$share/g#/a")]


def pick(rng, lst, k, core=1):
    """the first `core` entries plus a seed-chosen sample of the rest, k entries in total"""
    k = min(k, len(lst))
    rest = lst[core:]
    return lst[:core] + rng.sample(rest, max(0, k - core))


def domains(tier, rng):
    """value domains D (single-field deviations) and S (cartesian part) for this tier and seed"""
    if tier == "quick":
        D = dict(u16=pick(rng, U16, 5, 3), u32=pick(rng, U32, 5, 3), vbi=pick(rng, VBI, 4, 1), str=pick(rng, STR, 6, 4),
                 bin=pick(rng, BIN, 4, 3), pay=PAY, big=rng.sample(BIG1, 2) + rng.sample(BIG2, 1),
                 filt=pick(rng, FILT, 9, 3), badstr=pick(rng, BADSTR, 4, 2), badfilt=pick(rng, BADFILT, 5, 3),
                 badshare=pick(rng, BADSHARE, 4, 2))
        S = dict(D, u16=rng.sample(U16[1:], 2), u32=rng.sample(U32[1:], 1), vbi=rng.sample(VBI, 1), str=[rng.choice(STR[1:3] + STR[4:5])],
                 bin=[rng.choice(BIN[1:3])], pay=rng.sample(PAY, 2), filt=[rng.choice(FILT[:3]), rng.choice(FILT[3:8])])
        propsel = sorted(rng.sample(PROP_IDS, 9) + [38])
    else:
        D = dict(u16=U16, u32=U32, vbi=VBI, str=STR, bin=BIN, pay=PAY, big=BIG1 + BIG2, filt=FILT, badstr=BADSTR,
                 badfilt=BADFILT, badshare=BADSHARE)
        S = dict(D, u16=rng.sample(U16[1:], 2), u32=rng.sample(U32[1:], 2), vbi=rng.sample(VBI, 2),
                 str=[STR[1], rng.choice(STR[2:])], bin=[BIN[1], rng.choice(BIN[2:])], pay=PAY,
                 filt=[FILT[0], rng.choice(FILT[1:3]), rng.choice(FILT[3:])])
        propsel = sorted(rng.sample(PROP_IDS, 9) + [38])
    return D, S, propsel


def _tla(v):
    """python value -> TLA+ (tuples are sequences)"""
    if isinstance(v, tuple):
        return "<<" + ", ".join(str(x) for x in v) + ">>"
    return tla_val(v)


def tla_domain_record(d):
    parts = []
    for k, vals in d.items():
        elems = sorted({_tla(tuple(x)) if isinstance(x, (list, tuple)) else _tla(x) for x in vals})
        parts.append("%s |-> {%s}" % (k, ", ".join(elems)))
    return "[" + ", ".join(parts) + "]"


def mc_body(types, vers, D, S, propsel, faultsel, rich, extra=""):
    return "\n".join([
        "mc_Types == " + tla_val(frozenset(types)),
        "mc_Vers == " + tla_val(frozenset(vers)),
        "mc_D == " + tla_domain_record(D),
        "mc_S == " + tla_domain_record(S),
        "mc_PropSel == " + tla_val(frozenset(propsel)),
        "mc_FaultSel == " + tla_val(frozenset(faultsel)),
        "mc_Rich == " + ("TRUE" if rich else "FALSE"),
        extra,
    ])


def _consume(ctx, name, body, timeout, heap="6g"):
    bindir = ctx.go_build(["./cmd/codec"])
    res, out, rc = ctx.tlc_piped("Codec", body, CFG, [os.path.join(bindir, "codec")], name=name, workers=1,
                                 timeout=timeout, count=False, java_opts=JAVA_OPTS, heap=heap)
    if res.violation:
        # an Assert of Codec.tla failed: the specification contradicts itself (SizeFormula, Dec(Enc(p)) = p, a fault
        # operator whose output is inside the image of Enc) - machinery trouble, never a verdict about the code
        raise vlib.MachineryError("Codec.tla self-check failed in %s:\n%s" % (name, res.violation[:3000]))
    if rc != 0:
        raise vlib.MachineryError("codec driver failed rc=%s (%s)" % (rc, name))
    summary, divs = None, []
    for line in out:
        o = json.loads(line)
        if o["kind"] == "summary":
            summary = o
        else:
            divs.append(o)
    if summary is None or summary["n"] == 0:
        raise vlib.MachineryError("codec driver consumed nothing (%s)" % name)
    summary["tlc_wall_s"] = round(res.wall, 1)
    return summary, divs


def run_group(ctx, name, types, vers, D, S, propsel, faultsel=("all",), rich=False, timeout=1500):
    """TLC enumerates valid and faulted vectors of the packet types; every vector is run through the real codec"""
    body = mc_body(types, vers, D, S, propsel, faultsel, rich, "ASSUME EmitAll")
    return _consume(ctx, "Codec_" + name, body, timeout)


def run_validity(ctx, alphabet, n, m, agree_len=4, timeout=1500):
    """all byte strings up to length n over the alphabet (and $share/ + strings up to m): names / filters validity.
    The same TLC run first checks that the byte-level predicates of Codec.tla agree with the character-level ones of
    TopicStr.tla (the table C02 uses) on all strings up to agree_len over {a / + # $}."""
    D, S, propsel = domains("quick", ctx.rng.__class__(0))
    extra = "\n".join([
        'TS == INSTANCE TopicStr WITH Chars <- {"a", "/", "+", "#", "$"}, MaxLen <- %d' % agree_len,
        'C2B == "a" :> 97 @@ "/" :> 47 @@ "+" :> 43 @@ "#" :> 35 @@ "$" :> 36',
        "ASSUME \\A cs \\in TS!CharSeqs : LET bb == [i \\in 1..Len(cs) |-> C2B[cs[i]]] IN",
        '   Assert(TS!ValidName(cs) = ValidNameB(bb) /\\ TS!ValidFilter(cs) = ValidFilterB(bb), <<"TopicStr vs Codec", cs>>)',
        "ASSUME EmitValidity(%s, %d, %d)" % (tla_val(frozenset(alphabet)), n, m),
    ])
    body = mc_body([], [4], D, S, [], [], False, extra)
    return _consume(ctx, "Codec_validity", body, timeout)


def spec_verdict(ctx, vector):
    """replay: re-derive the expectation for a stored vector from the specification (Dec over the stored bytes)"""
    D, S, propsel = domains("quick", ctx.rng.__class__(0))
    by = vector.get("bytes", [])
    v = vector["p"]["v"] if vector.get("kind") == "valid" else vector.get("v", 4)
    stream = "<<%s>>" % ", ".join(str(x) for x in by)
    if not vector.get("eof"):
        stream += " \\o Guard"
    body = mc_body([], [4], D, S, [], [], False, "ASSUME PrintT(ToJson(Dec(%s, %d)))" % (stream, v))
    got = []
    ctx.tlc("Codec", body, CFG, name="Codec_replay", workers=1, timeout=300, count=False, on_line=lambda s: got.append(json.loads(s) if isinstance(s, str) else s))
    if not got:
        raise vlib.MachineryError("replay: TLC printed no verdict")
    return got[0]


def run_raw(ctx, vectors):
    """feed plain JSON vectors to the driver (replay)"""
    bindir = ctx.go_build(["./cmd/codec"])
    inp = "".join(json.dumps(v) + "\n" for v in vectors)
    r = subprocess.run([os.path.join(bindir, "codec"), "-raw"], input=inp, stdout=subprocess.PIPE, stderr=subprocess.PIPE,
                       text=True, timeout=300)
    if r.returncode != 0:
        raise vlib.MachineryError("codec driver failed in replay: " + r.stderr[-2000:])
    out = [json.loads(l) for l in r.stdout.splitlines() if l.strip()]
    return [o for o in out if o["kind"] == "summary"][0], [o for o in out if o["kind"] == "div"]
