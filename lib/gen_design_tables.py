#!/usr/bin/env python3
"""Regenerates the generated part of DESIGN.md (between the GENERATED markers): fixes, open findings, seeded changes."""
import json, os, re, glob
HERE = os.path.dirname(os.path.dirname(os.path.abspath(__file__)))


def main():
    kf = json.load(open(os.path.join(HERE, "known_findings.json")))["findings"]
    out = []
    out.append("### 10.3 Genuine defects repaired in /repo (one `fix:` commit each; recorded in known_findings.json as `fixed:`)\n")
    out.append("| property | commit | what failed |\n|---|---|---|")
    for k in kf:
        if k.get("status") == "fixed":
            line = k["line"]
            m = re.match(r"fixed: property=(\S+) (\S+) (.*)", line)
            out.append("| %s | %s | %s |" % (m.group(1), m.group(2), m.group(3).replace("|", "\\|")))
    out.append("\n### 10.4 Open known findings (genuine defects recorded, not repaired)\n")
    out.append("| property | deviation / signature(s) | what fails and why it is not repaired |\n|---|---|---|")
    for k in kf:
        if k.get("status") == "open":
            sig = k.get("deviation") or k.get("signature") or ", ".join(k.get("signatures", [])[:3]) + (" …" if len(k.get("signatures", [])) > 3 else "")
            out.append("| %s | `%s` | %s |" % (k["property"], sig, k["what"].replace("|", "\\|")))
    out.append("\n### 10.5 Seeded changes written by independent sub-agents (property text + scratch worktree only) and what catches them\n")
    out.append("| id | change | needs | confirmed (demo fails with / passes without, suite passes) | caught by | how |\n|---|---|---|---|---|---|")
    for d in sorted(glob.glob(os.path.join(HERE, "seeded", "*", "meta.json"))):
        m = json.load(open(d))
        sid = os.path.basename(os.path.dirname(d))
        ev = m.get("evaluation", {})
        chk = ev.get("check", {})
        how = (chk.get("first") or [""])[0][:160].replace("|", "\\|")
        out.append("| %s | %s | %s | %s | %s | %s |" % (sid, m.get("title", "").replace("|", "/"), str(m.get("needs", ""))[:220].replace("|", "/").replace("\n", " "),
                   "yes" if ev.get("confirmed") else ("no" if ev else "not evaluated"),
                   ("`./check %s quick` (exit 1, %d VIOLATION lines)" % (sid.split("-")[0], chk.get("violations", 0))) if ev.get("detected") else ("**missed**" if ev else ""), how))
    txt = "\n".join(out) + "\n"
    p = os.path.join(HERE, "DESIGN.md")
    s = open(p).read()
    a, b = "<!-- GENERATED:BEGIN -->", "<!-- GENERATED:END -->"
    if a in s:
        s = s[:s.index(a) + len(a)] + "\n" + txt + s[s.index(b):]
    else:
        s += "\n" + a + "\n" + txt + b + "\n"
    open(p, "w").write(s)
    print("DESIGN.md tables regenerated")


if __name__ == "__main__":
    main()
