#!/usr/bin/env python3
"""debug helper: ./lib/inspect_replay.py <replay.json> [var ...] – prints the rejected event, the preceding lines and state variables"""
import sys, json, re
o = json.load(open(sys.argv[1]))
want = sys.argv[2:] or ["owed", "infl", "ctl"]
print("WHAT:", o.get("what", "")[:400])
line = o.get("line") or 0
tr = o.get("trace", [])
for i in range(max(0, line - 14), min(len(tr), line + 1)):
    print("%s%4d %s" % (">>" if i == line - 1 else "  ", i + 1, tr[i][:300]))
st = o.get("state") or ""
for v in want:
    m = re.search(r"/\\ %s = (.*?)(?=\n/\\ [a-z]+ = |\Z)" % v, st, re.S)
    print("STATE %s = %s" % (v, (m.group(1)[:2500] if m else "?")))
