"""Transition-coverage replay of SubStore.tla into the real subscription store (C02, C11 store layer)."""
import itertools, json, os, subprocess, threading
import vlib
from vlib import tla_str, tla_set, tla_seq, tla_levels, tla_val

OPTS = [
    {"qos": 0, "nl": False, "rap": False, "rh": 0, "id": 0},
    {"qos": 2, "nl": True, "rap": True, "rh": 1, "id": 7},
    {"qos": 1, "nl": False, "rap": True, "rh": 2, "id": 0},
]


def split_full(full):
    if full.startswith("$share/"):
        p = full.split("/", 2)
        return p[1], p[2]
    return "", full


def topic_universe(filters, depth, extra_levels=("z",), sys_levels=()):
    """all level sequences up to `depth` over the literal levels used by the filters (+ extras);
    '$'-levels only in first position"""
    lits = set(extra_levels)
    for f in filters:
        _, flt = split_full(f)
        for lv in flt.split("/"):
            if lv not in ("+", "#") and not lv.startswith("$"):
                lits.add(lv)
    lits = sorted(lits)
    firsts = lits + sorted(sys_levels)
    topics = []
    for d in range(1, depth + 1):
        for first in firsts:
            for rest in itertools.product(lits, repeat=d - 1):
                t = "/".join((first,) + rest)
                if t == "":
                    continue          # the empty string is not a topic name
                topics.append(t)
    return topics


def mc_body(clients, filters, topics, opts, maxlive, maxtotal, sys_levels):
    frecs = []
    for full in filters:
        sh, f = split_full(full)
        frecs.append("[n |-> %s, share |-> %s, f |-> %s, lv |-> %s]" % (tla_str(full), tla_str(sh), tla_str(f), tla_levels(f)))
    trecs = ["[n |-> %s, lv |-> %s]" % (tla_str(t), tla_levels(t)) for t in topics]
    return "\n".join([
        "mc_Clients == " + tla_set([tla_str(c) for c in clients]),
        "mc_Filters == " + tla_set(frecs),
        "mc_TopicSet == " + tla_set(trecs),
        "mc_OptSet == " + tla_set([tla_val(o) for o in opts]),
        "mc_SysLevels == " + tla_set([tla_str(s) for s in sys_levels]),
        "mc_MaxLive == %d" % maxlive,
        "mc_MaxTotal == %d" % maxtotal,
        "ASSUME PrintT(ToJson([match |-> MatchTable]))",
        "DumpAC == Dump",
    ])


CFG = """SPECIFICATION Spec
CONSTANTS
 Clients <- mc_Clients
 Filters <- mc_Filters
 TopicSet <- mc_TopicSet
 OptSet <- mc_OptSet
 SysLevels <- mc_SysLevels
 MaxLive <- mc_MaxLive
 MaxTotal <- mc_MaxTotal
VIEW view
CONSTRAINT Bound
ACTION_CONSTRAINT DumpAC
INVARIANTS TypeOK CountsOK
PROPERTIES LeaverIsolated UnsubExact
"""


def run_pack(ctx, name, clients, filters, nopts, maxlive, maxtotal, depth, sys_levels=("$s",), workers=8,
             timeout=900, target="mem"):
    """model-check the pack and replay every emitted transition; returns summary dict"""
    bindir = ctx.go_build(["./cmd/substore"])
    topics = topic_universe(filters, depth, sys_levels=[s for s in sys_levels])
    meta = {"clients": clients, "filters": filters, "topics": topics}
    mpath = os.path.join(ctx.tmp("meta"), name + ".json")
    with open(mpath, "w") as fh:
        json.dump(meta, fh)
    body = mc_body(clients, filters, topics, OPTS[:nopts], maxlive, maxtotal, sys_levels)
    res, out, rc = ctx.tlc_piped("SubStore", body, CFG, [os.path.join(bindir, "substore"), "-meta", mpath, "-target", target],
                                 name="SubStore_" + name, workers=workers, timeout=timeout)
    if res.violation:
        raise vlib.MachineryError("design-level check of SubStore failed (model bug):\n" + res.violation)
    if rc != 0:
        raise vlib.MachineryError("substore replayer failed rc=%s" % rc)
    summary = None
    divs = []
    for line in out:
        o = json.loads(line)
        if o["kind"] == "summary":
            summary = o
        elif o["kind"] == "div":
            divs.append(o)
    if summary is None:
        raise vlib.MachineryError("substore replayer printed no summary")
    # every emitted transition must have been consumed (exhaustive TC)
    ctx.cov["traces_validated_against_impl"] += summary["n"]
    ctx.cov["evaluations"] += summary["n"]
    ctx.cov["distinct_nontrivial"] += summary["nontrivial"]
    for s in summary["samples"][:1]:
        ctx.sample({"pack": name, "transition": s})
    ctx.cov.setdefault("packs", []).append({"pack": name, "clients": len(clients), "filters": filters, "topics": len(topics),
                                            "max_live": maxlive, "states": res.distinct, "transitions_replayed": summary["n"],
                                            "match_pairs": summary.get("match_pairs"), "target": target})
    return summary, divs, meta
