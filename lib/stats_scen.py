"""Scenario generators for C20 (statistics).  Seeded; every random choice comes from the rng given.

Discipline that keeps ground truth exact (DESIGN.md C20, BUILDING.md):
  * every scenario runs with "hooks": true (register / unregister / terminated / enqueue events);
  * a snapshot (`stats`) is only taken right after  barrier + short settle  (SNAP): everything a client sent has been
    answered (ack or PINGRESP) and everything the broker sent has been read by the client;
  * a connection is ended (DISCONNECT, abort, take-over, TerminateSession, protocol error) only right after a SNAP,
    so nothing is on its way to a socket that is about to be closed (no unobservable bytes);
  * nothing is written to a connection after it has ended (the generator tracks which connections are up);
  * no RETAIN: the retained replay puts copies into a queue without an `enqueue` event.
"""
import random
from scen import connect, sub, pub, api, BARRIER, pad_for

SETTLE_MS = 80


def snap():
    return [dict(BARRIER), {"op": "sleep", "ms": SETTLE_MS}, {"op": "stats"}]


def _sc(sid, cfg, steps):
    return {"id": sid, "hooks": True, "cfg": cfg, "steps": steps}


class World:
    """bookkeeping of a scenario under construction: which connection is up for which client"""

    def __init__(self, rng):
        self.rng = rng
        self.steps = []
        self.nextk = 0
        self.up = {}        # cid -> k
        self.cl = {}        # cid -> dict(ver, persistent, manual, recvmax, maxpkt)
        self.ntag = 0
        self.pending = {}   # cid -> number of `ack auto` steps that still make sense (manual clients)

    def tag(self):
        self.ntag += 1
        return "m%d" % self.ntag

    def add_client(self, cid, ver, persistent, manual=False, recvmax=0, maxpkt=0):
        self.cl[cid] = {"ver": ver, "persistent": persistent, "manual": manual, "recvmax": recvmax, "maxpkt": maxpkt}

    def connect(self, cid, clean=None, expiry="default"):
        c = self.cl[cid]
        self.nextk += 1
        k = self.nextk
        kw = {}
        if clean is None:
            clean = not c["persistent"]
        if c["ver"] == 5:
            if expiry == "default":
                expiry = 100 if c["persistent"] else 0
            if expiry is not None:
                kw["expiry"] = expiry
            if c["recvmax"]:
                kw["recvmax"] = c["recvmax"]
            if c["maxpkt"]:
                kw["maxpkt"] = c["maxpkt"]
        if c["manual"]:
            kw["manualack"] = True
        self.steps.append(connect(k, cid, c["ver"], clean, **kw))
        self.up[cid] = k            # a displaced connection (take-over) is simply forgotten
        return k

    def online(self):
        return sorted(self.up)

    def k(self, cid):
        return self.up[cid]

    def snap(self):
        self.steps += snap()

    def end(self, cid, how):
        """end the connection of cid (right after a snapshot): how in disconnect | abort | terminate"""
        k = self.up.pop(cid)
        if how == "terminate":
            # TerminateSession closes the connection asynchronously and sends nothing; the `abort` that follows makes the
            # driver wait until the broker has unregistered the connection (and keeps the next barrier from publishing a
            # sentinel into a session that is being torn down - a copy handed to a dying connection is unobservable)
            self.steps += [{"op": "terminate", "cid": cid}, {"op": "sleep", "ms": 30}, {"op": "abort", "k": k}, {"op": "sleep", "ms": 100}]
        else:
            self.steps.append({"op": how, "k": k})

    def session_kept(self, cid):
        c = self.cl[cid]
        return c["persistent"]


TOPICS = ["t", "t/u", "x"]
FILTERS = ["t", "t/#", "+", "x", "t/u", "#"]


def _traffic(w, rng, n, subscribed):
    """n random protocol steps on the connections that are up"""
    for _ in range(n):
        on = w.online()
        if not on:
            return
        cid = rng.choice(on)
        k = w.k(cid)
        r = rng.random()
        if r < 0.16:
            fs = rng.sample(FILTERS, rng.choice([1, 1, 2]))
            w.steps.append(sub(k, [{"n": f, "qos": rng.randrange(3)} for f in fs]))
            subscribed.setdefault(cid, set()).update(fs)
        elif r < 0.22 and subscribed.get(cid):
            f = rng.choice(sorted(subscribed[cid]))
            names = [f] if rng.random() < 0.7 else [f, "nosuch/filter"]
            w.steps.append({"op": "unsubscribe", "k": k, "names": names})
            subscribed[cid].discard(f)
        elif r < 0.72:
            kw = {}
            if w.cl[cid]["ver"] == 5 and rng.random() < 0.2:
                kw["msgexp"] = 100
            w.steps.append(pub(k, rng.choice(TOPICS), rng.randrange(3), w.tag(), **kw))
        elif r < 0.80:
            w.steps.append(api(rng.choice(TOPICS), rng.randrange(3), w.tag()))
        elif r < 0.88:
            w.steps.append({"op": "ping", "k": k})
        else:
            man = [c for c in on if w.cl[c]["manual"]]
            if man:
                c = rng.choice(man)
                w.steps.append({"op": "ack", "k": w.k(c), "t": "auto", "sel": rng.randrange(4)})
            else:
                w.steps.append({"op": "ping", "k": k})


def mixed(rng, sid, nscen):
    """random workloads over 2-4 clients: every packet type of an accepted connection, every QoS in both directions,
    manual acknowledgements (copies in flight at a snapshot), small windows, offline queueing, resume, take-over,
    clean start over a stored session, TerminateSession, abort"""
    out = []
    for i in range(nscen):
        cfg = {"mode": rng.choice(["overlap", "onlyonce"]), "qq0": rng.random() < 0.6,
               "maxinflight": rng.choice([100, 100, 3]), "maxqueued": rng.choice([1000, 1000, 6])}
        w = World(rng)
        ncl = rng.choice([2, 3, 3, 4])
        for j in range(ncl):
            ver = rng.choice([3, 4, 5, 5])
            w.add_client("c%d" % j, ver, persistent=rng.random() < 0.6, manual=rng.random() < 0.25,
                         recvmax=rng.choice([0, 0, 2]) if ver == 5 else 0)
        subscribed = {}
        for cid in sorted(w.cl):
            w.connect(cid)
        for ph in range(rng.choice([2, 3, 4])):
            _traffic(w, rng, rng.randrange(5, 12), subscribed)
            w.snap()
            # one lifecycle event, right after the snapshot
            r = rng.random()
            on = w.online()
            off = [c for c in sorted(w.cl) if c not in w.up]
            if r < 0.22 and on:
                cid = rng.choice(on)
                w.end(cid, "disconnect")
                if not w.session_kept(cid):
                    subscribed.pop(cid, None)
            elif r < 0.32 and on:
                cid = rng.choice(on)
                w.end(cid, "abort")
                if not w.session_kept(cid):
                    subscribed.pop(cid, None)
            elif r < 0.44 and on:
                cid = rng.choice(on)
                w.end(cid, "terminate")
                subscribed.pop(cid, None)
            elif r < 0.58 and on:
                # take-over: a second connection with the id of an online client
                cid = rng.choice(on)
                clean = rng.random() < 0.4
                if clean or not w.session_kept(cid):
                    subscribed.pop(cid, None)
                w.connect(cid, clean=clean or not w.cl[cid]["persistent"])
            elif r < 0.80 and off:
                cid = rng.choice(off)
                clean = rng.random() < 0.3
                if clean:
                    subscribed.pop(cid, None)
                w.connect(cid, clean=clean or not w.cl[cid]["persistent"])
            elif r < 0.88 and off:
                # administrative termination of a stored (or already gone) session
                cid = rng.choice(off)
                w.steps += [{"op": "terminate", "cid": cid}, {"op": "sleep", "ms": 20}]
                subscribed.pop(cid, None)
            w.snap()
        for cid in w.online():
            w.end(cid, rng.choice(["disconnect", "disconnect", "abort"]))
        w.steps += [{"op": "sleep", "ms": SETTLE_MS}, {"op": "stats"}]
        out.append(_sc("%s-mix%d" % (sid, i), cfg, w.steps))
    return out


INFLIGHT_EXPIRY_MS = 30000      # config default mqtt.inflight_expiry (the wire driver has no knob for it)


def drops(rng, sid, nscen, inflight_wait=False):
    """one scenario per drop reason in turn: queue full (offline / window-blocked subscriber / every copy in flight),
    expired (configured or publisher-given lifetime), oversize (subscriber's Maximum Packet Size); with inflight_wait
    only the family that waits until the unacknowledged front of a full queue has outlived inflight_expiry (30 s)"""
    out = []
    for i in range(nscen):
        fam = ["full_offline", "full_window", "expired", "oversize", "full_inflight"][i % 5]
        if inflight_wait:
            fam = "expired_inflight"
        cfg = {"mode": "overlap", "qq0": True}
        w = World(rng)
        sver = rng.choice([4, 5, 5])
        if fam == "full_offline":
            m = rng.choice([1, 2, 3, 4])
            cfg["maxqueued"] = m
            cfg["qq0"] = rng.random() < 0.8
            w.add_client("s", sver, persistent=True)
            w.add_client("p", rng.choice([3, 4, 5]), persistent=False)
            ks = w.connect("s")
            kp = w.connect("p")
            w.steps.append(sub(ks, [{"n": "d/#", "qos": rng.choice([1, 2, 2])}]))
            w.snap()
            w.end("s", rng.choice(["disconnect", "abort"]))
            for _ in range(m + rng.randrange(1, 5)):
                w.steps.append(pub(kp, "d/x", rng.randrange(3), w.tag()))
            w.snap()
            ks = w.connect("s")            # resume: the whole queue is handed out in one batch
            w.snap()
            w.end("s", "disconnect")
            w.snap()
            if rng.random() < 0.5:
                # the stored session is ended with whatever it still holds
                w.steps += [{"op": "terminate", "cid": "s"}, {"op": "sleep", "ms": 20}]
                w.snap()
        elif fam == "full_window":
            m = rng.choice([1, 2, 3])
            cfg["maxqueued"] = m + 1
            w.add_client("s", 5, persistent=rng.random() < 0.5, manual=True, recvmax=1)
            w.add_client("p", rng.choice([4, 5]), persistent=False)
            ks = w.connect("s")
            kp = w.connect("p")
            w.steps.append(sub(ks, [{"n": "d/#", "qos": rng.choice([1, 2])}]))
            w.snap()
            for _ in range(m + rng.randrange(2, 5)):
                w.steps.append(pub(kp, "d/x", rng.choice([0, 1, 1, 2]), w.tag()))
            w.snap()
            for _ in range(rng.randrange(1, 5)):
                w.steps.append({"op": "ack", "k": ks, "t": "auto", "sel": 0})
                w.steps.append({"op": "ping", "k": ks})
            w.snap()
        elif fam == "expired":
            by_cfg = rng.random() < 0.5
            if by_cfg:
                cfg["msgexpiry"] = 1
            w.add_client("s", sver, persistent=True)
            w.add_client("p", 5, persistent=False)
            ks = w.connect("s")
            kp = w.connect("p")
            w.steps.append(sub(ks, [{"n": "d/#", "qos": rng.choice([0, 1, 2])}]))
            w.snap()
            w.end("s", "disconnect")
            n = rng.randrange(1, 4)
            for _ in range(n):
                w.steps.append(pub(kp, "d/x", rng.randrange(3), w.tag(), **({} if by_cfg else {"msgexp": 1})))
            if not by_cfg:
                for _ in range(rng.randrange(0, 3)):
                    w.steps.append(pub(kp, "d/y", rng.randrange(3), w.tag(), msgexp=100))
            w.snap()
            w.steps.append({"op": "sleep", "ms": 1700})
            ks = w.connect("s")
            w.snap()
        elif fam == "oversize":
            M = rng.choice([30, 40, 60])
            qs = rng.randrange(3)
            w.add_client("s", 5, persistent=rng.random() < 0.5, maxpkt=M)
            w.add_client("p", rng.choice([4, 5]), persistent=False)
            ks = w.connect("s")
            kp = w.connect("p")
            w.steps.append(sub(ks, [{"n": "d/#", "qos": qs}]))
            w.snap()
            for _ in range(rng.randrange(2, 6)):
                qos = rng.randrange(3)
                big = rng.random() < 0.6
                fq = min(qos, qs)
                plen = pad_for("d/x", fq, M + (rng.choice([1, 5, 40]) if big else -rng.choice([0, 3, 8])))
                if plen is None or plen < 4:
                    plen = 4
                w.steps.append(pub(kp, "d/x", qos, w.tag(), pad=plen, fq=fq))
            w.snap()
        else:   # full_inflight / expired_inflight: the queue is full of unacknowledged copies (whose lifetime is over)
            m = rng.choice([1, 2])
            cfg["maxqueued"] = m
            cfg["msgexpiry"] = 1
            w.add_client("s", 5, persistent=rng.random() < 0.5, manual=True)
            w.add_client("p", rng.choice([4, 5]), persistent=False)
            # the sentinel subscription would add copies to the small queue: this subscriber has none
            w.nextk += 1
            ks = w.nextk
            w.steps.append(connect(ks, "s", 5, not w.cl["s"]["persistent"], manualack=True, nosentinel=True,
                                   expiry=100 if w.cl["s"]["persistent"] else 0))
            w.up["s"] = ks
            kp = w.connect("p")
            w.steps.append(sub(ks, [{"n": "d/#", "qos": rng.choice([1, 2])}]))
            for _ in range(m):
                w.steps.append(pub(kp, "d/x", rng.choice([1, 2]), w.tag()))
            w.steps += [{"op": "ping", "k": ks}, {"op": "sleep", "ms": 80}, {"op": "ping", "k": ks}, {"op": "sleep", "ms": SETTLE_MS},
                        {"op": "stats"}, {"op": "sleep", "ms": INFLIGHT_EXPIRY_MS + 700 if inflight_wait else 300}]
            for _ in range(rng.randrange(1, 3)):
                w.steps.append(pub(kp, "d/x", rng.choice([1, 2]), w.tag()))
            w.steps += [{"op": "ping", "k": ks}, {"op": "sleep", "ms": 80}, {"op": "ping", "k": ks}, {"op": "sleep", "ms": SETTLE_MS},
                        {"op": "stats"}]
            for _ in range(rng.randrange(0, 3)):
                w.steps.append({"op": "ack", "k": ks, "t": "auto", "sel": 0})
                w.steps.append({"op": "ping", "k": ks})
            w.steps += [{"op": "ping", "k": ks}, {"op": "sleep", "ms": 80}, {"op": "ping", "k": ks}, {"op": "sleep", "ms": SETTLE_MS},
                        {"op": "stats"}]
        for cid in w.online():
            w.end(cid, "disconnect")
        w.steps += [{"op": "sleep", "ms": SETTLE_MS}, {"op": "stats"}]
        out.append(_sc("%s-drop%d-%s" % (sid, i, fam), cfg, w.steps))
    return out


def lifecycle(rng, sid, nscen, expiry_wait=False):
    """sessions that end while they hold messages: TerminateSession (online / offline), Clean Start over a stored session,
    take-over (clean or not) of a session with copies queued or in flight; with expiry_wait also the 20 s expiry sweep"""
    out = []
    kinds = ["terminate_offline", "clean_over_stored", "takeover_clean", "takeover_resume", "terminate_online", "batch_resume"]
    if expiry_wait:
        kinds = ["expiry_sweep"]
    for i in range(nscen):
        kind = kinds[i % len(kinds)]
        cfg = {"mode": "overlap", "qq0": True}
        w = World(rng)
        sver = rng.choice([4, 5, 5])
        manual = kind in ("takeover_clean", "takeover_resume", "terminate_online") and rng.random() < 0.7
        w.add_client("s", sver, persistent=True, manual=manual)
        w.add_client("p", rng.choice([3, 4, 5]), persistent=False)
        ks = w.connect("s", expiry=1 if kind == "expiry_sweep" and sver == 5 else "default")
        kp = w.connect("p")
        if kind == "expiry_sweep" and sver != 5:
            cfg["sessexpiry"] = 1
        w.steps.append(sub(ks, [{"n": "l/#", "qos": rng.choice([1, 2])}]))
        w.snap()
        nmsg = rng.randrange(2, 6)
        if kind in ("terminate_offline", "clean_over_stored", "batch_resume", "expiry_sweep"):
            w.end("s", "disconnect")
            for _ in range(nmsg):
                w.steps.append(pub(kp, "l/x", rng.choice([0, 1, 1, 2]), w.tag()))
            w.snap()
            if kind == "terminate_offline":
                w.steps += [{"op": "terminate", "cid": "s"}, {"op": "sleep", "ms": 20}]
                w.snap()
                ks = w.connect("s")
            elif kind == "clean_over_stored":
                ks = w.connect("s", clean=True)
            elif kind == "batch_resume":
                ks = w.connect("s")
            else:
                w.steps.append({"op": "sleep", "ms": 21500})
            w.snap()
        else:
            for _ in range(nmsg):
                w.steps.append(pub(kp, "l/x", rng.choice([0, 1, 1, 2]), w.tag()))
            w.snap()
            if kind == "takeover_clean":
                ks = w.connect("s", clean=True)
            elif kind == "takeover_resume":
                ks = w.connect("s")
            else:
                w.end("s", "terminate")
            w.snap()
            if manual and "s" in w.up:
                for _ in range(rng.randrange(1, 4)):
                    w.steps.append({"op": "ack", "k": w.k("s"), "t": "auto", "sel": 0})
                w.snap()
        for _ in range(rng.randrange(0, 3)):
            w.steps.append(pub(kp, "l/y", rng.randrange(3), w.tag()))
        w.snap()
        for cid in w.online():
            w.end(cid, "disconnect")
        w.steps += [{"op": "sleep", "ms": SETTLE_MS}, {"op": "stats"}]
        out.append(_sc("%s-life%d-%s" % (sid, i, kind), cfg, w.steps))
    return out


def auth(rng, sid, nscen):
    """an MQTT 5 client sends AUTH (re-authentication) on an established connection: the packet is received and
    counted; the broker (no OnReAuth hook) ends the connection with a protocol error"""
    out = []
    for i in range(nscen):
        w = World(rng)
        w.add_client("a", 5, persistent=rng.random() < 0.5)
        w.add_client("b", rng.choice([4, 5]), persistent=False)
        ka = w.connect("a")
        kb = w.connect("b")
        w.steps.append(sub(kb, [{"n": "t", "qos": 1}]))
        w.steps.append(pub(ka, "t", 1, w.tag()))
        w.snap()
        # AUTH, reason code 0x19 (re-authenticate), property length 0
        w.steps.append({"op": "raw", "k": ka, "hex": "f0021900"})
        w.up.pop("a")
        # the broker answers with DISCONNECT (read by the client) and closes; the barrier must not find the connection half open
        w.steps.append({"op": "sleep", "ms": 250})
        w.snap()
        w.end("b", "disconnect")
        w.steps += [{"op": "sleep", "ms": SETTLE_MS}, {"op": "stats"}]
        out.append(_sc("%s-auth%d" % (sid, i), {"mode": "overlap", "qq0": True}, w.steps))
    return out


def sizes(rng, sid):
    """PUBLISH packets whose Remaining Length sits on and next to the boundaries of its variable-length encoding (127/128,
    16383/16384): byte counters must equal the bytes on the wire, received and sent, for both protocol versions"""
    out = []
    for pv in (4, 5):
        w = World(rng)
        w.add_client("s4", 4, persistent=False)
        w.add_client("s5", 5, persistent=False)
        w.add_client("p", pv, persistent=False)
        k4, k5, kp = w.connect("s4"), w.connect("s5"), w.connect("p")
        w.steps += [sub(k4, [{"n": "z", "qos": 1}]), sub(k5, [{"n": "z", "qos": 1}])]
        for rem in (126, 127, 128, 129, 16382, 16383, 16384, 16385):
            q = rng.randrange(2)
            plen = rem - (2 + 1 + (2 if q else 0) + (1 if pv == 5 else 0))
            w.steps.append(pub(kp, "z", q, w.tag(), pad=plen))
        w.snap()
        for c in ("s4", "s5", "p"):
            w.end(c, "disconnect")
        w.steps += [{"op": "sleep", "ms": SETTLE_MS}, {"op": "stats"}]
        out.append(_sc("%s-sizes%d" % (sid, pv), {"mode": "overlap", "qq0": True}, w.steps))
    return out


def all_packets(rng, sid):
    """one fixed scenario that exchanges every packet type the broker counts (minimal, used for the samples)"""
    w = World(rng)
    w.add_client("s", 5, persistent=True)
    w.add_client("p", 4, persistent=False)
    ks = w.connect("s")
    kp = w.connect("p")
    w.steps += [sub(ks, [{"n": "t", "qos": 2}]), sub(kp, [{"n": "r", "qos": 2}]),
                pub(kp, "t", 0, "a0"), pub(kp, "t", 1, "a1"), pub(kp, "t", 2, "a2"),
                pub(ks, "r", 0, "b0"), pub(ks, "r", 1, "b1"), pub(ks, "r", 2, "b2"),
                {"op": "unsubscribe", "k": ks, "names": ["t"]}, {"op": "ping", "k": ks}]
    w.snap()
    w.end("s", "disconnect")
    w.end("p", "disconnect")
    w.steps += [{"op": "sleep", "ms": SETTLE_MS}, {"op": "stats"}]
    return [_sc("%s-all" % sid, {"mode": "overlap", "qq0": True}, w.steps)]
