"""Transition-coverage replay of Retained.tla into the real retained store retained/trie (C07 store layer).

run(ctx, tier) -> (summary, divergences)
  summary      {"packs": [{pack, topics, filters, max_kept, states, generated, transitions_replayed, nontrivial,
                           match_pairs, wall_s}], "n": total transitions replayed, "nontrivial": .., "divergences": ..}
  divergences  list of {"signature", "what", "line" (the transition: pre, op, ret), "pack", "meta"}; at most 3 per
               signature and pack (tc.Reporter)
A design-level failure of the model (TypeOK, QueriesOK, StepExact) or a dead replayer raises vlib.MachineryError.
"""
import json, os
import vlib
from vlib import tla_str, tla_set, tla_levels, tla_val

MSGS = [{"tag": "m1", "qos": 0}, {"tag": "m2", "qos": 1}, {"tag": "m3", "qos": 2}]
SYS_LEVELS = ["$s", "$t"]

# every pack: (topics that can be kept / asked for by name, filters asked for)
PACKS = {
    # prefix-related names; parent match of 'a/#'; '+' never crosses a level
    "prefix": (["a", "a/b", "a/b/c", "a/c", "b", "b/c"],
               ["a", "a/b", "a/b/c", "x", "+", "#", "a/+", "a/#", "+/+", "+/#", "a/+/c", "+/b", "+/c", "a/b/#", "a/b/+",
                "+/+/+", "+/+/#", "b/#", "a/b/c/#", "a/b/c/+"]),
    # empty levels
    "empty": (["a/", "/a", "a//b", "/", "a", "a/b", "//"],
              ["a/", "/a", "a//b", "/", "//", "a", "+", "#", "a/+", "a/#", "+/+", "/+", "+/", "/#", "+/#", "+/+/+", "a/+/b",
               "+//", "+/+/b", "a//#", "a//+", "//#"]),
    # '$' names: no wildcard match on the first level
    "sys": (["$s/x", "$s", "$s/x/y", "$t/x", "s/x", "x"],
            ["$s/x", "$s", "$s/#", "$s/+", "$s/+/y", "$s/x/#", "$t/#", "$t/+", "#", "+", "+/x", "+/#", "+/+", "+/+/+", "x", "s/+",
             "s/#"]),
    # everything at once
    "mixed": (["a", "a/b", "a/b/c", "a/", "/a", "a//b", "/", "$s/x"],
              ["a/b", "+", "#", "a/+", "a/#", "+/+", "$s/#", "$s/+", "/", "/+", "+/", "/#", "a/+/c", "a/+/b", "+/+/+", "+/#",
               "a//b", "$s/x"]),
}

CFG = """SPECIFICATION Spec
CONSTANTS
 TopicSet <- mc_TopicSet
 FilterSet <- mc_FilterSet
 Msgs <- mc_Msgs
 SysLevels <- mc_SysLevels
 MaxKept <- mc_MaxKept
VIEW view
CONSTRAINT Bound
ACTION_CONSTRAINT DumpAC
INVARIANTS TypeOK QueriesOK
PROPERTIES StepExact
"""


def mc_body(topics, filters, msgs, maxkept):
    trecs = ["[n |-> %s, lv |-> %s]" % (tla_str(t), tla_levels(t)) for t in topics]
    frecs = ["[n |-> %s, lv |-> %s]" % (tla_str(f), tla_levels(f)) for f in filters]
    return "\n".join([
        "mc_TopicSet == " + tla_set(trecs),
        "mc_FilterSet == " + tla_set(frecs),
        "mc_Msgs == " + tla_set([tla_val(m) for m in msgs]),
        "mc_SysLevels == " + tla_set([tla_str(s) for s in SYS_LEVELS]),
        "mc_MaxKept == %d" % maxkept,
        "ASSUME PrintT(ToJson([match |-> MatchTable]))",
        "DumpAC == Dump",
    ])


def run_pack(ctx, name, topics, filters, nmsgs, maxkept, workers=8, timeout=600):
    """model-check one pack and replay every emitted transition; returns (summary of the replayer, divs, meta, TlcResult)"""
    for t in topics:
        if t.startswith("$") and t.split("/")[0] not in SYS_LEVELS:
            raise vlib.MachineryError("pack %s: '$' level of %s is not in SysLevels" % (name, t))
    bindir = ctx.go_build(["./cmd/retained"])
    meta = {"topics": topics, "filters": filters}
    mpath = os.path.join(ctx.tmp("meta"), "retained_" + name + ".json")
    with open(mpath, "w") as fh:
        json.dump(meta, fh)
    body = mc_body(topics, filters, MSGS[:nmsgs], maxkept)
    res, out, rc = ctx.tlc_piped("Retained", body, CFG, [os.path.join(bindir, "retained"), "-meta", mpath],
                                 name="Retained_" + name, workers=workers, timeout=timeout)
    if res.violation:
        raise vlib.MachineryError("design-level check of Retained failed (model bug):\n" + res.violation)
    if rc != 0:
        raise vlib.MachineryError("retained replayer failed rc=%s" % rc)
    summary, divs = None, []
    for line in out:
        o = json.loads(line)
        if o["kind"] == "summary":
            summary = o
        elif o["kind"] == "div":
            divs.append(o)
    if summary is None:
        raise vlib.MachineryError("retained replayer printed no summary")
    # exhaustive TC: every generated successor within the bound was emitted and consumed
    if summary["n"] == 0 or res.distinct == 0:
        raise vlib.MachineryError("retained pack %s: nothing replayed" % name)
    return summary, divs, meta, res


def run(ctx, tier):
    if tier == "quick":
        # "mixed" has every required shape; one of the focused packs rotates with the seed (each TLC start costs seconds)
        others = sorted(n for n in PACKS if n != "mixed")
        plan = [("mixed", 2, 3), (others[ctx.seed % len(others)], 2, 3)]
    else:
        plan = [(n, 2, 5) for n in sorted(PACKS)] + [("mixed", 3, 4)]
    total = {"packs": [], "n": 0, "nontrivial": 0, "divergences": 0}
    alldivs = []
    for name, nmsgs, maxkept in plan:
        topics, filters = PACKS[name]
        summary, divs, meta, res = run_pack(ctx, name, topics, filters, nmsgs, maxkept)
        vlib.log("[retained] pack %-6s msgs=%d kept<=%d states=%d transitions=%d divergences=%d (%.1fs)" % (
            name, nmsgs, maxkept, res.distinct, summary["n"], summary["divergences"], res.wall))
        ctx.cov["traces_validated_against_impl"] += summary["n"]
        ctx.cov["evaluations"] += summary["n"]
        ctx.cov["distinct_nontrivial"] += summary["nontrivial"]
        for s in summary["samples"][:1]:
            ctx.sample({"retained_pack": name, "transition": s})
        p = {"pack": name, "topics": topics, "filters": filters, "msgs": nmsgs, "max_kept": maxkept, "states": res.distinct,
             "generated": res.generated, "transitions_replayed": summary["n"], "nontrivial": summary["nontrivial"],
             "match_pairs": summary.get("match_pairs"), "wall_s": round(res.wall, 1)}
        total["packs"].append(p)
        ctx.cov.setdefault("retained_packs", []).append(p)
        total["n"] += summary["n"]
        total["nontrivial"] += summary["nontrivial"]
        total["divergences"] += summary["divergences"]
        for d in divs:
            d["pack"] = name
            d["meta"] = meta
        alldivs += divs
    return total, alldivs
