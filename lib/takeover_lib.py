"""C05 schedule gating: TakeOver.tla enumerates every schedule (order of arrivals and gate releases) of N simultaneous
CONNECTs on one client id; each schedule becomes a wire scenario whose gated connections are released in TLC's order."""
import itertools, json
import vlib, scen

CFG = """SPECIFICATION Spec
CONSTANTS
 N = %(n)d
 Pres <- mc_Pres
 ParSet <- mc_ParSet
 Mutant = "%(mutant)s"
%(constraint)s
INVARIANTS OneLive DisplacedClosedFirst StoredWhenOnline
%(props)s
"""

PRES = ["none", "offline", "online", "online0"]


def tla_par(p):
    return "[clean |-> %s, exp |-> %d]" % ("TRUE" if p["clean"] else "FALSE", p["exp"])


def all_pars(n):
    one = [{"clean": c, "exp": e} for c in (False, True) for e in (0, 1000)]
    return [list(x) for x in itertools.product(one, repeat=n)]


def run_model(ctx, n, pres, pars, mutant="", dump=True, liveness=True, name=None, workers=4, timeout=900):
    """returns (TlcResult, schedules)"""
    body = "mc_Pres == %s\nmc_ParSet == %s\n" % (
        vlib.tla_set([vlib.tla_str(p) for p in pres]),
        vlib.tla_set(["<<" + ", ".join(tla_par(p) for p in ps) + ">>" for ps in pars]))
    cfg = CFG % {"n": n, "mutant": mutant, "constraint": "CONSTRAINT Dump" if dump else "",
                 "props": "PROPERTIES Ends" if liveness and not mutant else ""}
    seen, out = set(), []

    def on_line(o):
        key = json.dumps(o, sort_keys=True)
        if key not in seen:     # the stuttering step of a finished behaviour re-evaluates the constraint
            seen.add(key)
            out.append(o)
    res = ctx.tlc("TakeOver", body, cfg, name=name or "TakeOver_n%d%s" % (n, "_" + mutant if mutant else ""), workers=workers,
                  timeout=timeout, on_line=on_line if dump else None, deadlock=True, count=not mutant)
    return res, out


def to_scenario(sid, i, s, rng):
    """one schedule of TakeOver.tla as a wire scenario"""
    pre = s["pre"]
    steps = [scen.connect(9, "obs", 5), scen.connect(8, "pubr", 4)]
    if pre != "none":
        steps.append(scen.connect(1, "c", 5, clean=True, expiry=0 if pre == "online0" else 1000, nosentinel=True))
        steps.append(scen.sub(1, [{"n": "s/#", "qos": 1}]))
        if pre == "offline":
            steps.append({"op": "abort", "k": 1})
            steps.append({"op": "sleep", "ms": 30})
    vers = {}
    for j, p in enumerate(s["par"]):
        v4ok = (p["clean"] and p["exp"] == 0) or (not p["clean"] and p["exp"] == 1000)
        vers[j + 1] = 4 if (v4ok and rng.random() < 0.3) else 5
    for st in s["steps"]:
        k = st["k"]
        if st["op"] == "arrive":
            p = s["par"][k - 1]
            kw = {"expiry": p["exp"]} if vers[k] == 5 else {}
            c = scen.connect(10 + k, "c", vers[k], clean=p["clean"], nosentinel=True, **kw)
            c["gated"] = True
            steps.append(c)
        else:
            steps.append({"op": "release", "k": 10 + k, "point": st["point"]})
    steps.append({"op": "sleep", "ms": 30})
    steps.append(scen.pub(8, "s/t", 1, "after"))
    steps.append({"op": "sleep", "ms": 80})
    steps.append({"op": "pingall"})
    return {"id": "%s-gate%d" % (sid, i), "cfg": {"mode": "overlap", "qq0": True, "sessexpiry": 1000}, "hooks": True, "steps": steps,
            "model": {"pre": pre, "final": 10 + s["final"], "regs": s["regs"]}}
