"""C15 plumbing: source extraction (harness/cmd/chanops) -> constants of spec/Conn.tla, TLC runs on packs of the model,
counter-example -> scenario conversion, the real-broker driver (harness/cmd/conn), trace validation of lifecycle events
against spec/TraceConn.tla."""
import json, os, re, subprocess, threading, time
from concurrent.futures import ThreadPoolExecutor
import vlib

# ------------------------------------------------------------------------------------------------ deviations
# name of the deviation in Conn.tla / TraceConn.tla  ->  signature of the divergence on the real broker
DEVIATIONS = {
    "in_send_unguarded": "readloop-blocked-sending-to-in",
    "seterror_blocks_in_once": "seterror-blocked-in-once-writing-disconnect",
    "unregistered_not_closed": "unregistered-connection-survives-stop",
    "no_close_after_error": "no-close-after-protocol-error:v4",
    "will_timer_outlives_stop": "will-timer-outlives-stop",
    "c05_relock_window": "c05:two-registered-connections-one-client-id:lockDuplicatedID-relock-window",
}
ALL_DEVS = sorted(DEVIATIONS)

CLIENT_FUNCS = {"setError", "writeLoop", "readLoop", "sendErrConnack", "connectWithTimeOut", "internalClose", "write", "readHandle"}


def canon_sig(sig):
    """driver signature (<symptom>:<parked goroutines>) -> the signature used for known findings"""
    if sig.startswith("unanswered:"):
        for cause in ("seterror-blocked-in-once-writing-disconnect", "readloop-blocked-sending-to-in"):
            if cause in sig.rsplit(":", 1)[-1].split("+"):
                return cause
    if sig.startswith(("unanswered:lock-wait:", "unanswered:lock-cycle:", "stop-hangs:lock-cycle")):
        return "lock-cycle-stats-vs-subscription-store"
    if sig.startswith("c05:") or sig.startswith("no-close-after-protocol-error") or sig.startswith("unanswered"):
        return sig
    cause = sig.split(":", 1)[1] if ":" in sig else sig
    parts = set(cause.split("+"))
    if "readloop-blocked-sending-to-in" in parts:
        return "readloop-blocked-sending-to-in"
    if "seterror-blocked-in-once-writing-disconnect" in parts:
        return "seterror-blocked-in-once-writing-disconnect"
    if parts == {"will-timer-pending"}:
        return "will-timer-outlives-stop"
    if parts == {"readloop-in-socket-read"} and sig.startswith("alive-after-stop:"):
        return "unregistered-connection-survives-stop"
    if parts == {"readloop-in-socket-read", "will-timer-pending"} and sig.startswith("alive-after-stop:"):
        return "unregistered-connection-survives-stop"
    return sig


# ------------------------------------------------------------------------------------------------ extraction
def extract_ops(ctx):
    """Run chanops on server/client.go and server/server.go; map the table to the constant record Ops of Conn.tla.
    Anything the model has no counterpart for is machinery trouble (the model must be extended first)."""
    bindir = ctx.go_build(["./cmd/chanops"])
    files = [os.path.join(vlib.REPO, "server", f) for f in ("client.go", "server.go")]
    r = subprocess.run([os.path.join(bindir, "chanops")] + files, stdout=subprocess.PIPE, stderr=subprocess.PIPE, text=True)
    if r.returncode != 0:
        raise vlib.MachineryError("chanops failed: " + r.stderr[-2000:])
    tab = json.loads(r.stdout)
    ops = [o for o in tab["ops"] if o["file"] == "client.go"]
    sops = [o for o in tab["ops"] if o["file"] == "server.go"]
    calls = tab["calls"]

    def bad(msg):
        raise vlib.MachineryError("chanops: the source has a channel operation Conn.tla does not model: " + msg)

    def one(fn, kind, ch, table=ops):
        l = [o for o in table if o["func"] == fn and o["kind"] == kind and o["chan"] == ch]
        if len(l) != 1:
            bad("%d operations %s %s in %s (expected 1)" % (len(l), kind, ch, fn))
        return l[0]

    known = set()

    def use(o):
        known.add((o["func"], o["kind"], o["chan"], o["line"]))
        return o

    def guard_only(o):
        """the operation is alone, or in a select whose only other clause receives from `close`"""
        others = o.get("select_others") or []
        if o.get("select_default"):
            bad("%s %s in %s has a default clause" % (o["kind"], o["chan"], o["func"]))
        if others == ["recv:closed"] and o["func"] in ("readLoop", "writeLoop", "readHandle", "pollMessageHandler", "write", "sendErrConnack"):
            # `closed` is closed by internalClose AFTER serve has joined the connection's goroutines: for an operation of one
            # of these goroutines (or of a caller they block on) that clause can never fire: the operation is not guarded
            return False
        if others not in ([], ["recv:close"]):
            bad("%s %s in %s selects with %s" % (o["kind"], o["chan"], o["func"], others))
        return bool(o["guard_close"])

    m = {}
    m["in_send_guard"] = guard_only(use(one("readLoop", "send", "in")))
    m["connected_recv_guard"] = guard_only(use(one("readLoop", "recv", "connected")))
    m["errconnack_send_guard"] = guard_only(use(one("sendErrConnack", "send", "out")))
    m["write_guard"] = guard_only(use(one("write", "send", "out")))
    use(one("write", "recv", "close"))
    wl_close = [o for o in ops if o["func"] == "writeLoop" and o["kind"] == "recv" and o["chan"] == "close"]
    wl_outs = [o for o in ops if o["func"] == "writeLoop" and o["kind"] == "recv" and o["chan"] == "out"]
    main = [o for o in wl_outs if o["select"] and (o.get("select_others") or []) == ["recv:close"] and not o.get("select_default")]
    # the drain of the close branch: for { select { case p := <-client.out: ... default: return } }
    drain = [o for o in wl_outs if o["select"] and not (o.get("select_others") or []) and o.get("select_default")]
    if len(main) != 1 or len(drain) > 1 or len(main) + len(drain) != len(wl_outs):
        bad("writeLoop receives from out in %d places (%d in the main select, %d non-blocking drains)" % (len(wl_outs), len(main), len(drain)))
    wl_out = use(main[0])
    for o in drain:
        if o["line"] < wl_close[0]["line"] if wl_close else True:
            bad("the non-blocking receive from out in writeLoop is not inside the close branch")
        use(o)
    m["writeloop_drains_on_close"] = len(drain) == 1
    for o in wl_close:
        use(o)
    m["writeloop_select_close"] = len(wl_close) == 1 and wl_close[0]["select"] and wl_out["select"]
    hs_in = use(one("connectWithTimeOut", "recv", "in"))
    others = hs_in.get("select_others") or []
    if [x for x in others if x not in ("recv:timeout.C",)]:
        bad("connectWithTimeOut selects with %s" % others)
    m["hs_select_timeout"] = "recv:timeout.C" in others
    for o in ops:
        if o["func"] == "connectWithTimeOut" and o["chan"] == "timeout.C":
            use(o)
    # the AUTH continuation of enhanced authentication: present in the source, not exercised (no OnEnhancedAuth hook in the harness)
    auth = [o for o in ops if o["func"] == "connectWithTimeOut" and o["kind"] == "send" and o["chan"] == "out"]
    for o in auth:
        if o["select"]:
            bad("connectWithTimeOut sends to out inside a select")
        use(o)
    use(one("readHandle", "range", "in"))
    cl = use(one("setError", "close", "close"))
    if not cl["in_once_do"]:
        bad("close(client.close) is not inside errOnce.Do")
    use(one("readLoop", "close", "in"))
    use(one("connectWithTimeOut", "close", "connected"))
    use(one("internalClose", "close", "closed"))
    # (as repaired) the DISCONNECT is offered inside the Once: select { case client.out <- d: default: }
    offer = [o for o in ops if o["func"] == "setError" and o["kind"] == "send" and o["chan"] == "out"]
    for o in offer:
        if not (o["select"] and o.get("select_default") and not o.get("select_others") and o["in_once_do"] and o["line"] < cl["line"]):
            bad("setError sends to out at client.go:%d in a shape the model does not know" % o["line"])
        known.add((o["func"], o["kind"], o["chan"], o["line"]))
    m["seterror_offer_in_once"] = len(offer) > 0
    # the `<-client.close` clause that guards one of the operations above
    for o in ops:
        if o["kind"] == "recv" and o["chan"] in ("close", "closed") and o["select"] and len(o.get("select_others") or []) == 1 and not o.get("select_default"):
            k2, ch2 = o["select_others"][0].split(":")
            if any(f == o["func"] and k == k2 and c == ch2 for (f, k, c, _) in known):
                known.add((o["func"], o["kind"], o["chan"], o["line"]))
    for o in ops:
        if (o["func"], o["kind"], o["chan"], o["line"]) not in known:
            bad("%s %s at client.go:%d in %s" % (o["kind"], o["chan"], o["line"], o["func"]))
    sw = [c for c in calls if c["file"] == "client.go" and c["func"] == "setError" and c["callee"] == "write"]
    m["seterror_write_in_once"] = any(c["in_once_do"] and c["line"] < cl["line"] for c in sw)
    if any(not c["in_once_do"] or c["line"] > cl["line"] for c in sw):
        bad("setError calls client.write outside the Once or after close(client.close)")
    closes = lambda fn: [c for c in calls if c["file"] == "client.go" and c["func"] == fn and c["callee"] in ("rwc.Close", "Close")]
    m["writeloop_exit_closes_sock"] = any(c.get("in_deferred") for c in closes("writeLoop")) or len(closes("setError")) > 0
    m["hsfail_closes_sock"] = len(closes("connectWithTimeOut")) > 0 or len(closes("serve")) > 1
    if len(closes("serve")) < 1 or len(closes("writeLoop")) < 1:
        bad("serve / writeLoop no longer close the socket")
    # server.go: take-over waits for the old connection without a guard; Stop ranges over srv.clients only
    tk = one("lockDuplicatedID", "recv", "closed", sops)
    if tk["select"]:
        bad("lockDuplicatedID waits for closed inside a select")
    # lockDuplicatedID: a second mu.Lock() = the lock is given up and taken again when the stored session has no online client
    relocks = [c for c in calls if c["file"] == "server.go" and c["func"] == "lockDuplicatedID" and c["callee"] == "mu.Lock"]
    if not relocks:
        bad("lockDuplicatedID does not lock srv.mu")
    m["relock_window"] = len(relocks) > 1
    stop_ranges = [x["expr"] for x in tab.get("ranges", []) if x["file"] == "server.go" and x["func"] == "Stop"]
    expected = {"srv.tcpListener", "srv.websocketServer", "srv.clients", "chs", "srv.plugins"}
    m["stop_tracks_all"] = any(x not in expected for x in stop_ranges)
    caps = tab.get("chan_caps", {})
    return m, {"ops": ops, "server_ops": sops, "caps": {k: caps.get(k) for k in ("in", "out")}, "stop_ranges": stop_ranges}


# ------------------------------------------------------------------------------------------------ TLC on the model
BASE = dict(NConn=1, CapIn=1, CapOut=1, CapSock=1, QMax=1, PlLimit=1, Budget=4, SameId=False, PriorSession=False,
            KeepAlive=False, WillDelay=False, ApiCalls=0, PeerMayStall=False, PeerMayClose=True, PeerReads=True, TrackOwed=False, WithStop=True)

INVS = ["TypeOK", "OnceOnly", "NothingAliveAfterStop", "OneRegistered", "LifecycleInv"]
PROPS = ["StopReturns", "SockClosedLeadsToClosed"]


def pack(name, first=("connect",), rest=(), v5=(), props=None, deadlock=True, **consts):
    c = dict(BASE)
    c.update(consts)
    return {"name": name, "consts": c, "first": list(first), "rest": list(rest), "v5": list(v5),
            "props": list(PROPS if props is None else props), "deadlock": deadlock}


# The stuck state behind each recorded finding, as a state predicate of the FAITHFUL model (no deviation).  TLC's shortest
# behaviour reaching it is the script that must reproduce it on the real broker.
TARGETS = {
    # (not through the handshake timer: the real socket is closed right after it, nothing sent later reaches `in`)
    "in_send_unguarded":
        '\\E k \\in K : pc[10*k+1] = "r3" /\\ Len(inq[k]) = CapIn /\\ spawnPH[k] # "pending" /\\ "handle" \\notin live[k] /\\ hp[10*k+3] # "timeout"',
    "seterror_blocks_in_once":
        '\\E k \\in K : \\E p \\in ProcSet : pc[p] = "se1" /\\ c[p] = k /\\ Len(outq[k]) = CapOut /\\ ~closeCh[k] /\\ pc[10*k+2] = "w2" '
        '/\\ ~srvClosed[k] /\\ ~peerClosed[k] /\\ ~peerReading[k] /\\ s2c[k] >= CapSock',
    "unregistered_not_closed":
        'stopReturned /\\ \\E k \\in K : live[k] # {} /\\ ~hasStores[k]',
    "no_close_after_error":
        '\\E k \\in K : owed[k] > 0 /\\ closeCh[k] /\\ "write" \\notin live[k] /\\ ~srvClosed[k] /\\ ~peerClosed[k] /\\ peerReading[k] '
        '/\\ pc[10*k+1] = "r1" /\\ c2s[k] = "none" /\\ ~stopCalled /\\ hasStores[k]',
    "will_timer_outlives_stop":
        'stopReturned /\\ \\E k \\in K : willT[k] = "armed"',
    "c05_relock_window":
        'Cardinality({k \\in K : registered[k]}) > 1',
}


def tlc_pack(ctx, pk, ops, dev, tag, workers=2, timeout=1500, target=None):
    """model-check one pack; returns (TlcResult, counter-example states or None).
    target = name of a TARGETS predicate: only `the target is unreachable` is checked (used on the faithful model)."""
    tl = lambda b: "TRUE" if b else "FALSE"
    S = lambda xs: "{" + ", ".join(vlib.tla_val(x) for x in xs) + "}"
    body = "mc_Ops == [%s]\nmc_First == %s\nmc_Rest == %s\nmc_V5 == %s\nmc_Dev == %s\n" % (
        ", ".join("%s |-> %s" % (k, tl(v)) for k, v in sorted(ops.items())), S(pk["first"]), S(pk["rest"]), S(pk["v5"]), S(sorted(dev)))
    # the rules of TraceConn.tla, as an invariant of the model
    body += ("LifecycleInv == \\A k \\in K : (closedCh[k] => (live[k] = {} /\\ ~registered[k])) /\\ "
             "((hasStores[k] /\\ ~registered[k]) => live[k] \\subseteq {\"serve\"}) /\\ ((stopReturned /\\ k \\in snap) => closedCh[k])\n")
    cfg = "SPECIFICATION Spec\nCONSTANTS\n"
    for k, v in pk["consts"].items():
        cfg += " %s = %s\n" % (k, tl(v) if isinstance(v, bool) else v)
    cfg += " FirstKinds <- mc_First\n RestKinds <- mc_Rest\n V5 <- mc_V5\n Ops <- mc_Ops\n Dev <- mc_Dev\n"
    if target:
        body += "NotTarget == ~(%s)\n" % TARGETS[target]
        cfg += "INVARIANTS NotTarget\nCHECK_DEADLOCK FALSE\n"
    else:
        cfg += "INVARIANTS " + " ".join(INVS) + "\n"
        if pk["props"]:
            cfg += "PROPERTIES " + " ".join(pk["props"]) + "\n"
        if not pk.get("deadlock", True):
            # (a pack whose peers never close and where Stop is never called ends with idle connections)
            cfg += "CHECK_DEADLOCK FALSE\n"
    name = "Conn_%s_%s" % (pk["name"], tag)
    tj = os.path.join(ctx.tmp("ce"), name + ".json")
    res = ctx.tlc("Conn", body, cfg, name=name, workers=workers, timeout=timeout, deadlock=True, heap="6g",
                  extra=["-dumpTrace", "json", tj], extends="Conn")
    ce = None
    if res.violation:
        if not os.path.exists(tj):
            raise vlib.MachineryError("TLC reported a violation on %s without a trace:\n%s" % (name, res.violation[:1500]))
        with open(tj) as fh:
            ce = [s[1] for s in json.load(fh)["counterexample"]["state"]]
    return res, ce


# ------------------------------------------------------------------------------------------------ lock order
def extract_lockorder(ctx):
    """harness/cmd/lockorder on server/stats.go -> the constants of spec/LockOrder.tla"""
    bindir = ctx.go_build(["./cmd/lockorder"])
    r = subprocess.run([os.path.join(bindir, "lockorder"), os.path.join(vlib.REPO, "server", "stats.go"), os.path.join(vlib.REPO, "server", "client.go")],
                       stdout=subprocess.PIPE, stderr=subprocess.PIPE, text=True)
    if r.returncode != 0:
        raise vlib.MachineryError("lockorder extraction failed: " + r.stderr[-2000:])
    t = json.loads(r.stdout)
    if not t.get("known_shape"):
        raise vlib.MachineryError("lockorder: server/stats.go no longer has the functions LockOrder.tla speaks about (getClientStats, "
                                  "GetClientStats, packetSent, addQueueLen): the model must be revisited")
    if not t.get("poll_inflights_known"):
        raise vlib.MachineryError("lockorder: pollInflights no longer calls pl.lock and queueStore.ReadInflight: the model must be revisited")
    return {"TouchReadsStore": bool(t["touch_reads_store"]), "ReadHoldsMu": bool(t["read_holds_mu"]),
            "PollLimiterFirst": bool(t["poll_limiter_first"])}, t


LOCK_KINDS = ["deliver", "subscribe", "touch", "statsread", "poll", "pollinfl", "register"]


def tlc_lockorder(ctx, consts, kinds, tag):
    """model-check LockOrder.tla; returns (TlcResult, the path that holds `stats` in the stuck state or None)"""
    tl = lambda b: "TRUE" if b else "FALSE"
    body = "mc_Kinds == {%s}\n" % ", ".join(vlib.tla_str(k) for k in kinds)
    cfg = ("SPECIFICATION Spec\nCONSTANTS\n TouchReadsStore = %s\n ReadHoldsMu = %s\n PollLimiterFirst = %s\n Kinds <- mc_Kinds\n"
           "INVARIANTS NoLockCycle Exclusive\nPROPERTIES Finishes\nCHECK_DEADLOCK FALSE\n" % (tl(consts["TouchReadsStore"]), tl(consts["ReadHoldsMu"]), tl(consts["PollLimiterFirst"])))
    name = "LockOrder_" + tag
    tj = os.path.join(ctx.tmp("ce"), name + ".json")
    res = ctx.tlc("LockOrder", body, cfg, name=name, workers=2, timeout=600, deadlock=True, extra=["-dumpTrace", "json", tj], extends="LockOrder")
    if not res.violation:
        return res, None
    if not os.path.exists(tj):
        raise vlib.MachineryError("TLC reported a violation on %s without a trace:\n%s" % (name, res.violation[:1500]))
    with open(tj) as fh:
        last = [s[1] for s in json.load(fh)["counterexample"]["state"]][-1]
    # the third party: whoever holds clientMu in the stuck state, else whoever holds a limiter
    return res, last["holder"].get("stats") or last["holder"].get("limiter") or "?"


def lock_scenarios(third, seed, n=2):
    """the real-broker scenarios for a lock cycle whose third party (the holder of clientMu) is `third`"""
    if third in ("statsread", "pollinfl"):
        return [{"id": "ce_lock_" + third, "kind": "lockorder", "conns": [dict(k=1, ver=5, cid=third)]}]
    return [{"id": "ce_lock_touch_%d" % i, "kind": "pairs", "seed": 2 * (seed + i),
             "storm": {"clients": 24, "ids": 4, "ops": 100, "api": 0, "stop_lo_ms": 0, "stop_hi_ms": 1}} for i in range(n)]


def violated(res):
    m = re.search(r"Error: (Invariant (\w+) is violated|Deadlock reached|Temporal properties were violated)", res.violation or "")
    if not m:
        return "?"
    return m.group(2) or ("Deadlock" if "Deadlock" in m.group(1) else "Temporal")


# ------------------------------------------------------------------------------------------------ counter-example -> scenario
REAL_CAP = 8       # make(chan packets.Packet, 8) -- checked against the extraction in the check


def ce_to_scenario(ce, pk, sid):
    """The environment actions of a TLC behaviour of Conn.tla (peer steps, Stop, administrative calls) as a script for
    harness/cmd/conn.  Capacities are scaled: a packet that the model needs to fill a channel of capacity CapIn stands for
    REAL_CAP/CapIn real ones once nothing consumes the channel any more."""
    c = pk["consts"]
    n = c["NConn"]
    amp = REAL_CAP // c["CapIn"] + 1
    conns = []
    for k in range(1, n + 1):
        ver = 5 if k in pk["v5"] else 4
        spec = {"k": k, "ver": ver, "cid": "same" if c["SameId"] else "c%d" % k, "clean": not c["PriorSession"]}
        if c["WillDelay"]:
            spec.update(ver=5, willdelay=30, expiry=60)
        if c["KeepAlive"]:
            spec["keepalive"] = 1
        conns.append(spec)
    steps = []
    dead = [False] * n          # nothing consumes `in` any more (handshake failed / readHandle returned)
    killer = [None] * n         # the step that made it so
    # a handshake that times out has consumed nothing: whatever the peer had sent before the timer fired is, for the broker,
    # the same as sent afterwards -- the script waits out the 5 s timer right after the TCP connect
    times_out = [any(st["hp"][str(10 * (k + 1) + 3)] == "timeout" for st in ce) for k in range(n)]
    for a, b in zip(ce, ce[1:]):
        for k in range(n):
            if b["accepted"][k] != a["accepted"][k] and b["accepted"][k] == "yes":
                steps.append({"op": "connect", "k": k + 1})
                if not c["PeerReads"]:
                    conns[k]["smallbuf"] = True
                    steps.append({"op": "stall", "k": k + 1})
                if times_out[k]:
                    steps.append({"op": "sleep", "ms": 5400})       # the 5 s CONNECT timer of connectWithTimeOut
                    dead[k] = True
            if b["sent"][k] > a["sent"][k]:
                kind = b["c2s"][k]
                if not b["peerReading"][k] and kind in ("ping", "ok", "pub"):
                    # towards a peer that does not read these only fill `out` and the socket in the model (capacity 1); the flood
                    # does that for the real capacities, and a request would park readHandle in client.write before the next packet
                    continue
                st = {"op": "send", "k": k + 1, "kind": kind}
                if dead[k]:
                    # nothing consumes client.in: any packet is a filler, REAL_CAP/CapIn of them per packet of the model
                    st = {"op": "send", "k": k + 1, "kind": "ping", "n": amp, "nowait": True, "stands_for": kind}
                    if killer[k] is not None and not times_out[k]:
                        # ... pipelined behind the packet that made the broker stop consuming (same write: they are in the
                        # socket before the broker can close it); the separate sends stay, for the case that it does not
                        killer[k]["tail"] = killer[k].get("tail", 0) + amp
                steps.append(st)
                if kind == "connect" and not c["PeerReads"] and not dead[k]:
                    steps.append({"op": "flood", "k": k + 1})      # what the model's CapSock/CapOut stand for
                if kind in ("bad", "mal", "disc", "badconnect"):
                    if not dead[k]:
                        killer[k] = st
                    dead[k] = True
            if a["peerReading"][k] and not b["peerReading"][k]:
                conns[k]["smallbuf"] = True
                steps.append({"op": "stall", "k": k + 1})
                steps.append({"op": "flood", "k": k + 1})
            if b["peerClosed"][k] and not a["peerClosed"][k]:
                steps.append({"op": "settle"})
                steps.append({"op": "close", "k": k + 1})
        if a["pc"]["1"] == "st1" and b["pc"]["1"] != "st1":
            # Stop = st0 (listeners closed) ... st1 (sockets closed under srv.mu): the real call does both at once; what the peers
            # sent in between was sent before the sockets were closed, so the script calls Stop where the model closes them
            steps.append({"op": "settle"})
            steps.append({"op": "stop"})
        if b["n"] > a["n"]:
            kind = "terminate" if b["srvClosed"] != a["srvClosed"] else "publish"
            steps.append({"op": "api", "k": 1, "kind": kind})
    steps.append({"op": "settle"})      # the model's end state is reached when the broker has digested all of this
    last = ce[-1]
    summary = {"pc": {k: v for k, v in last["pc"].items() if v != "Done"}, "live": last["live"], "once": last["once"],
               "closeCh": last["closeCh"], "srvClosed": last["srvClosed"], "inq": last["inq"], "outq": last["outq"],
               "registered": last["registered"], "stopCalled": last["stopCalled"], "stopReturned": last["stopReturned"]}
    return {"id": sid, "kind": "script", "conns": conns, "steps": steps, "model_end_state": summary}


# ------------------------------------------------------------------------------------------------ the real broker
_driver = {}
_driver_lock = threading.Lock()


def build_driver(ctx, race=False):
    """harness/cmd/conn for this run, always rebuilt by `go build` from the current tree of the repository under test (the Go
    build cache makes an unchanged tree cheap); the binary lives where vlib.go_build puts it (its own directory for $VERIF_REPO)."""
    with _driver_lock:
        if race in _driver:
            return _driver[race]
        out = ctx.go_build(["./cmd/conn"], race=race)
        _driver[race] = os.path.join(out, "conn")
        return _driver[race]


def run_driver(ctx, scenarios, race=False, par=6, timeout=120):
    """execute each scenario with its own harness/cmd/conn process; returns {id: result}"""
    exe = build_driver(ctx, race=race)
    d = ctx.tmp("conn")
    out = {}

    def one(sc):
        p = os.path.join(d, sc["id"] + ".json")
        with open(p, "w") as fh:
            json.dump(sc, fh)
        env = dict(os.environ)
        env["GORACE"] = "halt_on_error=0 exitcode=66"
        t0 = time.time()
        try:
            r = subprocess.run([exe, "-scenario", p], stdout=subprocess.PIPE, stderr=subprocess.PIPE, text=True, timeout=timeout, env=env)
        except subprocess.TimeoutExpired:
            raise vlib.MachineryError("conn driver timed out on scenario %s" % sc["id"])
        lines = r.stdout.strip().splitlines()
        if not lines and ("panic:" in r.stderr or "fatal error:" in r.stderr) and "github.com/DrmagicE/gmqtt/" in r.stderr \
                and "main." not in r.stderr.split("goroutine ", 2)[1 if "goroutine " in r.stderr else 0][:3000]:
            # a panic (or a fatal runtime error such as a concurrent map write) in a goroutine of the broker killed the process
            return sc["id"], {"id": sc["id"], "divs": [], "trace": [], "stats": {}, "panic": r.stderr[-6000:], "races": race_reports(r.stderr) if race else [],
                              "rc": r.returncode, "wall_s": round(time.time() - t0, 2)}
        if not lines:
            raise vlib.MachineryError("conn driver produced nothing for %s (rc=%s): %s" % (sc["id"], r.returncode, r.stderr[-3000:]))
        try:
            res = json.loads(lines[-1])
        except ValueError:
            raise vlib.MachineryError("conn driver output unreadable for %s: %s" % (sc["id"], lines[-1][:300]))
        if res.get("fatal"):
            raise vlib.MachineryError("conn driver could not execute %s: %s" % (sc["id"], res["fatal"]))
        res["wall_s"] = round(time.time() - t0, 2)
        res["rc"] = r.returncode
        res["races"] = race_reports(r.stderr) if race else []
        return sc["id"], res

    with ThreadPoolExecutor(max_workers=par) as ex:
        for sid, res in ex.map(one, scenarios):
            out[sid] = res
    return out


def race_reports(stderr):
    """the reports of the race detector: [(signature, text)] -- signature = the two topmost gmqtt frames involved"""
    reps = []
    for blk in stderr.split("=================="):
        if "WARNING: DATA RACE" not in blk:
            continue
        fr = re.findall(r"^\s+(github\.com/DrmagicE/gmqtt/[^\s(]+(?:\([^)]*\))?[^\s(]*)\(", blk, re.M)
        tops = []
        for sec in re.split(r"\n\n", blk):
            m = re.search(r"^\s+(github\.com/DrmagicE/gmqtt/\S+?)\(\)?", sec, re.M)
            if m and ("by goroutine" in sec.split("\n")[0] or "by main goroutine" in sec.split("\n")[0]):
                tops.append(m.group(1).replace("github.com/DrmagicE/gmqtt/", ""))
        sig = "data-race:" + "|".join(sorted(set(tops))[:2]) if tops else "data-race:" + (fr[0] if fr else "?")
        reps.append((sig, blk.strip()[:6000]))
    return reps


# ------------------------------------------------------------------------------------------------ trace validation
HOOKS = {"exit.read", "exit.write", "exit.poll", "exit.handle", "register", "unregister", "closed",
         "stop.begin", "stop.clientsclosed", "stop.end", "will"}


def lifecycle_lines(result):
    """the hook events of one driver result as the lines TraceConn.tla reads"""
    out = []
    stopok = False
    for e in result.get("trace") or []:
        if e.get("e") == "stopret":
            stopok = not e.get("err")
        if e.get("e") != "hook" or e.get("h") not in HOOKS:
            continue
        h = e["h"]
        if h.startswith("exit."):
            out.append({"e": "exit", "g": h[5:], "conn": e.get("conn", "")})
        elif h in ("register", "unregister", "closed"):
            out.append({"e": h, "conn": e.get("conn", ""), "cid": e.get("cid", "")})
        else:
            out.append({"e": h})
    return out, stopok


CFG_TV = """SPECIFICATION TSpec
CONSTRAINT HWM
POSTCONDITION Accepted
CHECK_DEADLOCK FALSE
"""


def validate_lifecycle(ctx, results, name, dev=()):
    """Concatenate the lifecycle traces of the results (reset lines between them) and validate them with TLC against
    TraceConn.tla.  Returns (accepted, rejected_at_line or None, owner of that line, c05 duplicates, number of events)."""
    d = ctx.tmp("tv")
    tp = os.path.join(d, name + ".ndjson")
    spans = []
    n = 0
    with open(tp, "w") as fh:
        for rid, r in results:
            lines, stopok = lifecycle_lines(r)
            for ln in lines:
                fh.write(json.dumps(ln) + "\n")
            fh.write(json.dumps({"e": "reset", "stopok": stopok}) + "\n")
            spans.append((rid, n + 1, n + len(lines) + 1))
            n += len(lines) + 1
    env = {"TRACE": tp}
    dev = list(dev)
    for i in range(6):
        env["KF%d" % (i + 1)] = dev[i] if i < len(dev) else ""
    keep = lambda line: "TRACE-REJECTED-AT" in line or "C05-DUP" in line
    res = ctx.tlc("TraceConn", "", CFG_TV, name="TraceConn_" + name, workers=1, timeout=600, env=env, keep_lines=keep,
                  java_opts=["-Dtlc2.tool.queue.IStateQueue=StateDeque"], count=False, extends="TraceConn")
    hwm = None
    dups = []
    for line in res.kept:
        m = re.search(r'"TRACE-REJECTED-AT", (\d+), "OF", (\d+)', line)
        if m:
            hwm = int(m.group(1))
        m = re.search(r'"C05-DUP", (\d+), "([^"]*)", "([^"]*)"', line)
        if m:
            dups.append((int(m.group(1)), m.group(2), m.group(3)))
    accepted = res.rc == 0 and res.violation is None
    owner = None
    if not accepted:
        if hwm is None:
            raise vlib.MachineryError("TraceConn validation failed without a position:\n" + "\n".join(res.tail[-30:]))
        for rid, a, b in spans:
            if a <= hwm <= b:
                owner = (rid, hwm - a + 1)
    dup_owner = []
    for (ln, cid, conn) in dups:
        for rid, a, b in spans:
            if a <= ln <= b:
                dup_owner.append((rid, cid, conn))
    return accepted, hwm, owner, sorted(set(dup_owner)), n, tp
