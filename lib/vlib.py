"""Shared plumbing for the gmqtt model-based checks (python3, stdlib only).

  Ctx            per-run context: tier, seed, scratch dir, evidence, verdicts
  Ctx.tlc(...)   run TLC on spec/<module> with a generated MC module + cfg, in a scratch dir
  Ctx.go_build() build the Go harness (tag `verif`, replace => /repo) into /verif/.build/bin
  known findings, evidence writer, VIOLATION / KNOWN-FINDING lines

Exit codes of a check: 0 property held on everything explored, 1 violation (VIOLATION line printed),
2 machinery trouble (never a verdict).
"""
import json, os, re, shutil, subprocess, sys, tempfile, time, hashlib, random

VERIF = os.path.dirname(os.path.dirname(os.path.abspath(__file__)))
REPO = os.environ.get("VERIF_REPO", "/repo")
SPEC = os.path.join(VERIF, "spec")
BUILD = os.path.join(VERIF, ".build")
BIN = os.path.join(BUILD, "bin")
EVID = os.environ.get("VERIF_EVID") or os.path.join(VERIF, "evidence")
REPLAYS = os.path.join(EVID, "replays")
TLA_CP = "/opt/veriftools/tla/tla2tools.jar:/opt/veriftools/tla/CommunityModules-deps.jar"
NCPU = os.cpu_count() or 4

GOENV = dict(os.environ)
GOENV.update({"GOFLAGS": "-mod=mod", "GOPROXY": "off", "GOSUMDB": "off", "GOTOOLCHAIN": "local",
              "CGO_ENABLED": GOENV.get("CGO_ENABLED", "1")})
GO = "go1.26"


import threading
_dir_lock = threading.Lock()


class MachineryError(Exception):
    """Something in the checking machinery failed (exit 2, never a verdict)."""


def log(*a):
    print(*a, flush=True)


def tla_str(s):
    return '"' + s.replace("\\", "\\\\").replace('"', '\\"') + '"'


def tla_seq(xs):
    return "<<" + ", ".join(xs) + ">>"


def tla_set(xs):
    return "{" + ", ".join(xs) + "}"


def tla_levels(name):
    return tla_seq([tla_str(x) for x in name.split("/")])


def tla_val(v):
    """python value -> TLA+ expression (str, int, bool, list->sequence, set/frozenset->set, dict->record)."""
    if isinstance(v, bool):
        return "TRUE" if v else "FALSE"
    if isinstance(v, int):
        return str(v)
    if isinstance(v, str):
        return tla_str(v)
    if isinstance(v, (list, tuple)):
        return tla_seq([tla_val(x) for x in v])
    if isinstance(v, (set, frozenset)):
        return tla_set(sorted(tla_val(x) for x in v))
    if isinstance(v, dict):
        return "[" + ", ".join("%s |-> %s" % (k, tla_val(x)) for k, x in v.items()) + "]"
    raise TypeError(v)


class BrokerCrash(Exception):
    """the in-process broker brought the harness process down (a panic or fatal error in a goroutine of the repository under
    test that no harness code was calling): real-code behaviour, reported by the owning check as a violation"""

    def __init__(self, headline, frame, trace):
        Exception.__init__(self, headline)
        self.headline, self.frame, self.trace = headline, frame, trace


def go_crash(path_or_text):
    """Parse the stderr of a Go harness process for a runtime crash.  Returns None, or (headline, top gmqtt frame, first
    goroutine block, own) where own = the crashing goroutine has frames of the repository under test and none of the harness."""
    text = path_or_text
    if "\n" not in path_or_text and os.path.exists(path_or_text):
        with open(path_or_text, errors="replace") as fh:
            text = fh.read()
    m = re.search(r"^(panic: .*|fatal error: .*)$", text, re.M)
    if not m:
        return None
    rest = text[m.end():]
    g = re.search(r"^goroutine \d+ .*?:\n(.*?)(?:\n\n|\Z)", rest, re.M | re.S)
    block = g.group(0) if g else rest[:3000]
    frames = re.findall(r"^([\w./*()\[\]-]+)\(", block, re.M)
    own = any("DrmagicE/gmqtt/" in f for f in frames) and not any(f.startswith(("main.", "verifharness/")) for f in frames)
    top = next((f for f in frames if "DrmagicE/gmqtt/" in f), "?")
    return m.group(1), top.replace("github.com/DrmagicE/gmqtt/", ""), block[:6000], own


class TlcResult:
    def __init__(self):
        self.generated = 0
        self.distinct = 0
        self.depth = 0
        self.rc = None
        self.tail = []
        self.violation = None     # text of an invariant/property violation reported by TLC
        self.wall = 0.0
        self.lines = 0

    def ok(self):
        return self.rc == 0 and self.violation is None


class Ctx:
    def __init__(self, pid, tier, seed, level, keep_replays=False):
        self.pid = pid
        self.tier = tier
        self.seed = seed
        self.level = level
        self.t0 = time.time()
        self.rng = random.Random(seed)
        self.scratch = tempfile.mkdtemp(prefix="verif_%s_" % pid)
        self.cov = {"states": 0, "transitions": 0, "traces_validated_against_impl": 0,
                    "evaluations": 0, "distinct_nontrivial": 0, "samples": [], "rule": "",
                    "tlc_runs": []}
        self.assumptions = []
        self.violations = []       # (what, replay_path)
        self.known = []            # known-finding lines printed
        self.kf = load_known_findings()
        self.notes = []
        os.makedirs(EVID, exist_ok=True)
        # replay artefacts of earlier runs of this check are stale
        if os.path.isdir(REPLAYS) and not keep_replays:
            for f in os.listdir(REPLAYS):
                if f.startswith(pid + "_"):
                    try:
                        os.remove(os.path.join(REPLAYS, f))
                    except OSError:
                        pass

    # ------------------------------------------------------------------ scratch
    def tmp(self, name):
        p = os.path.join(self.scratch, name)
        os.makedirs(p, exist_ok=True)
        return p

    def cleanup(self):
        shutil.rmtree(self.scratch, ignore_errors=True)

    # ------------------------------------------------------------------ Go
    def go_build(self, pkgs="./cmd/...", race=False):
        """pkgs: one package pattern or a list (e.g. ["./cmd/substore"]); returns the bin dir"""
        if isinstance(pkgs, (list, tuple)):
            out = None
            for p in pkgs:
                out = go_build(race=race, pkgs=p)
            return out
        return go_build(race=race, pkgs=pkgs)

    # ------------------------------------------------------------------ Apalache (inductive invariants of small models)
    def apalache(self, module, init, inv, length, timeout=600):
        """apalache-mc check --init=<init> --inv=<inv> --length=<length> on spec/<module>.tla in a scratch directory.
        Returns "ok", "error" (a counter-example exists) or "unavailable: <why>" (tool missing, timeout, crash)."""
        d = self.tmp("apalache_%s_%s_%d" % (module, init, length))
        shutil.copy(os.path.join(SPEC, module + ".tla"), d)
        try:
            r = subprocess.run(["timeout", str(timeout), "apalache-mc", "check", "--init=" + init, "--inv=" + inv, "--length=%d" % length,
                                "--out-dir=" + os.path.join(d, "out"), module + ".tla"], cwd=d, stdout=subprocess.PIPE, stderr=subprocess.STDOUT, text=True)
        except OSError as e:
            return "unavailable: %s" % e
        if "The outcome is: NoError" in r.stdout:
            return "ok"
        if "The outcome is: Error" in r.stdout:
            return "error"
        return "unavailable: rc=%s %s" % (r.returncode, r.stdout[-300:].replace("\n", " "))

    # ------------------------------------------------------------------ TLC
    def tlc_prepare(self, module, mc_body, cfg, name=None, extends=None):
        """Create a scratch dir with all specs, MC_<name>.tla (EXTENDS module) and its cfg."""
        name = name or module
        with _dir_lock:
            self._ndirs = getattr(self, "_ndirs", 0) + 1
            n = self._ndirs
        d = self.tmp("tlc_%s_%d" % (name, n))
        for f in os.listdir(SPEC):
            if f.endswith(".tla"):
                shutil.copy(os.path.join(SPEC, f), d)
        mc = "MC_" + name
        ext = extends or (module + ", TLC")
        with open(os.path.join(d, mc + ".tla"), "w") as fh:
            fh.write("---- MODULE %s ----\nEXTENDS %s\n%s\n====\n" % (mc, ext, mc_body))
        with open(os.path.join(d, mc + ".cfg"), "w") as fh:
            fh.write(cfg)
        return d, mc

    def tlc_cmd(self, d, mc, workers=None, simulate=None, depth=None, extra=None, deadlock=False,
                java_opts=None, heap=None):
        workers = workers or min(NCPU, 8)
        # (TLC unpacks its standard modules into <java.io.tmpdir>/tlc-XXXX and leaves them there: keep that inside the run's
        # scratch directory, which is removed at the end)
        jt = os.path.join(d, "jtmp")
        os.makedirs(jt, exist_ok=True)
        jo = ["-XX:+UseParallelGC", "-Xss64m", "-Djava.io.tmpdir=" + jt]
        if heap:
            jo.append("-Xmx" + heap)
        if java_opts:
            jo += java_opts
        cmd = ["java"] + jo + ["-cp", TLA_CP, "tlc2.TLC", "-workers", str(workers),
                                "-metadir", os.path.join(d, "meta"), "-noGenerateSpecTE",
                                "-seed", str(self.seed if self.seed else 1)]
        if not deadlock:
            cmd += ["-deadlock"]
        if simulate:
            cmd += ["-simulate", simulate]
        if depth:
            cmd += ["-depth", str(depth)]
        if extra:
            cmd += extra
        cmd += ["-config", mc + ".cfg", mc + ".tla"]
        return cmd

    def tlc(self, module, mc_body, cfg, name=None, workers=None, timeout=900, on_line=None,
            pipe_to=None, simulate=None, depth=None, extra=None, deadlock=False, env=None,
            java_opts=None, extends=None, heap=None, count=True, keep_lines=None):
        """Run TLC.  Lines that are JSON payloads printed with PrintT (they start with a quote) are
        un-quoted and given to on_line / written to pipe_to's stdin; everything else is TLC chatter
        that is parsed for the summary.  Returns TlcResult."""
        d, mc = self.tlc_prepare(module, mc_body, cfg, name, extends=extends)
        cmd = self.tlc_cmd(d, mc, workers, simulate, depth, extra, deadlock, java_opts, heap)
        res = TlcResult()
        t0 = time.time()
        e = dict(os.environ)
        if env:
            e.update(env)
        p = subprocess.Popen(["timeout", str(timeout)] + cmd, cwd=d, stdout=subprocess.PIPE,
                             stderr=subprocess.STDOUT, env=e, text=True, bufsize=1 << 20)
        viol = []
        in_viol = False
        kept = []
        for line in p.stdout:
            if line.startswith('"') and line.rstrip().endswith('"'):
                res.lines += 1
                if pipe_to is not None:
                    try:
                        pipe_to.write(line)
                    except BrokenPipeError:
                        pass
                if on_line is not None:
                    on_line(json.loads(json.loads(line)))
                continue
            line = line.rstrip("\n")
            if keep_lines is not None and keep_lines(line):
                kept.append(line)
            res.tail.append(line)
            if len(res.tail) > 400:
                del res.tail[:100]
            m = re.match(r"(\d+) states generated, (\d+) distinct states found", line)
            if m:
                res.generated, res.distinct = int(m.group(1)), int(m.group(2))
            m = re.match(r"The depth of the complete state graph search is (\d+)", line)
            if m:
                res.depth = int(m.group(1))
            if re.match(r"Error: (Invariant|Action property|Temporal properties|Deadlock|Property)", line) or \
               line.startswith("Error: The postcondition") or "is violated" in line and line.startswith("Error:"):
                in_viol = True
            if in_viol:
                viol.append(line)
        p.wait()
        res.rc = p.returncode
        res.kept = kept
        res.wall = time.time() - t0
        res.dir = d
        if viol:
            res.violation = "\n".join(viol[:200])
        if res.rc == 124:
            raise MachineryError("TLC timed out after %ss on %s" % (timeout, mc))
        if res.rc not in (0, 12, 13, 10, 11) and not viol:
            first = next((i for i, l in enumerate(res.tail) if "rror" in l or "xception" in l), max(0, len(res.tail) - 40))
            raise MachineryError("TLC failed rc=%s on %s:\n%s\n...\n%s" % (res.rc, mc, "\n".join(res.tail[first:first + 12]), "\n".join(res.tail[-8:])))
        if count:
            self.cov["states"] += res.distinct
            self.cov["transitions"] += res.generated
        self.cov["tlc_runs"].append({"module": mc, "generated": res.generated, "distinct": res.distinct,
                                     "depth": res.depth, "wall_s": round(res.wall, 1)})
        return res

    def tlc_piped(self, module, mc_body, cfg, consumer_cmd, name=None, workers=None, timeout=900, simulate=None,
                  depth=None, extra=None, deadlock=False, java_opts=None, extends=None, heap=None, count=True):
        """Run TLC with its stdout connected by an OS pipe to consumer_cmd (a harness binary using
        tc.Each: payload lines are consumed, TLC chatter is passed to its stderr).  Returns
        (TlcResult, consumer stdout lines, consumer rc)."""
        d, mc = self.tlc_prepare(module, mc_body, cfg, name, extends=extends)
        cmd = self.tlc_cmd(d, mc, workers, simulate, depth, extra, deadlock, java_opts, heap)
        res = TlcResult()
        t0 = time.time()
        chatter = os.path.join(d, "tlc.out")
        with open(chatter, "w") as errf:
            p1 = subprocess.Popen(["timeout", str(timeout)] + cmd, cwd=d, stdout=subprocess.PIPE, stderr=subprocess.STDOUT)
            p2 = subprocess.Popen(consumer_cmd, stdin=p1.stdout, stdout=subprocess.PIPE, stderr=errf, text=True)
            p1.stdout.close()
            out = p2.stdout.readlines()
            p2.wait()
            p1.wait()
        res.rc = p1.returncode
        res.wall = time.time() - t0
        res.dir = d
        viol = []
        in_viol = False
        with open(chatter) as fh:
            for line in fh:
                line = line.rstrip("\n")
                res.tail.append(line)
                m = re.match(r"(\d+) states generated, (\d+) distinct states found", line)
                if m:
                    res.generated, res.distinct = int(m.group(1)), int(m.group(2))
                m = re.match(r"The depth of the complete state graph search is (\d+)", line)
                if m:
                    res.depth = int(m.group(1))
                if line.startswith("Error:"):
                    in_viol = True
                if in_viol:
                    viol.append(line)
        res.tail = res.tail[-400:]
        if viol:
            res.violation = "\n".join(viol[:200])
        if res.rc == 124:
            raise MachineryError("TLC timed out after %ss on %s" % (timeout, mc))
        if res.rc != 0 and not viol:
            raise MachineryError("TLC failed rc=%s on %s:\n%s" % (res.rc, mc, "\n".join(res.tail[-40:])))
        if count:
            self.cov["states"] += res.distinct
            self.cov["transitions"] += res.generated
        self.cov["tlc_runs"].append({"module": mc, "generated": res.generated, "distinct": res.distinct,
                                     "depth": res.depth, "wall_s": round(res.wall, 1)})
        return res, out, p2.returncode

    # ------------------------------------------------------------------ verdicts
    def save_replay(self, name, obj):
        os.makedirs(REPLAYS, exist_ok=True)
        path = os.path.join(REPLAYS, "%s_%s.json" % (self.pid, name))
        with open(path, "w") as fh:
            json.dump(obj, fh, indent=1, sort_keys=True)
        return path

    def violation(self, what, replay_obj, name=None):
        """Record a divergence observed on the real code; classify against known findings."""
        sig = replay_obj.get("signature", "")
        for k in self.kf:
            if k.get("status") != "open" or k["property"] != self.pid:
                continue
            if (k.get("signature") and k["signature"] == sig) or (sig and sig in k.get("signatures", [])):
                line = "KNOWN-FINDING: property=%s %s" % (self.pid, k["what"])
                if line not in self.known:
                    self.known.append(line)
                    log(line)
                return False
        name = name or hashlib.sha1(json.dumps(replay_obj, sort_keys=True).encode()).hexdigest()[:10]
        replay_obj = dict(replay_obj)
        replay_obj.setdefault("property", self.pid)
        replay_obj.setdefault("what", what)
        path = self.save_replay(name, replay_obj)
        self.violations.append((what, path))
        if len(self.violations) <= 20:
            log("VIOLATION property=%s replay=%s" % (self.pid, path))
            log("  " + what[:600])
        return True

    def known_finding(self, what):
        line = "KNOWN-FINDING: property=%s %s" % (self.pid, what)
        if line not in self.known:
            self.known.append(line)
            log(line)

    def sample(self, obj, cap=6):
        if len(self.cov["samples"]) < cap:
            self.cov["samples"].append(obj)

    def finish(self):
        cov = self.cov
        if not cov["samples"]:
            cov["samples"].append("no sample recorded")
        ev = {
            "property_id": self.pid, "tier": self.tier, "seed": int(self.seed), "level": self.level,
            "coverage": cov, "assumptions": self.assumptions,
            "wall_s": round(time.time() - self.t0, 2), "violations": len(self.violations),
            "known_findings_reported": self.known, "notes": self.notes,
        }
        with open(os.path.join(EVID, self.pid + ".json"), "w") as fh:
            json.dump(ev, fh, indent=1)
        self.cleanup()
        log("[%s %s seed=%s] states=%s transitions=%s impl_traces=%s evaluations=%s violations=%s wall=%.1fs" % (
            self.pid, self.tier, self.seed, cov["states"], cov["transitions"],
            cov["traces_validated_against_impl"], cov["evaluations"], len(self.violations),
            time.time() - self.t0))
        return 1 if self.violations else 0


def load_known_findings():
    p = os.path.join(VERIF, "known_findings.json")
    if not os.path.exists(p):
        return []
    with open(p) as fh:
        return json.load(fh).get("findings", [])


_built = {}


def go_build(race=False, pkgs="./cmd/..."):
    """Build the harness binaries from /verif/harness against the *current* tree of the repository under test
    (/repo, or $VERIF_REPO: then an alternative go.mod with the `replace` pointing there is used via -modfile and the
    binaries go to their own directory)."""
    key = (race, pkgs)
    if key in _built:
        return _built[key]
    h = os.path.join(VERIF, "harness")
    sub = "race" if race else "plain"
    cmd = [GO, "build", "-tags", "verif"]
    if os.path.realpath(REPO) == "/repo":
        out = os.path.join(BIN, sub)
        # go.sum of the harness = go.sum of /repo (same dependency set, nothing fetched)
        shutil.copy(os.path.join(REPO, "go.sum"), os.path.join(h, "go.sum"))
    else:
        tag = hashlib.sha1(os.path.realpath(REPO).encode()).hexdigest()[:10]
        out = os.path.join(BIN, "alt_" + tag, sub)
        os.makedirs(os.path.join(BUILD, "alt"), exist_ok=True)
        mod = os.path.join(BUILD, "alt", tag + ".mod")
        with open(os.path.join(h, "go.mod")) as fh:
            txt = fh.read().replace("=> /repo", "=> " + os.path.realpath(REPO))
        with open(mod, "w") as fh:
            fh.write(txt)
        shutil.copy(os.path.join(REPO, "go.sum"), os.path.join(BUILD, "alt", tag + ".sum"))
        cmd.append("-modfile=" + mod)
    os.makedirs(out, exist_ok=True)
    if race:
        cmd.append("-race")
    cmd += ["-o", out + "/", pkgs]
    t0 = time.time()
    r = subprocess.run(cmd, cwd=h, env=GOENV, stdout=subprocess.PIPE, stderr=subprocess.STDOUT, text=True)
    if r.returncode != 0:
        # a tree that does not build is machinery trouble for us (the change under test must compile)
        raise MachineryError("harness build failed:\n" + r.stdout[-4000:])
    _built[key] = out
    log("[build] harness (%s) built in %.1fs" % (sub, time.time() - t0))
    return out


def run_main(pid, level, fn):
    """Entry used by ./check: fn(ctx) performs the check."""
    import argparse
    ap = argparse.ArgumentParser()
    ap.add_argument("tier", nargs="?", default=os.environ.get("VERIF_TIER", "quick"))
    ap.add_argument("--replay")
    a = ap.parse_args(sys.argv[2:])
    seed = int(os.environ.get("VERIF_SEED", "1") or 1)
    tier = a.tier if a.tier in ("quick", "thorough") else "quick"
    ctx = Ctx(pid, tier, seed, level, keep_replays=bool(a.replay))
    ctx.replay = a.replay
    try:
        fn(ctx)
        rc = ctx.finish()
    except MachineryError as e:
        log("MACHINERY-ERROR %s: %s" % (pid, e))
        ctx.cleanup()
        sys.exit(2)
    except Exception:
        import traceback
        traceback.print_exc()
        log("MACHINERY-ERROR %s: unexpected exception in the check driver" % pid)
        ctx.cleanup()
        sys.exit(2)
    sys.exit(rc)
