"""Federation plugin (C16 event stream, C17 routing): transition-coverage replay of FedStream.tla / FedRoute.tla into
the REAL objects of /repo/plugin/federation through plugin/federation/verif_export.go (build tag verif).

  build(ctx)                                    -> bin dir (checks that the verif export is present)
  run_stream_pack(ctx, name, clients, topics, bounds, fixes=())   -> (summary, divs)
  run_route_pack(ctx, name, nodes, clients, filters, topics, maxsubs, maxpub, fixes=()) -> (summary, divs, meta)
  design_check_stream / design_check_route       model-only runs (repaired design), never a verdict
  report(ctx, prop, divs, summaries)             divergences -> ctx.violation (known findings by signature)

Both models are implementation-shaped: they say what the code does at the grain of the code, and carry the
design-level clauses of the property as state predicates whose verdict is written into every dumped transition
(`bad`).  The drivers (harness/cmd/fedstream, harness/cmd/fedroute) replay each transition on fresh real objects,
compare the projection, and - where the model marks a state as violating - evaluate the clause again on the real
objects; only that is reported.  A design-level failure of the model by itself is never a verdict.

Development switch: VERIF_FED_HARNESS=<dir> builds the drivers from a private copy of the harness module whose
go.mod `replace` points to a tree that already has the export (used before the patch is applied to /repo).
"""
import json, os, re, subprocess, time
import vlib
from vlib import tla_str, tla_set, tla_seq, tla_levels

EXPORT_MSG = "federation verif export missing: apply /verif/.proposed/federation_verif_export.diff"
SYS_LEVELS = ["$s"]


# ------------------------------------------------------------------------------------------------ build
def _replace_target(harness_dir):
    try:
        with open(os.path.join(harness_dir, "go.mod")) as fh:
            for line in fh:
                m = re.match(r"\s*replace\s+github.com/DrmagicE/gmqtt\s*=>\s*(\S+)", line)
                if m:
                    return m.group(1)
    except OSError:
        pass
    return vlib.REPO


_bin = {}


def build(ctx, pkgs=("./cmd/fedstream", "./cmd/fedroute")):
    """build the two drivers; MachineryError with a clear text if the export is not in the tree"""
    hdir = os.environ.get("VERIF_FED_HARNESS") or os.path.join(vlib.VERIF, "harness")
    key = (hdir, tuple(pkgs))
    if key in _bin:
        return _bin[key]
    tree = _replace_target(hdir)
    if not os.path.exists(os.path.join(tree, "plugin", "federation", "verif_export.go")):
        raise vlib.MachineryError(EXPORT_MSG)
    if not os.environ.get("VERIF_FED_HARNESS"):
        try:
            out = ctx.go_build(list(pkgs))
        except vlib.MachineryError as e:
            if re.search(r"undefined: fed\.Verif|has no field or method Verif|\.Verif\w+ undefined", str(e)):
                raise vlib.MachineryError(EXPORT_MSG + " (the export in the tree is older than the drivers)")
            raise
        _bin[key] = out
        return out
    # private copy (development): same commands as vlib.go_build, other module directory
    out = os.path.join(ctx.tmp("fedbin"))
    for d in ("cmd/fedstream", "cmd/fedroute"):
        src = os.path.join(vlib.VERIF, "harness", d, "main.go")
        dst = os.path.join(hdir, d)
        os.makedirs(dst, exist_ok=True)
        with open(src) as a, open(os.path.join(dst, "main.go"), "w") as b:
            b.write(a.read())
    with open(os.path.join(tree, "go.sum")) as a, open(os.path.join(hdir, "go.sum"), "w") as b:
        b.write(a.read())
    t0 = time.time()
    for p in pkgs:
        r = subprocess.run([vlib.GO, "build", "-tags", "verif", "-o", out + "/", p], cwd=hdir, env=vlib.GOENV,
                           stdout=subprocess.PIPE, stderr=subprocess.STDOUT, text=True)
        if r.returncode != 0:
            raise vlib.MachineryError("federation drivers do not build:\n" + r.stdout[-3000:])
    vlib.log("[build] federation drivers built from %s in %.1fs" % (hdir, time.time() - t0))
    _bin[key] = out
    return out


_variant = {}


def detect_fixes(ctx):
    """which of the proposed repairs does the tree under test contain?  Decided by behaviour (fedstream -probe variant:
    three micro scenarios on the real objects).  The answer only selects the model variant (CONSTANT Fixes) the replay is
    compared with - the model mirrors the code -; the replay then checks every transition against that variant."""
    bindir = build(ctx)
    if bindir in _variant:
        return _variant[bindir]
    r = subprocess.run([os.path.join(bindir, "fedstream"), "-probe", "variant"], stdin=subprocess.DEVNULL, stdout=subprocess.PIPE,
                       stderr=subprocess.PIPE, text=True, timeout=120)
    try:
        o = json.loads(r.stdout.strip().splitlines()[-1])
        fixes = list(o["fixes"])
    except (ValueError, IndexError, KeyError):
        raise vlib.MachineryError("variant probe failed rc=%s: %.300s %.300s" % (r.returncode, r.stdout, r.stderr))
    _variant[bindir] = fixes
    if fixes:
        vlib.log("[fed] repairs present in the tree (model variant): %s" % ", ".join(fixes))
    return fixes


STREAM_FIXES = ("next_before_ack", "unestablished_clean")
ROUTE_FIXES = ("retained_clear_removes",)


def _collect(out, what):
    summary, divs = None, []
    for line in out:
        try:
            o = json.loads(line)
        except ValueError:
            raise vlib.MachineryError("%s driver printed garbage: %.200s" % (what, line))
        if o.get("kind") == "summary":
            summary = o
        elif o.get("kind") == "div":
            divs.append(o)
    if summary is None:
        raise vlib.MachineryError("%s driver printed no summary (dead driver)" % what)
    return summary, divs


# ------------------------------------------------------------------------------------------------ C16
STREAM_CFG = """SPECIFICATION Spec
CONSTANTS
 Clients <- mc_Clients
 TopicSet <- mc_TopicSet
 Fixes <- mc_Fixes
 Batch = %(batch)d
 LRU = %(lru)d
 MaxEmit = %(emit)d
 MaxMsg = %(msg)d
 MaxBreak = %(brk)d
 MaxLost = %(lost)d
 MaxFailA = %(failA)d
 MaxFailB = %(failB)d
 MaxOrd = %(ord)d
VIEW sview
%(ac)s
INVARIANTS TypeOK %(inv)s
"""


def _stream_body(clients, topics, fixes, dump):
    return "\n".join([
        "mc_Clients == " + tla_set([tla_str(c) for c in clients]),
        "mc_TopicSet == " + tla_set([tla_str(t) for t in topics]),
        "mc_Fixes == " + tla_set([tla_str(f) for f in fixes]),
        "DumpAC == " + ("Dump" if dump else "TRUE"),
    ])


def _bounds(b):
    d = {"batch": 100, "lru": 100, "emit": 2, "msg": 1, "brk": 1, "lost": 1, "failA": 0, "failB": 0, "ord": 1}
    d.update(b)
    return d


def run_stream_pack(ctx, name, clients, topics, bounds, fixes=None, workers=6, drv_workers=0, timeout=1500):
    """TLC explores FedStream.tla with the pack's constants; every generated transition is replayed on the real
    objects.  Returns (summary, divs, pack)."""
    bindir = build(ctx)
    if fixes is None:
        fixes = [f for f in detect_fixes(ctx) if f in STREAM_FIXES]
    autonext = "next_before_ack" in fixes
    b = _bounds(bounds)
    cfg = STREAM_CFG % dict(b, ac="ACTION_CONSTRAINT DumpAC", inv="")
    cmd = [os.path.join(bindir, "fedstream"), "-workers", str(drv_workers)]
    if autonext:
        cmd.append("-autonext")
    res, out, rc = ctx.tlc_piped("FedStream", _stream_body(clients, topics, fixes, True), cfg, cmd,
                                 name="FedStream_" + name, workers=workers, timeout=timeout)
    if res.violation:
        raise vlib.MachineryError("FedStream pack %s: TypeOK failed / TLC error (model bug):\n%s" % (name, res.violation))
    if rc != 0:
        raise vlib.MachineryError("fedstream driver failed rc=%s (pack %s)" % (rc, name))
    summary, divs = _collect(out, "fedstream")
    if summary["n"] != res.generated - 1 and summary["n"] != res.generated:
        # every generated successor is dumped once (the initial state is not a transition)
        raise vlib.MachineryError("fedstream pack %s: TLC generated %d states, the driver replayed %d transitions" % (
            name, res.generated, summary["n"]))
    for d in divs:
        d["pack"] = name
    pack = {"pack": name, "clients": clients, "topics": topics, "bounds": b, "model_variant": list(fixes), "states": res.distinct,
            "transitions_replayed": summary["n"], "states_violating_a_clause": summary.get("bad_states", 0),
            "map_order_retries": summary.get("retries", 0), "ops": summary.get("ops", {}), "wall_s": round(res.wall, 1)}
    return summary, divs, pack


def design_check_stream(ctx, name, clients, topics, bounds, fixes, inv="StrictOK", workers=8, timeout=900):
    """model-only: the repaired design (Fixes) must satisfy every clause; returns TlcResult (violation text or None)"""
    b = _bounds(bounds)
    cfg = STREAM_CFG % dict(b, ac="", inv=inv)
    return ctx.tlc("FedStream", _stream_body(clients, topics, fixes, False), cfg, name="FedStreamDesign_" + name,
                   workers=workers, timeout=timeout, count=False)


EMIT_CFG = """SPECIFICATION Spec
CONSTANTS
 Clients <- mc_Clients
 Fixes <- mc_Fixes
INVARIANTS InOrder
"""


def hook_probe(ctx, tries=200):
    """FedEmit.tla (two-step emission of hooks.go) is checked by TLC; if the as-coded model has the order inversion,
    its schedule is run on the real hook wrappers (harness/cmd/fedstream -probe hookrace).  Returns a dict:
    model_violation (bool), reproduced (bool), observed (text), tries, window ("closed" if the code holds memberMu
    over both steps)."""
    bindir = build(ctx)
    body = 'mc_Clients == {"c1", "c2"}\nmc_Fixes == {}'
    res = ctx.tlc("FedEmit", body, EMIT_CFG, name="FedEmit", workers=2, timeout=300, count=False)
    out = {"model_violation": res.violation is not None, "reproduced": False}
    fixed = ctx.tlc("FedEmit", 'mc_Clients == {"c1", "c2"}\nmc_Fixes == {"atomic_emission"}', EMIT_CFG, name="FedEmitFixed",
                    workers=2, timeout=300, count=False)
    out["repaired_model_holds"] = fixed.violation is None
    if not out["model_violation"]:
        return out
    # the last reference to the topic is given up by UNSUBSCRIBE (OnUnsubscribed) / by the end of the session (OnSessionTerminated)
    for leaver in ("unsub", "term"):
        r = subprocess.run([os.path.join(bindir, "fedstream"), "-probe", "hookrace", "-leaver", leaver, "-tries", str(tries)], stdin=subprocess.DEVNULL,
                           stdout=subprocess.PIPE, stderr=subprocess.PIPE, text=True, timeout=300)
        if r.returncode != 0:
            raise vlib.MachineryError("hook race probe failed rc=%s: %s" % (r.returncode, r.stderr[-1000:]))
        try:
            o = json.loads(r.stdout.strip().splitlines()[-1])
        except (ValueError, IndexError):
            raise vlib.MachineryError("hook race probe printed garbage: %.300s" % r.stdout)
        out.setdefault("by_hook", {})[leaver] = {k: o.get(k) for k in ("reproduced", "observed", "tries", "window", "queued", "local")}
        if o.get("reproduced") and o.get("observed") and not out.get("reproduced"):
            out.update({k: o.get(k) for k in ("reproduced", "observed", "tries", "queued", "local")})
            out["hook"] = {"unsub": "OnUnsubscribed", "term": "OnSessionTerminated"}[leaver]
    wins = {v.get("window") for v in out["by_hook"].values()}
    out["window"] = "closed" if wins == {"closed"} else None
    if not out.get("reproduced"):
        out["tries"] = max(v.get("tries") or 0 for v in out["by_hook"].values())
    return out


# ------------------------------------------------------------------------------------------------ C17
ROUTE_CFG = """SPECIFICATION Spec
CONSTANTS
 NodeSeq <- mc_NodeSeq
 Clients <- mc_Clients
 Filters <- mc_Filters
 TopicSet <- mc_TopicSet
 SysLevels <- mc_SysLevels
 Fixes <- mc_Fixes
 MaxSubs = %(maxsubs)d
 MaxPub = %(maxpub)d
 Kinds <- mc_Kinds
VIEW sview
%(ac)s
INVARIANTS TypeOK %(inv)s
"""


def split_full(full):
    if full.startswith("$share/"):
        p = full.split("/", 2)
        return p[1], p[2]
    return "", full


def _route_body(nodes, clients, filters, topics, fixes, dump, kinds=("plain", "ret", "clear")):
    frecs = []
    for full in filters:
        sh, f = split_full(full)
        frecs.append("[n |-> %s, share |-> %s, lv |-> %s]" % (tla_str(full), tla_str(sh), tla_levels(f)))
    trecs = ["[n |-> %s, lv |-> %s]" % (tla_str(t), tla_levels(t)) for t in topics]
    lines = [
        "mc_NodeSeq == " + tla_seq([tla_str(n) for n in sorted(nodes)]),
        "mc_Clients == " + tla_set([tla_str(c) for c in clients]),
        "mc_Filters == " + tla_set(frecs),
        "mc_TopicSet == " + tla_set(trecs),
        "mc_SysLevels == " + tla_set([tla_str(s) for s in SYS_LEVELS]),
        "mc_Fixes == " + tla_set([tla_str(f) for f in fixes]),
        "mc_Kinds == " + tla_set([tla_str(k) for k in kinds]),
    ]
    if dump:
        lines += ["ASSUME PrintT(ToJson([match |-> MatchTable]))", "DumpAC == Dump"]
    else:
        lines += ["DumpAC == TRUE"]
    return "\n".join(lines)


def run_route_pack(ctx, name, nodes, clients, filters, topics, maxsubs, maxpub, fixes=None, workers=6, drv_workers=0,
                   timeout=1500, kinds=("plain", "ret", "clear")):
    for t in list(topics) + [split_full(f)[1] for f in filters]:
        if t.startswith("$") and t.split("/")[0] not in SYS_LEVELS:
            raise vlib.MachineryError("pack %s: '$' level of %s is not in SysLevels" % (name, t))
    bindir = build(ctx)
    if fixes is None:
        fixes = [f for f in detect_fixes(ctx) if f in ROUTE_FIXES]
    meta = {"nodes": sorted(nodes), "filters": filters, "topics": topics}
    mpath = os.path.join(ctx.tmp("meta"), "fedroute_" + name + ".json")
    with open(mpath, "w") as fh:
        json.dump(meta, fh)
    cfg = ROUTE_CFG % {"maxsubs": maxsubs, "maxpub": maxpub, "ac": "ACTION_CONSTRAINT DumpAC", "inv": "LenientOK"}
    res, out, rc = ctx.tlc_piped("FedRoute", _route_body(nodes, clients, filters, topics, fixes, True, kinds), cfg,
                                 [os.path.join(bindir, "fedroute"), "-meta", mpath, "-workers", str(drv_workers)],
                                 name="FedRoute_" + name, workers=workers, timeout=timeout)
    if rc != 0:
        raise vlib.MachineryError("fedroute driver failed rc=%s (pack %s)" % (rc, name))
    summary, divs = _collect(out, "fedroute")
    meta = dict(meta, match=summary.get("match"))
    for d in divs:
        d["pack"] = name
        d["meta"] = meta
    # LenientOK (nothing beyond the recorded classes) failing is not a verdict by itself: the violating transition has
    # been dumped and replayed; it is a verdict only if the driver saw it on the real objects
    model_only = None
    if res.violation:
        if not any(d["signature"].startswith("C17:") for d in divs):
            raise vlib.MachineryError("FedRoute pack %s: design-level failure that the replay on the real objects does "
                                      "not show (model bug):\n%s" % (name, res.violation))
        model_only = res.violation
    elif summary["n"] != res.generated - 1 and summary["n"] != res.generated:
        raise vlib.MachineryError("fedroute pack %s: TLC generated %d states, the driver replayed %d transitions" % (
            name, res.generated, summary["n"]))
    pack = {"pack": name, "nodes": sorted(nodes), "clients": clients, "filters": filters, "topics": topics, "max_subs": maxsubs,
            "max_pub": maxpub, "kinds": list(kinds), "model_variant": list(fixes), "states": res.distinct, "transitions_replayed": summary["n"],
            "publications_violating_a_clause": summary.get("bad_states", 0), "via_on_will_publish": summary.get("via_will", 0),
            "match_pairs": summary.get("match_pairs"), "wall_s": round(res.wall, 1), "stopped_early": bool(model_only)}
    return summary, divs, pack


def design_check_route(ctx, name, nodes, clients, filters, topics, maxsubs, maxpub, fixes, inv="LenientOK", workers=8,
                       timeout=900, kinds=("plain", "ret", "clear")):
    cfg = ROUTE_CFG % {"maxsubs": maxsubs, "maxpub": maxpub, "ac": "", "inv": inv}
    return ctx.tlc("FedRoute", _route_body(nodes, clients, filters, topics, fixes, False, kinds), cfg, name="FedRouteDesign_" + name,
                   workers=workers, timeout=timeout, count=False)


# ------------------------------------------------------------------------------------------------ verdicts
def history(line):
    """short text of a transition's history (for the VIOLATION / evidence text)"""
    def one(o):
        k = o.get("op")
        if k in ("sub", "unsub") and "node" in o:
            return "%s(%s,%s,%s)" % (k, o["node"], o.get("c"), o.get("f"))
        if k == "pub":
            return "pub(%s,%s,%s)" % (o["node"], o.get("t"), o.get("kind"))
        if k in ("sub", "unsub"):
            return "%s(%s,%s)" % (k, o.get("c"), o.get("t"))
        if k == "term":
            return "term(%s)" % o.get("c")
        if k == "msg":
            return "msg(p%s)" % o.get("p")
        if k == "hello":
            return "hello(%s%s)" % (o.get("mode"), ",clean" if o.get("clean") else ",resume next=%s" % o.get("next"))
        if k == "break":
            return "break(keep c2s=%s,s2c=%s)" % (o.get("c2s"), o.get("s2c"))
        if k in ("srvrecv", "cliack", "srvnext"):
            return "%s(%s%s)" % (k, o.get("id"), ",old stream" if o.get("which") == "zomb" else "")
        return str(k)
    return " ; ".join([one(o) for o in line.get("pre", [])] + [one(line.get("op", {}))])


def report(ctx, prop, kind, all_divs, summaries):
    """harness-level divergences (model != code) and property-level divergences (real objects violate a clause).
    One ctx.violation per signature, with the shortest history seen in this run."""
    minimal = {}
    for s in summaries:
        for sig, m in (s.get("minimal") or {}).items():
            if sig not in minimal or len(m["line"].get("pre", [])) < len(minimal[sig]["line"].get("pre", [])):
                minimal[sig] = m
    seen = {}
    trouble = [d for d in all_divs if d["signature"] == "harness" or d["signature"].startswith("pre:")]
    real = [d for d in all_divs if d not in trouble]
    if trouble and not real:
        # the driver itself is in trouble (hand-off timeout, unparsable line, unobtainable map order) and nothing was observed
        d = trouble[0]
        raise vlib.MachineryError("%s driver: %s\n%s" % (kind, d["what"], json.dumps(d.get("line"))[:1500]))
    if trouble:
        # divergences observed on the real objects stand as recorded; the trouble (typically hand-offs that never happen
        # once the objects have left the specification) is noted
        ctx.notes.append("%s driver trouble next to %d divergences: %s" % (kind, len(real), trouble[0]["what"][:300]))
        ctx.cov["driver_trouble_lines"] = len(trouble)
    for d in real:
        sig = d["signature"]
        what, line = d["what"], d.get("line") or {}
        if sig in minimal:
            what, line = minimal[sig]["what"], minimal[sig]["line"]
        if sig in seen and len(seen[sig][2].get("pre", [])) <= len(line.get("pre", [])):
            continue
        seen[sig] = (d, what, line)
    for sig in sorted(seen):
        d, what, line = seen[sig]
        if not sig.startswith(prop + ":"):
            what = "real federation objects and %s disagree: %s" % ("FedStream.tla" if prop == "C16" else "FedRoute.tla", what)
        what += " | history: " + history(line)
        ctx.violation(what, {"signature": sig, "kind": kind, "pack": d.get("pack"), "meta": d.get("meta"),
                             "transition": line, "replay": "harness/cmd/%s -raw < transition (one JSON line)" % kind})


def replay(ctx, prop):
    """./check <Cxx> <tier> --replay <artefact>: run the stored transition (or probe) again on the real objects"""
    with open(ctx.replay) as fh:
        art = json.load(fh)
    bindir = build(ctx)
    kind = art.get("kind")
    if kind == "fedstream-probe":
        hp = hook_probe(ctx)
        if hp.get("reproduced") and hp.get("observed"):
            ctx.violation("replayed: " + art.get("what", ""), {"signature": art["signature"], "kind": kind, "result": hp})
        return
    line = json.dumps(art["transition"])
    if kind == "fedstream":
        cmd = [os.path.join(bindir, "fedstream"), "-raw", "-workers", "1"]
        if "next_before_ack" in detect_fixes(ctx):
            cmd.append("-autonext")
        inp = line + "\n"
    elif kind == "fedroute":
        mpath = os.path.join(ctx.tmp("meta"), "replay_meta.json")
        with open(mpath, "w") as fh:
            json.dump(art["meta"], fh)
        cmd = [os.path.join(bindir, "fedroute"), "-raw", "-workers", "1", "-meta", mpath]
        inp = json.dumps({"match": art["meta"].get("match") or []}) + "\n" + line + "\n"
    else:
        raise vlib.MachineryError("unknown replay artefact kind %r" % kind)
    r = subprocess.run(cmd, input=inp, stdout=subprocess.PIPE, stderr=subprocess.PIPE, text=True, timeout=300)
    if r.returncode != 0:
        raise vlib.MachineryError("replay driver failed rc=%s: %s" % (r.returncode, r.stderr[-1000:]))
    summary, divs = _collect(r.stdout.splitlines(), kind)
    for d in divs:
        d["meta"] = art.get("meta")
    ctx.cov["traces_validated_against_impl"] += summary["n"]
    ctx.cov["evaluations"] += summary["n"]
    report(ctx, prop, kind, divs, [summary])
