"""Queue.tla (C10): design-level model check and transition-coverage replay into the real session queue
(memory back-end, or redis back-end over the in-process RESP fake).

  design_check(ctx, cfg)   TLC on Queue.tla with the fate/FIFO bookkeeping in the view, all invariants and step properties
  run_pack(ctx, cfg)       TLC enumerates every (state, operation) pair; harness/cmd/queuemem replays each on a fresh mem.New / redis.New
  cfg = dict(name, menu=[(qos, exp, big)…], max, ie, nmsg, ids, rdmax, rins [, target=mem|redis, reinit=new|same, rule1=front|any])
"""
import json, os, threading
import vlib
from vlib import tla_set, tla_seq, tla_str

_lock = threading.Lock()     # run_pack may be called from several threads (two TLC+replayer pipelines at a time)

PROBE_N = 8
PROBE_IDS = list(range(101, 109))

# kinds of message an Add may insert: (qos, expiry class, oversize)
MENUS = {
    # QoS mix only: ladder rungs 4-6, id assignment, PUBREL replacement
    "qos":     [(0, "none", False), (1, "none", False), (2, "none", False)],
    # expired queued messages of QoS>0 next to healthy ones
    "expiry":  [(1, "past", False), (1, "none", False), (0, "none", False), (2, "future", False)],
    # expired QoS0 / QoS2, everything else healthy
    "expiry0": [(0, "past", False), (0, "none", False), (1, "none", False), (2, "past", False)],
    # oversize messages of both kinds
    "size":    [(1, "none", True), (1, "none", False), (0, "none", True), (0, "none", False)],
    # one of everything
    "mixed":   [(0, "none", False), (1, "past", False), (2, "none", True), (2, "none", False)],
    # PUBREL entries in front of expired / QoS0 messages
    "rel":     [(2, "none", False), (0, "none", False), (1, "past", False)],
    # oversize and expired at once, future expiry
    "both":    [(1, "past", True), (0, "future", False), (2, "future", False), (1, "none", False)],
}
IES = ["off", "instant", "never"]


def mc_body(cfg):
    menu = tla_set(["[qos |-> %d, exp |-> %s, big |-> %s]" % (q, tla_str(e), "TRUE" if b else "FALSE") for q, e, b in cfg["menu"]])
    return "\n".join([
        "mc_Menu == " + menu,
        "mc_Ids == " + tla_set([str(i) for i in cfg["ids"]]),
        "mc_RINs == " + tla_set([str(i) for i in cfg["rins"]]),
        "mc_ProbeIds == " + tla_seq([str(i) for i in PROBE_IDS]),
        "DumpAC == Dump",
    ])


def cfg_text(cfg, design):
    lines = ["SPECIFICATION Spec", "CONSTANTS",
             " Max = %d" % cfg["max"], " IE = %s" % tla_str(cfg["ie"]), " Rule1 = %s" % tla_str(cfg.get("rule1", "front")),
             " Offline = %s" % tla_str("addonly" if cfg.get("reinit") == "restart" else "all"),
             " Menu <- mc_Menu", " NMsg = %d" % cfg["nmsg"],
             " Ids <- mc_Ids", " RdMax = %d" % cfg["rdmax"], " RINs <- mc_RINs", " ProbeN = %d" % PROBE_N,
             " ProbeIds <- mc_ProbeIds", "CONSTRAINT Bound"]
    if design:
        lines += ["VIEW viewM",
                  "INVARIANTS TypeOK LenOK CountersOK StructOK OrderOK FateOK ReplayOK",
                  "PROPERTIES FateForward ReadStepOK AddStepOK"]
    else:
        # the bookkeeping variables fate/lastH are outside this view: the obligations over them are then checked along the
        # BFS-first path to every view state (the exhaustive check over all paths is the design-level run)
        lines += ["VIEW view", "ACTION_CONSTRAINT DumpAC",
                  "INVARIANTS TypeOK LenOK CountersOK StructOK OrderOK FateOK ReplayOK",
                  "PROPERTIES FateForward ReadStepOK AddStepOK"]
    return "\n".join(lines) + "\n"


def cfg_name(cfg):
    t = cfg.get("target", "mem")
    pre = "" if t == "mem" else "%s%s_" % (t, {"new": "", "same": "_sameobj", "restart": "_restart"}[cfg.get("reinit", "new")])
    suf = "_r1any" if t == "mem" and cfg.get("rule1", "front") == "any" else ""
    return "%s%s_max%d_%s_n%d%s" % (pre, cfg["name"], cfg["max"], cfg["ie"], cfg["nmsg"], suf)


def design_check(ctx, cfg, workers=8, timeout=1500):
    """the specification's own obligations (length, conservation, FIFO, ids, ladder, replay, counters)"""
    res = ctx.tlc("Queue", mc_body(cfg), cfg_text(cfg, True), name="QueueM_" + cfg_name(cfg), workers=workers, timeout=timeout,
                  count=False)
    if res.violation or res.rc != 0:
        raise vlib.MachineryError("design-level check of Queue.tla failed for %s (model bug):\n%s" % (
            cfg_name(cfg), res.violation or "\n".join(res.tail[-30:])))
    with _lock:
        ctx.cov["states"] += res.distinct
        ctx.cov["transitions"] += res.generated
        ctx.cov.setdefault("design_checks", []).append({"config": cfg_name(cfg), "states": res.distinct,
                                                        "transitions": res.generated, "depth": res.depth,
                                                        "wall_s": round(res.wall, 1)})
    return res


def run_pack(ctx, cfg, workers=8, timeout=1500):
    """every transition of the model replayed on a fresh real queue; returns (summary, divergences, pack record)"""
    bindir = ctx.go_build(["./cmd/queuemem"])
    cmd = [os.path.join(bindir, "queuemem"), "-max", str(cfg["max"]), "-ie", cfg["ie"], "-proben", str(PROBE_N),
           "-probeids", str(len(PROBE_IDS)), "-target", cfg.get("target", "mem"), "-reinit", cfg.get("reinit", "new")]
    res, out, rc = ctx.tlc_piped("Queue", mc_body(cfg), cfg_text(cfg, False), cmd, name="Queue_" + cfg_name(cfg),
                                 workers=workers, timeout=timeout, count=False)
    if res.violation:
        raise vlib.MachineryError("Queue.tla failed its invariants for %s (model bug):\n%s" % (cfg_name(cfg), res.violation))
    if rc != 0:
        raise vlib.MachineryError("queuemem replayer failed rc=%s" % rc)
    summary, divs = None, []
    for line in out:
        o = json.loads(line)
        if o["kind"] == "summary":
            summary = o
        elif o["kind"] == "div":
            divs.append(o)
    if summary is None:
        raise vlib.MachineryError("queuemem replayer printed no summary")
    for d in divs:
        if d["signature"].startswith("harness"):
            raise vlib.MachineryError("queuemem replayer trouble: %s" % d["what"])
    # every emitted transition must have been consumed (the initial state is the one generated state that is no transition)
    if summary["n"] != res.generated - 1:
        raise vlib.MachineryError("replayer consumed %d transitions, TLC generated %d" % (summary["n"], res.generated - 1))
    # a watchdog firing that the slow re-execution did not confirm is harmless by itself (the re-execution is the result);
    # many of them mean the machine is too loaded for the absence-type observations of this run to be trusted
    if summary.get("timing_unconfirmed", 0) > max(50, summary["n"] // 200):
        raise vlib.MachineryError("%d watchdog firings were not confirmed by the slow re-execution: machine too loaded" %
                                  summary["timing_unconfirmed"])
    ops = {k[3:]: v for k, v in summary["counters"].items() if k.startswith("op:")}
    rec = {"config": cfg_name(cfg), "menu": [list(m) for m in cfg["menu"]], "max": cfg["max"], "inflight_expiry": cfg["ie"],
           "messages": cfg["nmsg"], "ids": cfg["ids"], "read_id_list_max": cfg["rdmax"], "states": res.distinct,
           "transitions_replayed": summary["n"], "compared_per_operation": ops,
           "skipped_prefix_already_diverged": summary.get("tainted_prefix", 0),
           "skipped_other_branch_of_early_remove": summary.get("other_branch", 0),
           "watchdog_retries": summary.get("watchdog_retries", 0), "timing_unconfirmed": summary.get("timing_unconfirmed", 0),
           "divergent_transitions": summary["divergences"], "wall_s": round(res.wall, 1), "target": cfg.get("target", "mem"),
           "ladder_rule1": cfg.get("rule1", "front"), "reinit": cfg.get("reinit", "new") if cfg.get("target") == "redis" else None}
    with _lock:
        ctx.cov["states"] += res.distinct
        ctx.cov["transitions"] += res.generated
        ctx.cov["traces_validated_against_impl"] += summary["n"]
        ctx.cov["evaluations"] += summary["n"]
        ctx.cov["distinct_nontrivial"] += summary["nontrivial"]
        for s in summary["samples"][:1]:
            ctx.sample({"config": cfg_name(cfg), "transition": s})
        ctx.cov.setdefault("packs", []).append(rec)
    return summary, divs, rec
