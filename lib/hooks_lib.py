"""C14 – hook composition and verdict enforcement: Hooks.tla bound to real brokers (driver harness/cmd/hooks).

compose(ctx, permille, deviations)   SpecC: TLC enumerates (kind, plugin sequence, exposure, core) and emits the demanded call
                                     log of one event; the driver builds a broker with recording plugins + recording core hook,
                                     triggers one event of the kind and compares the recorded log (order, exactly-once).
verdict(ctx, ver, ...)               SpecV: every (state, request, verdict) transition within the depth bound is replayed on a
                                     fresh broker whose core hooks return the scripted verdicts; response packet, deliveries
                                     (independent observer + the subject) and service snapshots are compared.
connack_rate(ctx, n)                 n rejected CONNECTs over all CONNACK failure codes: how many got no CONNACK at all.

Divergences come back as dicts {"signature", "what", "line", "extra"}; summaries carry measured counters.
"""
import json, os, random
import vlib
from vlib import tla_str, tla_set, tla_seq, tla_levels, tla_val

# the fields of server.HookWrapper without the suffix "Wrapper" (the driver verifies this list by reflection)
KINDS = ["OnBasicAuth", "OnEnhancedAuth", "OnConnected", "OnReAuth", "OnSessionCreated", "OnSessionResumed",
         "OnSessionTerminated", "OnSubscribe", "OnSubscribed", "OnUnsubscribe", "OnUnsubscribed", "OnMsgArrived",
         "OnMsgDropped", "OnDelivered", "OnClosed", "OnAccept", "OnStop", "OnWillPublish", "OnWillPublished"]
PLUGINS = ["a", "b", "c"]

# named deviations of Hooks.tla (= open known findings) and the primary divergence signatures that they explain
DEVIATIONS = {
    "reauth_wrappers_unapplied": ["compose:OnReAuth:wrappers-not-applied"],
    "retained_before_hook": ["verdict:publish:reject:ret", "verdict:publish:drop:ret", "verdict:publish:rewrite-inplace:ret",
                             "verdict:publish:rewrite-replace:ret", "verdict:publish:rewrite-full:ret"],
    "will_replace_ignored": ["verdict:abort:edit-replace:dlv"],
    "rewrite_routed_by_packet_topic": ["verdict:publish:rewrite-inplace:dlv", "verdict:publish:rewrite-replace:dlv"],
}
SIG_LOST_CONNACK = "verdict:connect:reject:no-connack"

# MQTT 5 failure reason codes per acknowledgement (256 = a Go error that is no *codes.Error => 0x80)
CONNACK_CODES = [0x80, 0x81, 0x82, 0x83, 0x84, 0x85, 0x86, 0x87, 0x88, 0x89, 0x8A, 0x8C, 0x90, 0x95, 0x97, 0x99, 0x9A, 0x9B,
                 0x9C, 0x9D, 0x9F, 256]
SUBACK_CODES = [0x80, 0x83, 0x87, 0x8F, 0x91, 0x97, 0x9E, 0xA1, 0xA2, 256]
UNSUBACK_CODES = [0x80, 0x83, 0x87, 0x8F, 0x91, 256]
PUBACK_CODES = [0x80, 0x83, 0x87, 0x90, 0x91, 0x97, 0x99, 256]

TOPICS = ["t/1", "t/2", "w/1", "w/2"]
FILTERS = ["t/1", "t/2"]
OBS_FILTER = "#"
OBS2_FILTER = "+/2"      # the second observer: matches t/2 and w/2 only, so a topic rewrite 1 <-> 2 changes who is served
SWAP = {"t/1": "t/2", "t/2": "t/1", "w/1": "w/2", "w/2": "w/1"}
NOWILL = {"has": False, "t": "", "p": "", "q": 0}
WILLS = [NOWILL, {"has": True, "t": "w/1", "p": "wp", "q": 1}]
PUBREQS = [
    {"t": "t/1", "p": "p1", "q": 0, "r": False},
    {"t": "t/1", "p": "p1", "q": 1, "r": False},
    {"t": "t/2", "p": "p1", "q": 2, "r": False},
    {"t": "t/1", "p": "p1", "q": 1, "r": True},
    {"t": "t/1", "p": "p2", "q": 2, "r": True},
    {"t": "t/2", "p": "p2", "q": 0, "r": True},
    {"t": "t/1", "p": "", "q": 1, "r": True},
]
SUBREQS = [
    [{"f": "t/1", "q": 2}],
    [{"f": "t/1", "q": 1}],
    [{"f": "t/2", "q": 2}],
    [{"f": "t/1", "q": 2}, {"f": "t/2", "q": 1}],
]
UNSUBREQS = [["t/1"], ["t/1", "t/2"]]


def rec(name):
    return "[n |-> %s, lv |-> %s]" % (tla_str(name), tla_levels(name))


def tla_fun(d):
    return " @@ ".join("(%s :> %s)" % (tla_str(k), tla_str(v)) for k, v in d.items())


def mc_body(ver=5, deviations=(), conn=(0x87,), sub=(0x87,), unsub=(0x87,), pub=(0x87,), auth=("basic",), maxdepth=3,
            pubreqs=None, subreqs=None, unsubreqs=None, maxplugins=3):
    return "\n".join([
        "mc_Deviations == " + tla_set([tla_str(d) for d in deviations]),
        "mc_SysLevels == {}",
        "mc_Kinds == " + tla_set([tla_str(k) for k in KINDS]),
        "mc_PluginNames == " + tla_set([tla_str(p) for p in PLUGINS]),
        "mc_MaxPlugins == %d" % maxplugins,
        "mc_Ver == %d" % ver,
        'mc_Clients == {"c1"}',
        "mc_TopicSet == " + tla_set([rec(t) for t in TOPICS]),
        "mc_FilterSet == " + tla_set([rec(f) for f in FILTERS]),
        "mc_ObsFilter == " + rec(OBS_FILTER),
        "mc_Obs2Filter == " + rec(OBS2_FILTER),
        "mc_Swap == " + tla_fun(SWAP),
        "mc_WillSet == " + tla_set([tla_val(w) for w in WILLS]),
        "mc_PubReqs == " + tla_set([tla_val(m) for m in (pubreqs or PUBREQS)]),
        "mc_SubReqs == " + tla_set([tla_val(s) for s in (subreqs or SUBREQS)]),
        "mc_UnsubReqs == " + tla_set([tla_val(s) for s in (unsubreqs or UNSUBREQS)]),
        "mc_AuthModes == " + tla_set([tla_str(a) for a in auth]),
        "mc_ConnCodes == " + tla_set([str(c) for c in conn]),
        "mc_SubCodes == " + tla_set([str(c) for c in sub]),
        "mc_UnsubCodes == " + tla_set([str(c) for c in unsub]),
        "mc_PubCodes == " + tla_set([str(c) for c in pub]),
        "mc_MaxDepth == %d" % maxdepth,
        "DumpC == DumpCompose",
        "DumpV == DumpVerdict",
    ])


CONSTS = """CONSTANTS
 Deviations <- mc_Deviations
 SysLevels <- mc_SysLevels
 Kinds <- mc_Kinds
 PluginNames <- mc_PluginNames
 MaxPlugins <- mc_MaxPlugins
 Ver <- mc_Ver
 Clients <- mc_Clients
 TopicSet <- mc_TopicSet
 FilterSet <- mc_FilterSet
 ObsFilter <- mc_ObsFilter
 Obs2Filter <- mc_Obs2Filter
 Swap <- mc_Swap
 WillSet <- mc_WillSet
 PubReqs <- mc_PubReqs
 SubReqs <- mc_SubReqs
 UnsubReqs <- mc_UnsubReqs
 AuthModes <- mc_AuthModes
 ConnCodes <- mc_ConnCodes
 SubCodes <- mc_SubCodes
 UnsubCodes <- mc_UnsubCodes
 PubCodes <- mc_PubCodes
 MaxDepth <- mc_MaxDepth
"""

CFG_COMPOSE = "SPECIFICATION SpecC\n" + CONSTS + """ACTION_CONSTRAINT DumpC
INVARIANTS ComposeTypeOK ComposePrefix ComposeDone ExactlyOnce WellNested FirstOutermost
"""

CFG_VERDICT = "SPECIFICATION SpecV\n" + CONSTS + """VIEW vview
ACTION_CONSTRAINT DumpV
INVARIANTS VerdictTypeOK
"""
# the design-level properties that state the demanded effect; a deviation that mirrors a defect breaks them by design
PROPS_STRICT = "PROPERTIES RejectLeavesNoTrace RewriteIsWhatIsSeen SubackTellsTruth UnsubackTellsTruth WillVerdictEnforced\n"
PROPS_BY_DEV = {"retained_before_hook": {"RejectLeavesNoTrace", "RewriteIsWhatIsSeen"}, "will_replace_ignored": {"WillVerdictEnforced"},
                "rewrite_routed_by_packet_topic": {"RewriteIsWhatIsSeen"}}


def _parse(out, what):
    summary, divs = None, []
    for line in out:
        line = line.strip()
        if not line:
            continue
        o = json.loads(line)
        if o["kind"] == "summary":
            summary = o
        elif o["kind"] == "div":
            divs.append(o)
    if summary is None:
        raise vlib.MachineryError("hooks driver (%s) printed no summary" % what)
    if summary.get("fatal"):
        raise vlib.MachineryError("hooks driver (%s): %s" % (what, summary["fatal"]))
    return summary, divs


def compose(ctx, permille=1000, deviations=(), par=16, timeout=900):
    """-> (summary, divs).  summary: n (cases replayed), emitted, per_kind {kind: n}, counters"""
    bindir = ctx.go_build(["./cmd/hooks"])
    body = mc_body(deviations=deviations)
    cmd = [os.path.join(bindir, "hooks"), "-mode", "compose", "-permille", str(permille), "-seed", str(ctx.seed), "-par", str(par),
           "-kinds", ",".join(KINDS)]
    res, out, rc = ctx.tlc_piped("Hooks", body, CFG_COMPOSE, cmd, name="HooksCompose", workers=4, timeout=timeout, count=False)
    if res.violation:
        raise vlib.MachineryError("design-level check of Hooks.tla (composition) failed (model bug):\n" + res.violation)
    if rc != 0:
        raise vlib.MachineryError("hooks driver (compose) failed rc=%s" % rc)
    return _parse(out, "compose") + (res,)


def verdict(ctx, ver, deviations=(), maxdepth=3, permille=1000, full_depth=2, codes=None, auth=("basic",), par=16, timeout=1500,
            tolerate_lost_connack=False, name=None, wire_ver=None, pubreqs=None, subreqs=None):
    """-> (summary, divs, TlcResult).  ver = rules of the model (4 | 5), wire_ver = protocol level on the wire (3 | 4 | 5).
    Transitions whose prefix is not shorter than full_depth are sampled with `permille`.  Thread-safe (counts nothing in ctx.cov)."""
    bindir = ctx.go_build(["./cmd/hooks"])
    codes = codes or {}
    body = mc_body(ver=ver, deviations=deviations, conn=codes.get("conn", (0x87,)), sub=codes.get("sub", (0x87,)),
                   unsub=codes.get("unsub", (0x87,)), pub=codes.get("pub", (0x87,)), auth=auth, maxdepth=maxdepth,
                   pubreqs=pubreqs, subreqs=subreqs)
    cfg = CFG_VERDICT
    props = set(PROPS_STRICT.split()[1:])
    for d in deviations:
        props -= PROPS_BY_DEV.get(d, set())
    if props:
        cfg += "PROPERTIES " + " ".join(sorted(props)) + "\n"
    cmd = [os.path.join(bindir, "hooks"), "-mode", "verdict", "-ver", str(wire_ver or ver), "-permille", str(permille), "-fulldepth", str(full_depth),
           "-seed", str(ctx.seed), "-par", str(par)]
    if tolerate_lost_connack:
        cmd.append("-tolerate-lost-connack")
    # one worker: strict breadth-first order makes `path` a shortest prefix and the emitted set deterministic
    res, out, rc = ctx.tlc_piped("Hooks", body, cfg, cmd, name=name or ("HooksVerdict_v%d" % ver), workers=1, timeout=timeout, count=False)
    if res.violation:
        raise vlib.MachineryError("design-level check of Hooks.tla (verdicts) failed (model bug):\n" + res.violation)
    if rc != 0:
        raise vlib.MachineryError("hooks driver (verdict) failed rc=%s" % rc)
    summary, divs = _parse(out, "verdict")
    summary["maxdepth"] = maxdepth      # TLC's search depth counts the initial state: depth <= maxdepth means no history was cut
    return summary, divs, res


def connack_rate(ctx, n, par=16, timeout=600):
    """n rejected CONNECTs (v3.1.1 and v5, basic and enhanced auth, every CONNACK failure code) -> (summary, divs)"""
    import subprocess
    bindir = ctx.go_build(["./cmd/hooks"])
    cmd = [os.path.join(bindir, "hooks"), "-mode", "connrate", "-n", str(n), "-seed", str(ctx.seed), "-par", str(par),
           "-codes", ",".join(str(c) for c in CONNACK_CODES)]
    try:
        r = subprocess.run(cmd, stdout=subprocess.PIPE, stderr=subprocess.PIPE, text=True, timeout=timeout)
    except subprocess.TimeoutExpired:
        raise vlib.MachineryError("hooks driver (connrate) timed out")
    if r.returncode != 0:
        raise vlib.MachineryError("hooks driver (connrate) failed rc=%s: %s" % (r.returncode, r.stderr[-2000:]))
    return _parse(r.stdout.splitlines(), "connrate")


def quick_alphabet(rng):
    """seeded sub-alphabet of the quick tier: 4 of the 7 PUBLISH shapes (always a plain and a retained QoS1 one), the two-topic
    SUBSCRIBE and two of the single-topic ones"""
    rest = [m for i, m in enumerate(PUBREQS) if i not in (1, 3)]
    rng.shuffle(rest)
    singles = SUBREQS[:3]
    rng.shuffle(singles)
    return [PUBREQS[1], PUBREQS[3]] + rest[:2], [SUBREQS[3]] + singles[:2]


def pick(rng, codes, k):
    """k codes chosen by the seed (always distinct)"""
    codes = list(codes)
    rng.shuffle(codes)
    return tuple(sorted(codes[:k]))
