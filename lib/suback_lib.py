"""SubAck.tla (growth G02, not a listed property): SUBSCRIBE / UNSUBSCRIBE reason codes per entry, what packets with several
entries leave behind, and what a publication then delivers.  TLC enumerates every history up to Depth and prints it with the
demanded acknowledgements and probe deliveries; harness/cmd/suback replays each on a real broker."""
import json, os
import vlib
from vlib import tla_set, tla_str, tla_seq

CFG = """SPECIFICATION Spec
CONSTANTS
 Filt <- mc_Filt
 Vers <- mc_Vers
 SubPkts <- mc_SubPkts
 UnsubPkts <- mc_UnsubPkts
 Probes <- mc_Probes
 Depth <- mc_Depth
 Modes <- mc_Modes
 Dev <- mc_Dev
%(constraint)s
INVARIANTS %(inv)s
"""
B = lambda v: "TRUE" if v else "FALSE"
DEVIATIONS = ["dup_filter_code_of_last_entry", "unsuback_always_success"]

FILTERS = ["a", "a/+", "#", "$share/g/a", "$share/h/a", "$share/g/a/+"]


def filt(name):
    share, rest = "", name
    if name.startswith("$share/"):
        _, share, rest = name.split("/", 2)
    return "[name |-> %s, share |-> %s, lv |-> %s]" % (tla_str(name), tla_str(share), tla_seq([tla_str(x) for x in rest.split("/")]))


def entry(f, q, nl=False):
    return "[f |-> %s, q |-> %d, nl |-> %s]" % (tla_str(f), q, B(nl))


def subpkts(full):
    out = []
    for f in FILTERS:
        for q in ((0, 1, 2) if full or f in ("a", "$share/g/a") else (1,)):
            out.append([entry(f, q)])
    out.append([entry("a", 1, True)])
    out.append([entry("a/+", 2, True)])
    out.append([entry("$share/g/a", 1, True)])          # Protocol Error
    out += [[entry("a", 0), entry("a", 2)], [entry("a", 2), entry("a", 0)], [entry("a/+", 1), entry("a", 2)],
            [entry("$share/g/a", 0), entry("$share/g/a", 2)], [entry("$share/g/a", 1), entry("$share/h/a", 2)],
            [entry("a", 2, True), entry("a", 1)], [entry("a", 0), entry("a", 2), entry("a", 1)],
            [entry("#", 2), entry("$share/g/a/+", 0)]]
    return [tla_seq(p) for p in out]


def unsubpkts():
    out = [[f] for f in FILTERS] + [["a", "a"], ["a", "a/+"], ["$share/g/a", "a"], ["#", "$share/h/a"]]
    return [tla_seq([tla_str(x) for x in p]) for p in out]


def probes():
    out = []
    for name, self_ in (("a", False), ("a", True), ("a/x", False)):
        out.append("[name |-> %s, lv |-> %s, self |-> %s]" % (tla_str(name), tla_seq([tla_str(x) for x in name.split("/")]), B(self_)))
    return out


def body(full, depth, devs):
    return "\n".join(["mc_Filt == " + tla_set([filt(f) for f in FILTERS]), "mc_Vers == {4, 5}",
                      "mc_SubPkts == " + tla_set(subpkts(full)), "mc_UnsubPkts == " + tla_set(unsubpkts()),
                      "mc_Probes == " + tla_set(probes()), "mc_Depth == %d" % depth,
                      'mc_Modes == {"overlap", "onlyonce"}', "mc_Dev == " + tla_set([tla_str(d) for d in devs])])


def design(ctx, full, depth, devs, name):
    cfg = CFG % {"constraint": "", "inv": "GrantWithinRequest StateIsHistory UnsubTruthful"}
    return ctx.tlc("SubAck", body(full, depth, devs), cfg, name="SubAck_" + name, workers=8, timeout=1800, count=not devs)


def replay(ctx, full, depth, devs, name):
    bindir = ctx.go_build(["./cmd/suback"])
    cfg = CFG % {"constraint": "CONSTRAINT Dump", "inv": "StateIsHistory"}
    res, out, rc = ctx.tlc_piped("SubAck", body(full, depth, devs), cfg, [os.path.join(bindir, "suback"), "-workers", "24"],
                                 name="SubAckReplay_" + name, workers=4, timeout=3000, count=False)
    if res.violation:
        raise vlib.MachineryError("SubAck.tla failed while enumerating:\n" + res.violation)
    if rc != 0:
        raise vlib.MachineryError("suback driver failed rc=%s" % rc)
    summary, divs = None, []
    for line in out:
        o = json.loads(line)
        if o["kind"] == "summary":
            summary = o
        elif o["kind"] == "div":
            divs.append(o)
    if summary is None:
        raise vlib.MachineryError("suback driver printed no summary")
    for d in divs:
        if d["signature"] == "harness":
            raise vlib.MachineryError("suback driver: " + d["what"])
    return summary, divs, res
