"""Negotiate.tla (growth, not a listed property): CONNECT negotiation and capability enforcement.
TLC enumerates every case, checks the coherence of the demanded outcomes and prints one line per case; harness/cmd/negotiate
runs each on a real broker."""
import itertools, json, os
import vlib
from vlib import tla_set, tla_str

CFG = """SPECIFICATION Spec
CONSTANTS
 Cfgs <- mc_Cfgs
 Conns <- mc_Conns
 Ops <- mc_Ops
 Dev <- mc_Dev
%(constraint)s
INVARIANTS %(inv)s
"""

B = lambda v: "TRUE" if v else "FALSE"
DEVIATIONS = ["maxqos_advertised_minus_one", "maxqos_not_enforced", "subid_unavailable_ignored", "caps_not_applied_to_v3",
              "empty_id_refusal_connack_unreadable", "v3_empty_id_persistent_closed_silently"]


def cfgs(full):
    out = []
    for mq, r, w, s, sh, ka, az in itertools.product((0, 1, 2), (True, False), (True, False), (True, False), (True, False),
                                                     (5, 300) if full else (5,), (True, False)):
        out.append("[maxqos |-> %d, retain |-> %s, wildcard |-> %s, subid |-> %s, shared |-> %s, maxka |-> %d, allowzero |-> %s]" % (
            mq, B(r), B(w), B(s), B(sh), ka, B(az)))
    return out


def conns(full):
    out = []
    for v, e, c, ka in itertools.product((4, 5), (True, False), (True, False), (0, 3, 600) if full else (3, 600)):
        out.append("[ver |-> %d, emptyid |-> %s, clean |-> %s, ka |-> %d]" % (v, B(e), B(c), ka))
    return out


def ops():
    out = ['[op |-> "ping", q |-> 0, retain |-> FALSE, kind |-> "", withid |-> FALSE]']
    for q, r in itertools.product((0, 1, 2), (True, False)):
        out.append('[op |-> "pub", q |-> %d, retain |-> %s, kind |-> "", withid |-> FALSE]' % (q, B(r)))
    for k, w in itertools.product(("plain", "wild", "shared"), (True, False)):
        out.append('[op |-> "sub", q |-> 0, retain |-> FALSE, kind |-> %s, withid |-> %s]' % (tla_str(k), B(w)))
    return out


def body(full, devs):
    return "\n".join(["mc_Cfgs == " + tla_set(cfgs(full)), "mc_Conns == " + tla_set(conns(full)), "mc_Ops == " + tla_set(ops()),
                      "mc_Dev == " + tla_set([tla_str(d) for d in devs])])


def design(ctx, full, devs, name):
    """the demanded outcomes are coherent (with the as-coded deviations they are not: returned for the record)"""
    cfg = CFG % {"constraint": "", "inv": "AdvertisedIsEnforced KeepAliveWithinMax AssignedIffEmpty MaxQosLegal"}
    return ctx.tlc("Negotiate", body(full, devs), cfg, name="Negotiate_" + name, workers=4, timeout=600, count=not devs)


def replay(ctx, full, devs, name):
    """every case on a real broker; returns (summary, divs, TlcResult)"""
    bindir = ctx.go_build(["./cmd/negotiate"])
    cfg = CFG % {"constraint": "CONSTRAINT Dump", "inv": "MaxQosLegal" if not devs else "KeepAliveWithinMax"}
    res, out, rc = ctx.tlc_piped("Negotiate", body(full, devs), cfg, [os.path.join(bindir, "negotiate"), "-workers", "24"],
                                 name="NegotiateReplay_" + name, workers=4, timeout=900, count=False)
    if res.violation:
        raise vlib.MachineryError("Negotiate.tla failed while enumerating:\n" + res.violation)
    if rc != 0:
        raise vlib.MachineryError("negotiate driver failed rc=%s" % rc)
    summary, divs = None, []
    for line in out:
        o = json.loads(line)
        if o["kind"] == "summary":
            summary = o
        elif o["kind"] == "div":
            divs.append(o)
    if summary is None:
        raise vlib.MachineryError("negotiate driver printed no summary")
    for d in divs:
        if d["signature"] == "harness":
            raise vlib.MachineryError("negotiate driver: " + d["what"])
    return summary, divs, res
