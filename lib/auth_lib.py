"""Transition-coverage replay of AuthGate.tla into a real in-process broker running the real auth plugin (C19).

run_pack(ctx, spec) -> (summary, divergences, TlcResult)
  spec     dict: name, pack (concretisation, see PACKS), algo, mode (abs | rel | relsame), stored (storable password
           tokens), pass_miss / user_miss (attempt-only tokens), shapes, lns, man_none, man_victim, prekinds, prephases, prevers,
           dev (named deviations of AuthGate.tla), workers
  summary  the replayer's summary line (n, counters ...)
  divergences  list of {"signature", "what", "line", "extra", "pack", "algo", "mode", "meta"} (<= 3 per signature)
run_many(ctx, specs, parallel) runs packs concurrently (every replayer is its own process with its own working dir).
A design-level failure of the model or a dead replayer raises vlib.MachineryError.
"""
import concurrent.futures, hashlib, json, os, shutil, tempfile, threading
import vlib
from vlib import tla_str, tla_set

ALGOS = ["plain", "md5", "sha256", "bcrypt"]
SHAPES = ["v31", "v311", "v5", "v5am", "v5amd", "v5am0"]      # am0: Authentication Method present with a zero-length name
PREKINDS = ["subscribe", "pubret", "unsubscribe", "pingreq", "auth", "disconnect", "connect2"]
PREPHASES = ["before", "afterfail", "pipelined", "burst"]
PREVERS = ["v31", "v311", "v5"]

_lock = threading.Lock()


def _nfd(s):
    import unicodedata
    return unicodedata.normalize("NFD", s)


def _pad(s, n, ch="x"):
    return s + ch * (n - len(s.encode("utf-8")))


def concretise(pack, algo):
    """abstract token -> concrete string.  User tokens: u1, u2 (storable), u1.pre / u1.case / u1.ext / u2.pre / u1.max /
    x.empty / unk (attempt-only).  Password tokens: b, pre, cas, emp (storable or attempt), ext, nul, rep, max, hashof."""
    if pack == "ascii":
        u1, u2, b = "alice", "bob", "Secr3t-pw"
        cas, u1case = b.swapcase(), "Alice"
    elif pack == "nested":       # the second account's name is a prefix of the first one's, passwords likewise short
        u1, u2, b = "alice", "alic", "pass"
        cas, u1case = "PASS", "ALICE"
    elif pack == "unicode":      # case-different := the other Unicode normal form (no normalisation may happen)
        u1, u2, b = "usér一", "用户", "päss-wörd"
        cas, u1case = _nfd(b), _nfd(u1)
    elif pack == "yaml":         # strings a YAML file may read back as something else
        u1, u2, b = "null", "123", "yes: #no"
        cas, u1case = "YES: #no", "Null"
    elif pack == "long72":       # bcrypt works on at most 72 bytes
        u1, u2 = "alice", "bob"
        b = _pad("Secr3t-", 72, "q")
        cas, u1case = b.swapcase(), "Alice"
    elif pack == "maxstored":    # maximal strings are stored (not for bcrypt: GenerateFromPassword refuses > 72 bytes)
        u1, u2 = "alice", _pad("bob", 65535, "b")
        b = _pad("Secr3t-", 65535, "q")
        cas, u1case = b.swapcase(), "Alice"
    else:
        raise vlib.MachineryError("unknown pack " + pack)
    names = {"u1": u1, "u2": u2, "u1.pre": u1[:-2] if pack == "nested" else u1[:-1], "u1.case": u1case, "u1.ext": u1 + "x",
             "u2.pre": u2[:-2] if pack == "nested" else u2[:-1], "u1.max": _pad(u1, 65535, "a"), "x.empty": "", "unk": "mallory"}
    # rep: the password, a NUL byte, the password again (bcrypt expands its key cyclically, with a NUL appended)
    pws = {"b": b, "pre": b[:-1], "cas": cas, "emp": "", "ext": b + "x", "nul": b + "\x00", "max": _pad(b, 65535),
           "rep": b + "\x00" + b}
    if pack == "maxstored":
        del pws["ext"], pws["max"], pws["rep"]
        pws["nul"] = b[:-1] + "\x00"
    if algo in ("md5", "sha256"):
        pws["hashof"] = hashlib.new(algo, b.encode("utf-8")).hexdigest()
    return names, pws


CFG = """SPECIFICATION Spec
CONSTANTS
 Users <- mc_Users
 Passwords <- mc_Passwords
 UserMiss <- mc_UserMiss
 PassMiss <- mc_PassMiss
 EmptyPw = %(emptypw)s
 Algo = %(algo)s
 Shapes <- mc_Shapes
 Lns <- mc_Lns
 ManNone <- mc_ManNone
 ManVictim <- mc_ManVictim
 PreKinds <- mc_PreKinds
 PrePhases <- mc_PrePhases
 PreVers <- mc_PreVers
 AfterTakeover = %(aftertakeover)s
 Dev <- mc_Dev
VIEW view
ACTION_CONSTRAINT DumpAC
INVARIANTS TypeOK %(fileinv)s
PROPERTIES %(acceptiff)s RestartLoadsFile PreAuthInert ConnectKeepsAccounts
"""


def scratch_root(ctx, name):
    """scratch for password files and the replayer's working directory (one file system: the plugin renames between them)"""
    base = "/dev/shm" if os.path.isdir("/dev/shm") and os.access("/dev/shm", os.W_OK) else None
    if base:
        d = tempfile.mkdtemp(prefix="verif_c19_%s_" % name, dir=base)
        with _lock:
            ctx.__dict__.setdefault("_auth_roots", []).append(d)
        return d
    return ctx.tmp("authroot_" + name)


def cleanup_roots(ctx):
    for d in ctx.__dict__.get("_auth_roots", []):
        shutil.rmtree(d, ignore_errors=True)
    ctx.__dict__["_auth_roots"] = []


def run_pack(ctx, spec):
    name = spec["name"]
    algo, mode, pack = spec["algo"], spec["mode"], spec["pack"]
    names, pws = concretise(pack, algo)
    users = ["u1", "u2"]
    stored = list(spec["stored"])
    pass_miss = [t for t in spec["pass_miss"] if t in pws and t not in stored]
    user_miss = [t for t in spec["user_miss"] if t in names]
    # distinct tokens must be distinct strings, storable strings must be what the plugin can store
    for toks, table in ((users + user_miss, names), (stored + pass_miss, pws)):
        seen = {}
        for t in toks:
            if table[t] in seen:
                raise vlib.MachineryError("pack %s: tokens %s and %s have the same concretisation" % (pack, t, seen[table[t]]))
            seen[table[t]] = t
    if algo == "bcrypt" and any(len(pws[t].encode()) > 72 for t in stored):
        raise vlib.MachineryError("pack %s: bcrypt cannot store passwords longer than 72 bytes" % pack)
    bindir = ctx.go_build(["./cmd/authgate"])
    root = scratch_root(ctx, name)
    meta = {"pack": pack, "algo": algo, "mode": mode, "root": root, "users": users, "passwords": stored,
            "names": {t: names[t] for t in users + user_miss + ["unk"]}, "pws": {t: pws[t] for t in stored + pass_miss},
            "seed": ctx.seed}
    mpath = os.path.join(ctx.tmp("meta"), "authgate_" + name + ".json")
    with open(mpath, "w") as fh:
        json.dump(meta, fh)
    sset = lambda xs: tla_set([tla_str(x) for x in xs])
    dev = list(spec.get("dev", []))
    body = "\n".join([
        "mc_Users == " + sset(users),
        "mc_Passwords == " + sset(stored),
        "mc_UserMiss == " + sset(user_miss),
        "mc_PassMiss == " + sset(pass_miss),
        "mc_Shapes == " + sset(spec["shapes"]),
        "mc_Lns == " + sset(spec["lns"]),
        "mc_ManNone == " + sset(spec["man_none"]),
        "mc_ManVictim == " + sset(spec["man_victim"]),
        "mc_PreKinds == " + sset(spec["prekinds"]),
        "mc_PrePhases == " + sset(spec["prephases"]),
        "mc_PreVers == " + sset(spec["prevers"]),
        "mc_Dev == " + sset(dev),
        "DumpAC == Dump",
    ])
    cfg = CFG % {"emptypw": tla_str("emp" if "emp" in stored else "-"), "algo": tla_str(algo),
                 "fileinv": "" if "relpath" in dev else "FileEqualsAccountsAfterOp",
                 "aftertakeover": "TRUE" if spec.get("after_takeover") else "FALSE",
                 # a deviation models a known finding: the design-level property it breaks is not checked in that run
                 "acceptiff": "" if "authmethod_rejected" in dev else "AcceptIff"}
    res, out, rc = ctx.tlc_piped("AuthGate", body, cfg,
                                 [os.path.join(bindir, "authgate"), "-meta", mpath, "-workers", str(spec.get("workers", 16))],
                                 name="AuthGate_" + name, workers=spec.get("tlc_workers", 2), timeout=spec.get("timeout", 1500))
    shutil.rmtree(root, ignore_errors=True)
    if res.violation:
        raise vlib.MachineryError("design-level check of AuthGate failed (model bug):\n" + res.violation)
    if rc != 0:
        crash = vlib.go_crash(os.path.join(res.dir, "tlc.out")) if getattr(res, "dir", None) else None
        if crash and crash[3]:
            raise vlib.BrokerCrash("%s (pack %s, %s)" % (crash[0], name, algo), crash[1], crash[2])
        raise vlib.MachineryError("authgate replayer failed rc=%s (pack %s)" % (rc, name))
    summary, divs = None, []
    for line in out:
        o = json.loads(line)
        if o["kind"] == "summary":
            summary = o
        elif o["kind"] == "div":
            o.update({"pack": pack, "algo": algo, "mode": mode, "name": name, "meta_file": meta, "dev": dev})
            divs.append(o)
    if summary is None:
        raise vlib.MachineryError("authgate replayer printed no summary (pack %s)" % name)
    if summary["n"] + summary["counters"].get("path_not_followable", 0) + summary.get("machinery_failures", 0) != res.generated - 1 \
            and res.generated:
        # every emitted transition is accounted for: replayed, or its path diverged earlier, or machinery failure
        raise vlib.MachineryError("pack %s: TLC generated %d transitions, replayer accounted for %d" % (
            name, res.generated - 1, summary["n"] + summary["counters"].get("path_not_followable", 0)))
    return summary, divs, res


def run_many(ctx, specs, parallel=4):
    """returns list of (spec, summary, divs, res) in the order of specs"""
    ctx.go_build(["./cmd/authgate"])
    results = [None] * len(specs)

    def one(i):
        results[i] = (specs[i],) + run_pack(ctx, specs[i])

    try:
        with concurrent.futures.ThreadPoolExecutor(max_workers=parallel) as ex:
            futs = [ex.submit(one, i) for i in range(len(specs))]
            for f in futs:
                f.result()
    finally:
        cleanup_roots(ctx)
    return results


def replay(ctx, obj):
    """re-execute the stored transition of a replay artefact (evidence/replays/C19_*.json); returns (summary, divs)"""
    import subprocess
    bindir = ctx.go_build(["./cmd/authgate"])
    meta = dict(obj["meta"])
    root = scratch_root(ctx, "replay")
    meta["root"] = root
    mpath = os.path.join(ctx.tmp("meta"), "authgate_replay.json")
    with open(mpath, "w") as fh:
        json.dump(meta, fh)
    try:
        r = subprocess.run([os.path.join(bindir, "authgate"), "-raw", "-meta", mpath, "-workers", "1"],
                           input=json.dumps(obj["transition"]) + "\n", stdout=subprocess.PIPE, stderr=subprocess.PIPE, text=True, timeout=300)
    finally:
        cleanup_roots(ctx)
    if r.returncode != 0:
        raise vlib.MachineryError("authgate replayer failed rc=%s: %s" % (r.returncode, r.stderr[-2000:]))
    summary, divs = None, []
    for line in r.stdout.splitlines():
        o = json.loads(line)
        if o["kind"] == "summary":
            summary = o
        elif o["kind"] == "div":
            o.update({"pack": meta["pack"], "algo": meta["algo"], "mode": meta["mode"], "meta_file": obj["meta"], "dev": obj.get("deviations", [])})
            divs.append(o)
    return summary, divs
