"""EnhAuth.tla (growth G03, not a listed property): enhanced authentication / re-authentication as a state machine.
TLC enumerates the cases and prints the demanded replies; harness/cmd/enhauth runs each on real brokers with scripted hooks."""
import itertools, json, os
import vlib
from vlib import tla_set, tla_str, tla_seq

CFG = """SPECIFICATION Spec
CONSTANTS
 Hooks <- mc_Hooks
 Methods <- mc_Methods
 Verdicts <- mc_Verdicts
 Scripts <- mc_Scripts
 Dev <- mc_Dev
%(constraint)s
INVARIANTS %(inv)s
"""
DEVIATIONS = ["reauth_method_compared_with_data", "handshake_auth_never_read", "connack_without_method", "bad_method_answered_unspecified"]
KINDS = ["authM", "authX", "reauthM", "reauthX", "ping"]


def body(full, devs):
    vs = [list(p) for n in (1, 2, 3) for p in itertools.product(("ok", "cont", "fail"), repeat=n)]
    maxlen = 3 if full else 2
    ss = [[]] + [list(p) for n in range(1, maxlen + 1) for p in itertools.product(KINDS, repeat=n)]
    return "\n".join(["mc_Hooks == {TRUE, FALSE}", 'mc_Methods == {"none", "M"}',
                      "mc_Verdicts == " + tla_set([tla_seq([tla_str(x) for x in v]) for v in vs]),
                      "mc_Scripts == " + tla_set([tla_seq([tla_str(x) for x in s]) for s in ss]),
                      "mc_Dev == " + tla_set([tla_str(d) for d in devs])])


def design(ctx, full, devs, name):
    cfg = CFG % {"constraint": "", "inv": "NoAuthWithoutMethod MethodEchoed AcceptedOnlyAfterOk SilentAfterClose"}
    return ctx.tlc("EnhAuth", body(full, devs), cfg, name="EnhAuth_" + name, workers=4, timeout=900, count=not devs)


def replay(ctx, full, devs, name):
    bindir = ctx.go_build(["./cmd/enhauth"])
    cfg = CFG % {"constraint": "CONSTRAINT Dump", "inv": "NoAuthWithoutMethod"}
    res, out, rc = ctx.tlc_piped("EnhAuth", body(full, devs), cfg, [os.path.join(bindir, "enhauth"), "-workers", "32"],
                                 name="EnhAuthReplay_" + name, workers=4, timeout=2400, count=False)
    if res.violation:
        raise vlib.MachineryError("EnhAuth.tla failed while enumerating:\n" + res.violation)
    if rc != 0:
        raise vlib.MachineryError("enhauth driver failed rc=%s" % rc)
    summary, divs = None, []
    for line in out:
        o = json.loads(line)
        if o["kind"] == "summary":
            summary = o
        elif o["kind"] == "div":
            divs.append(o)
    if summary is None:
        raise vlib.MachineryError("enhauth driver printed no summary")
    for d in divs:
        if d["signature"] == "harness":
            raise vlib.MachineryError("enhauth driver: " + d["what"])
    return summary, divs, res
