#!/usr/bin/env python3
"""Regenerates /verif/MANIFEST.json from the table below (single source of truth for registered checks)."""
import json, os, subprocess
HERE = os.path.dirname(os.path.dirname(os.path.abspath(__file__)))

CHECKS = {
 "C02": dict(
    level="model_checking", ref="DESIGN.md §4 C02",
    technique="TLC exhaustive exploration of SubStore.tla + transition-coverage replay of every transition into the real store; TLC-generated exhaustive TopicMatch table",
    text="TLC explores the abstract subscription store (SubStore.tla, queries defined from Topics!Match = MQTT 4.7) exhaustively for five alphabet packs; "
         "every (state, operation) transition TLC generates is replayed on a fresh mem.NewStore() and all Iterate query modes, by-name, by-client, counters and AlreadyExisted "
         "are compared with the specification's prediction; the same replay runs on the redis-backed store over an in-process RESP server, where after every transition a restarted store (Init) must answer the same. packets.TopicMatch is compared with Topics!Match on every (valid name, valid filter) pair over {a,b,/,+,#,$} up to length 4 (5 thorough). "
         "Exhaustive within the stated bounds, for the real code; nothing beyond the bounds.",
    note="Bounds: 2-3 clients, 7 filters per pack, <=3 live subscriptions, topic universe depth 3. Trusted: TLC, the JSON bridge, the replayer's projection function (public API only)."),
 "C01": dict(
    level="model_checking", ref="DESIGN.md §4 C01, §5",
    technique="trace validation: wire traces of scripted clients against real in-process brokers validated by TLC against Broker.tla; TLC model check BrokerOp.tla refines Broker.tla",
    text="Design level: TLC checks exhaustively (small constants) that an operational model of the broker's delivery algorithm (BrokerOp.tla: per-session queues, overlap / onlyonce accumulation, share-group pick) "
         "refines the declarative delivery obligations of Broker.tla (HeadExplained, DrainedMeansQuiet). Conformance: seeded scenarios (random subscription tables over filters x QoS x NoLocal x RAP x id, v3/v5 subscribers, "
         "publishers = other client / self / Publisher API, both delivery modes, concurrent numbered publishers) run on real brokers through an independent MQTT codec; every recorded event must be explained by a Broker.tla action "
         "(obligation discharge with exact QoS/RETAIN/identifiers/application properties, per-(publisher,subscriber) order, ack pairing) and nothing may be owed at a barrier.",
    note="Bounded: scenario sizes and alphabets, seeds. Barrier soundness rests on the session queue being FIFO (a broken FIFO shows up as a late packet = rejection). Trusted: TLC, mqttwire codec, the wire driver's logging discipline (inputs logged before write, outputs after read)."),
 "C11": dict(
    level="model_checking", ref="DESIGN.md §4 C11",
    technique="TLC exhaustive SubStore.tla + transition-coverage replay over share-group alphabets; trace validation of membership-churn scenarios against Broker.tla; BrokerOp.tla refinement check",
    text="Store layer: every transition of SubStore.tla over share-group packs (3 clients, same client in two groups on one filter, groups next to non-shared filters, wildcard and $ filters) replayed on the real store, all query modes compared "
         "(a leaver changes nothing but its own entries). Broker layer: churn scenarios (join; leave by UNSUBSCRIBE, session end, abort, clean take-over) followed by numbered publications; TLC validates that each publication is delivered to exactly one "
         "current member per matching group at min(QoS), independently of non-shared deliveries, and that a shared subscribe replays no retained message.",
    note="Which member is picked is free. A group copy may stay parked while a member is offline. Bounded alphabets/scenario sizes."),
 "C18": dict(
    level="model_checking", ref="DESIGN.md §4 C18",
    technique="TLC model check WsConn.tla; TLC-enumerated segmentations (WsSeg.tla) replayed through a real WebSocket listener with a TCP twin as reference",
    text="WsConn.tla: TLC checks that reads concatenate to the stream of binary payloads for all splits and read sizes in the bound; WsSeg.tla enumerates segmentations (all compositions of short streams, boundary families around the 1024-byte "
         "reader buffer, cuts at -1/0/+1 of every packet boundary, empty and text messages); each is sent through gorilla/websocket to a real broker and the answers are compared byte for byte with the same stream over TCP. Also: empty text messages; unread bytes behind DISCONNECT followed by fresh connections (own broker, one scenario at a time); streams whose last written packet is exactly 1024 / 2048 bytes; when the TCP twin is unusable the reference is what MQTT demands for the stream, decoded with the independent codec.",
    note="Bounded stream lengths / families; trusted: gorilla/websocket client, TCP twin as reference."),
 "C07": dict(
    level="model_checking", ref="DESIGN.md §4 C07",
    technique="TLC exhaustive Retained.tla + transition-coverage replay into retained/trie; trace validation of retained histories and subscriptions against Broker.tla",
    text="Store: TLC explores Retained.tla (last value per topic, clear on empty payload, lookups by filter defined from Topics!Match) and every transition is replayed on trie.NewStore() with all lookups compared. "
         "Broker: seeded histories of retained publishes/clears (also through topic aliases) followed by subscriptions of every shape (filter, QoS, Retain Handling 0/1/2, RAP, v3/v5, shared, re-subscription); "
         "TLC validates every recorded event: which retained messages are replayed, once each, at min(QoS), with RETAIN=1, and RETAIN on live forwarding only under RAP.",
    note="One open known finding (replay RETAIN follows RAP) is modelled as a named deviation: traces are validated with it switched on (so everything else is still checked) and strictly to report it. Bounded alphabets/scenario sizes."),
 "C03": dict(
    level="model_checking", ref="DESIGN.md §4 C03, App. B.2",
    technique="TLC exhaustive Limiter.tla + transition-coverage replay into the real packet-id limiter; trace validation of a scripted subscriber (acks, cuts, Receive Maximum) against Broker.tla inflight rules",
    text="Limiter.tla: every transition (incl. the 65535 wrap-around, reached through a blockers history) replayed on the real limiter: ids fresh, non-zero, window. Flow: seeded scripts of one subscriber that acknowledges promptly/late/"
         "out of order/never/with error codes and is cut and resumed with varying Receive Maximum under max_inflight 1/2/3/100; TLC validates every event against Broker.tla: packet ids of unacknowledged deliveries non-zero and distinct (IdsDistinct), "
         "window <= min(Receive Maximum, max_inflight) (WindowOK), first transmission DUP=0, retransmissions with the same id and DUP=1 (or PUBREL) first and in original order after every resume, and everything is delivered once acknowledged.",
    note="The client only acknowledges what it has seen on the current connection. Blocked sessions are excused at barriers (lenient window). Bounded scripts; seeds."),
 "C04": dict(
    level="model_checking", ref="DESIGN.md §4 C04",
    technique="TLC model check + behaviour enumeration of Inbound.tla; every enumerated history replayed on a real broker and validated by TLC against Broker.tla",
    text="Inbound.tla: TLC checks ExactlyOnce / AckPairing on all histories over PUBLISH q2(id,dup) / PUBREL(id) / PUBLISH q1 / reconnect(clean) up to the depth bound and prints each history; the histories are replayed (explicit packet ids, "
         "retransmissions with and without DUP, id reuse, reconnects with Clean Start 0/1, v3.1.1 and v5) with an independent QoS2 subscriber; TLC validates that each logical message is forwarded exactly once and each packet gets its ack with the same id.",
    note="Depth 4 (quick: seeded sample of 500 of 10 000 histories) / depth 5 (thorough: all). Two packet ids."),
 "C06": dict(
    level="exploration", ref="DESIGN.md §4 C06, §6",
    technique="TLC-evaluated independent wire-format definition (Codec.tla: encoder, decoder, size formula, 44 fault operators) generating valid and faulted vectors for the real decoder/encoder; TopicStr.tla validity tables",
    text="PARTIAL (DESIGN.md §6): decided for the grammar and its fault-operator closure, not for arbitrary byte strings. Codec.tla is an independent definition of MQTT 3.1/3.1.1/5 (all 15 packet types, property table with multiplicities); TLC asserts "
         "Len(Enc(p)) = SizeFormula(p), Dec(Enc(p)) = p and that each fault lands outside the image of Enc, and emits ~1.5e4 (quick) / ~2.7e5 (thorough) vectors. The driver feeds them to packets.Reader (guard bytes, watchdog, allocation limit): valid => accepted, "
         "fields equal, consumed exactly, re-encodes, TotalBytes and Message.TotalBytes = length; faulted => error, no panic; the real encoder's output must equal Enc(p). Topic name/filter validity: byte-level table incl. NUL and invalid UTF-8. A concurrent phase (64 goroutines encoding validated MQTT 5 values) checks that a value encodes to the same bytes whatever other encoders do (shared scratch-buffer pool).",
    note="Not decided: arbitrary byte strings (no fuzzing by design), the 2 097 151/2 097 152 remaining-length boundary. Four open known findings (D7, D5 rest, D11, D4 rest) pinned by existing tests or not small."),
 "C14": dict(
    level="model_checking", ref="DESIGN.md §4 C14",
    technique="TLC model check of Hooks.tla (wrapper nesting, verdict state machine) + replay of every emitted composition case and verdict transition on real brokers with recording plugins/hooks",
    text="Composition: TLC enumerates hook kind x sequences of <= 3 plugins x exposing subsets x core hook present (3002 cases; the model proves the step-by-step nesting equals the closed-form log); each case = one real broker, one event of that kind, "
         "recorded call log = demanded nested log (order, exactly once). Verdicts: every (state, request, verdict) transition of the verdict model replayed on a fresh broker: response codes, deliveries to an independent observer and the subject, "
         "ClientService/SubscriptionService/RetainedService snapshots compared (reject leaves no trace, rewrite is what is seen, will edit/drop). Volume run of rejected CONNECTs over all failure codes.",
    note="Three open known findings (retained store updated before OnMsgArrived; occasionally lost failing CONNACK; multi-step enhanced auth never completes) handled as named deviations / signatures: strict pass reports them, second pass with deviations on covers the full graph."),
 "C13": dict(
    level="model_checking", ref="DESIGN.md §4 C13",
    technique="TLC exhaustive AliasFifo.tla + replay of all topic sequences on the real alias manager; trace validation of boundary scenarios against Broker.tla limit rules",
    text="Alias manager: TLC enumerates every topic sequence up to length 6 (8 thorough) over 4 topics for max 1..3; each real answer is judged by the client-view rule (alias in 1..max; alias-only resolves to the real topic). "
         "Limits: boundary scenarios over validator-accepted configurations: outbound PUBLISH sizes at M-1/M/M+1 of the client's Maximum Packet Size (dropped whole, connection stays), outbound aliases within the client's maximum and resolving, "
         "inbound aliases 1..max with rebinding (never disconnected) and 0 / max+1 / 65535 / unbound (0x94), QoS2 exchanges held open up to Receive Maximum (ok) and one more (0x93), inbound packets at max-1/max (ok) and max+1 (0x95); "
         "TLC validates every event against Broker.tla (Offences, SrvDisconnect only when owed, Fits). Extremes of the accepted configuration (topic_alias_maximum 65535) and Receive Maximum across a session resume (re-sent / duplicate PUBREL) are part of the families.",
    note="Would-be forwarded size computed by the independent codec for the one size-limited subscriber of a scenario. v5 only (v3 has no such limits). Bounded configurations: server_receive_maximum {1,2,3,10,100,65535}, topic_alias_maximum {1,2,5,10}, max_packet_size {40..300}."),
 "C19": dict(
    level="model_checking", ref="DESIGN.md §4 C19",
    technique="TLC exhaustive AuthGate.tla + transition-coverage replay against a real broker with the real auth plugin (mqttwire clients, account API handlers, restarts)",
    text="AuthGate.tla (accounts, password file, victim-state tokens; Update/Delete/Restart/Connect/PreAuth) is explored exhaustively; every transition is replayed on a fresh real broker with the real auth plugin: concrete credentials for the abstract classes "
         "(exact, prefix, case, trailing NUL, repeated, empty, 65535 bytes), user/password flag combinations, v3.1/v3.1.1/v5, Authentication Method/Data present, all four hash algorithms, absolute and relative password files, TCP and WebSocket listeners; "
         "accept/reject, account-operation effects, what a restarted broker loads, and inertness of packets before / after a failed CONNECT (service snapshots) are compared with the specification. Phase burst = packets behind a PINGREQ in one write without any CONNECT; a crash of a broker goroutine during the replay is reported as a violation.",
    note="Two open known findings (valid credentials refused when an Authentication Method is present - allowed by MQTT 5; failing CONNACK occasionally lost). bcrypt cost is the plugin's fixed MinCost."),
 "C12": dict(
    level="model_checking", ref="DESIGN.md §4 C12",
    technique="timed trace validation by TLC against Broker.tla (Lifetime, ExpiryOK, Dropped, Quiet with tolerance windows)",
    text="Seeded timed scenarios: publisher interval {none,1,2,100,2^32-1} x configured message_expiry {0,1 s,2 s,2 h} x waiting {online, offline before / after the deadline, queued behind an unacknowledged message} x v3/v5; "
         "every recorded event is validated by TLC: lifetime = interval capped by the configured maximum; no delivery after the deadline (reading tolerance 400 ms); an expired copy of an online session is dropped and reported (OnMsgDropped event); "
         "the forwarded interval of a v5 subscriber is original - whole seconds waited (+-1 s), within [1, original], never absent.",
    note="Real seconds; decisive instants >= 450 ms from deadlines; logging latency assumed < 400 ms. Retained replay excluded (fresh lifetime by design). States/transitions reported are those of the trace specification visited while explaining the traces."),
 "C05": dict(
    level="model_checking", ref="DESIGN.md §4 C05, App. B.3",
    technique="TLC model check of TakeOver.tla (take-over protocol at the grain of the code) with every schedule it admits forced on the real broker through blocking gate hooks (schedule gating); timed trace validation by TLC against Broker.tla session rules, with the broker's register/unregister/exit/closed hook events as linearization points; storms of simultaneous CONNECTs",
    text="Seeded scenarios: lifecycle matrix (v3.1/v3.1.1/v5 x Clean Start x expiry x connection duration shorter/longer than the expiry x DISCONNECT / DISCONNECT with new expiry / abort / TerminateSession x reconnect before/after the expiry), "
         "sequential take-overs, and storms of 2-6 simultaneous CONNECTs on one client id with and without a stored offline session. TLC validates Session Present against ResumeVerdicts (expiry measured from the end of the last connection, "
         "either verdict inside a 450 ms window), that the session state is intact by content (subscription routes, message queued while offline is delivered) or empty, and on the broker's own event order: at most one registered connection per "
         "client id, the socket of a displaced connection closed before the next one is registered and (wire level) its end readable when the newer CONNACK is read, nothing delivered on a displaced connection. "
         "Schedule gating: TakeOver.tla (lock / read / gate / close old / await closed / gate / loop / register) is model-checked (OneLive, DisplacedClosedFirst, termination) and every schedule of 2 simultaneous CONNECTs "
         "(16 parameter vectors x 4 initial situations, 576 schedules) and of 3 (per parameter vector ~12 000 schedules; quick 500 seeded) is executed deterministically on a real broker and validated the same way.",
    note="Real seconds (20 s sweeper only in the sweeper family). Interleavings are exhaustive at gate granularity for N <= 3; races inside the critical sections are those the Go scheduler produces in the storms."),
 "C08": dict(
    level="model_checking", ref="DESIGN.md §4 C08",
    technique="timed trace validation by TLC against Broker.tla will rules (WillAtEnd / WillAtResume / WillAtSessionEnd / WillFire), with the broker's will-publication hook event and an independent watcher",
    text="Seeded timed scenarios: will {QoS, retain, delay 0/1/2 s, v3.1.1/v5} x ending {DISCONNECT 0x00, DISCONNECT 0x04, socket close, malformed packet, keep-alive timeout, take-over with Clean Start 0/1, TerminateSession} x session expiry {0,1,5 s} "
         "x reconnect {none, before, after the delay}. TLC validates that the will is published exactly once (publication event + delivery to a watcher with the QoS / RETAIN its subscription yields), not before min(delay, expiry) after the end "
         "of the connection, within 500 ms after it, immediately when the session ends, never after DISCONNECT 0x00 and never after a resume before the delay.",
    note="Real seconds; tolerance windows 200 ms early / 500 ms late / 450 ms around resume decisions. Will application properties (payload format, content type, response topic, correlation data, user properties) are compared, and a will published with Will Retain must be replayed to a later subscriber."),
 "C10": dict(
    level="model_checking", ref="DESIGN.md §4 C10, App. B.1",
    technique="TLC exhaustive Queue.tla (functional-style queue model with fate map and drop ladder) + transition-coverage replay with probe sequences into the memory queue and the redis queue (RESP fake)",
    text="Queue.tla states the contract (bounded length, every message exactly one of queued / handed out / dropped-with-reason, FIFO, ids in order to QoS>0 only, nothing expired or oversize handed out, replay of in-flight entries after Init(not clean), "
         "the drop ladder, counters = contents) with design-level invariants checked by TLC; every emitted transition is replayed on a fresh real queue with a recording Notifier: return value, Notifier calls and the output of a model-predicted probe sequence "
         "(Init(false); ReadInflight*; Read*) are compared. Targets: mem.New and redis_queue.New over the in-process RESP fake (re-initialisation as new object / same object / restart).",
    note="Bounds: capacity 2-3, 3-5 messages, ids 1..3; operations inside the documented usage protocol only. The redis clauses rest on the RESP fake (itself checked against RespCmds.tla). One open known finding (redis Init(clean) counters)."),
 "C16": dict(
    level="model_checking", ref="DESIGN.md §4 C16, App. B.5",
    technique="TLC exhaustive FedStream.tla / FedEmit.tla + transition-coverage replay on the real eventQueue / sessionMgr / initStream / eventStreamHandler through the verif export, with driver-controlled fake bidi streams; trace validation (FedDelivery.tla) of two real Federation objects connected by real gRPC through a byte-cutting proxy",
    text="FedStream.tla models one ordered pair of nodes at the grain of the code (Emit, Hello resume/clean + resync, Fetch, SrvRecv, SrvAck, CliAck, Break losing any suffix of both channels at any time incl. during the handshake and between send and "
         "acknowledgement, restarts, node fail/rejoin); TLC checks AppliedIsPrefix / NoGapNoDup / QuiescentView on all schedules in the bound and every transition is replayed on the REAL federation objects with the network played by the driver; "
         "applied events, the peer's view vs the node's reference-counted local set and queue contents are compared after each step. Real-gRPC tier: two real Federation objects with A's own connect / back-off loop through a byte-cutting TCP proxy, also with > 100 topics at the join, bursts of > 100 events and a second goroutine emitting across the first handshake; traces validated against FedDelivery.tla. The hook-emission schedule of FedEmit.tla is forced on OnUnsubscribed and on OnSessionTerminated.",
    note="FedStream replay: cuts at message grain, network played by the driver. Byte grain: a second tier puts real gRPC and A's real connect / back-off loop between two real Federation objects; a proxy cuts the TCP connection after 0..500 bytes in either direction; TLC validates the emit / apply / quiet traces against FedDelivery.tla (no peer restarts in that tier). One open known finding (clean Hello whose answer is lost; its repair is pinned by TestFederation_Hello). Batch and duplicate-filter constants (100) are never exhausted by the bounded histories."),
 "C17": dict(
    level="model_checking", ref="DESIGN.md §4 C17",
    technique="TLC exhaustive FedRoute.tla + transition-coverage replay of the real sendMessage / OnMsgArrivedWrapper / OnWillPublishWrapper / receive path with recording peer queues and retained stores",
    text="FedRoute.tla: 3 nodes, local subscriptions (plain, wildcard, shared, $), converged mirrored views; invariants ForwardedIffNeeded, NoEcho, GroupOnceFederationWide, RetainedEverywhere checked by TLC; every publication transition is replayed on real "
         "Federation objects: the set of peers the message is queued for, the local delivery options, what each receiver delivers and the retained-store effect are compared with the specification. The message the receiving node publishes is compared with the origin's in every application field.",
    note="Three open known findings (share group spanning nodes: starved / served twice / retained served per node) - structural (the Message event carries no group information). Views are assumed converged (C16 covers convergence)."),
 "C15": dict(
    level="model_checking", ref="DESIGN.md §4 C15, App. B.4, §6",
    technique="TLC model check of Conn.tla (PlusCal model of one connection's goroutines, channels, locks and Stop) and LockOrder.tla (broker-wide lock order, Go RWMutex writer preference), constants of both extracted from the source by go/ast at check time; TLC behaviours converted into scripts (schedule gating through trace hooks and a gated persistence) and run on real brokers under watchdogs; trace validation of lifecycle hook events of free-running storms against TraceConn.tla",
    text="Conn.tla models readLoop / writeLoop / serve / pollMessages / readHandle, setError with sync.Once, bounded channels, socket state, srv.mu and Stop, with unfair peers (never reading, never closing). TLC checks on packs of the model: "
         "deadlock freedom, StopCalled ~> StopReturned, SockClosed ~> ClosedSignalled, nothing alive after Stop returned, Unload/OnStop exactly once, Responsive, OneRegistered, with the constants the check extracts from the current source. "
         "For every named deviation the stuck state is searched in the faithful model and the shortest behaviour reaching it becomes a script executed on a real broker (request answered or connection closed within 2 s, closed event after a socket close, "
         "Stop returns within 3 s, hooks once, goroutine profile empty after Stop); a fixed regression library and storms (simultaneous connects, take-overs, stalled peers, Stop in the middle) run the same way, the storms on a -race build, "
         "and their lifecycle events are validated by TLC against TraceConn.tla. LockOrder.tla: srv.mu, the subscription store's RWMutex, queue mutex, packet-id limiter, statsManager.clientMu and the order the code paths take them "
         "(which locks the statistics paths and pollInflights nest is read from the source); NoLockCycle is checked exhaustively, a stuck state becomes a gated script (a real delivery parked at a trace hook under srv.mu + the store's read lock; "
         "a resumed session parked inside the persistence layer) or the pairs workload (fresh client ids, store writers, deliveries, statistics reads against each other, both delivery modes).",
    note="'No data race' is NOT decided by the specification (DESIGN.md §6): the Go race detector observes the storm executions only. One open known finding (delayed-will goroutine outlives Stop). Model fidelity of guards is kept by the go/ast extraction; the rest of Conn.tla is hand-written."),
 "C09": dict(
    level="fault_enumeration", ref="DESIGN.md §4 C09",
    technique="TLC model check of Durable.tla (crash between any two storage commands + recovery); trace validation of the storage-command journal of a RESP server (real broker, persistence=redis) against TraceDurable.tla; a new real broker restarted on every journal prefix and compared with the specification's required state",
    text="Durable.tla: durable keys (session, sub, queue, unack), volatile state, every broker operation as the sequence of storage commands it must issue, Crash between any two commands, Recover = start-up; TLC checks RecoverableAfterCrash / StartupTotal for the demanded "
         "command order (and, thorough, that each as-coded deviation violates it). Seeded client histories (persistent and clean sessions, client ids with awkward prefixes, plain / wildcard / shared / $ filters with options, QoS 0/1/2 both directions, partial QoS2 exchanges, "
         "unsubscribes, session ends, reuse of client ids) run against a real broker on the in-process RESP server; TraceDurable.tla explains the journal + acknowledgement markers and yields the required state per prefix; a NEW broker is started on EVERY prefix "
         "and must start, hold every acknowledged session and subscription (with options), not serve removed ones, redeliver acknowledged unacked QoS>0 messages on resume, and recognise QoS2 ids awaiting PUBREL.",
    note="Crash = the store keeps exactly a prefix of the journalled commands (no torn command). Real redis is not available: the RESP fake is trusted and itself checked against RespCmds.tla (C10 tier). quick: every prefix of 24 histories; thorough: of 200."),
 "C20": dict(
    level="model_checking", ref="DESIGN.md §4 C20",
    technique="TLC model check of Stats.tla conservation invariants over StatsEnv.tla event sequences; trace validation of wire + hook traces with statistics snapshots against TraceStats.tla (every snapshot field must equal the specification's value)",
    text="Stats.tla defines every counter and gauge as a function of the event history (packets/bytes per type in and out, messages per QoS received/sent/dropped per reason, queued / in-flight gauges = queue contents, session and connection gauges and totals, "
         "global = sum of live per-client records + what ended sessions had accumulated); TLC checks the conservation invariants on all event sequences up to 6 (8) events. Binding: seeded workloads on real brokers (all packet types, QoS 0/1/2 both directions, manual acks, "
         "small windows, offline queueing, resume, take-over, clean start over a stored session, TerminateSession, abort, one family per drop reason, AUTH); at every quiescent point the StatsReader snapshot (global and every client id) is compared field by field with "
         "what TraceStats.tla computes from the recorded trace (byte sizes are those the independent client wrote / read).",
    note="Snapshots at barriers + settle; mismatches must reproduce in slow mode. Subscription statistics are C02's. Memory persistence only; refused connections and broker-sent AUTH not exercised. thorough adds the 20 s expiry sweep and the 30 s in-flight expiry."),
}

NOT_YET = {
}

ALL = ["C%02d" % i for i in range(1, 21)]


def main():
    hooks_commits = []
    try:
        out = subprocess.run(["git", "-C", "/repo", "log", "--format=%h %s"], stdout=subprocess.PIPE, text=True).stdout
        hooks_commits = [l.split()[0] for l in out.splitlines() if " verif:" in l or " hook:" in l]
    except Exception:
        pass
    m = {
        "version": 1,
        "setup_cmd": "./check setup",
        "hooks": {
            "guard": "verif",
            "enable": "go1.26 build -tags verif (harness module /verif/harness, replace github.com/DrmagicE/gmqtt => /repo)",
            "baseline_off_cmd": "/verif/baseline_off.sh",
            "source_commits": hooks_commits,
            "add_only": True,
        },
        "engines": [
            {"name": "tlc", "path": "/opt/veriftools/tla/tla2tools.jar", "serves_properties": sorted(CHECKS),
             "kind_free_text": "TLC 1.8.0 explicit-state model checker; specifications in /verif/spec"},
            {"name": "harness", "path": "/verif/harness", "serves_properties": sorted(CHECKS),
             "kind_free_text": "Go conformance harness (replayers, trace recorders) built with -tags verif against /repo"},
        ],
        "checks": [],
        "not_applicable": [],
        "notes": "See DESIGN.md. Exit codes: 0 held, 1 violation (VIOLATION line), 2 machinery trouble (no verdict).",
    }
    for pid in ALL:
        if pid in CHECKS:
            c = CHECKS[pid]
            m["checks"].append({
                "property_id": pid,
                "quick_cmd": "./check %s quick" % pid,
                "thorough_cmd": "./check %s thorough" % pid,
                "evidence_file": "/verif/evidence/%s.json" % pid,
                "replay_cmd_template": "./check %s --replay {path}" % pid,
                "engine": "tlc+harness",
                "level_claimed": {"category": c["level"], "text": c["text"], "design_ref": c["ref"]},
                "level_note": c["note"],
                "technique": c["technique"],
            })
        else:
            m["not_applicable"].append({"property_id": pid, "reason": NOT_YET.get(pid, "check not built yet in this round (planned, see DESIGN.md §4); nothing is claimed for it")})
    with open(os.path.join(HERE, "MANIFEST.json"), "w") as fh:
        json.dump(m, fh, indent=1)
    print("MANIFEST.json: %d checks, %d not_applicable" % (len(m["checks"]), len(m["not_applicable"])))


if __name__ == "__main__":
    main()
