#!/usr/bin/env python3
"""Regenerates /verif/MANIFEST.json from the table below (single source of truth for registered checks)."""
import json, os, subprocess
HERE = os.path.dirname(os.path.dirname(os.path.abspath(__file__)))

CHECKS = {
 "C02": dict(
    level="model_checking", ref="DESIGN.md §4 C02",
    technique="TLC exhaustive exploration of SubStore.tla + transition-coverage replay of every transition into the real store; TLC-generated exhaustive TopicMatch table",
    text="TLC explores the abstract subscription store (SubStore.tla, queries defined from Topics!Match = MQTT 4.7) exhaustively for five alphabet packs; "
         "every (state, operation) transition TLC generates is replayed on a fresh mem.NewStore() and all Iterate query modes, by-name, by-client, counters and AlreadyExisted "
         "are compared with the specification's prediction. packets.TopicMatch is compared with Topics!Match on every (valid name, valid filter) pair over {a,b,/,+,#,$} up to length 4 (5 thorough). "
         "Exhaustive within the stated bounds, for the real code; nothing beyond the bounds.",
    note="Bounds: 2-3 clients, 7 filters per pack, <=3 live subscriptions, topic universe depth 3. Trusted: TLC, the JSON bridge, the replayer's projection function (public API only)."),
}

NOT_YET = {
}

ALL = ["C%02d" % i for i in range(1, 21)]


def main():
    hooks_commits = []
    try:
        out = subprocess.run(["git", "-C", "/repo", "log", "--format=%h %s"], stdout=subprocess.PIPE, text=True).stdout
        hooks_commits = [l.split()[0] for l in out.splitlines() if " verif:" in l or " hook:" in l]
    except Exception:
        pass
    m = {
        "version": 1,
        "setup_cmd": "./check setup",
        "hooks": {
            "guard": "verif",
            "enable": "go1.26 build -tags verif (harness module /verif/harness, replace github.com/DrmagicE/gmqtt => /repo)",
            "baseline_off_cmd": "/verif/baseline_off.sh",
            "source_commits": hooks_commits,
            "add_only": True,
        },
        "engines": [
            {"name": "tlc", "path": "/opt/veriftools/tla/tla2tools.jar", "serves_properties": sorted(CHECKS),
             "kind_free_text": "TLC 1.8.0 explicit-state model checker; specifications in /verif/spec"},
            {"name": "harness", "path": "/verif/harness", "serves_properties": sorted(CHECKS),
             "kind_free_text": "Go conformance harness (replayers, trace recorders) built with -tags verif against /repo"},
        ],
        "checks": [],
        "not_applicable": [],
        "notes": "See DESIGN.md. Exit codes: 0 held, 1 violation (VIOLATION line), 2 machinery trouble (no verdict).",
    }
    for pid in ALL:
        if pid in CHECKS:
            c = CHECKS[pid]
            m["checks"].append({
                "property_id": pid,
                "quick_cmd": "./check %s quick" % pid,
                "thorough_cmd": "./check %s thorough" % pid,
                "evidence_file": "/verif/evidence/%s.json" % pid,
                "replay_cmd_template": "./check %s --replay {path}" % pid,
                "engine": "tlc+harness",
                "level_claimed": {"category": c["level"], "text": c["text"], "design_ref": c["ref"]},
                "level_note": c["note"],
                "technique": c["technique"],
            })
        else:
            m["not_applicable"].append({"property_id": pid, "reason": NOT_YET.get(pid, "check not built yet in this round (planned, see DESIGN.md §4); nothing is claimed for it")})
    with open(os.path.join(HERE, "MANIFEST.json"), "w") as fh:
        json.dump(m, fh, indent=1)
    print("MANIFEST.json: %d checks, %d not_applicable" % (len(m["checks"]), len(m["not_applicable"])))


if __name__ == "__main__":
    main()
