"""Replay of AliasFifo.tla into the real outbound topic-alias manager topicalias/fifo (C13, outbound alias clause).

run(ctx, tier) -> (summary, divergences)
  summary      {"n": histories replayed (= Check answers judged), "nontrivial": answers that were alias-only or a re-binding,
                "divergences", "counters": {policy_same, policy_differs, alias_only, binding, rebinding, no_alias, div:*},
                "topics", "max_set", "L", "states", "generated", "free_states", "wall_s"}
  divergences  list of {"signature", "what", "line" ({max, pre, t, ref}), "extra" (observed answers of the whole history)}
TLC (one run, Topic Alias Maximum chosen in Init) enumerates every topic sequence of length <= L over 4 topics and checks
TypeOK, PolicyValid, ListIsView, AliasOutValid, AliasResolves for the reference FIFO policy; a second small run checks the
property-level specification SpecFree (any valid answer).  The verdict on the real code is the rule AliasFifo!Valid applied
to the real answers; the alias numbers themselves are not compared.
"""
import json, os
import vlib
from vlib import tla_str, tla_set

TOPICS = ["t1", "t2", "t3", "t4"]
MAX_SET = [1, 2, 3]

CFG = """SPECIFICATION Spec
CONSTANTS
 TopicsA <- mc_TopicsA
 MaxSet <- mc_MaxSet
 L <- mc_L
CONSTRAINT Bound
ACTION_CONSTRAINT DumpAC
INVARIANTS TypeOK PolicyValid ListIsView
PROPERTIES AliasOutValid AliasResolves
"""

CFG_FREE = """SPECIFICATION SpecFree
CONSTANTS
 TopicsA <- mc_TopicsA
 MaxSet <- mc_MaxSet
 L <- mc_L
VIEW viewFree
INVARIANTS TypeOK
PROPERTIES AliasOutValid AliasResolves
"""


def mc_body(topics, max_set, L, dump=True):
    lines = ["mc_TopicsA == " + tla_set([tla_str(t) for t in topics]),
             "mc_MaxSet == " + tla_set([str(m) for m in max_set]),
             "mc_L == %d" % L]
    if dump:
        lines.append("DumpAC == Dump")
    return "\n".join(lines)


def run(ctx, tier, topics=TOPICS, max_set=MAX_SET, L=None, workers=8, timeout=900):
    if L is None:
        L = 6 if tier == "quick" else 8          # every history of length 1..L: prefix of length <= L-1 plus the judged Check
    bindir = ctx.go_build(["./cmd/aliasfifo"])
    # property-level specification: tiny (client views only)
    free = ctx.tlc("AliasFifo", mc_body(topics, max_set, L, dump=False), CFG_FREE, name="AliasFifo_free", workers=2,
                   timeout=300, count=False)
    if free.violation or free.rc != 0:
        raise vlib.MachineryError("design-level check of AliasFifo!SpecFree failed (model bug):\n" + (free.violation or "\n".join(free.tail[-20:])))
    res, out, rc = ctx.tlc_piped("AliasFifo", mc_body(topics, max_set, L), CFG, [os.path.join(bindir, "aliasfifo")],
                                 name="AliasFifo_L%d" % L, workers=workers, timeout=timeout)
    if res.violation:
        raise vlib.MachineryError("design-level check of AliasFifo failed (model bug):\n" + res.violation)
    if rc != 0:
        raise vlib.MachineryError("aliasfifo replayer failed rc=%s" % rc)
    summary, divs = None, []
    for line in out:
        o = json.loads(line)
        if o["kind"] == "summary":
            summary = o
        elif o["kind"] == "div":
            divs.append(o)
    if summary is None:
        raise vlib.MachineryError("aliasfifo replayer printed no summary")
    # exhaustive: one line per history of length 1..L (successors of states of length L are outside the bound)
    want = sum(len(topics) ** k for k in range(1, L + 1)) * len(max_set)
    if summary["n"] != want:
        raise vlib.MachineryError("aliasfifo: %d histories replayed, %d expected" % (summary["n"], want))
    ctx.cov["traces_validated_against_impl"] += summary["n"]
    ctx.cov["evaluations"] += summary["n"]
    ctx.cov["distinct_nontrivial"] += summary["nontrivial"]
    for s in summary["samples"][:1]:
        ctx.sample({"aliasfifo_history": s})
    summary.update({"topics": topics, "max_set": max_set, "L": L, "states": res.distinct, "generated": res.generated,
                    "free_states": free.distinct, "wall_s": round(res.wall + free.wall, 1)})
    summary.pop("samples", None)
    ctx.cov["aliasfifo"] = {k: summary[k] for k in ("n", "nontrivial", "topics", "max_set", "L", "states", "generated", "counters")}
    vlib.log("[aliasfifo] max in %s, %d topics, histories <= %d: states=%d answers judged=%d divergences=%d (%.1fs)" % (
        max_set, len(topics), L, res.distinct, summary["n"], summary["divergences"], res.wall))
    return summary, divs
