"""Scenario generators for the wire-level checks (seeded; every random choice comes from the rng given)."""
import random

FILTERS = ["t", "t/u", "+", "#", "t/+", "t/#", "+/u", "+/+", "x", "$s/x", "$s/#", "t//v", "t/"]
TOPICS = ["t", "t/u", "x", "t/u/w", "$s/x", "t//v", "t/"]


def connect(k, cid, ver=5, clean=True, **kw):
    d = {"op": "connect", "k": k, "cid": cid, "ver": ver, "clean": clean}
    d.update(kw)
    return d


def sub(k, subs, subid=0):
    return {"op": "subscribe", "k": k, "subs": subs, "subid": subid}


def pub(k, topic, qos, tag, retain=False, **kw):
    d = {"op": "publish", "k": k, "topic": topic, "qos": qos, "retain": retain, "tag": tag}
    d.update(kw)
    return d


def api(topic, qos, tag, retain=False):
    return {"op": "apipublish", "topic": topic, "qos": qos, "retain": retain, "tag": tag}


BARRIER = {"op": "barrier"}


def rand_props(rng):
    """application properties of a message (Payload Format Indicator, Content Type, Response Topic, Correlation Data, User
    Properties - duplicate keys and order matter)"""
    p = {}
    if rng.random() < 0.4:
        p["pf"] = 1
    if rng.random() < 0.4:
        p["ct"] = rng.choice(["text/plain", "application/json", "x"])
    if rng.random() < 0.4:
        p["rt"] = rng.choice(["reply/to", "r", "reply/to/x y"])
    if rng.random() < 0.4:
        p["cd"] = rng.choice(["c1", "0123456789", "\u0001z"])
    if rng.random() < 0.5:
        p["up"] = [[rng.choice(["k", "k2", "a"]), rng.choice(["v", "", "w w"])] for _ in range(rng.choice([1, 2, 3]))]
    return p or {"up": [["k", "v"]]}


def with_props(rng, scenarios, prob=0.35):
    """attach application properties to a share of the publications (MQTT clients - honoured by v5 publishers only - and
    Publisher API) and of the wills of the given scenarios"""
    def walk(steps):
        for st in steps:
            if st.get("op") in ("publish", "apipublish") and not st.get("pad") and rng.random() < prob:
                st["props"] = rand_props(rng)
            elif st.get("op") == "connect" and st.get("will") and rng.random() < prob:
                st["will"]["props"] = rand_props(rng)
            elif st.get("op") == "par":
                for br in st["branches"]:
                    walk(br)
    for sc in scenarios:
        walk(sc["steps"])
    return scenarios


def rand_subs(rng, v5, n, filters=FILTERS):
    """n subscriptions with pairwise distinct filters (one SUBSCRIBE packet)"""
    out = []
    for f in rng.sample(filters, n):
        s = rand_sub(rng, v5, [f])
        out.append(s)
    return out


def rand_sub(rng, v5, filters=FILTERS):
    s = {"n": rng.choice(filters), "qos": rng.randrange(3)}
    if v5:
        s["nl"] = rng.random() < 0.3
        s["rap"] = rng.random() < 0.4
        s["rh"] = 0
    return s


def c01_table(rng, sid, nscen):
    """delivery-function scenarios: subscriptions first, then a sequence of publications from another client,
    from the subscriber itself (No Local) and from the API; barrier; optional unsubscribe/re-subscribe round."""
    out = []
    for i in range(nscen):
        mode = rng.choice(["overlap", "onlyonce"])
        pver = rng.choice([4, 5])
        steps = [connect(1, "s5", 5), connect(2, "s3", rng.choice([3, 4])), connect(3, "p", pver)]
        alias = {}
        aliasmode = pver == 5 and rng.random() < 0.6
        atopics = rng.sample(TOPICS, 3)
        n = 0
        rounds = rng.choice([1, 2])
        # a bystander whose session ends in the middle (its filters are often level-prefixes of, or equal to, the others'):
        # the others must keep receiving exactly what they subscribed to
        leaver = rng.random() < 0.5
        if leaver:
            steps.append(connect(4, "lv", rng.choice([4, 5])))
            steps.append(sub(4, rand_subs(rng, False, rng.choice([1, 2, 3]), ["t", "t/u", "x", "t/", "+", "t/+"])))
        for rnd in range(rounds):
            if leaver and rnd == rounds - 1:
                steps.append({"op": rng.choice(["disconnect", "abort"]), "k": 4})
            for _ in range(rng.randrange(1, 4)):
                steps.append(sub(1, rand_subs(rng, True, rng.choice([1, 1, 2])), subid=rng.choice([0, 0, 1, 2, 300])))
            for _ in range(rng.randrange(0, 3)):
                steps.append(sub(2, rand_subs(rng, False, rng.choice([1, 2]))))
            if rnd == 1 and rng.random() < 0.7:
                steps.append({"op": "unsubscribe", "k": rng.choice([1, 2]), "names": [rng.choice(FILTERS) for _ in range(rng.choice([1, 2]))]})
            for _ in range(rng.randrange(4, 9)):
                n += 1
                tag = "m%d" % n
                who = rng.random()
                topic = rng.choice(TOPICS)
                qos = rng.randrange(3)
                # RETAIN only in the last round: C01 scenarios never subscribe after a retained publish (that is C07)
                retain = rng.random() < 0.25 and rnd == rounds - 1
                if who < 0.55:
                    kw = {}
                    if aliasmode:
                        # the publisher uses topic aliases over a few topics: bind / RE-bind an alias (topic + alias) or send
                        # the alias alone when it is bound to this topic
                        topic = rng.choice(atopics)
                        al = rng.choice([1, 2])
                        if alias.get(al) == topic and rng.random() < 0.8:
                            kw = {"alias": al, "notopic": True}
                        else:
                            alias[al] = topic
                            kw = {"alias": al}
                    steps.append(pub(3, topic, qos, tag, retain, **kw))
                elif who < 0.8:
                    steps.append(pub(1, topic, qos, tag, retain))
                else:
                    steps.append(api(topic, qos, tag, retain))
            steps.append(BARRIER)
        steps += [{"op": "disconnect", "k": 1}, {"op": "disconnect", "k": 2}, {"op": "abort", "k": 3}]
        out.append({"id": "%s-tab%d" % (sid, i), "cfg": {"mode": mode, "qq0": rng.random() < 0.5}, "steps": steps})
    return out


def c01_concurrent(rng, sid, nscen):
    """several publisher connections and the API publish numbered messages concurrently; subscription table static"""
    out = []
    for i in range(nscen):
        mode = rng.choice(["overlap", "onlyonce"])
        steps = [connect(1, "s5", 5), connect(2, "s3", 4)]
        npub = rng.choice([2, 3, 4])
        for j in range(npub):
            steps.append(connect(10 + j, "p%d" % j, rng.choice([4, 5])))
        steps.append(sub(1, [{"n": "t/#", "qos": 2, "rap": rng.random() < 0.5}, {"n": "+/u", "qos": 1}], subid=rng.choice([0, 5])))
        steps.append(sub(2, [{"n": "t/u", "qos": rng.randrange(3)}, {"n": "#", "qos": 1}]))
        branches = []
        for j in range(npub):
            br = []
            for m in range(rng.randrange(5, 12)):
                br.append(pub(10 + j, rng.choice(["t/u", "t", "x/u", "t/u/w"]), rng.randrange(3), "p%d-%d" % (j, m)))
            branches.append(br)
        branches.append([api(rng.choice(["t/u", "t"]), rng.randrange(3), "api-%d" % m) for m in range(rng.randrange(4, 10))])
        steps.append({"op": "par", "branches": branches})
        steps.append(BARRIER)
        out.append({"id": "%s-conc%d" % (sid, i), "cfg": {"mode": mode, "qq0": True}, "steps": steps})
    return out


def c11_churn(rng, sid, nscen):
    """share-group membership churn followed by numbered publications (each publication must reach exactly one
    current member per matching group, plus every matching non-shared subscription)"""
    out = []
    groups = ["$share/g1/t", "$share/g2/t", "$share/g1/+", "$share/g1/t/#", "$share/g2/#", "$share/g1/$s/x",
              "$share/g2/$s/+", "$share/g1/$s/#", "$share/g2/+/x"]
    plain = ["t", "#", "t/#", "$s/x", "$s/#"]
    topics = ["t", "t/u", "x", "$s/x"]
    for i in range(nscen):
        steps = []
        vers = {1: 5, 2: 5, 3: rng.choice([4, 5])}
        names = {1: "m1", 2: "m2", 3: "m3"}
        for k in (1, 2, 3):
            steps.append(connect(k, names[k], vers[k]))
        steps.append(connect(9, "pub", rng.choice([4, 5])))
        n = 0
        online = {1, 2, 3}
        nextk = 10
        kmap = {1: 1, 2: 2, 3: 3}   # member -> current connection number
        hasret = rng.random() < 0.4
        if hasret:
            # a retained message on a topic the share groups match: a shared subscribe must NOT replay it.  (Non-shared
            # filters used in these scenarios do not match it: the replay rule itself belongs to C07.)
            n += 1
            steps.append(pub(9, "t/u/r", rng.randrange(3), "r%d" % n, retain=True))
            plain = ["t", "x", "$s/x", "t/u"]
            groups = groups + ["$share/g2/t/u/r", "$share/g1/t/+/r"]
        for rnd in range(rng.randrange(2, 5)):
            # membership changes
            for _ in range(rng.randrange(1, 4)):
                m = rng.choice([1, 2, 3])
                if m not in online:
                    if rng.random() < 0.7:
                        steps.append(connect(nextk, names[m], vers[m], clean=rng.random() < 0.5, **({"expiry": 100} if vers[m] == 5 else {})))
                        kmap[m] = nextk
                        nextk += 1
                        online.add(m)
                    continue
                r = rng.random()
                if r < 0.55:
                    v5 = vers[m] == 5
                    pool = groups if v5 or True else plain
                    f = rng.choice(groups + plain) if rng.random() < 0.8 else rng.choice(plain)
                    s = {"n": f, "qos": rng.randrange(3)}
                    if v5 and not f.startswith("$share/"):
                        s["rap"] = rng.random() < 0.3
                    steps.append(sub(kmap[m], [s], subid=rng.choice([0, 4]) if v5 else 0))
                elif r < 0.8:
                    steps.append({"op": "unsubscribe", "k": kmap[m], "names": [rng.choice(groups + plain)]})
                elif r < 0.9:
                    # leave by ending the session (clean session / expiry 0): DISCONNECT of a clean-start connection
                    steps.append({"op": "disconnect", "k": kmap[m]})
                    online.discard(m)
                else:
                    steps.append({"op": "abort", "k": kmap[m]})
                    online.discard(m)
            for _ in range(rng.randrange(2, 6)):
                n += 1
                if rng.random() < 0.8:
                    steps.append(pub(9, rng.choice(topics), rng.randrange(3), "g%d" % n))
                else:
                    steps.append(api(rng.choice(topics), rng.randrange(3), "g%d" % n))
            steps.append(BARRIER)
        out.append({"id": "%s-churn%d" % (sid, i), "cfg": {"mode": rng.choice(["overlap", "onlyonce"]), "qq0": True}, "steps": steps})
    return out


def c11_samefilter(rng, sid, nscen):
    """several share groups (and a non-shared subscription) on ONE filter, the same client in several of them: every
    publication owes one copy per group, whatever the other groups on that filter do"""
    out = []
    for i in range(nscen):
        f = rng.choice(["t", "t/#", "+", "t/+", "#"])
        topic = {"t": "t", "t/#": rng.choice(["t", "t/u"]), "+": "t", "t/+": "t/u", "#": rng.choice(["t", "t/u/v"])}[f]
        groups = ["g1", "g2", "g3"][:rng.choice([2, 2, 3])]
        vers = {1: 5, 2: 5, 3: rng.choice([4, 5])}
        steps = [connect(k, "m%d" % k, vers[k]) for k in (1, 2, 3)] + [connect(9, "pub", rng.choice([4, 5]))]
        member = {g: set() for g in groups}
        for g in groups:                      # every group gets at least one member; a client may sit in several groups
            for k in rng.sample([1, 2, 3], rng.choice([1, 1, 2, 3])):
                member[g].add(k)
                steps.append(sub(k, [{"n": "$share/%s/%s" % (g, f), "qos": rng.randrange(3)}], subid=rng.choice([0, 3]) if vers[k] == 5 else 0))
        if rng.random() < 0.5:
            steps.append(sub(rng.choice([1, 2, 3]), [{"n": f, "qos": rng.randrange(3)}]))
        n = 0
        for rnd in range(rng.randrange(1, 4)):
            for _ in range(rng.randrange(1, 4)):
                n += 1
                steps.append(pub(9, topic, rng.randrange(3), "h%d" % n))
            steps.append(BARRIER)
            g = rng.choice(groups)            # somebody leaves one group; the others are not affected
            if member[g]:
                k = rng.choice(sorted(member[g]))
                steps.append({"op": "unsubscribe", "k": k, "names": ["$share/%s/%s" % (g, f)]})
                member[g].discard(k)
        for _ in range(2):
            n += 1
            steps.append(pub(9, topic, rng.randrange(3), "h%d" % n))
        steps.append(BARRIER)
        out.append({"id": "%s-same%d" % (sid, i), "cfg": {"mode": rng.choice(["overlap", "onlyonce"]), "qq0": True}, "steps": steps})
    return out


def c07_retained(rng, sid, nscen):
    """histories of retained publishes / clears (also through a topic alias), then subscriptions of every shape
    (filter, QoS, Retain Handling, RAP, version, shared) including re-subscription"""
    out = []
    topics = ["a", "a/b", "a/b/c", "b", "$s/x", "a/", "/a", "a//c"]
    filters = ["a", "a/b", "a/#", "a/+", "#", "+", "+/+", "a/b/#", "$s/#", "$s/+", "+/b/#", "/a", "a/", "/#", "b", "a/+/c"]
    for i in range(nscen):
        steps = [connect(1, "p", 5), connect(2, "s5", 5), connect(3, "s3", rng.choice([3, 4]))]
        n = 0
        alias = {}
        for _ in range(rng.randrange(3, 9)):
            n += 1
            t = rng.choice(topics)
            clear = rng.random() < 0.25
            st = pub(1, t, rng.randrange(3), "" if clear else "r%d" % n, retain=rng.random() < 0.85)
            r = rng.random()
            if r < 0.3:
                if t in alias:
                    st["alias"] = alias[t]
                    st["notopic"] = True
                elif len(alias) < 5:
                    alias[t] = len(alias) + 1
                    st["alias"] = alias[t]
            if clear and not st["retain"]:
                st["tag"] = "n%d" % n      # an empty non-retained message is just a message
            steps.append(st)
        steps.append(BARRIER)
        for _ in range(rng.randrange(3, 8)):
            k = rng.choice([2, 2, 3])
            f = rng.choice(filters)
            if k == 2:
                s = {"n": f, "qos": rng.randrange(3), "rh": rng.choice([0, 0, 1, 1, 2]), "rap": rng.random() < 0.4, "nl": False}
                if rng.random() < 0.15:
                    s["n"] = "$share/g/" + f
                    s["nl"] = False
                entries = [s]
                if rng.random() < 0.3:
                    # several entries in one SUBSCRIBE, each handled on its own: a shared filter first, plain ones behind it
                    f2 = rng.choice([x for x in filters if x != f])
                    entries = [{"n": "$share/g2/" + rng.choice(filters), "qos": rng.randrange(3), "rh": 0, "rap": False, "nl": False}, s,
                               {"n": f2, "qos": rng.randrange(3), "rh": rng.choice([0, 1]), "rap": rng.random() < 0.4, "nl": False}]
                steps.append(sub(2, entries, subid=rng.choice([0, 9])))
            else:
                if rng.random() < 0.25:
                    f2 = rng.choice([x for x in filters if x != f])
                    steps.append(sub(3, [{"n": "$share/g3/" + rng.choice(filters), "qos": rng.randrange(3)}, {"n": f, "qos": rng.randrange(3)},
                                         {"n": f2, "qos": rng.randrange(3)}]))
                else:
                    steps.append(sub(3, [{"n": f, "qos": rng.randrange(3)}]))
            steps.append(BARRIER)
            if rng.random() < 0.3:
                # live forwarding of a retained publication to the existing subscriptions, and the store changes
                n += 1
                t = rng.choice(topics)
                steps.append(pub(1, t, rng.randrange(3), "" if rng.random() < 0.3 else "r%d" % n, retain=True))
                steps.append(BARRIER)
        out.append({"id": "%s-ret%d" % (sid, i), "cfg": {"mode": rng.choice(["overlap", "onlyonce"]), "qq0": True}, "steps": steps})
    return out


def c03_outbound(rng, sid, nscen):
    """one scripted subscriber that controls its acknowledgements and is cut / resumed; messages come from the API
    and from a publisher connection; Receive Maximum and max_inflight vary"""
    out = []
    for i in range(nscen):
        ver = rng.choice([5, 5, 4])
        maxinfl = rng.choice([1, 2, 3, 100])
        exp = {"expiry": 1000} if ver == 5 else {}

        def rmax():
            return rng.choice([0, 1, 2, 3]) if ver == 5 else 0
        k = 1
        steps = [connect(k, "sub", ver, clean=(ver == 5), manualack=True, recvmax=rmax(), **exp),
                 sub(k, [dict({"n": "o/#", "qos": 2}, **({"rap": True} if ver == 5 and rng.random() < 0.5 else {}))]), connect(50, "pubr", 4)]
        n = 0
        for _ in range(rng.randrange(6, 16)):
            r = rng.random()
            if r < 0.45:
                n += 1
                q = rng.choice([0, 1, 1, 2, 2])
                if rng.random() < 0.6:
                    steps.append(api("o/t", q, "o%d" % n))
                else:
                    # (a publisher that re-sends after losing ITS connection sets DUP: the copies for the subscribers are
                    # new transmissions all the same)
                    steps.append(pub(50, "o/t", q, "o%d" % n, **({"dup": True} if q > 0 and rng.random() < 0.4 else {})))
            elif r < 0.75:
                steps.append({"op": "ack", "k": k, "t": "auto", "sel": rng.randrange(4),
                              "code": 0x80 if (ver == 5 and rng.random() < 0.1) else 0})
            elif r < 0.83:
                steps.append(BARRIER)
            else:
                steps.append(BARRIER)
                steps.append({"op": "abort", "k": k})
                for _ in range(rng.choice([0, 1, 1, 2])):
                    n += 1                                                        # published while offline: by the API or by
                    if rng.random() < 0.5:                                        # an MQTT client with its own packet ids
                        steps.append(api("o/t", rng.choice([1, 2]), "o%d" % n))
                    else:
                        steps.append(pub(50, "o/t", rng.choice([1, 2]), "o%d" % n))
                k += 1
                steps.append(connect(k, "sub", ver, clean=False, manualack=True, recvmax=rmax(), **exp))
                steps.append(BARRIER)
        # drain: acknowledge everything; a session whose client acknowledges must receive everything
        for j in range(3 * n + 6):
            steps.append({"op": "ack", "k": k, "t": "auto", "sel": 0})
            if j % 5 == 4:
                steps.append(BARRIER)
        steps.append(BARRIER)
        out.append({"id": "%s-out%d" % (sid, i), "cfg": {"mode": "overlap", "qq0": True, "maxinflight": maxinfl, "maxqueued": 1000}, "steps": steps})
    return out


def _vbi(n):
    return 1 if n <= 127 else 2 if n <= 16383 else 3 if n <= 2097151 else 4


def pub_size(topic, qos, plen, v5=True):
    """size of a PUBLISH without properties (v5: property length byte 0)"""
    rem = 2 + len(topic) + (2 if qos > 0 else 0) + (1 if v5 else 0) + plen
    return 1 + _vbi(rem) + rem


def pad_for(topic, qos, target, v5=True):
    """payload length that makes the PUBLISH exactly `target` bytes (None if impossible)"""
    for plen in range(0, target + 1):
        if pub_size(topic, qos, plen, v5) == target:
            return plen
    return None


def c13_limits(rng, sid, nscen):
    out = []
    for i in range(nscen):
        fam = "ABCDEF"[i % 6]
        cfg = {"mode": "overlap", "qq0": True}
        steps = []
        if fam == "F":      # outbound: Maximum Packet Size AND Topic Alias Maximum declared by the same client (an alias changes the size)
            M = rng.choice([24, 30, 40, 127, 128, 129])
            qs = rng.randrange(3)
            steps = [connect(1, "s", 5, maxpkt=M, aliasmax=rng.choice([1, 2, 5])), sub(1, [{"n": "m/#", "qos": qs}]), connect(2, "p", rng.choice([4, 5])),
                     connect(3, "free", 5), sub(3, [{"n": "m/#", "qos": 2}])]
            n = 0
            for d in [rng.choice([0, -1, -2, -3]), rng.choice([0, -1, -2, -3, -4, 1]), rng.choice([0, -1, -5, 2]), 0, -1]:
                n += 1
                q = rng.randrange(3)
                fq = min(q, qs)
                topic = rng.choice(["m/t", "m/t", "m/u", "m/a-long-topic-name"])
                plen = pad_for(topic, fq, M + d)
                if plen is None or plen < 3:
                    continue
                steps.append(pub(2, topic, q, "z%d" % n, pad=plen, fq=fq))
                steps.append(BARRIER)
            out.append({"id": "%s-lim%s%d" % (sid, fam, i), "cfg": cfg, "steps": steps})
            continue
        if fam == "A":      # outbound: client's Maximum Packet Size
            M = rng.choice([24, 40, 127, 128, 129, 200])
            qs = rng.randrange(3)
            steps = [connect(1, "s", 5, maxpkt=M), sub(1, [{"n": "m/#", "qos": qs}]), connect(2, "p", rng.choice([4, 5])),
                     connect(3, "free", 5), sub(3, [{"n": "m/#", "qos": 2}])]
            n = 0
            for d in rng.sample([-1, 0, 1, 2, 30, -10, -3], 5):
                n += 1
                q = rng.randrange(3)
                fq = min(q, qs)
                topic = "m/t"
                plen = pad_for(topic, fq, M + d)
                if plen is None or plen < 3:
                    continue
                steps.append(pub(2, topic, q, "z%d" % n, pad=plen, fq=fq))
                steps.append(BARRIER)
        elif fam == "B":    # outbound: topic aliases towards a client with Topic Alias Maximum A
            A = rng.choice([1, 2, 3])
            steps = [connect(1, "s", 5, aliasmax=A), sub(1, [{"n": "al/#", "qos": 1}]), connect(2, "p", 5)]
            for n in range(rng.randrange(6, 14)):
                steps.append(pub(2, "al/" + rng.choice("abcd"), rng.randrange(2), "y%d" % n))
            steps.append(BARRIER)
        elif fam == "C":    # inbound: Topic Alias Maximum advertised by the broker
            X = rng.choice([1, 2, 5, 10, 65535])      # (65535: the largest value the configuration accepts)
            cfg["srvaliasmax"] = X
            cfg["srvrecvmax"] = rng.choice([1, 3, 100, 65535])
            steps = [connect(1, "s", 5), sub(1, [{"n": "in/#", "qos": 1}]), connect(2, "p", 5)]
            bound = {}
            n = 0
            for _ in range(rng.randrange(4, 10)):
                n += 1
                a = rng.choice([1, X, max(1, X - 1), rng.randrange(1, X + 1)])
                if a in bound and rng.random() < 0.5:
                    steps.append(pub(2, bound[a], rng.randrange(2), "x%d" % n, alias=a, notopic=True))
                else:
                    bound[a] = "in/" + rng.choice("abc")
                    steps.append(pub(2, bound[a], rng.randrange(2), "x%d" % n, alias=a))
            steps.append(BARRIER)
            if rng.random() < 0.6:
                bad = rng.choice([0, X + 1, 65535, "unbound"] if X < 65535 else [0, "unbound"])
                n += 1
                if bad == 0:
                    steps.append(pub(2, "in/a", 1, "x%d" % n, alias=0, notopic=True))
                elif bad == "unbound":
                    free = [a for a in range(1, min(X, 20) + 1) if a not in bound]
                    if free:
                        steps.append(pub(2, "in/a", 1, "x%d" % n, alias=free[0], notopic=True))
                else:
                    steps.append(pub(2, "in/a", 1, "x%d" % n, alias=bad))
                steps.append({"op": "sleep", "ms": 30})
                steps.append(BARRIER)
        elif fam == "D" and i % 12 == 3:
            # inbound Receive Maximum across a session resume: a QoS 2 exchange opened on one connection is completed (PUBREL
            # re-sent, [MQTT-4.4.0-1]) on the next one - that PUBCOMP answers no PUBLISH of the new connection; afterwards the
            # limit is still R (and with R = 65535 the next publication is still welcome)
            R = rng.choice([1, 2, 3, 65535])
            cfg["srvrecvmax"] = R
            steps = [connect(1, "s", 5), sub(1, [{"n": "rq/#", "qos": 2}]), connect(2, "p", 5, clean=False, expiry=100),
                     pub(2, "rq/a", 2, "w0", pid=1, norel=True), BARRIER, {"op": "abort", "k": 2},
                     connect(4, "p", 5, clean=False, expiry=100), {"op": "ack", "k": 4, "t": "pubrel", "pid": 1}, BARRIER]
            if rng.random() < 0.5:
                steps += [{"op": "ack", "k": 4, "t": "pubrel", "pid": 1}, BARRIER]        # a duplicate PUBREL: PUBCOMP again
            if R == 65535:
                steps += [pub(4, "rq/a", 1, "w1", pid=2), pub(4, "rq/a", 2, "w2", pid=3), BARRIER]
            else:
                for n in range(R):
                    steps.append(pub(4, "rq/a", 2, "w%d" % (n + 1), pid=n + 2, norel=True))
                steps.append(BARRIER)
                steps.append(pub(4, "rq/a", rng.choice([1, 2]), "w%d" % (R + 1), pid=R + 2, norel=True))
                steps.append({"op": "sleep", "ms": 30})
                steps.append(BARRIER)
        elif fam == "D":    # inbound: Receive Maximum advertised by the broker
            R = rng.choice([1, 2, 3, 10])
            cfg["srvrecvmax"] = R
            steps = [connect(1, "s", 5), sub(1, [{"n": "rq/#", "qos": 2}]), connect(2, "p", 5)]
            for n in range(R):
                steps.append(pub(2, "rq/a", 2, "w%d" % n, pid=n + 1, norel=True))
            if rng.random() < 0.5:
                # compliant: complete one exchange, then publish again
                steps.append({"op": "ack", "k": 2, "t": "pubrel", "pid": 1})
                steps.append(pub(2, "rq/a", rng.choice([1, 2]), "w%d" % R, pid=1, norel=True))
                steps.append(BARRIER)
            else:
                steps.append(BARRIER)
                steps.append(pub(2, "rq/a", rng.choice([1, 2]), "w%d" % R, pid=R + 1, norel=True))
                steps.append({"op": "sleep", "ms": 30})
                steps.append(BARRIER)
        else:               # inbound: Maximum Packet Size advertised by the broker
            P = rng.choice([40, 127, 128, 129, 300])
            cfg["srvmaxpkt"] = P
            steps = [connect(1, "s", 5), sub(1, [{"n": "pk/#", "qos": 1}]), connect(2, "p", 5)]
            n = 0
            for d in [-2, -1, 0]:
                n += 1
                q = rng.randrange(3)
                plen = pad_for("pk/t", q, P + d)
                if plen is not None and plen >= 3:
                    steps.append(pub(2, "pk/t", q, "v%d" % n, pad=plen))
            steps.append(BARRIER)
            if rng.random() < 0.6:
                q = rng.randrange(3)
                plen = pad_for("pk/t", q, P + rng.choice([1, 2, 50]))
                if plen is not None:
                    steps.append(pub(2, "pk/t", q, "v9", pad=plen))
                    steps.append({"op": "sleep", "ms": 30})
                    steps.append(BARRIER)
                steps.append(BARRIER)
        out.append({"id": "%s-lim%s%d" % (sid, fam, i), "cfg": cfg, "steps": steps})
    return out


def c12_expiry(rng, sid, nscen):
    """message expiry: publisher interval x configured cap x how long the message waits (subscriber online, offline for
    0.4 s, offline past the deadline, slow to acknowledge) x versions"""
    out = []
    for i in range(nscen):
        cap = rng.choice([0, 0, 1, 2, 7200])
        cfg = {"mode": "overlap", "qq0": True, "msgexpiry": cap}
        steps = []
        fam = rng.choice(["online", "offline", "slowack"])
        pver = rng.choice([5, 5, 4])
        sver = rng.choice([5, 5, 4])
        exp = {"expiry": 1000} if sver == 5 else {}
        steps.append(connect(9, "pub", pver))
        n = 0

        def mk(qos):
            nonlocal n
            n += 1
            me = rng.choice([0, 1, 2, 100, 4294967295]) if pver == 5 else 0
            return pub(9, "e/t", qos, "e%d" % n, msgexp=me), me
        if fam == "online":
            steps += [connect(1, "s", sver, clean=True, **exp), sub(1, [{"n": "e/#", "qos": 2}])]
            for _ in range(rng.randrange(2, 6)):
                st, me = mk(rng.randrange(3))
                steps.append(st)
                if rng.random() < 0.3:
                    steps.append(api("e/t", rng.randrange(3), "a%d" % n))
            steps.append(BARRIER)
        elif fam == "offline":
            steps += [connect(1, "s", sver, clean=(sver == 5), **exp), sub(1, [{"n": "e/#", "qos": 2}]), BARRIER, {"op": "abort", "k": 1}]
            lifetimes = []
            for _ in range(rng.randrange(1, 4)):
                st, me = mk(rng.choice([1, 2]))
                steps.append(st)
                L = (me if (me and (cap == 0 or me <= cap)) else cap) if cap else me
                lifetimes.append(L)
            # choose a waiting time that keeps >= 400 ms away from every deadline
            cands = [400, 1500, 2600, 3500]
            ok = [w for w in cands if all(L == 0 or abs(L * 1000 - w) >= 450 for L in lifetimes)]
            w = rng.choice(ok or [400])
            steps.append({"op": "sleep", "ms": w})
            steps += [connect(2, "s", sver, clean=False, **exp), BARRIER]
        else:
            # slow acker: window 1; the first message is held unacknowledged while the second waits in the queue
            steps += [connect(1, "s", 5, clean=True, manualack=True, recvmax=1, expiry=1000), sub(1, [{"n": "e/#", "qos": 1}])]
            steps.append(pub(9, "e/t", 1, "hold"))
            st, me = mk(1)
            steps.append(st)
            L = (me if (me and (cap == 0 or me <= cap)) else cap) if cap else me
            cands = [300, 1500, 2600]
            ok = [w for w in cands if L == 0 or abs(L * 1000 - w) >= 450]
            steps.append({"op": "sleep", "ms": rng.choice(ok or [300])})
            steps.append({"op": "ack", "k": 1, "t": "auto", "sel": 0})
            steps.append(BARRIER)
            steps.append({"op": "ack", "k": 1, "t": "auto", "sel": 0})
            steps.append(BARRIER)
        out.append({"id": "%s-exp%d" % (sid, i), "cfg": cfg, "steps": steps})
    return out


def _away(cands, deadlines, gap=500):
    ok = [w for w in cands if all(abs(d - w) >= gap for d in deadlines)]
    return ok


def c05_sweeper(rng, sid, n):
    """scenarios that live through the broker's session-expiry sweep (every 20 s): a resumed session of a CONNECTED client
    must survive it whatever its earlier offline deadline was; an offline session past its expiry is gone afterwards"""
    out = []
    for i in range(n):
        ver = rng.choice([5, 4])
        kw = {"expiry": 2} if ver == 5 else {}
        steps = [connect(9, "obs", 5), connect(8, "pubr", 4), connect(1, "c", ver, clean=False, **kw), sub(1, [{"n": "s/#", "qos": 1}]),
                 pub(8, "s/t", 1, "live"), BARRIER]
        if i % 2 == 0:
            steps += [{"op": "abort", "k": 1}, {"op": "sleep", "ms": 600}, connect(2, "c", ver, clean=False, **kw), BARRIER,
                      {"op": "sleep", "ms": 22500}, pub(8, "s/t", 1, "after-sweep"), BARRIER]
        else:
            steps += [{"op": "disconnect", "k": 1}, api("s/t", 1, "offline"), {"op": "sleep", "ms": 22500},
                      connect(2, "c", ver, clean=False, **kw), BARRIER, pub(8, "s/t", 1, "after"), BARRIER]
        out.append({"id": "%s-sweep%d" % (sid, i), "cfg": {"mode": "overlap", "qq0": True, "sessexpiry": 2}, "hooks": True, "steps": steps})
    return out


def c05_sessions(rng, sid, nscen):
    """session lifecycle matrix (timed) + sequential take-overs + storms of simultaneous CONNECTs on one client id"""
    out = []
    for i in range(nscen):
        fam = rng.choice(["matrix", "matrix", "matrix", "takeover", "storm"])
        cfgexp = rng.choice([1, 3, 7200])
        cfg = {"mode": "overlap", "qq0": True, "sessexpiry": cfgexp}
        steps = [connect(9, "obs", 5), connect(8, "pubr", 4)]
        zero = fam == "matrix" and i % 12 == 5      # DISCONNECT with Session Expiry Interval 0 ends a long-lived session at once
        if zero:
            cfgexp = 7200
            cfg["sessexpiry"] = cfgexp
        if fam == "matrix":
            ver = 5 if zero else rng.choice([5, 5, 4, 3])
            clean1 = False if zero else rng.random() < 0.3
            req = (1000 if zero else rng.choice([0, 1, 3, 1000])) if ver == 5 else None
            E = (0 if clean1 else cfgexp) if ver != 5 else min(req, cfgexp)
            kw = {"expiry": req} if ver == 5 else {}
            steps.append(connect(1, "c", ver, clean=clean1, **kw))
            steps.append(sub(1, [{"n": "s/#", "qos": 1}]))
            steps.append(pub(8, "s/t", 1, "live"))
            steps.append(BARRIER)
            if rng.random() < 0.4:
                steps.append({"op": "sleep", "ms": rng.choice([1500, 3500])})     # a connection that lasts longer than the expiry interval
            end = rng.choice(["disconnect", "abort", "terminate", "newexp", "newexp"] if ver == 5 else ["disconnect", "abort", "terminate"])
            soon = False
            if zero:
                end = "newexp"
            if end == "disconnect":
                steps.append({"op": "disconnect", "k": 1})
            elif end == "newexp" and E > 0:
                ne = 0 if zero else rng.choice([0, 1, 3, 1000])     # 0: the DISCONNECT ends the session
                steps.append({"op": "disconnect", "k": 1, "expiry": ne})
                soon = ne == 0 and E >= 3            # ... at once: come back long before the interval it had would have elapsed
                E = ne
            elif end == "newexp" and ver == 5:
                # the session's interval is 0: a DISCONNECT that names another one is a Protocol Error [MQTT-3.14.2-2]; the
                # session still ends with the connection, a return with Clean Start 0 finds nothing
                steps.append({"op": "disconnect", "k": 1, "expiry": rng.choice([1, 3, 1000])})
            elif end == "terminate":
                steps.append({"op": "terminate", "cid": "c"})
                steps.append({"op": "sleep", "ms": 50})
                E = 0
            else:
                steps.append({"op": "abort", "k": 1})
            steps.append(api("s/t", 1, "offline"))
            cands = [200, 1600, 2400, 3600, 4600]
            w = rng.choice(_away(cands, [E * 1000]) or [200])
            if soon:
                w = 200
            steps.append({"op": "sleep", "ms": w})
            steps.append(connect(2, "c", ver, clean=False, **({"expiry": 1000} if ver == 5 else {})))
            steps.append(BARRIER)
            steps.append(pub(8, "s/t", 1, "after"))
            steps.append(BARRIER)
        elif fam == "takeover":
            ver = rng.choice([5, 4])
            kw = {"expiry": rng.choice([0, 1000])} if ver == 5 else {}
            steps.append(connect(1, "c", ver, clean=rng.random() < 0.5, **kw))
            steps.append(sub(1, [{"n": "s/#", "qos": rng.randrange(3)}]))
            steps.append(pub(8, "s/t", 1, "t1"))
            steps.append(BARRIER)
            k = 1
            for j in range(rng.randrange(1, 4)):
                k += 1
                steps.append(connect(k, "c", rng.choice([5, 4]), clean=rng.random() < 0.4, **({"expiry": 1000})))
                if rng.random() < 0.6:
                    steps.append(sub(k, [{"n": "s/#", "qos": 1}]))
                steps.append(pub(8, "s/t", rng.randrange(3), "t%d" % (k + 1)))
                steps.append(BARRIER)
        else:
            n = rng.choice([2, 3, 4, 6])
            pre = rng.random() < 0.6
            if pre:
                # a stored session without an online client (the re-lock window of lockDuplicatedID)
                steps.append(connect(1, "c", 5, clean=True, expiry=1000, nosentinel=True))
                steps.append({"op": "abort", "k": 1})
            steps.append({"op": "par", "branches": [[connect(10 + j, "c", rng.choice([5, 4]), clean=False, nosentinel=True, expiry=1000)] for j in range(n)]})
            steps.append({"op": "sleep", "ms": 100})
            steps.append({"op": "pingall"})
            if not pre:
                # client ids nobody has used yet (no stored session: the first registration races with the others' look at
                # the session store), several rounds
                for rnd, cid in enumerate(["d", "e", "f", "g"]):
                    steps.append({"op": "par", "branches": [[connect(30 + 10 * rnd + j, cid, rng.choice([5, 4]), clean=False, nosentinel=True, expiry=1000)]
                                                            for j in range(rng.choice([2, 4, 6]))]})
                    steps.append({"op": "sleep", "ms": 60})
                    steps.append({"op": "pingall"})
        out.append({"id": "%s-ses%s%d" % (sid, fam[0], i), "cfg": cfg, "hooks": True, "steps": steps})
    return out


def c08_wills(rng, sid, nscen):
    """will settings x ways a connection can end x session expiry x reconnect timing; a watcher subscribes to the will topic"""
    out = []
    for i in range(nscen):
        ver = rng.choice([5, 5, 4])
        cfg = {"mode": "overlap", "qq0": True, "sessexpiry": 7200}
        steps = [connect(9, "watch", 5), sub(9, [{"n": "w/#", "qos": 2, "rap": rng.random() < 0.5}])]
        delay = rng.choice([0, 1, 2]) if ver == 5 else 0
        exp = rng.choice([0, 1, 5]) if ver == 5 else None
        E = exp if ver == 5 else 7200
        clean1 = True if ver == 5 else rng.random() < 0.5
        if ver != 5 and clean1:
            E = 0
        will = {"topic": "w/" + rng.choice("ab"), "qos": rng.randrange(3), "retain": rng.random() < 0.3, "tag": "W%d" % i, "delay": delay}
        end = rng.choice(["disc0", "disc4", "disc4raise", "discvoid", "abort", "malformed", "keepalive", "takeover0", "takeover1", "terminate"])
        if end == "disc4raise":
            # DISCONNECT 0x04 that raises the session expiry above the will delay: the will then waits for the whole delay
            if ver == 5:
                delay, exp = 2, 1
            else:
                end = "disc4"
        if end == "discvoid":
            # DISCONNECT 0x00 carrying a Session Expiry Interval although the session's interval is 0: a Protocol Error,
            # not a DISCONNECT that removes the will
            if ver == 5:
                exp = 0
            else:
                end = "disc0"
        if ver == 5:
            E = exp
            will["delay"] = delay
        kw = {"expiry": exp} if ver == 5 else {}
        if end == "keepalive":
            kw["keepalive"] = 1
        steps.append(connect(1, "wc", ver, clean=clean1, will=will, nosentinel=True, **kw))
        steps.append(BARRIER)
        suppressed = False
        anydisc = False
        d = min(delay, E) if E else 0
        if end == "disc0" or (end == "disc4" and ver != 5):
            steps.append({"op": "disconnect", "k": 1, "code": 0})
            suppressed = True
        elif end == "disc4":
            steps.append({"op": "disconnect", "k": 1, "code": 4})
        elif end == "disc4raise":
            steps.append({"op": "disconnect", "k": 1, "code": 4, "expiry": 30})
            E = 30
            d = delay
        elif end == "discvoid":
            steps.append({"op": "disconnect", "k": 1, "code": 0, "expiry": 60})
            anydisc = True
        elif end == "abort":
            steps.append({"op": "abort", "k": 1})
        elif end == "malformed":
            steps.append({"op": "raw", "k": 1, "hex": "f1020000" if ver != 5 else "3f0400017400"})   # reserved type/flags
            steps.append({"op": "sleep", "ms": 150})
            anydisc = True
        elif end == "keepalive":
            steps.append({"op": "sleep", "ms": 2300})
            anydisc = True
        elif end in ("takeover0", "takeover1"):
            steps.append(connect(2, "wc", ver, clean=(end == "takeover1"), nosentinel=True, **({"expiry": 5} if ver == 5 else {})))
            if end == "takeover1":
                d = 0
        else:
            steps.append({"op": "terminate", "cid": "wc"})
            steps.append({"op": "sleep", "ms": 100})
            d = 0
        if end.startswith("takeover"):
            steps.append({"op": "sleep", "ms": rng.choice([300, d * 1000 + 800])})
            steps.append(BARRIER)
        else:
            # reconnect before / after the delay, or not at all
            rc = rng.choice(["none", "before", "after"])
            if rc == "before" and d >= 1 and not suppressed:
                steps.append({"op": "sleep", "ms": 300})
                steps.append(connect(3, "wc", ver, clean=False, nosentinel=True, **({"expiry": 5} if ver == 5 else {})))
                steps.append({"op": "sleep", "ms": d * 1000 + 800})
            elif rc == "after":
                steps.append({"op": "sleep", "ms": d * 1000 + 800})
                steps.append(connect(3, "wc", ver, clean=False, nosentinel=True, **({"expiry": 5} if ver == 5 else {})))
                steps.append({"op": "sleep", "ms": 200})
            else:
                steps.append({"op": "sleep", "ms": d * 1000 + 800})
            steps.append(BARRIER)
        if rng.random() < 0.5:
            # a subscriber that arrives after everything: a will published with Will Retain = 1 has been kept
            # (MQTT 5 with Retain As Published: the RETAIN flag of a replayed message under other options is C07's finding)
            steps.append(connect(7, "late", 5))
            steps.append(sub(7, [{"n": "w/#", "qos": rng.randrange(3), "rap": True}]))
            steps.append(BARRIER)
        out.append({"id": "%s-will%d" % (sid, i), "cfg": cfg, "hooks": True, "anydisc": anydisc, "steps": steps})
    return out
