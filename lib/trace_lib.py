"""Trace validation (TV): run scenarios on the real broker with the wire driver, validate the recorded
ndjson trace with TLC against a Trace*.tla specification, attribute rejections to scenarios."""
import json, os, re, subprocess
import vlib

CFG_TMPL = """SPECIFICATION TSpec
CONSTANTS
 SysLevels <- mc_SysLevels
 Deviations <- EnvDeviations
CONSTRAINT HWM
POSTCONDITION Accepted
CHECK_DEADLOCK FALSE
INVARIANTS
%s
"""

SYS_LEVELS = ["$vs", "$s", "$SYS", "$share"]


def run_wire(ctx, scenarios, name, par=16, slow=False, timeout=1200):
    """execute scenarios (list of dicts) with harness/cmd/wire; returns (trace_path, index, stats)"""
    bindir = ctx.go_build(["./cmd/wire"])
    d = ctx.tmp("wire_" + name)
    sp = os.path.join(d, "scenarios.ndjson")
    with open(sp, "w") as fh:
        for s in scenarios:
            fh.write(json.dumps(s) + "\n")
    tp = os.path.join(d, "trace.ndjson")
    ip = os.path.join(d, "index.json")
    cmd = [os.path.join(bindir, "wire"), "-scenarios", sp, "-out", tp, "-index", ip, "-par", str(par)]
    if slow:
        cmd.append("-slow")
    r = subprocess.run(["timeout", str(timeout)] + cmd, stdout=subprocess.PIPE, stderr=subprocess.PIPE, text=True)
    if r.returncode != 0:
        raise vlib.MachineryError("wire driver failed rc=%s: %s" % (r.returncode, (r.stderr or r.stdout)[-2000:]))
    stats = json.loads(r.stdout.strip().splitlines()[-1])
    index = json.load(open(ip))
    fatal = [e for e in index if e.get("fatal")]
    if fatal:
        raise vlib.MachineryError("wire driver: %d scenarios could not be executed: %s" % (len(fatal), fatal[0]["fatal"]))
    return tp, index, stats


def tlc_validate(ctx, trace_path, module="TraceBroker", invariants=("IdsDistinct", "SubsKeyed"), stopat=0, timeout=900, deviation=""):
    """returns (accepted, hwm, tlc_result)"""
    body = "mc_SysLevels == %s\n" % vlib.tla_set([vlib.tla_str(s) for s in SYS_LEVELS])
    inv = list(invariants)
    if stopat:
        inv.append("NotAtStop")
    cfg = CFG_TMPL % "\n".join(" " + i for i in inv)
    env = {"TRACE": trace_path, "KF": deviation}
    if stopat:
        env["STOPAT"] = str(stopat)
    hw = {"v": None}

    def keep(line):
        return "TRACE-REJECTED-AT" in line
    res = ctx.tlc(module, body, cfg, name=module, workers=1, timeout=timeout, env=env, keep_lines=keep,
                  java_opts=["-Dtlc2.tool.queue.IStateQueue=StateDeque"], count=False)
    hwm = None
    for line in res.kept:
        m = re.search(r'"TRACE-REJECTED-AT", (\d+), "OF", (\d+)', line)
        if m:
            hwm = int(m.group(1))
    accepted = res.rc == 0 and res.violation is None
    return accepted, hwm, res


def state_at(ctx, trace_path, line, module="TraceBroker"):
    """the specification state after consuming lines < `line` (text of TLC's last state)"""
    try:
        acc, hwm, res = tlc_validate(ctx, trace_path, module=module, invariants=(), stopat=line)
    except vlib.MachineryError as e:
        return "state unavailable: %s" % e
    txt = "\n".join(res.tail)
    i = txt.rfind("State ")
    return txt[i:i + 60000] if i >= 0 else txt[-3000:]


def validate(ctx, scenarios, name, module="TraceBroker", invariants=("IdsDistinct", "SubsKeyed"), par=16, max_reject=3, jvms=6):
    """run + validate; returns list of rejected scenarios [{scenario, trace, line, event, why}] and statistics.
    The trace is cut at scenario boundaries into `jvms` parts that are validated by concurrent TLC processes."""
    import threading
    by_id = {s["id"]: s for s in scenarios}
    tp, index, stats = run_wire(ctx, scenarios, name, par=par)
    lines = open(tp).read().splitlines()
    jvms = max(1, min(jvms, len(index) // 4 or 1))
    parts = [index[i::jvms] for i in range(jvms)]
    results = [None] * jvms
    errors = []

    def work(pi):
        try:
            results[pi] = _validate_part(ctx, parts[pi], lines, by_id, "%s_p%d" % (name, pi), module, invariants, max_reject, os.path.dirname(tp))
        except Exception as e:      # noqa
            errors.append(e)
    ths = [threading.Thread(target=work, args=(i,)) for i in range(jvms)]
    for t in ths:
        t.start()
    for t in ths:
        t.join()
    if errors:
        raise errors[0]
    rejected = []
    nvalid = 0
    unexamined = 0
    for rj, nv, un in results:
        rejected += rj
        nvalid += nv
        unexamined += un
    stats["validated"] = nvalid
    stats["rejected"] = len(rejected)
    stats["unexamined"] = unexamined
    return rejected, stats


def _validate_part(ctx, todo, lines, by_id, name, module, invariants, max_reject, d):
    rejected = []
    rounds = 0
    nvalid = 0
    while todo and rounds <= max_reject:
        rounds += 1
        cur_trace = os.path.join(d, "%s_r%d.ndjson" % (name, rounds))
        with open(cur_trace, "w") as fh:
            for e in todo:
                fh.write("\n".join(lines[e["from"] - 1: e["to"]]) + "\n")
        acc, hwm, res = tlc_validate(ctx, cur_trace, module=module, invariants=invariants)
        if acc:
            nvalid += len(todo)
            todo = []
            break
        if hwm is None:
            m = re.findall(r"/\\ l = (\d+)", "\n".join(res.tail))
            hwm = int(m[-1]) - 1 if m else None
            why = "invariant: " + (res.violation or "")[:300]
        else:
            why = "no action of the specification explains this event"
        if hwm is None:
            raise vlib.MachineryError("trace rejected but no position found:\n" + "\n".join(res.tail[-30:]))
        pos = 0
        bad = None
        for e in todo:
            n = e["to"] - e["from"] + 1
            if pos < hwm <= pos + n:
                bad = e
                rel = hwm - pos
                break
            pos += n
        if bad is None:
            raise vlib.MachineryError("rejected line %s outside every scenario" % hwm)
        seg = lines[bad["from"] - 1: bad["to"]]
        rejected.append({"scenario": by_id[bad["id"]], "trace": seg, "line": rel, "event": seg[rel - 1] if 0 < rel <= len(seg) else None,
                         "why": why, "notes": bad.get("notes")})
        k = todo.index(bad)
        nvalid += k
        todo = todo[k + 1:]
    return rejected, nvalid, len(todo)


def single(ctx, scenario, name, module="TraceBroker", invariants=("IdsDistinct", "SubsKeyed"), slow=False):
    """re-run one scenario (optionally in slow mode) and validate it alone; returns (accepted, info)"""
    tp, index, stats = run_wire(ctx, [scenario], name, par=1, slow=slow)
    acc, hwm, res = tlc_validate(ctx, tp, module=module, invariants=invariants)
    lines = open(tp).read().splitlines()
    info = {"trace": lines, "line": hwm}
    if not acc:
        if hwm is None:
            m = re.findall(r"/\\ l = (\d+)", "\n".join(res.tail))
            hwm = int(m[-1]) - 1 if m else len(lines)
            info["line"] = hwm
            info["why"] = "invariant: " + (res.violation or "")[:400]
        else:
            info["why"] = "no action of the specification explains this event"
        info["event"] = lines[hwm - 1] if 0 < hwm <= len(lines) else None
        info["state"] = state_at(ctx, tp, hwm, module=module)
        info["tp"] = tp
    return acc, info


def sig_of(ev):
    try:
        return json.loads(ev).get("e", "?")
    except Exception:
        return "?"


def confirm(ctx, rejected, inv, module="TraceBroker", limit=4):
    """Decide what the rejected scenarios mean.  Each is re-executed alone (slow mode when the rejection is
    absence-type: something owed had not arrived at a barrier); a trace that is still rejected is re-validated with
    exactly one deviation of the open known findings of this property switched on: accepted => KNOWN-FINDING,
    otherwise VIOLATION.  At most `limit` scenarios are re-executed, presence-type rejections beyond that are reported
    as recorded."""
    ctx.cov["rejected_scenarios"] = len(rejected)
    devs = [k for k in ctx.kf if k.get("status") == "open" and k.get("property") == ctx.pid and k.get("deviation")]
    for n, r in enumerate(rejected):
        sc = r["scenario"]
        ev = r.get("event") or ""
        absence = '"e":"quiet"' in ev
        if n < limit:
            acc, info = single(ctx, sc, ("slow_" if absence else "re_") + sc["id"], module=module, invariants=inv, slow=absence)
            if acc:
                if absence:
                    ctx.cov["timing_unconfirmed"] = ctx.cov.get("timing_unconfirmed", 0) + 1
                    continue
                # presence-type: the recorded trace is itself a violating execution (DESIGN.md 2.6); keep r as recorded
                tp = None
            else:
                r = {"scenario": sc, "trace": info["trace"], "line": info["line"], "event": info.get("event"), "why": info.get("why"),
                     "state": info.get("state")}
                tp = info.get("tp")
        else:
            if absence:
                continue
            tp = None
        if tp is None:
            tp = os.path.join(ctx.tmp("kf"), "t%d.ndjson" % n)
            with open(tp, "w") as fh:
                fh.write("\n".join(r["trace"]) + "\n")
        explained = None
        for k in devs:
            acc, _, _ = tlc_validate(ctx, tp, module=module, invariants=inv, deviation=k["deviation"])
            if acc:
                explained = k
                break
        if explained:
            ctx.known_finding(explained["what"])
            ctx.cov.setdefault("known_finding_hits", {}).setdefault(explained["deviation"], 0)
            ctx.cov["known_finding_hits"][explained["deviation"]] += 1
            continue
        what = "trace of scenario %s rejected at line %s: %s -- %s" % (sc["id"], r["line"], (r.get("event") or "")[:300], r.get("why"))
        ctx.violation(what, {"signature": "trace:" + sig_of(r.get("event")), "kind": "wire-trace", "scenario": sc, "line": r["line"],
                             "event": r.get("event"), "why": r.get("why"), "state": r.get("state"), "trace": r["trace"]})
    if ctx.cov.get("timing_unconfirmed", 0) > 5:
        raise vlib.MachineryError("too many timing-dependent rejections (%d): machinery not trustworthy on this machine" % ctx.cov["timing_unconfirmed"])
