"""Trace validation (TV): run scenarios on the real broker with the wire driver, validate the recorded
ndjson trace with TLC against a Trace*.tla specification, attribute rejections to scenarios."""
import json, os, re, subprocess
import vlib

CFG_TMPL = """SPECIFICATION TSpec
CONSTANTS
 SysLevels <- mc_SysLevels
 Deviations <- EnvDeviations
CONSTRAINT HWM
POSTCONDITION Accepted
CHECK_DEADLOCK FALSE
INVARIANTS
%s
"""

SYS_LEVELS = ["$vs", "$s", "$SYS", "$share"]


def run_wire(ctx, scenarios, name, par=16, slow=False, timeout=1200):
    """execute scenarios (list of dicts) with harness/cmd/wire; returns (trace_path, index, stats)"""
    bindir = ctx.go_build(["./cmd/wire"])
    d = ctx.tmp("wire_" + name)
    sp = os.path.join(d, "scenarios.ndjson")
    with open(sp, "w") as fh:
        for s in scenarios:
            fh.write(json.dumps(s) + "\n")
    tp = os.path.join(d, "trace.ndjson")
    ip = os.path.join(d, "index.json")
    cmd = [os.path.join(bindir, "wire"), "-scenarios", sp, "-out", tp, "-index", ip, "-par", str(par)]
    if slow:
        cmd.append("-slow")
    r = subprocess.run(["timeout", str(timeout)] + cmd, stdout=subprocess.PIPE, stderr=subprocess.PIPE, text=True)
    if r.returncode != 0:
        raise vlib.MachineryError("wire driver failed rc=%s: %s" % (r.returncode, (r.stderr or r.stdout)[-2000:]))
    stats = json.loads(r.stdout.strip().splitlines()[-1])
    index = json.load(open(ip))
    vlib.log("[wire] %s: %d scenarios, %d events" % (name, stats["scenarios"], stats["events"]))
    fatal = [e for e in index if e.get("fatal")]
    if fatal:
        raise vlib.MachineryError("wire driver: %d scenarios could not be executed: %s" % (len(fatal), fatal[0]["fatal"]))
    return tp, index, stats


def tlc_validate(ctx, trace_path, module="TraceBroker", invariants=("IdsDistinct", "SubsKeyed"), stopat=0, timeout=900, deviation=(),
                 count=False):
    """returns (accepted, hwm, tlc_result)"""
    body = "mc_SysLevels == %s\n" % vlib.tla_set([vlib.tla_str(s) for s in SYS_LEVELS])
    inv = list(invariants)
    if stopat:
        inv.append("NotAtStop")
    cfg = CFG_TMPL % "\n".join(" " + i for i in inv)
    if isinstance(deviation, str):
        deviation = [deviation] if deviation else []
    env = {"TRACE": trace_path}
    for i in range(6):
        env["KF%d" % (i + 1)] = deviation[i] if i < len(deviation) else ""
    if stopat:
        env["STOPAT"] = str(stopat)
    hw = {"v": None}

    def keep(line):
        return "TRACE-REJECTED-AT" in line
    res = ctx.tlc(module, body, cfg, name=module, workers=1, timeout=timeout, env=env, keep_lines=keep,
                  java_opts=["-Dtlc2.tool.queue.IStateQueue=StateDeque"], count=count)
    hwm = None
    for line in res.kept:
        m = re.search(r'"TRACE-REJECTED-AT", (\d+), "OF", (\d+)', line)
        if m:
            hwm = int(m.group(1))
    accepted = res.rc == 0 and res.violation is None
    return accepted, hwm, res


def state_at(ctx, trace_path, line, module="TraceBroker", deviation=()):
    """the specification state after consuming lines < `line` (text of TLC's last state)"""
    try:
        acc, hwm, res = tlc_validate(ctx, trace_path, module=module, invariants=(), stopat=line, deviation=list(deviation))
    except vlib.MachineryError as e:
        return "state unavailable: %s" % e
    txt = "\n".join(res.tail)
    i = txt.rfind("State ")
    return txt[i:i + 60000] if i >= 0 else txt[-3000:]


def open_deviations(ctx):
    return [k for k in ctx.kf if k.get("status") == "open" and k.get("property") == ctx.pid and k.get("deviation")]


def validate(ctx, scenarios, name, module="TraceBroker", invariants=("IdsDistinct", "SubsKeyed"), par=16, max_reject=3, jvms=6,
             lenient=True):
    """Run the scenarios on the real broker and validate the traces.
    Pass 1 (verdicts): when this property has open known findings and `lenient`, their deviations are switched on, so
    that the whole of every trace is examined; whatever is rejected here is not explained by any recorded finding.
    Pass 2 (only with open findings): strict validation; confirm() attributes the strict rejections to findings.
    Returns (rejected, stats); rejected entries from the strict pass carry strict=True."""
    devs = [k["deviation"] for k in open_deviations(ctx)] if lenient else []
    rejected, stats, tp, index, lines, by_id = _validate_once(ctx, scenarios, name, module, invariants, par, max_reject, jvms, devs, None)
    if any(e.get("followed") or e.get("diverged") for e in index):
        stats["sched_followed"] = sum(e.get("followed", 0) for e in index)
        stats["sched_diverged"] = sum(e.get("diverged", 0) for e in index)
        stats["sched_diverged_scenarios"] = [e["id"] for e in index if e.get("diverged")][:20]
    if devs:
        rej2, st2, _, _, _, _ = _validate_once(ctx, scenarios, name + "_strict", module, invariants, par, max_reject, jvms, [], (tp, index, lines, by_id))
        bad = {r["scenario"]["id"] for r in rejected}
        for r in rej2:
            if r["scenario"]["id"] not in bad:
                r["strict"] = True
                rejected.append(r)
        stats["strict_rejected"] = len(rej2)
    return rejected, stats


def _validate_once(ctx, scenarios, name, module, invariants, par, max_reject, jvms, devs, reuse):
    """run + validate; returns list of rejected scenarios [{scenario, trace, line, event, why}] and statistics.
    The trace is cut at scenario boundaries into `jvms` parts that are validated by concurrent TLC processes."""
    import threading
    if reuse:
        tp, index, lines, by_id = reuse
        stats = {"scenarios": len(index), "events": len(lines), "fatal": 0}
    else:
        by_id = {s["id"]: s for s in scenarios}
        tp, index, stats = run_wire(ctx, scenarios, name, par=par)
        lines = open(tp).read().splitlines()
    jvms = max(1, min(jvms, len(index) // 4 or 1))
    parts = [index[i::jvms] for i in range(jvms)]
    results = [None] * jvms
    errors = []

    def work(pi):
        try:
            results[pi] = _validate_part(ctx, parts[pi], lines, by_id, "%s_p%d" % (name, pi), module, invariants, max_reject, os.path.dirname(tp), devs)
        except Exception as e:      # noqa
            errors.append(e)
    ths = [threading.Thread(target=work, args=(i,)) for i in range(jvms)]
    for t in ths:
        t.start()
    for t in ths:
        t.join()
    if errors:
        raise errors[0]
    rejected = []
    nvalid = 0
    unexamined = 0
    for rj, nv, un in results:
        rejected += rj
        nvalid += nv
        unexamined += un
    stats["validated"] = nvalid
    stats["rejected"] = len(rejected)
    stats["unexamined"] = unexamined
    if scenarios and not reuse:
        ctx.sample({"scenario": scenarios[0]["id"], "cfg": scenarios[0].get("cfg"), "first_steps": scenarios[0]["steps"][:8],
                    "first_events": lines[index[0]["from"] - 1: index[0]["from"] + 5]})
    return rejected, stats, tp, index, lines, by_id


def _validate_part(ctx, todo, lines, by_id, name, module, invariants, max_reject, d, devs=()):
    rejected = []
    rounds = 0
    nvalid = 0
    while todo and rounds <= max_reject:
        rounds += 1
        cur_trace = os.path.join(d, "%s_r%d.ndjson" % (name, rounds))
        with open(cur_trace, "w") as fh:
            for e in todo:
                fh.write("\n".join(lines[e["from"] - 1: e["to"]]) + "\n")
        # the states TLC visits while explaining the recorded traces are states of the specification: counted
        acc, hwm, res = tlc_validate(ctx, cur_trace, module=module, invariants=invariants, deviation=list(devs), count=True)
        if acc:
            nvalid += len(todo)
            todo = []
            break
        if "Invariant" in (res.violation or "") and hwm is not None:
            # the state reached after consuming line hwm-1 violates an invariant of the specification
            hwm = hwm - 1
            why = "after this event " + (res.violation or "").splitlines()[0]
        elif hwm is None:
            m = re.findall(r"/\\ l = (\d+)", "\n".join(res.tail))
            hwm = int(m[-1]) - 1 if m else None
            why = "invariant: " + (res.violation or "")[:300]
        else:
            why = "no action of the specification explains this event"
        if hwm is None:
            raise vlib.MachineryError("trace rejected but no position found:\n" + "\n".join(res.tail[-30:]))
        pos = 0
        bad = None
        for e in todo:
            n = e["to"] - e["from"] + 1
            if pos < hwm <= pos + n:
                bad = e
                rel = hwm - pos
                break
            pos += n
        if bad is None:
            raise vlib.MachineryError("rejected line %s outside every scenario" % hwm)
        seg = lines[bad["from"] - 1: bad["to"]]
        rejected.append({"scenario": by_id[bad["id"]], "trace": seg, "line": rel, "event": seg[rel - 1] if 0 < rel <= len(seg) else None,
                         "why": why, "notes": bad.get("notes")})
        k = todo.index(bad)
        nvalid += k
        todo = todo[k + 1:]
    return rejected, nvalid, len(todo)


def single(ctx, scenario, name, module="TraceBroker", invariants=("IdsDistinct", "SubsKeyed"), slow=False, deviation=()):
    """re-run one scenario (optionally in slow mode) and validate it alone; returns (accepted, info)"""
    tp, index, stats = run_wire(ctx, [scenario], name, par=1, slow=slow)
    acc, hwm, res = tlc_validate(ctx, tp, module=module, invariants=invariants, deviation=list(deviation))
    lines = open(tp).read().splitlines()
    info = {"trace": lines, "line": hwm}
    if not acc:
        if "Invariant" in (res.violation or "") and hwm is not None:
            hwm = hwm - 1
            info["line"] = hwm
            info["why"] = "after this event " + (res.violation or "").splitlines()[0]
        elif hwm is None:
            m = re.findall(r"/\\ l = (\d+)", "\n".join(res.tail))
            hwm = int(m[-1]) - 1 if m else len(lines)
            info["line"] = hwm
            info["why"] = "invariant: " + (res.violation or "")[:400]
        else:
            info["why"] = "no action of the specification explains this event"
        info["event"] = lines[hwm - 1] if 0 < hwm <= len(lines) else None
        info["state"] = state_at(ctx, tp, hwm + (1 if "Invariant" in (res.violation or "") else 0), module=module, deviation=deviation)
        info["tp"] = tp
    return acc, info


def sig_of(ev):
    try:
        return json.loads(ev).get("e", "?")
    except Exception:
        return "?"


def confirm(ctx, rejected, inv, module="TraceBroker", limit=4):
    """Decide what the rejected scenarios mean.
    * rejected by the lenient pass (or no open findings): re-executed alone (slow mode when the rejection is
      absence-type: something owed had not arrived at a barrier); still rejected => VIOLATION.  Presence-type
      rejections are violating executions by themselves and are reported even if the re-execution passes.
    * rejected only by the strict pass: the recorded trace is re-validated with exactly one deviation of the open known
      findings switched on; accepted => KNOWN-FINDING line for that finding; not attributable to a single one although
      the union explains it => KNOWN-FINDING for each of the listed deviations (the union accepted it in pass 1)."""
    ctx.cov["rejected_scenarios"] = len([r for r in rejected if not r.get("strict")])
    devs = open_deviations(ctx)
    nconf = 0
    natt = 0
    for r in rejected:
        sc = r["scenario"]
        ev = r.get("event") or ""
        if r.get("strict"):
            natt += 1
            if natt > 12:
                continue
            tp = os.path.join(ctx.tmp("kf"), "t%d.ndjson" % natt)
            with open(tp, "w") as fh:
                fh.write("\n".join(r["trace"]) + "\n")
            hit = None
            for k in devs:
                acc, _, _ = tlc_validate(ctx, tp, module=module, invariants=inv, deviation=[k["deviation"]])
                if acc:
                    hit = [k]
                    break
            if hit is None:
                hit = devs      # only the union explains it
            for k in hit:
                ctx.known_finding(k["what"])
                h = ctx.cov.setdefault("known_finding_hits", {})
                h[k["deviation"]] = h.get(k["deviation"], 0) + 1
            continue
        absence = '"e":"quiet"' in ev
        nconf += 1
        if nconf <= limit:
            try:
                acc, info = single(ctx, sc, ("slow_" if absence else "re_") + sc["id"], module=module, invariants=inv, slow=absence,
                                   deviation=[k["deviation"] for k in devs])
            except vlib.MachineryError as e:
                # the re-execution itself failed: a presence-type rejection stands as recorded, an absence-type one is not decided
                ctx.notes.append("re-execution of %s failed: %s" % (sc["id"], str(e)[:200]))
                if absence:
                    ctx.cov["timing_unconfirmed"] = ctx.cov.get("timing_unconfirmed", 0) + 1
                    continue
                acc, info = True, None
            if acc:
                if absence:
                    ctx.cov["timing_unconfirmed"] = ctx.cov.get("timing_unconfirmed", 0) + 1
                    continue
            else:
                r = {"scenario": sc, "trace": info["trace"], "line": info["line"], "event": info.get("event"), "why": info.get("why"),
                     "state": info.get("state")}
        elif absence:
            continue
        what = "trace of scenario %s rejected at line %s: %s -- %s" % (sc["id"], r["line"], (r.get("event") or "")[:300], r.get("why"))
        ctx.violation(what, {"signature": "trace:" + sig_of(r.get("event")), "kind": "wire-trace", "scenario": sc, "line": r["line"],
                             "event": r.get("event"), "why": r.get("why"), "state": r.get("state"), "trace": r["trace"]})
    if ctx.cov.get("timing_unconfirmed", 0) > 5:
        raise vlib.MachineryError("too many timing-dependent rejections (%d): machinery not trustworthy on this machine" % ctx.cov["timing_unconfirmed"])
