"""C16 at byte grain: two real Federation objects, real gRPC, a proxy that cuts the TCP connection after scripted byte counts
(harness/cmd/fedgrpc); the recorded traces are validated by TLC against spec/FedDelivery.tla."""
import json, os, re, subprocess
import vlib

CFG = """SPECIFICATION Spec
CONSTRAINT HWM
POSTCONDITION Accepted
CHECK_DEADLOCK FALSE
INVARIANTS AppliedIsPrefix
"""


def scenarios(rng, sid, n):
    out = []
    for i in range(n):
        ops, nmsg = [], 0
        holds = set()
        ncut = rng.choice([1, 2, 3, 4, 6])
        cuts_left = ncut
        for step in range(rng.randrange(8, 22)):
            r = rng.random()
            if r < 0.35:
                nmsg += 1
                ops.append({"op": "msg", "n": nmsg})
            elif r < 0.6:
                c, t = rng.choice(["c1", "c2"]), rng.choice(["a/b", "a/+", "x", "$share/g/a/b"])
                if (c, t) in holds:
                    holds.discard((c, t))
                    ops.append({"op": "unsub", "c": c, "t": t})
                else:
                    holds.add((c, t))
                    ops.append({"op": "sub", "c": c, "t": t})
            elif r < 0.8 and cuts_left:
                cuts_left -= 1
                # byte offsets: inside the HTTP/2 frame header (0..8), inside small frames, after a few events
                ops.append({"op": "cut", "dir": rng.choice(["c2s", "s2c"]), "after": rng.choice([0, 1, 3, 8, 9, 10, 17, 25, 40, 64, 100, 200, 500])})
            else:
                ops.append({"op": "sleep", "ms": rng.choice([5, 30, 200, 700])})
        # something after the last cut, so that the reconnect has work to do
        nmsg += 1
        ops.append({"op": "msg", "n": nmsg})
        out.append({"id": "%s-grpc%d" % (sid, i), "ops": ops})
    return out


def special(rng, sid, n):
    """large states and emissions racing with the first handshake:
    big   N > 100 local topics before the join (the full-state resynchronisation is longer than one batch of 100 events) and a
          burst of > 100 events while the stream stands, with a cut in between
    race  N local topics before the join; while the first handshake and its resynchronisation run, a second goroutine
          unsubscribes them all (paced to straddle the handshake): whatever the order, at quiescence B's view = A's local set"""
    out = []
    for i in range(n):
        if i % 2 == 0:
            big = rng.choice([101, 150, 199, 201, 250])
            ops = [{"op": "msg", "n": 1}, {"op": "subn", "c": "c2", "t": "burst", "n": rng.choice([101, 130, 220]), "us": 0}, {"op": "msg", "n": 2}]
            if rng.random() < 0.5:
                ops.insert(1, {"op": "cut", "dir": rng.choice(["c2s", "s2c"]), "after": rng.choice([40, 500, 3000, 9000])})
            ops += [{"op": "unsubn", "c": "c2", "t": "burst", "n": rng.choice([50, 101]), "us": 0, "seed": rng.randrange(1, 99)}, {"op": "msg", "n": 3}]
            out.append({"id": "%s-big%d" % (sid, i), "pre": [{"op": "subn", "c": "c1", "t": "big", "n": big, "us": 0}], "ops": ops})
        else:
            nn = rng.choice([800, 1500, 2500])
            out.append({"id": "%s-race%d" % (sid, i), "pre": [{"op": "subn", "c": "c1", "t": "rc", "n": nn, "us": 0}],
                        "race": [{"op": "unsubn", "c": "c1", "t": "rc", "n": nn, "us": rng.choice([10, 20, 40]), "seed": rng.randrange(1, 10**6)}],
                        "ops": [{"op": "msg", "n": 1}]})
    return out


def run(ctx, scs, name="fedgrpc", par=24, timeout=900):
    """-> (rejected [{scenario, trace, line, event}], stats)"""
    bindir = ctx.go_build(["./cmd/fedgrpc"])
    d = ctx.tmp(name)
    sp, tp = os.path.join(d, "scenarios.ndjson"), os.path.join(d, "trace.ndjson")
    with open(sp, "w") as fh:
        for s in scs:
            fh.write(json.dumps(s) + "\n")
    r = subprocess.run(["timeout", str(timeout), os.path.join(bindir, "fedgrpc"), "-scenarios", sp, "-out", tp, "-par", str(par)],
                       stdout=subprocess.PIPE, stderr=subprocess.PIPE, text=True)
    if r.returncode != 0:
        raise vlib.MachineryError("fedgrpc driver failed rc=%s: %s" % (r.returncode, (r.stderr or r.stdout)[-1500:]))
    info = json.loads(r.stdout.strip().splitlines()[-1])
    index = info["index"]
    fatal = [e for e in index if e.get("fatal")]
    if len(fatal) > max(1, len(index) // 10):
        raise vlib.MachineryError("fedgrpc: %d scenarios could not be executed: %s" % (len(fatal), fatal[0]["fatal"]))
    lines = open(tp).read().splitlines()
    by_id = {s["id"]: s for s in scs}
    todo = [e for e in index if not e.get("fatal")]
    rejected, nvalid, rounds = [], 0, 0
    cuts = sum(1 for l in lines if '"e":"cut"' in l)
    while todo and rounds < 6:
        rounds += 1
        cur = os.path.join(d, "part_r%d.ndjson" % rounds)
        with open(cur, "w") as fh:
            for e in todo:
                fh.write("\n".join(lines[e["from"] - 1:e["to"]]) + "\n")
        kept = []
        res = ctx.tlc("FedDelivery", "", CFG, name="FedDelivery_r%d" % rounds, workers=1, timeout=600, env={"TRACE": cur},
                      keep_lines=lambda l: "TRACE-REJECTED-AT" in l, java_opts=["-Dtlc2.tool.queue.IStateQueue=StateDeque"], count=True)
        if res.rc == 0 and res.violation is None:
            nvalid += len(todo)
            todo = []
            break
        hwm = None
        for line in res.kept:
            m = re.search(r'"TRACE-REJECTED-AT", (\d+), "OF", (\d+)', line)
            if m:
                hwm = int(m.group(1))
        if hwm is None:
            raise vlib.MachineryError("FedDelivery rejected a trace without a position:\n" + "\n".join(res.tail[-20:]))
        pos, bad = 0, None
        for e in todo:
            n = e["to"] - e["from"] + 1
            if pos < hwm <= pos + n:
                bad, rel = e, hwm - pos
                break
            pos += n
        if bad is None:
            raise vlib.MachineryError("rejected line %d outside every scenario" % hwm)
        seg = lines[bad["from"] - 1:bad["to"]]
        rejected.append({"scenario": by_id[bad["id"]], "trace": seg, "line": rel, "event": seg[rel - 1]})
        k = todo.index(bad)
        nvalid += k
        todo = todo[k + 1:]
    stats = {"scenarios": len(index), "events": len(lines), "validated": nvalid, "rejected": len(rejected), "unexamined": len(todo),
             "connection_cuts_that_fired": cuts, "not_executable": len(fatal)}
    return rejected, stats
