"""Transition-coverage replay of RespCmds.tla into the RESP fake (harness/resp) through a real redigo
connection.  Hygiene check of the trusted base of the redis clauses (C09, C02/C10 on redis) - not a property of
gmqtt.  run(ctx, tier) returns (summary, divergences); any divergence means the fake (or the definition) is wrong
and must be treated as machinery trouble by the caller."""
import itertools, json, os
import vlib
from vlib import tla_str, tla_set, tla_seq, tla_val

KEYS = ["ka", "kb:1"]
FIELDS = ["f1", "f2"]
VALUES = ["a", "b"]

# patterns of the MATCH table (well-formed: every class is closed, no range ends in ']')
PATTERNS = ["*", "?", "", "a", "a*", "*a", "a*b", "*a*", "**", "a**b", "??", "?*", "*?", "a?", "?a?", "[ab]", "[^a]", "[^ab]?",
            "[a-b]*", "[b-a]", "[a\\-]", "[-a]", "[*]", "\\*", "a\\*", "\\**", "*\\*", "[*-a]b", "[^*\\-]*", "\\a", "*[-]*", "a[^a]*a",
            "k*", "k?", "k[ab]*", "kb:*", "*:?"]
# patterns used by KEYS/SCAN inside the state machine (names out of PATTERNS)
TPATS = ["*", "k?", "kb:*", "k[^b]*"]
UNIVERSE_ALPHABET = ["a", "b", "*", "-"]
UNIVERSE_LEN = 3


def tokenize(p):
    """redis glob syntax -> tokens; the *matching* semantics is defined in RespCmds.tla (Glob)"""
    out, i = [], 0
    while i < len(p):
        c = p[i]
        if c == "*":
            out.append({"t": "star"})
        elif c == "?":
            out.append({"t": "any"})
        elif c == "\\" and i + 1 < len(p):
            i += 1
            out.append({"t": "lit", "c": p[i]})
        elif c == "[":
            i += 1
            neg = i < len(p) and p[i] == "^"
            if neg:
                i += 1
            s = set()
            while True:
                assert i < len(p), "unterminated class in %r" % p
                if p[i] == "\\" and i + 1 < len(p):
                    i += 1
                    s.add(p[i])
                elif p[i] == "]":
                    break
                elif i + 2 < len(p) and p[i + 1] == "-":
                    lo, hi = sorted((ord(p[i]), ord(p[i + 2])))
                    assert p[i + 2] != "]", "ambiguous range in %r" % p
                    s |= {chr(x) for x in range(lo, hi + 1) if chr(x) not in '"\\'}
                    i += 2
                else:
                    s.add(p[i])
                i += 1
            out.append({"t": "cls", "neg": neg, "s": frozenset(s)})
        else:
            out.append({"t": "lit", "c": c})
        i += 1
    return out


def chars(s):
    return tla_seq([tla_str(c) for c in s])


def universe():
    u = [""]
    for n in range(1, UNIVERSE_LEN + 1):
        u += ["".join(t) for t in itertools.product(UNIVERSE_ALPHABET, repeat=n)]
    return u + KEYS


def mc_body(maxlen, maxtotal, idx, cnt, tpats):
    pats = sorted(set(PATTERNS) | set(tpats))
    precs = ["[n |-> %s, tk |-> %s]" % (tla_str(p), tla_val(tokenize(p))) for p in pats]
    urecs = ["[n |-> %s, cs |-> %s]" % (tla_str(u), chars(u)) for u in universe()]
    return "\n".join([
        "mc_Keys == " + tla_set([tla_str(k) for k in KEYS]),
        "mc_KeyCs == " + " @@ ".join("(%s :> %s)" % (tla_str(k), chars(k)) for k in KEYS),
        "mc_Fields == " + tla_set([tla_str(f) for f in FIELDS]),
        "mc_Values == " + tla_set([tla_str(v) for v in VALUES]),
        "mc_Idx == %d..%d" % (idx[0], idx[1]),
        "mc_Cnt == %d..%d" % (cnt[0], cnt[1]),
        "mc_MaxLen == %d" % maxlen,
        "mc_MaxTotal == %d" % maxtotal,
        "mc_Pats == " + tla_set(precs),
        "mc_TPats == " + tla_set([tla_str(p) for p in tpats]),
        "mc_U == " + tla_set(urecs),
        "ASSUME PrintT(ToJson([glob |-> GlobTable(mc_U), universe |-> {u.n : u \\in mc_U}]))",
        "DumpAC == Dump",
    ])


CFG = """SPECIFICATION Spec
CONSTANTS
 Keys <- mc_Keys
 KeyCs <- mc_KeyCs
 Fields <- mc_Fields
 Values <- mc_Values
 Idx <- mc_Idx
 Cnt <- mc_Cnt
 MaxLen <- mc_MaxLen
 MaxTotal <- mc_MaxTotal
 Pats <- mc_Pats
 TPats <- mc_TPats
VIEW view
CONSTRAINT Bound
ACTION_CONSTRAINT DumpAC
INVARIANTS TypeOK
PROPERTIES ReadsAreReads ErrorsChangeNothing
"""

TIERS = {
    # lists up to MaxLen, at most MaxTotal list elements + hash fields in the whole store, index arguments Idx (one
    # below -len .. one above len-1), LREM counts Cnt
    "quick":    dict(maxlen=3, maxtotal=3, idx=(-4, 3), cnt=(-2, 2), tpats=TPATS[:2]),
    "thorough": dict(maxlen=3, maxtotal=7, idx=(-4, 3), cnt=(-3, 3), tpats=TPATS),
}


def run(ctx, tier=None, workers=8, timeout=600):
    """model-check RespCmds and replay every emitted transition into the fake; returns (summary, divs)"""
    tier = tier or ctx.tier
    p = TIERS[tier]
    bindir = ctx.go_build(["./cmd/respfake"])
    body = mc_body(p["maxlen"], p["maxtotal"], p["idx"], p["cnt"], p["tpats"])
    res, out, rc = ctx.tlc_piped("RespCmds", body, CFG, [os.path.join(bindir, "respfake")], name="RespCmds_" + tier,
                                 workers=workers, timeout=timeout, extends="RespCmds, TLC, Json", count=False)
    if res.violation:
        raise vlib.MachineryError("design-level check of RespCmds failed (model bug):\n" + res.violation)
    if rc != 0:
        raise vlib.MachineryError("respfake replayer failed rc=%s" % rc)
    summary, divs = None, []
    for line in out:
        o = json.loads(line)
        if o["kind"] == "summary":
            summary = o
        elif o["kind"] == "div":
            divs.append(o)
    if summary is None:
        raise vlib.MachineryError("respfake replayer printed no summary")
    if summary["n"] == 0 or summary.get("glob_pairs", 0) == 0:
        raise vlib.MachineryError("respfake replayed nothing (n=%s glob_pairs=%s)" % (summary["n"], summary.get("glob_pairs")))
    ctx.cov.setdefault("trusted_base", []).append({
        "what": "RESP fake vs RespCmds.tla (transition coverage through redigo)", "tier": tier,
        "states": res.distinct, "transitions_generated": res.generated, "transitions_replayed": summary["n"],
        "nontrivial": summary["nontrivial"], "rebuilt_from_journal": summary["counters"].get("from_journal", 0),
        "glob_pairs": summary["glob_pairs"], "glob_matching": summary["glob_matching"],
        "per_command": {k[3:]: v for k, v in sorted(summary["counters"].items()) if k.startswith("op:")},
        "divergences": summary["divergences"], "wall_s": round(res.wall, 1)})
    return summary, divs


def require_clean(ctx, tier=None):
    """for checks that depend on the fake: any divergence is machinery trouble, never a verdict"""
    summary, divs = run(ctx, tier)
    if divs or summary["divergences"]:
        raise vlib.MachineryError("the RESP fake diverges from RespCmds.tla (trusted base broken): " +
                                  "; ".join("%s: %s" % (d["signature"], d["what"][:300]) for d in divs[:5]))
    return summary
