"""Design-level model check: operational delivery model (BrokerOp.tla) against the declarative obligations of
Broker.tla (invariants HeadExplained, DrainedMeansQuiet)."""
import vlib
from vlib import tla_str, tla_set, tla_val, tla_levels

FILTERS = {
    "plain": ["t", "#", "$share/g/t"],
    "wild": ["t/+", "+/u", "$share/g/t/#"],
    "sys": ["$s/#", "#", "$share/g/+"],
}
TOPICS = {"plain": ["t"], "wild": ["t/u"], "sys": ["$s", "x"]}
OPTS = [
    {"qos": 0, "nl": False, "rap": False, "rh": 0, "id": 0},
    {"qos": 2, "nl": True, "rap": True, "rh": 1, "id": 7},
    {"qos": 1, "nl": False, "rap": True, "rh": 2, "id": 3},
]

CFG = """SPECIFICATION OSpec
CONSTANTS
 SysLevels <- mc_SysLevels
 Deviations <- mc_Deviations
 CIDs <- mc_CIDs
 FilterPool <- mc_FilterPool
 TopicPool <- mc_TopicPool
 OptPool <- mc_OptPool
 PubQos <- mc_PubQos
 MaxPubs = %d
 MaxSubsPerClient = %d
 MaxSubOps = %d
 ModeC = "%s"
 QQ0 = %s
VIEW OView
CONSTRAINT OBound
INVARIANTS HeadExplained DrainedMeansQuiet SubsKeyed
CHECK_DEADLOCK FALSE
"""


def split_full(full):
    if full.startswith("$share/"):
        p = full.split("/", 2)
        return p[1], p[2]
    return "", full


def run(ctx, pack, mode, nopts=2, pubqos=(0, 2), maxpubs=2, maxsubs=2, maxsubops=2, qq0=True, timeout=1500, workers=12):
    frecs = []
    for full in FILTERS[pack]:
        sh, f = split_full(full)
        frecs.append("[n |-> %s, share |-> %s, lv |-> %s, sys |-> %s]" % (tla_str(full), tla_str(sh), tla_levels(f),
                                                                          "TRUE" if f.startswith("$") else "FALSE"))
    trecs = ["[topic |-> %s, lv |-> %s, sys |-> %s]" % (tla_str(t), tla_levels(t), "TRUE" if t.startswith("$") else "FALSE")
             for t in TOPICS[pack]]
    body = "\n".join([
        'mc_SysLevels == {"$s"}',
        'mc_Deviations == {}',
        'mc_CIDs == {"c1", "c2"}',
        "mc_FilterPool == " + tla_set(frecs),
        "mc_TopicPool == " + tla_set(trecs),
        "mc_OptPool == " + tla_set([tla_val(o) for o in OPTS[:nopts]]),
        "mc_PubQos == " + tla_set([str(q) for q in pubqos]),
    ])
    cfg = CFG % (maxpubs, maxsubs, maxsubops, mode, "TRUE" if qq0 else "FALSE")
    res = ctx.tlc("BrokerOp", body, cfg, name="BrokerOp_%s_%s" % (pack, mode), workers=workers, timeout=timeout)
    if res.violation:
        # a design-level failure of the model is not a verdict about the code (DESIGN.md 2.6)
        raise vlib.MachineryError("design-level check BrokerOp (%s, %s) failed:\n%s" % (pack, mode, res.violation[:3000]))
    ctx.cov.setdefault("design_level", []).append({"model": "BrokerOp", "pack": pack, "mode": mode, "states": res.distinct,
                                                   "generated": res.generated, "depth": res.depth, "wall_s": round(res.wall, 1)})
    return res
