"""TLC-enumerated string tables (TopicStr.tla) piped into the real TopicMatch / validators."""
import json, os
import vlib
from vlib import tla_str, tla_set

CFG = """SPECIFICATION Spec
CONSTANTS
 Chars <- mc_Chars
 MaxLen <- mc_MaxLen
"""


def run(ctx, chars, maxlen, validity=False, timeout=1500):
    bindir = ctx.go_build(["./cmd/topicmatch"])
    body = "mc_Chars == %s\nmc_MaxLen == %d\nASSUME DumpAll\n" % (tla_set([tla_str(c) for c in chars]), maxlen)
    cmd = [os.path.join(bindir, "topicmatch")] + (["-validity"] if validity else [])
    res, out, rc = ctx.tlc_piped("TopicStr", body, CFG, cmd, name="TopicStr%d%s" % (maxlen, "v" if validity else ""),
                                 workers=4, timeout=timeout, count=False, java_opts=["-Xss512m"])
    if res.violation:
        raise vlib.MachineryError("TopicStr evaluation failed:\n" + res.violation)
    if rc != 0:
        raise vlib.MachineryError("topicmatch driver failed rc=%s" % rc)
    summary, divs = None, []
    for line in out:
        o = json.loads(line)
        if o["kind"] == "summary":
            summary = o
        else:
            divs.append(o)
    if summary is None or summary["n"] == 0:
        raise vlib.MachineryError("topicmatch driver consumed nothing")
    return summary, divs
