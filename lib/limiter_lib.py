"""Transition-coverage replay of Limiter.tla into the real packet-id limiter (server.packetIDLimiter through
server.NewVerifLimiter, build tag verif) – C03, limiter layer.

run(ctx, tier) -> (summary, divergences)
  summary      {"runs": [{mode, max_id, limits, free_bound, states, generated, transitions_replayed, nontrivial, probe_polls,
                          wall_s}], "n", "nontrivial", "divergences", "aborted"}
  divergences  list of {"signature", "what", "line" (the transition), "mode", "max_id"}; at most 3 per signature and run

Two bindings of the model's id space to the real one (details and the soundness argument: harness/cmd/limiter/main.go):
  blockers  model MaxId = M in {4,5,6}; the real object gets limit + (65535-M) and the ids M+1..65535 marked used before the
            history, so ids are identical and the real scan wraps 65535 -> 1 for real.  Reaches wrap-around.
  plain     model MaxId = 65535, real object exactly as the broker builds it (limit 1..3); bounded by free <= FreeBound.
TLC checks TypeOK, Window, PollFresh, PollProgress, ReleaseExact in the same runs.
"""
import itertools, json, os
import vlib
from vlib import tla_set, tla_seq

CFG = """SPECIFICATION Spec
CONSTANTS
 MaxId <- mc_MaxId
 Limits <- mc_Limits
 PollArgs <- mc_PollArgs
 IdArgs <- mc_IdArgs
 Batches <- mc_Batches
 FreeBound <- mc_FreeBound
 ProbeMax <- mc_ProbeMax
VIEW view
CONSTRAINT Bound
ACTION_CONSTRAINT DumpAC
INVARIANTS TypeOK Window
PROPERTIES PollFresh PollProgress ReleaseExact
"""


def batches(top):
    """arguments of BatchRelease over ids 1..top: empty, ascending pairs and triples, everything descending, a duplicate,
    one with id 0 (never in use)"""
    ids = list(range(1, top + 1))
    bs = [()]
    bs += list(itertools.combinations(ids, 2))
    bs += list(itertools.combinations(ids, 3))
    bs += [tuple(reversed(ids)), (1, 1), (0, 2)]
    seen, out = set(), []
    for b in bs:
        if b not in seen:
            seen.add(b)
            out.append(b)
    return out


def mc_body(maxid, limits, pollargs, idargs, bts, freebound, probemax):
    return "\n".join([
        "mc_MaxId == %d" % maxid,
        "mc_Limits == " + tla_set([str(x) for x in limits]),
        "mc_PollArgs == " + tla_set([str(x) for x in pollargs]),
        "mc_IdArgs == " + tla_set([str(x) for x in idargs]),
        "mc_Batches == " + tla_set([tla_seq([str(x) for x in b]) for b in bts]),
        "mc_FreeBound == %d" % freebound,
        "mc_ProbeMax == %d" % probemax,
        "DumpAC == Dump",
    ])


def run_one(ctx, mode, maxid, limits, pollargs, idtop, freebound, workers=4, timeout=900):
    bindir = ctx.go_build(["./cmd/limiter"])
    probemax = max(limits)
    body = mc_body(maxid, limits, pollargs, list(range(0, idtop + 1)), batches(min(idtop, 4)), freebound, probemax)
    # release scan over ids 0..scan: everything that can be in use after the operation and the probe Poll
    scan = maxid if mode == "blockers" else max(idtop, freebound) + probemax + idtop + 1
    cmd = [os.path.join(bindir, "limiter"), "-mode", mode, "-maxid", str(maxid), "-scan", str(scan), "-probe", str(probemax)]
    name = "Limiter_%s_%d" % (mode, maxid if mode == "blockers" else freebound)
    res, out, rc = ctx.tlc_piped("Limiter", body, CFG, cmd, name=name, workers=workers, timeout=timeout)
    if res.violation:
        raise vlib.MachineryError("design-level check of Limiter failed (model bug):\n" + res.violation)
    if rc != 0:
        raise vlib.MachineryError("limiter replayer failed rc=%s" % rc)
    summary, divs = None, []
    for line in out:
        o = json.loads(line)
        if o["kind"] == "summary":
            summary = o
        elif o["kind"] == "div":
            divs.append(o)
    if summary is None or summary["n"] == 0:
        raise vlib.MachineryError("limiter replayer printed no summary / replayed nothing")
    return summary, divs, res


def run(ctx, tier):
    if tier == "quick":
        plan = [("blockers", 4, [1, 2, 3, 4], [1, 2, 3], 4, 4),
                ("plain", 65535, [1, 3], [1, 2, 3], 4, 5)]
    else:
        plan = [("blockers", 4, [1, 2, 3, 4], [1, 2, 3, 5], 4, 4),
                ("blockers", 5, [1, 2, 3, 4, 5], [1, 2, 3, 6], 5, 5),
                ("blockers", 6, [1, 2, 3, 5, 6], [1, 2, 4], 6, 6),
                ("plain", 65535, [1, 2, 3, 4], [1, 2, 3, 100], 7, 7)]
    total = {"runs": [], "n": 0, "nontrivial": 0, "divergences": 0, "aborted": False}
    alldivs = []
    for mode, maxid, limits, pollargs, idtop, freebound in plan:
        summary, divs, res = run_one(ctx, mode, maxid, limits, pollargs, idtop, freebound)
        vlib.log("[limiter] %-8s MaxId=%d limits=%s free<=%d states=%d transitions=%d divergences=%d (%.1fs)" % (
            mode, maxid, limits, freebound, res.distinct, summary["n"], summary["divergences"], res.wall))
        ctx.cov["traces_validated_against_impl"] += summary["n"]
        ctx.cov["evaluations"] += summary["n"]
        ctx.cov["distinct_nontrivial"] += summary["nontrivial"]
        for s in summary["samples"][:1]:
            ctx.sample({"limiter_mode": mode, "transition": s})
        r = {"mode": mode, "max_id": maxid, "limits": limits, "poll_args": pollargs, "free_bound": freebound, "states": res.distinct,
             "generated": res.generated, "transitions_replayed": summary["n"], "nontrivial": summary["nontrivial"],
             "probe_polls": summary["counters"].get("probe_polls", 0), "wall_s": round(res.wall, 1)}
        total["runs"].append(r)
        ctx.cov.setdefault("limiter_runs", []).append(r)
        total["n"] += summary["n"]
        total["nontrivial"] += summary["nontrivial"]
        total["divergences"] += summary["divergences"]
        total["aborted"] = total["aborted"] or bool(summary.get("aborted"))
        for d in divs:
            d["mode"] = mode
            d["max_id"] = maxid
        alldivs += divs
    return total, alldivs
