// Package resp is an in-process fake redis server (RESP2 over TCP on 127.0.0.1:0) that implements the
// commands gmqtt's redis persistence back-end issues (and a few neighbours) with the semantics of real
// redis, journals every write command in execution order and can be rebuilt from any journal prefix.
//
// It is part of the trusted base of the redis clauses (C09, C02/C10 on redis); its command semantics are
// checked against spec/RespCmds.tla by transition coverage (lib/resp_lib.py, cmd/respfake).
package resp

import (
	"bufio"
	"bytes"
	"errors"
	"fmt"
	"io"
	"net"
	"sort"
	"strconv"
	"strings"
	"sync"
)

// Cmd is one journal entry: a write command as received (Args[0] upper-cased) or a marker.
type Cmd struct {
	Seq  int      // position in the global execution order (1-based, markers included)
	Args []string // Args[0] = upper-case command name (or "#MARK"); the rest are the raw argument bytes
	DB   int      // database selected on the issuing connection (extension; 0 unless SELECT n was used)
	Err  string   // error reply of the command, "" if it succeeded (extension; failed commands change nothing)
}

func (c Cmd) String() string {
	var b strings.Builder
	fmt.Fprintf(&b, "%4d", c.Seq)
	if c.DB != 0 {
		fmt.Fprintf(&b, " [db%d]", c.DB)
	}
	for _, a := range c.Args {
		b.WriteByte(' ')
		b.WriteString(strconv.QuoteToASCII(a))
	}
	if c.Err != "" {
		b.WriteString("  -> -" + c.Err)
	}
	return b.String()
}

const numDB = 16

type kind uint8

const (
	kString kind = iota + 1
	kHash
	kList
)

type entry struct {
	kind   kind
	id     uint64 // creation stamp: KEYS/SCAN iterate in creation order, the SCAN cursor is a stamp
	str    string
	fields []string // hash: fields in insertion order (what a small real hash replies)
	hash   map[string]string
	list   []string
}

type db struct {
	m map[string]*entry
}

// Server is the fake. All commands of all connections are executed under one mutex, hence the journal
// order is the execution order.
type Server struct {
	ln net.Listener

	mu        sync.Mutex
	dbs       [numDB]*db
	nextID    uint64
	journal   []Cmd
	seq       int
	failAfter int // <0 disabled; otherwise number of write commands still allowed
	crashed   bool
	password  string
	conns     map[net.Conn]struct{}
	closed    bool
	wg        sync.WaitGroup
}

func newServer() *Server {
	s := &Server{failAfter: -1, conns: map[net.Conn]struct{}{}}
	for i := range s.dbs {
		s.dbs[i] = &db{m: map[string]*entry{}}
	}
	return s
}

// NewServer listens on 127.0.0.1:0 and serves.
func NewServer() (*Server, error) {
	s := newServer()
	if err := s.listen(); err != nil {
		return nil, err
	}
	return s, nil
}

// NewServerFromJournal returns a fresh serving server whose data is the result of applying the given
// write commands in order (markers ignored). Its own journal starts empty.
func NewServerFromJournal(cmds []Cmd) (*Server, error) {
	s := newServer()
	for _, c := range cmds {
		if len(c.Args) == 0 || c.Args[0] == "#MARK" {
			continue
		}
		if c.DB < 0 || c.DB >= numDB {
			return nil, fmt.Errorf("resp: journal entry %d: bad db %d", c.Seq, c.DB)
		}
		cs := &connState{db: c.DB, authed: true}
		var out bytes.Buffer
		s.exec(cs, c.Args, &out, true)
	}
	if err := s.listen(); err != nil {
		return nil, err
	}
	return s, nil
}

func (s *Server) listen() error {
	ln, err := net.Listen("tcp", "127.0.0.1:0")
	if err != nil {
		return err
	}
	s.ln = ln
	s.wg.Add(1)
	go s.acceptLoop()
	return nil
}

// Addr is the host:port the server listens on.
func (s *Server) Addr() string { return s.ln.Addr().String() }

// Close stops the listener and closes every connection.
func (s *Server) Close() error {
	s.mu.Lock()
	if s.closed {
		s.mu.Unlock()
		return nil
	}
	s.closed = true
	err := s.ln.Close()
	for c := range s.conns {
		c.Close()
	}
	s.mu.Unlock()
	s.wg.Wait()
	return err
}

// SetPassword makes the server require AUTH <password> (as `requirepass` does); "" disables.
func (s *Server) SetPassword(p string) {
	s.mu.Lock()
	s.password = p
	s.mu.Unlock()
}

// Journal returns a copy of the journal.
func (s *Server) Journal() []Cmd { return s.JournalSince(0) }

// JournalSince returns a copy of the journal entries with Seq > seq.
func (s *Server) JournalSince(seq int) []Cmd {
	s.mu.Lock()
	defer s.mu.Unlock()
	i := sort.Search(len(s.journal), func(i int) bool { return s.journal[i].Seq > seq })
	out := make([]Cmd, 0, len(s.journal)-i)
	for _, c := range s.journal[i:] {
		out = append(out, Cmd{Seq: c.Seq, Args: append([]string(nil), c.Args...), DB: c.DB, Err: c.Err})
	}
	return out
}

// Seq is the sequence number of the last journal entry (0 if none).
func (s *Server) Seq() int {
	s.mu.Lock()
	defer s.mu.Unlock()
	return s.seq
}

// Mark appends a marker entry (Args = ["#MARK", label]) in the same sequence.
func (s *Server) Mark(label string) {
	s.mu.Lock()
	s.seq++
	s.journal = append(s.journal, Cmd{Seq: s.seq, Args: []string{"#MARK", label}})
	s.mu.Unlock()
}

// Snapshot is a deep copy of database 0: key -> map[string]string (hash) | []string (list) | string.
func (s *Server) Snapshot() map[string]interface{} { return s.SnapshotDB(0) }

// SnapshotDB is Snapshot for database n.
func (s *Server) SnapshotDB(n int) map[string]interface{} {
	s.mu.Lock()
	defer s.mu.Unlock()
	out := map[string]interface{}{}
	if n < 0 || n >= numDB {
		return out
	}
	for k, e := range s.dbs[n].m {
		switch e.kind {
		case kHash:
			h := make(map[string]string, len(e.hash))
			for f, v := range e.hash {
				h[f] = v
			}
			out[k] = h
		case kList:
			out[k] = append([]string{}, e.list...)
		case kString:
			out[k] = e.str
		}
	}
	return out
}

// FailAfter injects a crash: after n more write commands every command (the n+1-th write included) is
// refused by closing the connection without a reply, and new connections are closed at once; nothing is
// executed or journalled any more. n < 0 disables the fault (and revives a crashed server).
func (s *Server) FailAfter(n int) {
	s.mu.Lock()
	s.failAfter = n
	s.crashed = n == 0
	s.mu.Unlock()
}

// Crashed reports whether the FailAfter budget is used up.
func (s *Server) Crashed() bool {
	s.mu.Lock()
	defer s.mu.Unlock()
	return s.crashed
}

// ---------------------------------------------------------------------------------------------- network

type connState struct {
	db     int
	authed bool
	quit   bool
}

func (s *Server) acceptLoop() {
	defer s.wg.Done()
	for {
		c, err := s.ln.Accept()
		if err != nil {
			return
		}
		s.mu.Lock()
		if s.closed || s.crashed {
			s.mu.Unlock()
			c.Close()
			continue
		}
		s.conns[c] = struct{}{}
		s.wg.Add(1)
		s.mu.Unlock()
		go s.serve(c)
	}
}

func (s *Server) serve(c net.Conn) {
	defer func() {
		c.Close()
		s.mu.Lock()
		delete(s.conns, c)
		s.mu.Unlock()
		s.wg.Done()
	}()
	br := bufio.NewReaderSize(c, 16<<10)
	bw := bufio.NewWriterSize(c, 16<<10)
	cs := &connState{}
	var out bytes.Buffer
	for {
		args, err := readCommand(br)
		if err != nil {
			var pe protoErr
			if errors.As(err, &pe) {
				fmt.Fprintf(bw, "-ERR Protocol error: %s\r\n", string(pe))
				bw.Flush()
			}
			return
		}
		if len(args) == 0 {
			continue // empty multi-bulk / blank inline line: ignored, no reply (as redis does)
		}
		out.Reset()
		if !s.exec(cs, args, &out, false) {
			return // simulated crash: drop the connection without replying
		}
		bw.Write(out.Bytes())
		if cs.quit {
			bw.Flush()
			return
		}
		if br.Buffered() == 0 {
			if bw.Flush() != nil {
				return
			}
		}
	}
}

type protoErr string

func (e protoErr) Error() string { return string(e) }

func readLine(br *bufio.Reader) ([]byte, error) {
	line, err := br.ReadBytes('\n')
	if err != nil {
		return nil, err
	}
	line = line[:len(line)-1]
	if n := len(line); n > 0 && line[n-1] == '\r' {
		line = line[:n-1]
	}
	return line, nil
}

// readCommand reads one command: a RESP array of bulk strings, or an inline command.
func readCommand(br *bufio.Reader) ([]string, error) {
	line, err := readLine(br)
	if err != nil {
		return nil, err
	}
	if len(line) == 0 {
		return nil, nil
	}
	if line[0] != '*' {
		return strings.Fields(string(line)), nil // inline command (no quoting support)
	}
	n, err := strconv.Atoi(string(line[1:]))
	if err != nil || n > 1024*1024 {
		return nil, protoErr("invalid multibulk length")
	}
	if n <= 0 {
		return nil, nil
	}
	args := make([]string, 0, n)
	for i := 0; i < n; i++ {
		line, err = readLine(br)
		if err != nil {
			return nil, err
		}
		if len(line) == 0 || line[0] != '$' {
			c := byte(' ')
			if len(line) > 0 {
				c = line[0]
			}
			return nil, protoErr(fmt.Sprintf("expected '$', got '%c'", c))
		}
		l, err := strconv.Atoi(string(line[1:]))
		if err != nil || l < 0 || l > 512<<20 {
			return nil, protoErr("invalid bulk length")
		}
		buf := make([]byte, l+2)
		if _, err = io.ReadFull(br, buf); err != nil {
			return nil, err
		}
		args = append(args, string(buf[:l]))
	}
	return args, nil
}

// ---------------------------------------------------------------------------------------------- replies

func wStatus(o *bytes.Buffer, s string) { o.WriteByte('+'); o.WriteString(s); o.WriteString("\r\n") }
func wErr(o *bytes.Buffer, s string)    { o.WriteByte('-'); o.WriteString(s); o.WriteString("\r\n") }
func wInt(o *bytes.Buffer, n int) {
	o.WriteByte(':')
	o.WriteString(strconv.Itoa(n))
	o.WriteString("\r\n")
}
func wBulk(o *bytes.Buffer, s string) {
	o.WriteByte('$')
	o.WriteString(strconv.Itoa(len(s)))
	o.WriteString("\r\n")
	o.WriteString(s)
	o.WriteString("\r\n")
}
func wNil(o *bytes.Buffer)      { o.WriteString("$-1\r\n") }
func wNilArray(o *bytes.Buffer) { o.WriteString("*-1\r\n") }
func wArray(o *bytes.Buffer, n int) {
	o.WriteByte('*')
	o.WriteString(strconv.Itoa(n))
	o.WriteString("\r\n")
}
func wBool(o *bytes.Buffer, b bool) {
	if b {
		wInt(o, 1)
	} else {
		wInt(o, 0)
	}
}

const (
	errWrongType = "WRONGTYPE Operation against a key holding the wrong kind of value"
	errNotInt    = "ERR value is not an integer or out of range"
	errSyntax    = "ERR syntax error"
	errNoSuchKey = "ERR no such key"
	errIndex     = "ERR index out of range"
)

// ---------------------------------------------------------------------------------------------- commands

type cmdInfo struct {
	arity int // like redis: >0 exact number of words, <0 minimum
	write bool
	fn    func(s *Server, cs *connState, a []string, o *bytes.Buffer)
}

var table map[string]cmdInfo

func init() {
	table = map[string]cmdInfo{
		"PING":     {-1, false, cmdPing},
		"ECHO":     {2, false, cmdEcho},
		"SELECT":   {2, false, cmdSelect},
		"QUIT":     {-1, false, cmdQuit},
		"DBSIZE":   {1, false, cmdDBSize},
		"EXISTS":   {-2, false, cmdExists},
		"TYPE":     {2, false, cmdType},
		"KEYS":     {2, false, cmdKeys},
		"SCAN":     {-2, false, cmdScan},
		"GET":      {2, false, cmdGet},
		"HGET":     {3, false, cmdHGet},
		"HMGET":    {-3, false, cmdHMGet},
		"HGETALL":  {2, false, cmdHGetAll},
		"HLEN":     {2, false, cmdHLen},
		"HEXISTS":  {3, false, cmdHExists},
		"LRANGE":   {4, false, cmdLRange},
		"LLEN":     {2, false, cmdLLen},
		"LINDEX":   {3, false, cmdLIndex},
		"DEL":      {-2, true, cmdDel},
		"SET":      {-3, true, cmdSet},
		"HSET":     {-4, true, cmdHSet},
		"HMSET":    {-4, true, cmdHSet},
		"HDEL":     {-3, true, cmdHDel},
		"RPUSH":    {-3, true, cmdRPush},
		"LPUSH":    {-3, true, cmdLPush},
		"LSET":     {4, true, cmdLSet},
		"LREM":     {4, true, cmdLRem},
		"LPOP":     {-2, true, cmdLPop},
		"LTRIM":    {4, true, cmdLTrim},
		"EXPIRE":   {3, true, cmdExpire},
		"FLUSHDB":  {-1, true, cmdFlushDB},
		"FLUSHALL": {-1, true, cmdFlushAll},
	}
}

// IsWrite reports whether the (upper-case) command name is journalled.
func IsWrite(name string) bool { return table[strings.ToUpper(name)].write }

// exec runs one command under the mutex and appends the reply to o. It returns false if the server is
// (or just became) crashed: the caller must drop the connection without replying.
func (s *Server) exec(cs *connState, args []string, o *bytes.Buffer, replay bool) bool {
	s.mu.Lock()
	defer s.mu.Unlock()
	if s.crashed && !replay {
		return false
	}
	name := strings.ToUpper(args[0])
	if name == "AUTH" {
		s.auth(cs, args, o)
		return true
	}
	if s.password != "" && !cs.authed && !replay {
		wErr(o, "NOAUTH Authentication required.")
		return true
	}
	ci, ok := table[name]
	if !ok {
		var b strings.Builder
		for _, a := range args[1:] {
			if b.Len() >= 128 {
				break
			}
			fmt.Fprintf(&b, "`%.*s`, ", 128-b.Len(), a)
		}
		wErr(o, fmt.Sprintf("ERR unknown command `%.128s`, with args beginning with: %s", args[0], b.String()))
		return true
	}
	if ci.write && !replay && s.failAfter >= 0 {
		if s.failAfter == 0 {
			s.crashed = true
			for c := range s.conns {
				c.Close()
			}
			return false
		}
		s.failAfter--
	}
	start := o.Len()
	if (ci.arity > 0 && len(args) != ci.arity) || (ci.arity < 0 && len(args) < -ci.arity) {
		wErr(o, "ERR wrong number of arguments for '"+strings.ToLower(args[0])+"' command")
	} else {
		ci.fn(s, cs, args, o)
	}
	if ci.write && !replay {
		s.seq++
		c := Cmd{Seq: s.seq, Args: append([]string{name}, args[1:]...), DB: cs.db}
		if rep := o.Bytes()[start:]; len(rep) > 0 && rep[0] == '-' {
			c.Err = strings.TrimRight(string(rep[1:]), "\r\n")
		}
		s.journal = append(s.journal, c)
	}
	return true
}

func (s *Server) auth(cs *connState, a []string, o *bytes.Buffer) {
	if len(a) != 2 && len(a) != 3 {
		wErr(o, "ERR wrong number of arguments for 'auth' command")
		return
	}
	if s.password == "" {
		wErr(o, "ERR AUTH <password> called without any password configured for the default user. Are you sure your configuration is correct?")
		return
	}
	user, pw := "default", a[len(a)-1]
	if len(a) == 3 {
		user = a[1]
	}
	if user != "default" || pw != s.password {
		wErr(o, "WRONGPASS invalid username-password pair or user is disabled.")
		return
	}
	cs.authed = true
	wStatus(o, "OK")
}

func (s *Server) cur(cs *connState) *db { return s.dbs[cs.db] }

// lookup returns the entry (nil if absent) and false (after writing WRONGTYPE) if it has another kind.
func (s *Server) lookup(cs *connState, key string, k kind, o *bytes.Buffer) (*entry, bool) {
	e := s.cur(cs).m[key]
	if e != nil && e.kind != k {
		wErr(o, errWrongType)
		return nil, false
	}
	return e, true
}

func (s *Server) create(cs *connState, key string, k kind) *entry {
	s.nextID++
	e := &entry{kind: k, id: s.nextID}
	if k == kHash {
		e.hash = map[string]string{}
	}
	s.cur(cs).m[key] = e
	return e
}

// parseInt is redis' string2ll: canonical decimal only (no '+', no leading zeros, no spaces).
func parseInt(x string) (int, bool) {
	if x == "" || len(x) > 20 {
		return 0, false
	}
	if x == "0" {
		return 0, true
	}
	d := x
	if d[0] == '-' {
		d = d[1:]
	}
	if d == "" || d[0] < '1' || d[0] > '9' {
		return 0, false
	}
	n, err := strconv.ParseInt(x, 10, 64)
	if err != nil {
		return 0, false
	}
	return int(n), true
}

func cmdPing(s *Server, cs *connState, a []string, o *bytes.Buffer) {
	switch len(a) {
	case 1:
		wStatus(o, "PONG")
	case 2:
		wBulk(o, a[1])
	default:
		wErr(o, "ERR wrong number of arguments for 'ping' command")
	}
}

func cmdEcho(s *Server, cs *connState, a []string, o *bytes.Buffer) { wBulk(o, a[1]) }

func cmdQuit(s *Server, cs *connState, a []string, o *bytes.Buffer) {
	cs.quit = true
	wStatus(o, "OK")
}

func cmdSelect(s *Server, cs *connState, a []string, o *bytes.Buffer) {
	n, ok := parseInt(a[1])
	if !ok {
		wErr(o, "ERR invalid DB index")
		return
	}
	if n < 0 || n >= numDB {
		wErr(o, "ERR DB index is out of range")
		return
	}
	cs.db = n
	wStatus(o, "OK")
}

func cmdDBSize(s *Server, cs *connState, a []string, o *bytes.Buffer) { wInt(o, len(s.cur(cs).m)) }

func cmdExists(s *Server, cs *connState, a []string, o *bytes.Buffer) {
	n := 0
	for _, k := range a[1:] {
		if s.cur(cs).m[k] != nil {
			n++
		}
	}
	wInt(o, n)
}

func cmdType(s *Server, cs *connState, a []string, o *bytes.Buffer) {
	e := s.cur(cs).m[a[1]]
	switch {
	case e == nil:
		wStatus(o, "none")
	case e.kind == kHash:
		wStatus(o, "hash")
	case e.kind == kList:
		wStatus(o, "list")
	default:
		wStatus(o, "string")
	}
}

// keysInOrder returns the keys of the current db in creation order.
func (s *Server) keysInOrder(cs *connState) []string {
	m := s.cur(cs).m
	keys := make([]string, 0, len(m))
	for k := range m {
		keys = append(keys, k)
	}
	sort.Slice(keys, func(i, j int) bool { return m[keys[i]].id < m[keys[j]].id })
	return keys
}

func cmdKeys(s *Server, cs *connState, a []string, o *bytes.Buffer) {
	var out []string
	for _, k := range s.keysInOrder(cs) {
		if a[1] == "*" || GlobMatch(a[1], k) { // redis takes "*" as "all keys" without calling the matcher
			out = append(out, k)
		}
	}
	wArray(o, len(out))
	for _, k := range out {
		wBulk(o, k)
	}
}

// SCAN cursor [MATCH pattern] [COUNT n] [TYPE t]. Keys are visited in creation order, COUNT keys are
// examined per call (default 10), the cursor is the creation stamp of the last key examined, "0" when the
// iteration is complete. A key present during the whole iteration is returned exactly once.
func cmdScan(s *Server, cs *connState, a []string, o *bytes.Buffer) {
	cur, err := strconv.ParseUint(a[1], 10, 64)
	if err != nil {
		wErr(o, "ERR invalid cursor")
		return
	}
	count, pat, typ := 10, "", ""
	havePat := false
	for i := 2; i < len(a); i += 2 {
		if i+1 >= len(a) {
			wErr(o, errSyntax)
			return
		}
		switch strings.ToUpper(a[i]) {
		case "COUNT":
			n, ok := parseInt(a[i+1])
			if !ok {
				wErr(o, errNotInt)
				return
			}
			if n < 1 {
				wErr(o, errSyntax)
				return
			}
			count = n
		case "MATCH":
			pat, havePat = a[i+1], a[i+1] != "*" // "*" = no filter, as in redis
		case "TYPE":
			typ = strings.ToLower(a[i+1])
		default:
			wErr(o, errSyntax)
			return
		}
	}
	m := s.cur(cs).m
	var out []string
	next := uint64(0)
	examined := 0
	keys := s.keysInOrder(cs)
	for i, k := range keys {
		e := m[k]
		if e.id <= cur {
			continue
		}
		if examined == count {
			break
		}
		examined++
		if i < len(keys)-1 {
			next = e.id
		} else {
			next = 0
		}
		if havePat && !GlobMatch(pat, k) {
			continue
		}
		if typ != "" && typ != map[kind]string{kString: "string", kHash: "hash", kList: "list"}[e.kind] {
			continue
		}
		out = append(out, k)
	}
	wArray(o, 2)
	wBulk(o, strconv.FormatUint(next, 10))
	wArray(o, len(out))
	for _, k := range out {
		wBulk(o, k)
	}
}

func cmdGet(s *Server, cs *connState, a []string, o *bytes.Buffer) {
	e, ok := s.lookup(cs, a[1], kString, o)
	if !ok {
		return
	}
	if e == nil {
		wNil(o)
		return
	}
	wBulk(o, e.str)
}

func cmdSet(s *Server, cs *connState, a []string, o *bytes.Buffer) {
	if len(a) != 3 {
		wErr(o, errSyntax) // options (EX, NX, ...) are outside the fake's scope
		return
	}
	delete(s.cur(cs).m, a[1])
	s.create(cs, a[1], kString).str = a[2]
	wStatus(o, "OK")
}

func cmdDel(s *Server, cs *connState, a []string, o *bytes.Buffer) {
	n := 0
	for _, k := range a[1:] {
		if _, ok := s.cur(cs).m[k]; ok {
			delete(s.cur(cs).m, k)
			n++
		}
	}
	wInt(o, n)
}

func cmdExpire(s *Server, cs *connState, a []string, o *bytes.Buffer) {
	n, ok := parseInt(a[2])
	if !ok {
		wErr(o, errNotInt)
		return
	}
	if _, ok := s.cur(cs).m[a[1]]; !ok {
		wInt(o, 0)
		return
	}
	if n <= 0 {
		delete(s.cur(cs).m, a[1]) // a timeout in the past deletes the key at once
	}
	// positive timeouts are accepted and journalled; the fake has no clock, keys never expire
	wInt(o, 1)
}

func cmdFlushDB(s *Server, cs *connState, a []string, o *bytes.Buffer) {
	if len(a) > 2 || (len(a) == 2 && strings.ToUpper(a[1]) != "ASYNC" && strings.ToUpper(a[1]) != "SYNC") {
		wErr(o, errSyntax)
		return
	}
	s.cur(cs).m = map[string]*entry{}
	wStatus(o, "OK")
}

func cmdFlushAll(s *Server, cs *connState, a []string, o *bytes.Buffer) {
	if len(a) > 2 || (len(a) == 2 && strings.ToUpper(a[1]) != "ASYNC" && strings.ToUpper(a[1]) != "SYNC") {
		wErr(o, errSyntax)
		return
	}
	for _, d := range s.dbs {
		d.m = map[string]*entry{}
	}
	wStatus(o, "OK")
}

// ------------------------------------------------------------------------------------------------ hashes

func cmdHSet(s *Server, cs *connState, a []string, o *bytes.Buffer) {
	if len(a)%2 != 0 {
		wErr(o, "ERR wrong number of arguments for '"+strings.ToLower(a[0])+"' command")
		return
	}
	e, ok := s.lookup(cs, a[1], kHash, o)
	if !ok {
		return
	}
	if e == nil {
		e = s.create(cs, a[1], kHash)
	}
	added := 0
	for i := 2; i < len(a); i += 2 {
		if _, ok := e.hash[a[i]]; !ok {
			e.fields = append(e.fields, a[i])
			added++
		}
		e.hash[a[i]] = a[i+1]
	}
	if strings.ToUpper(a[0]) == "HMSET" {
		wStatus(o, "OK")
		return
	}
	wInt(o, added)
}

func cmdHDel(s *Server, cs *connState, a []string, o *bytes.Buffer) {
	e, ok := s.lookup(cs, a[1], kHash, o)
	if !ok {
		return
	}
	if e == nil {
		wInt(o, 0)
		return
	}
	n := 0
	for _, f := range a[2:] {
		if _, ok := e.hash[f]; ok {
			delete(e.hash, f)
			for i, x := range e.fields {
				if x == f {
					e.fields = append(e.fields[:i], e.fields[i+1:]...)
					break
				}
			}
			n++
		}
	}
	if len(e.hash) == 0 {
		delete(s.cur(cs).m, a[1])
	}
	wInt(o, n)
}

func cmdHGet(s *Server, cs *connState, a []string, o *bytes.Buffer) {
	e, ok := s.lookup(cs, a[1], kHash, o)
	if !ok {
		return
	}
	if e != nil {
		if v, ok := e.hash[a[2]]; ok {
			wBulk(o, v)
			return
		}
	}
	wNil(o)
}

func cmdHMGet(s *Server, cs *connState, a []string, o *bytes.Buffer) {
	e, ok := s.lookup(cs, a[1], kHash, o)
	if !ok {
		return
	}
	wArray(o, len(a)-2)
	for _, f := range a[2:] {
		if e != nil {
			if v, ok := e.hash[f]; ok {
				wBulk(o, v)
				continue
			}
		}
		wNil(o)
	}
}

func cmdHGetAll(s *Server, cs *connState, a []string, o *bytes.Buffer) {
	e, ok := s.lookup(cs, a[1], kHash, o)
	if !ok {
		return
	}
	if e == nil {
		wArray(o, 0)
		return
	}
	wArray(o, 2*len(e.fields))
	for _, f := range e.fields {
		wBulk(o, f)
		wBulk(o, e.hash[f])
	}
}

func cmdHLen(s *Server, cs *connState, a []string, o *bytes.Buffer) {
	e, ok := s.lookup(cs, a[1], kHash, o)
	if !ok {
		return
	}
	if e == nil {
		wInt(o, 0)
		return
	}
	wInt(o, len(e.hash))
}

func cmdHExists(s *Server, cs *connState, a []string, o *bytes.Buffer) {
	e, ok := s.lookup(cs, a[1], kHash, o)
	if !ok {
		return
	}
	if e == nil {
		wInt(o, 0)
		return
	}
	_, has := e.hash[a[2]]
	wBool(o, has)
}

// ------------------------------------------------------------------------------------------------- lists

func cmdRPush(s *Server, cs *connState, a []string, o *bytes.Buffer) {
	e, ok := s.lookup(cs, a[1], kList, o)
	if !ok {
		return
	}
	if e == nil {
		e = s.create(cs, a[1], kList)
	}
	e.list = append(e.list, a[2:]...)
	wInt(o, len(e.list))
}

func cmdLPush(s *Server, cs *connState, a []string, o *bytes.Buffer) {
	e, ok := s.lookup(cs, a[1], kList, o)
	if !ok {
		return
	}
	if e == nil {
		e = s.create(cs, a[1], kList)
	}
	nl := make([]string, 0, len(e.list)+len(a)-2)
	for i := len(a) - 1; i >= 2; i-- {
		nl = append(nl, a[i])
	}
	e.list = append(nl, e.list...)
	wInt(o, len(e.list))
}

func cmdLLen(s *Server, cs *connState, a []string, o *bytes.Buffer) {
	e, ok := s.lookup(cs, a[1], kList, o)
	if !ok {
		return
	}
	if e == nil {
		wInt(o, 0)
		return
	}
	wInt(o, len(e.list))
}

// rangeOf normalises a redis (start, stop) pair for a list of length n; ok=false means the empty range.
func rangeOf(start, stop, n int) (int, int, bool) {
	if start < 0 {
		start += n
	}
	if stop < 0 {
		stop += n
	}
	if start < 0 {
		start = 0
	}
	if start > stop || start >= n {
		return 0, 0, false
	}
	if stop >= n {
		stop = n - 1
	}
	return start, stop, true
}

func cmdLRange(s *Server, cs *connState, a []string, o *bytes.Buffer) {
	start, ok1 := parseInt(a[2])
	stop, ok2 := parseInt(a[3])
	if !ok1 || !ok2 {
		wErr(o, errNotInt)
		return
	}
	e, ok := s.lookup(cs, a[1], kList, o)
	if !ok {
		return
	}
	if e == nil {
		wArray(o, 0)
		return
	}
	lo, hi, ok := rangeOf(start, stop, len(e.list))
	if !ok {
		wArray(o, 0)
		return
	}
	wArray(o, hi-lo+1)
	for _, v := range e.list[lo : hi+1] {
		wBulk(o, v)
	}
}

func cmdLTrim(s *Server, cs *connState, a []string, o *bytes.Buffer) {
	start, ok1 := parseInt(a[2])
	stop, ok2 := parseInt(a[3])
	if !ok1 || !ok2 {
		wErr(o, errNotInt)
		return
	}
	e, ok := s.lookup(cs, a[1], kList, o)
	if !ok {
		return
	}
	if e == nil {
		wStatus(o, "OK")
		return
	}
	lo, hi, ok := rangeOf(start, stop, len(e.list))
	if !ok {
		delete(s.cur(cs).m, a[1])
	} else {
		e.list = append([]string(nil), e.list[lo:hi+1]...)
	}
	wStatus(o, "OK")
}

func cmdLIndex(s *Server, cs *connState, a []string, o *bytes.Buffer) {
	e, ok := s.lookup(cs, a[1], kList, o)
	if !ok {
		return
	}
	i, okI := parseInt(a[2])
	if !okI {
		wErr(o, errNotInt)
		return
	}
	if e == nil {
		wNil(o)
		return
	}
	if i < 0 {
		i += len(e.list)
	}
	if i < 0 || i >= len(e.list) {
		wNil(o)
		return
	}
	wBulk(o, e.list[i])
}

func cmdLSet(s *Server, cs *connState, a []string, o *bytes.Buffer) {
	e, ok := s.lookup(cs, a[1], kList, o)
	if !ok {
		return
	}
	if e == nil {
		wErr(o, errNoSuchKey)
		return
	}
	i, okI := parseInt(a[2])
	if !okI {
		wErr(o, errNotInt)
		return
	}
	if i < 0 {
		i += len(e.list)
	}
	if i < 0 || i >= len(e.list) {
		wErr(o, errIndex)
		return
	}
	e.list[i] = a[3]
	wStatus(o, "OK")
}

func cmdLRem(s *Server, cs *connState, a []string, o *bytes.Buffer) {
	count, okI := parseInt(a[2])
	if !okI {
		wErr(o, errNotInt)
		return
	}
	e, ok := s.lookup(cs, a[1], kList, o)
	if !ok {
		return
	}
	if e == nil {
		wInt(o, 0)
		return
	}
	removed := 0
	keep := make([]bool, len(e.list))
	for i := range keep {
		keep[i] = true
	}
	if count >= 0 {
		for i := 0; i < len(e.list) && (count == 0 || removed < count); i++ {
			if e.list[i] == a[3] {
				keep[i] = false
				removed++
			}
		}
	} else {
		for i := len(e.list) - 1; i >= 0 && removed < -count; i-- {
			if e.list[i] == a[3] {
				keep[i] = false
				removed++
			}
		}
	}
	if removed > 0 {
		nl := make([]string, 0, len(e.list)-removed)
		for i, v := range e.list {
			if keep[i] {
				nl = append(nl, v)
			}
		}
		e.list = nl
		if len(nl) == 0 {
			delete(s.cur(cs).m, a[1])
		}
	}
	wInt(o, removed)
}

func cmdLPop(s *Server, cs *connState, a []string, o *bytes.Buffer) {
	if len(a) > 3 {
		wErr(o, "ERR wrong number of arguments for 'lpop' command")
		return
	}
	count, withCount := 1, len(a) == 3
	if withCount {
		n, ok := parseInt(a[2])
		if !ok || n < 0 {
			wErr(o, "ERR value is out of range, must be positive")
			return
		}
		count = n
	}
	e, ok := s.lookup(cs, a[1], kList, o)
	if !ok {
		return
	}
	if e == nil {
		if withCount {
			wNilArray(o)
		} else {
			wNil(o)
		}
		return
	}
	if !withCount {
		wBulk(o, e.list[0])
	} else {
		if count > len(e.list) {
			count = len(e.list)
		}
		wArray(o, count)
		for _, v := range e.list[:count] {
			wBulk(o, v)
		}
	}
	e.list = append([]string(nil), e.list[count:]...)
	if len(e.list) == 0 {
		delete(s.cur(cs).m, a[1])
	}
}

// -------------------------------------------------------------------------------------------------- glob

// GlobMatch is redis' stringmatchlen (util.c), case-sensitive: '*', '?', '[...]' with '^' negation,
// 'a-z' ranges and '\' escapes.
func GlobMatch(pattern, str string) bool { return globMatch([]byte(pattern), []byte(str)) }

func globMatch(p, s []byte) bool {
	for len(p) > 0 && len(s) > 0 {
		switch p[0] {
		case '*':
			for len(p) > 1 && p[1] == '*' {
				p = p[1:]
			}
			if len(p) == 1 {
				return true
			}
			for i := 0; i <= len(s); i++ {
				if globMatch(p[1:], s[i:]) {
					return true
				}
			}
			return false
		case '?':
			s = s[1:]
		case '[':
			p = p[1:]
			not := len(p) > 0 && p[0] == '^'
			if not {
				p = p[1:]
			}
			match := false
			for {
				if len(p) >= 2 && p[0] == '\\' {
					p = p[1:]
					if p[0] == s[0] {
						match = true
					}
				} else if len(p) > 0 && p[0] == ']' {
					break
				} else if len(p) == 0 {
					// unterminated class: redis steps back one byte and stops
					p = append([]byte{0}, p...) // sentinel so that the p[1:] below consumes nothing real
					break
				} else if len(p) >= 3 && p[1] == '-' {
					lo, hi := p[0], p[2]
					if lo > hi {
						lo, hi = hi, lo
					}
					p = p[2:]
					if s[0] >= lo && s[0] <= hi {
						match = true
					}
				} else if p[0] == s[0] {
					match = true
				}
				p = p[1:]
			}
			if not {
				match = !match
			}
			if !match {
				return false
			}
			s = s[1:]
		case '\\':
			if len(p) >= 2 {
				p = p[1:]
			}
			fallthrough
		default:
			if p[0] != s[0] {
				return false
			}
			s = s[1:]
		}
		p = p[1:]
		if len(s) == 0 {
			for len(p) > 0 && p[0] == '*' {
				p = p[1:]
			}
			break
		}
	}
	return len(p) == 0 && len(s) == 0
}
