//go:build verif

package resp_test

import (
	"bufio"
	"context"
	"encoding/binary"
	"fmt"
	"io"
	"net"
	"reflect"
	"sort"
	"testing"
	"time"

	redigo "github.com/gomodule/redigo/redis"

	"github.com/DrmagicE/gmqtt/config"
	_ "github.com/DrmagicE/gmqtt/persistence"
	"github.com/DrmagicE/gmqtt/server"
	_ "github.com/DrmagicE/gmqtt/topicalias/fifo"

	"verifharness/resp"
)

// ------------------------------------------------------------------ minimal MQTT 3.1.1 client (hand-rolled)

type pkt struct {
	typ   byte
	flags byte
	body  []byte
}

type client struct {
	t  *testing.T
	c  net.Conn
	br *bufio.Reader
}

func mstr(s string) []byte {
	b := make([]byte, 2+len(s))
	binary.BigEndian.PutUint16(b, uint16(len(s)))
	copy(b[2:], s)
	return b
}

func frame(first byte, body []byte) []byte {
	out := []byte{first}
	n := len(body)
	for {
		d := byte(n % 128)
		n /= 128
		if n > 0 {
			d |= 0x80
		}
		out = append(out, d)
		if n == 0 {
			break
		}
	}
	return append(out, body...)
}

func dialMQTT(t *testing.T, addr string) *client {
	c, err := net.Dial("tcp", addr)
	if err != nil {
		t.Fatal(err)
	}
	return &client{t: t, c: c, br: bufio.NewReader(c)}
}

func (c *client) read() pkt {
	c.c.SetReadDeadline(time.Now().Add(5 * time.Second))
	h, err := c.br.ReadByte()
	if err != nil {
		c.t.Fatalf("mqtt read: %v", err)
	}
	n, mul := 0, 1
	for {
		d, err := c.br.ReadByte()
		if err != nil {
			c.t.Fatalf("mqtt read: %v", err)
		}
		n += int(d&0x7f) * mul
		mul *= 128
		if d&0x80 == 0 {
			break
		}
	}
	body := make([]byte, n)
	if _, err := io.ReadFull(c.br, body); err != nil {
		c.t.Fatalf("mqtt read: %v", err)
	}
	return pkt{typ: h >> 4, flags: h & 0x0f, body: body}
}

// connect sends CONNECT (v3.1.1, keepalive 0) and returns (session present, return code).
func (c *client) connect(id string, clean bool) (bool, byte) {
	fl := byte(0)
	if clean {
		fl = 0x02
	}
	body := append(mstr("MQTT"), 4, fl, 0, 0)
	body = append(body, mstr(id)...)
	c.c.Write(frame(0x10, body))
	p := c.read()
	if p.typ != 2 || len(p.body) != 2 {
		c.t.Fatalf("expected CONNACK, got %+v", p)
	}
	return p.body[0]&1 == 1, p.body[1]
}

func (c *client) subscribe(pid uint16, filter string, qos byte) byte {
	body := []byte{byte(pid >> 8), byte(pid)}
	body = append(body, mstr(filter)...)
	body = append(body, qos)
	c.c.Write(frame(0x82, body))
	p := c.read()
	if p.typ != 9 || len(p.body) != 3 || binary.BigEndian.Uint16(p.body) != pid {
		c.t.Fatalf("expected SUBACK %d, got %+v", pid, p)
	}
	return p.body[2]
}

func (c *client) publishQoS1(pid uint16, topic string, payload string) {
	body := append(mstr(topic), byte(pid>>8), byte(pid))
	body = append(body, payload...)
	c.c.Write(frame(0x32, body))
	p := c.read()
	if p.typ != 4 || len(p.body) != 2 || binary.BigEndian.Uint16(p.body) != pid {
		c.t.Fatalf("expected PUBACK %d, got %+v", pid, p)
	}
}

// disconnect sends DISCONNECT, half-closes (gmqtt closes its side only after the client's EOF), waits for
// the broker's close and then until the broker has unregistered the client.
func (c *client) disconnect(b *broker, id string) {
	c.c.Write([]byte{0xe0, 0})
	c.c.(*net.TCPConn).CloseWrite()
	c.c.SetReadDeadline(time.Now().Add(5 * time.Second))
	if _, err := io.Copy(io.Discard, c.br); err != nil {
		c.t.Fatalf("broker did not close the connection of %s: %v", id, err)
	}
	c.c.Close()
	for dl := time.Now().Add(5 * time.Second); b.srv.ClientService().GetClient(id) != nil; {
		if time.Now().After(dl) {
			c.t.Fatalf("broker did not unregister %s", id)
		}
		time.Sleep(time.Millisecond)
	}
}

// ------------------------------------------------------------------ broker on the fake

type broker struct {
	srv  server.Server
	addr string
	done chan error
}

func startBroker(t *testing.T, redisAddr string) *broker {
	cfg := config.DefaultConfig()
	cfg.API = config.API{}
	cfg.Listeners = nil
	cfg.PluginOrder = nil
	cfg.Persistence.Type = config.PersistenceTypeRedis
	cfg.Persistence.Redis.Addr = redisAddr
	cfg.Log.Level = "error"
	ln, err := net.Listen("tcp", "127.0.0.1:0")
	if err != nil {
		t.Fatal(err)
	}
	srv := server.New(server.WithConfig(cfg), server.WithTCPListener(ln))
	b := &broker{srv: srv, addr: ln.Addr().String(), done: make(chan error, 1)}
	go func() { b.done <- srv.Run() }()
	// the listener accepts at once; the broker serves as soon as Run has initialised
	return b
}

func (b *broker) stop(t *testing.T) {
	ctx, cancel := context.WithTimeout(context.Background(), 10*time.Second)
	defer cancel()
	if err := b.srv.Stop(ctx); err != nil {
		t.Fatalf("broker stop: %v", err)
	}
	select {
	case <-b.done:
	case <-time.After(10 * time.Second):
		t.Fatal("broker Run did not return after Stop")
	}
}

func logJournal(t *testing.T, title string, j []resp.Cmd) {
	t.Logf("---- %s (%d entries)", title, len(j))
	for _, c := range j {
		t.Log(c.String())
	}
}

// TestBrokerRestartOnJournal: persistent session + offline QoS1 message survive a broker restart on a fake
// rebuilt from the journal of the first life.
func TestBrokerRestartOnJournal(t *testing.T) {
	fake, err := resp.NewServer()
	if err != nil {
		t.Fatal(err)
	}
	defer fake.Close()

	b1 := startBroker(t, fake.Addr())
	sub := dialMQTT(t, b1.addr)
	if sp, rc := sub.connect("sub1", false); sp || rc != 0 {
		t.Fatalf("first CONNECT: session present=%v rc=%d", sp, rc)
	}
	fake.Mark("connack sub1")
	if rc := sub.subscribe(1, "t/#", 1); rc != 1 {
		t.Fatalf("SUBACK code %d", rc)
	}
	fake.Mark("suback sub1 t/#")
	sub.disconnect(b1, "sub1")
	fake.Mark("sub1 disconnected")

	pub := dialMQTT(t, b1.addr)
	if _, rc := pub.connect("pub1", true); rc != 0 {
		t.Fatalf("publisher CONNECT rc=%d", rc)
	}
	pub.publishQoS1(7, "t/x", "hello")
	fake.Mark("puback pub1 7")
	pub.disconnect(b1, "pub1")
	b1.stop(t)
	fake.Mark("broker stopped")

	j := fake.Journal()
	logJournal(t, "journal of the first broker life", j)
	snap1 := fake.Snapshot()
	t.Logf("snapshot keys: %v", keysOf(snap1))
	for _, k := range []string{"session:sub1", "sub:sub1", "queue:sub1"} {
		if _, ok := snap1[k]; !ok {
			t.Errorf("key %q missing in the store after the first life", k)
		}
	}
	for i, c := range j {
		if c.Seq != i+1 {
			t.Fatalf("journal sequence numbers not dense: entry %d has Seq %d", i, c.Seq)
		}
	}

	fake2, err := resp.NewServerFromJournal(j)
	if err != nil {
		t.Fatal(err)
	}
	defer fake2.Close()
	if snap2 := fake2.Snapshot(); !reflect.DeepEqual(snap1, snap2) {
		t.Fatalf("NewServerFromJournal does not reproduce the data:\n%v\n%v", snap1, snap2)
	}
	if n := len(fake2.Journal()); n != 0 {
		t.Fatalf("fresh server has %d journal entries", n)
	}

	b2 := startBroker(t, fake2.Addr())
	sub = dialMQTT(t, b2.addr)
	sp, rc := sub.connect("sub1", false)
	if rc != 0 || !sp {
		logJournal(t, "journal of the second life", fake2.Journal())
		t.Fatalf("reconnect after restart: session present=%v rc=%d (want true, 0)", sp, rc)
	}
	p := sub.read()
	if p.typ != 3 {
		t.Fatalf("expected PUBLISH after reconnect, got %+v", p)
	}
	tl := int(binary.BigEndian.Uint16(p.body))
	topic := string(p.body[2 : 2+tl])
	qos := (p.flags >> 1) & 3
	rest := p.body[2+tl:]
	if qos != 1 || len(rest) < 2 {
		t.Fatalf("redelivered PUBLISH has qos %d", qos)
	}
	pid := binary.BigEndian.Uint16(rest)
	if topic != "t/x" || string(rest[2:]) != "hello" {
		t.Fatalf("redelivered PUBLISH topic=%q payload=%q", topic, rest[2:])
	}
	sub.c.Write([]byte{0x40, 2, byte(pid >> 8), byte(pid)})
	sub.disconnect(b2, "sub1")
	b2.stop(t)
	logJournal(t, "journal of the second broker life", fake2.Journal())
	if l, ok := fake2.Snapshot()["queue:sub1"]; ok {
		t.Errorf("queue:sub1 still holds %v after the PUBACK", l)
	}
}

func keysOf(m map[string]interface{}) []string {
	var ks []string
	for k := range m {
		ks = append(ks, k)
	}
	return ks
}

// TestFailAfter: the n+1-th write command kills the connection and nothing more is journalled.
func TestFailAfter(t *testing.T) {
	fake, err := resp.NewServer()
	if err != nil {
		t.Fatal(err)
	}
	defer fake.Close()
	c, err := redigo.Dial("tcp", fake.Addr())
	if err != nil {
		t.Fatal(err)
	}
	defer c.Close()
	fake.FailAfter(2)
	for i := 0; i < 2; i++ {
		if _, err := c.Do("RPUSH", "l", fmt.Sprint(i)); err != nil {
			t.Fatal(err)
		}
		if _, err := c.Do("LLEN", "l"); err != nil {
			t.Fatal(err)
		}
	}
	if _, err := c.Do("RPUSH", "l", "x"); err == nil {
		t.Fatal("third write succeeded")
	}
	if !fake.Crashed() || len(fake.Journal()) != 2 {
		t.Fatalf("crashed=%v journal=%v", fake.Crashed(), fake.Journal())
	}
	if c2, err := redigo.Dial("tcp", fake.Addr()); err == nil {
		if _, err := c2.Do("PING"); err == nil {
			t.Fatal("crashed server answers PING")
		}
		c2.Close()
	}
	fake.FailAfter(-1)
	c3, err := redigo.Dial("tcp", fake.Addr())
	if err != nil {
		t.Fatal(err)
	}
	defer c3.Close()
	if n, err := redigo.Int(c3.Do("LLEN", "l")); err != nil || n != 2 {
		t.Fatalf("after revival LLEN = %d, %v", n, err)
	}
}

// TestPipelineAndBinary: Send/Flush/Receive, redigo's draining Do(""), binary-safe values.
func TestPipelineAndBinary(t *testing.T) {
	fake, err := resp.NewServer()
	if err != nil {
		t.Fatal(err)
	}
	defer fake.Close()
	c, err := redigo.Dial("tcp", fake.Addr())
	if err != nil {
		t.Fatal(err)
	}
	defer c.Close()
	bin := string([]byte{0, '\r', '\n', 0xff, '$', '*'})
	c.Send("HSET", "h", "f", bin)
	c.Send("RPUSH", "l", bin, "")
	c.Send("LSET", "l", 5, "x")
	if err := c.Flush(); err != nil {
		t.Fatal(err)
	}
	rs, err := redigo.Values(c.Do(""))
	if err != nil || len(rs) != 3 {
		t.Fatalf("drain: %v %v", rs, err)
	}
	if e, ok := rs[2].(redigo.Error); !ok || string(e) != "ERR index out of range" {
		t.Fatalf("LSET out of range replied %v", rs[2])
	}
	got, err := redigo.String(c.Do("HGET", "h", "f"))
	if err != nil || got != bin {
		t.Fatalf("HGET %q %v", got, err)
	}
	want := map[string]interface{}{"h": map[string]string{"f": bin}, "l": []string{bin, ""}}
	if snap := fake.Snapshot(); !reflect.DeepEqual(snap, want) {
		t.Fatalf("snapshot %v", snap)
	}
	j := fake.Journal()
	if len(j) != 3 || j[2].Err != "ERR index out of range" || j[1].Args[2] != bin {
		t.Fatalf("journal %v", j)
	}
}

func (c *client) unsubscribe(pid uint16, filters ...string) {
	body := []byte{byte(pid >> 8), byte(pid)}
	for _, f := range filters {
		body = append(body, mstr(f)...)
	}
	c.c.Write(frame(0xa2, body))
	p := c.read()
	if p.typ != 11 || len(p.body) != 2 || binary.BigEndian.Uint16(p.body) != pid {
		c.t.Fatalf("expected UNSUBACK %d, got %+v", pid, p)
	}
}

// tryRead returns the next packet or nil if none arrives within d.
func (c *client) tryRead(d time.Duration) *pkt {
	c.c.SetReadDeadline(time.Now().Add(d))
	if _, err := c.br.Peek(1); err != nil {
		return nil
	}
	p := c.read()
	return &p
}

// TestWireShapes documents (in the test log) the commands gmqtt issues for unsubscribe, inbound QoS2 and
// the reload of subscriptions at start-up. It asserts nothing about gmqtt; observations are logged.
func TestWireShapes(t *testing.T) {
	for _, id := range []string{"sub1", "c1"} {
		t.Run(id, func(t *testing.T) { wireShapes(t, id) })
	}
}

func wireShapes(t *testing.T, id string) {
	fake, err := resp.NewServer()
	if err != nil {
		t.Fatal(err)
	}
	defer fake.Close()
	b1 := startBroker(t, fake.Addr())
	c := dialMQTT(t, b1.addr)
	c.connect(id, false)
	c.subscribe(1, "a", 1)
	c.subscribe(2, "b", 1)
	c.subscribe(3, "c", 1)
	fake.Mark("3 subscriptions acknowledged")
	c.unsubscribe(4, "a", "b")
	fake.Mark("unsuback a,b (one packet)")
	c.unsubscribe(5, "c")
	fake.Mark("unsuback c")
	if h, _ := fake.Snapshot()["sub:"+id].(map[string]string); len(h) != 0 {
		t.Logf("OBSERVED: after UNSUBACK for a, b, c the hash sub:%s still has fields %v", id, fieldsOf(h))
	}
	// inbound QoS2: PUBLISH -> PUBREC, PUBREL -> PUBCOMP
	c.c.Write(frame(0x34, append(append(mstr("q2"), 0, 9), "x"...)))
	if p := c.read(); p.typ != 5 {
		t.Fatalf("expected PUBREC, got %+v", p)
	}
	fake.Mark("pubrec 9")
	c.c.Write([]byte{0x62, 2, 0, 9})
	if p := c.read(); p.typ != 7 {
		t.Fatalf("expected PUBCOMP, got %+v", p)
	}
	fake.Mark("pubcomp 9")
	c.subscribe(6, "keep", 1)
	c.disconnect(b1, id)
	b1.stop(t)
	logJournal(t, "journal", fake.Journal())

	// restart: is the subscription "keep" of sub1 live again?
	fake2, err := resp.NewServerFromJournal(fake.Journal())
	if err != nil {
		t.Fatal(err)
	}
	defer fake2.Close()
	b2 := startBroker(t, fake2.Addr())
	c = dialMQTT(t, b2.addr)
	sp, _ := c.connect(id, false)
	pub := dialMQTT(t, b2.addr)
	pub.connect("pub1", true)
	pub.publishQoS1(1, "keep", "after-restart")
	if p := c.tryRead(300 * time.Millisecond); p == nil {
		t.Logf("OBSERVED: after restart (session present=%v) a publication to the stored filter \"keep\" is not delivered to %s", sp, id)
	} else {
		t.Logf("after restart the publication to \"keep\" is delivered (packet type %d)", p.typ)
	}
	pub.publishQoS1(2, "a", "after-restart")
	if p := c.tryRead(300 * time.Millisecond); p != nil {
		t.Logf("OBSERVED: after restart a publication to the unsubscribed filter \"a\" is delivered to %s (packet type %d)", id, p.typ)
	}
	c.c.Close()
	pub.c.Close()
	b2.stop(t)
}

func fieldsOf(h map[string]string) []string {
	var fs []string
	for f := range h {
		fs = append(fs, f)
	}
	sort.Strings(fs)
	return fs
}
