// Package inproc runs real gmqtt brokers inside the harness process (loopback listeners) and records
// events (wire events logged by the scripted clients, hook events from the verif instrumentation) in
// one totally ordered log per broker.
package inproc

import (
	"context"
	"fmt"
	"math/rand"
	"net"
	"net/http"
	"os"
	"sync"
	"time"

	"github.com/DrmagicE/gmqtt/config"
	_ "github.com/DrmagicE/gmqtt/persistence"
	"github.com/DrmagicE/gmqtt/server"
	_ "github.com/DrmagicE/gmqtt/topicalias/fifo"
)

// Event is one line of a trace. "e" is the kind; "ms" (ms since recorder start) is added by Log.
type Event map[string]interface{}

// Recorder is the totally ordered event log of one scenario: the position in the slice is the order.
// Inputs are logged BEFORE they are written to a socket / an API is entered, outputs AFTER they have been
// read and decoded, hook events at the linearization point (under the broker's lock).
type Recorder struct {
	mu     sync.Mutex
	t0     time.Time
	events []Event
	Hooks  bool // record hook events
}

func NewRecorder() *Recorder { return &Recorder{t0: time.Now()} }

func (r *Recorder) Log(e Event) {
	r.mu.Lock()
	e["ms"] = int(time.Since(r.t0) / time.Millisecond)
	r.events = append(r.events, e)
	r.mu.Unlock()
}

// LogWith runs fn while holding the recorder lock right after appending e (used where the logged order and an
// action must be atomic with respect to other log entries).
func (r *Recorder) Events() []Event {
	r.mu.Lock()
	defer r.mu.Unlock()
	out := make([]Event, len(r.events))
	copy(out, r.events)
	return out
}

// Len is the number of events logged so far.
func (r *Recorder) Len() int {
	r.mu.Lock()
	defer r.mu.Unlock()
	return len(r.events)
}

func (r *Recorder) Now() int { return int(time.Since(r.t0) / time.Millisecond) }

// Broker is one running in-process broker.
type Broker struct {
	Srv    server.Server
	Addr   string // tcp
	WsAddr string // websocket (ws://WsAddr/), empty if none
	Rec    *Recorder
	runErr chan error
	gate   func(point string, kv map[string]interface{})
	// traceGate is called at every trace hook (after the event is recorded); it may block: a blocking trace hook is a
	// scheduler gate at that point of the code
	traceGate func(ev string, kv map[string]interface{})
}

var portRand = lockedRand{r: rand.New(rand.NewSource(time.Now().UnixNano() ^ int64(os.Getpid())<<20))}

type lockedRand struct {
	mu sync.Mutex
	r  *rand.Rand
}

func (l *lockedRand) Intn(n int) int {
	l.mu.Lock()
	defer l.mu.Unlock()
	return l.r.Intn(n)
}

// freshPort: a port below the ephemeral range that no broker of THIS process has listened on before (a client that is late
// with a dial must never reach the broker that took over the address of the one it meant)
var usedPorts = map[int]bool{}

func freshPort() int {
	portRand.mu.Lock()
	defer portRand.mu.Unlock()
	for i := 0; i < 100000; i++ {
		p := 10000 + portRand.r.Intn(22000)
		if !usedPorts[p] {
			usedPorts[p] = true
			return p
		}
	}
	return 0
}

var (
	regMu    sync.RWMutex
	registry = map[interface{}]*Broker{}
	once     sync.Once
)

func kvmap(kv []interface{}) map[string]interface{} {
	m := map[string]interface{}{}
	for i := 0; i+1 < len(kv); i += 2 {
		if k, ok := kv[i].(string); ok {
			m[k] = kv[i+1]
		}
	}
	return m
}

func install() {
	server.VerifTrace = func(srv interface{}, ev string, kv ...interface{}) {
		regMu.RLock()
		b := registry[srv]
		regMu.RUnlock()
		if b == nil {
			return
		}
		if b.Rec != nil && b.Rec.Hooks {
			e := Event{"e": "hook", "h": ev}
			for k, v := range kvmap(kv) {
				e[k] = v
			}
			b.Rec.Log(e)
		}
		if b.traceGate != nil {
			b.traceGate(ev, kvmap(kv))
		}
	}
	server.VerifGate = func(srv interface{}, point string, kv ...interface{}) {
		regMu.RLock()
		b := registry[srv]
		regMu.RUnlock()
		if b == nil || b.gate == nil {
			return
		}
		b.gate(point, kvmap(kv))
	}
}

// Options for Start.
type Options struct {
	Cfg       config.Config
	Server    []server.Options // extra options (hooks, plugins)
	Websocket bool
	Gate      func(point string, kv map[string]interface{})
	TraceGate func(ev string, kv map[string]interface{}) // see Broker.traceGate
	Rec       *Recorder
}

// DefaultConfig is gmqtt's default configuration without API listeners.
func DefaultConfig() config.Config {
	c := config.DefaultConfig()
	c.API = config.API{}
	c.Listeners = nil
	return c
}

// InitPanic is returned by Start when server.New / Init panicked (the broker cannot start with this configuration).
type InitPanic struct{ Value string }

func (e *InitPanic) Error() string { return "broker init panicked: " + e.Value }

func Start(o Options) (b *Broker, err error) {
	defer func() {
		if x := recover(); x != nil {
			b, err = nil, &InitPanic{Value: fmt.Sprint(x)}
		}
	}()
	return start(o)
}

func start(o Options) (*Broker, error) {
	once.Do(install)
	var ln net.Listener
	var err error
	// A listener on port 0 competes with every outgoing connection of the machine for the ephemeral range (32768..60999), which
	// tens of thousands of short connections keep in TIME_WAIT: listen BELOW that range (a port there is taken only by another
	// listener), port 0 as the fallback.
	for i := 0; i < 400; i++ {
		addr := fmt.Sprintf("127.0.0.1:%d", freshPort())
		if i%8 == 7 {
			addr = "127.0.0.1:0"
		}
		if ln, err = net.Listen("tcp", addr); err == nil {
			break
		}
		if i > 40 {
			time.Sleep(25 * time.Millisecond)
		}
	}
	if err != nil {
		return nil, err
	}
	b := &Broker{Addr: ln.Addr().String(), Rec: o.Rec, runErr: make(chan error, 1), gate: o.Gate, traceGate: o.TraceGate}
	if b.Rec == nil {
		b.Rec = NewRecorder()
	}
	opts := []server.Options{server.WithConfig(o.Cfg), server.WithTCPListener(ln)}
	if o.Websocket {
		var wl net.Listener
		var err error
		for i := 0; i < 400; i++ {
			addr := fmt.Sprintf("127.0.0.1:%d", freshPort())
			if i%8 == 7 {
				addr = "127.0.0.1:0"
			}
			if wl, err = net.Listen("tcp", addr); err == nil {
				break
			}
		}
		if err != nil {
			return nil, err
		}
		b.WsAddr = wl.Addr().String()
		wl.Close()
		opts = append(opts, server.WithWebsocketServer(&server.WsServer{Server: &http.Server{Addr: b.WsAddr}, Path: "/"}))
	}
	opts = append(opts, o.Server...)
	srv := server.New(opts...)
	b.Srv = srv
	regMu.Lock()
	registry[interface{}(srv)] = b
	regMu.Unlock()
	if err := srv.Init(); err != nil {
		ln.Close()
		return nil, fmt.Errorf("broker init: %w", err)
	}
	go func() { b.runErr <- srv.Run() }()
	return b, nil
}

// Stop stops the broker; the error is Stop's own (context deadline when it hangs).
func (b *Broker) Stop(timeout time.Duration) error {
	ctx, cancel := context.WithTimeout(context.Background(), timeout)
	defer cancel()
	err := b.Srv.Stop(ctx)
	regMu.Lock()
	delete(registry, interface{}(b.Srv))
	regMu.Unlock()
	return err
}
