// Package wire executes scripted scenarios against a real in-process broker through the independent
// client codec and records the ndjson trace that TraceBroker.tla validates.
//
// Logging discipline (DESIGN.md 2.2): an input is logged BEFORE its bytes are written (or the API is
// entered); an output is logged AFTER it has been read and decoded; everything goes through one Recorder,
// so the log order is a valid linearization.
package wire

import (
	"context"
	"encoding/hex"
	"encoding/json"
	"errors"
	"fmt"
	"io"
	"math"
	"strconv"
	"strings"
	"sync"
	"time"

	"github.com/DrmagicE/gmqtt"
	"github.com/DrmagicE/gmqtt/config"
	"github.com/DrmagicE/gmqtt/persistence/queue"
	"github.com/DrmagicE/gmqtt/persistence/subscription"
	"github.com/DrmagicE/gmqtt/pkg/packets"
	"github.com/DrmagicE/gmqtt/server"

	"verifharness/inproc"
	mw "verifharness/mqttwire"
	"verifharness/resp"
)

// Sub is one topic of a SUBSCRIBE step.
type Sub struct {
	N   string `json:"n"`
	Qos int    `json:"qos"`
	Nl  bool   `json:"nl"`
	Rap bool   `json:"rap"`
	Rh  int    `json:"rh"`
}

// AppProps are the application properties of a message (MQTT 5): they travel with it unaltered.
type AppProps struct {
	Pf int         `json:"pf"` // Payload Format Indicator (0 = absent)
	Ct string      `json:"ct"` // Content Type ("" = absent)
	Rt string      `json:"rt"` // Response Topic
	Cd string      `json:"cd"` // Correlation Data (the bytes of this string)
	Up [][2]string `json:"up"` // User Properties, in order
}

// canonProps is the canonical one-line form of application properties ("" = none) used in traces.
func canonProps(pf int, ct, rt string, cd []byte, up [][2]string) string {
	var parts []string
	if pf != 0 {
		parts = append(parts, "pf="+strconv.Itoa(pf))
	}
	if ct != "" {
		parts = append(parts, "ct="+ct)
	}
	if rt != "" {
		parts = append(parts, "rt="+rt)
	}
	if len(cd) > 0 {
		parts = append(parts, "cd="+hex.EncodeToString(cd))
	}
	if len(up) > 0 {
		kv := make([]string, len(up))
		for i, u := range up {
			kv[i] = u[0] + "=" + u[1]
		}
		parts = append(parts, "up="+strings.Join(kv, ","))
	}
	return strings.Join(parts, ";")
}

func (ap *AppProps) canon() string {
	if ap == nil {
		return ""
	}
	return canonProps(ap.Pf, ap.Ct, ap.Rt, []byte(ap.Cd), ap.Up)
}

// apply writes the properties into an outgoing packet's property list.
func (ap *AppProps) apply(ps *mw.Props) {
	if ap == nil {
		return
	}
	if ap.Pf != 0 {
		v := byte(ap.Pf)
		ps.PayloadFormat = &v
	}
	if ap.Ct != "" {
		v := ap.Ct
		ps.ContentType = &v
	}
	if ap.Rt != "" {
		v := ap.Rt
		ps.ResponseTopic = &v
	}
	if ap.Cd != "" {
		ps.CorrelationData = []byte(ap.Cd)
	}
	for _, u := range ap.Up {
		ps.User = append(ps.User, mw.UserProp{K: u[0], V: u[1]})
	}
}

// canonRecv is the canonical form of the application properties of a received packet.
func canonRecv(ps *mw.Props) string {
	if ps == nil {
		return ""
	}
	pf := 0
	if ps.PayloadFormat != nil {
		pf = int(*ps.PayloadFormat)
	}
	ct, rt := "", ""
	if ps.ContentType != nil {
		ct = *ps.ContentType
	}
	if ps.ResponseTopic != nil {
		rt = *ps.ResponseTopic
	}
	var up [][2]string
	for _, u := range ps.User {
		up = append(up, [2]string{u.K, u.V})
	}
	return canonProps(pf, ct, rt, ps.CorrelationData, up)
}

// Step is one scripted action.
type Step struct {
	Op string `json:"op"`
	K  int    `json:"k"`
	// connect
	Cid       string `json:"cid"`
	Ver       int    `json:"ver"`
	Clean     bool   `json:"clean"`
	RecvMax   int    `json:"recvmax"`
	Expiry    *int64 `json:"expiry"` // session expiry (v5 CONNECT / DISCONNECT property)
	KeepAl    int    `json:"keepalive"`
	MaxPkt    int    `json:"maxpkt"`   // client's Maximum Packet Size
	AliasMax  int    `json:"aliasmax"` // client's Topic Alias Maximum
	NoSent    bool   `json:"nosentinel"`
	ManualAck bool   `json:"manualack"` // deliveries are not acknowledged automatically
	Will      *struct {
		Topic  string    `json:"topic"`
		Qos    int       `json:"qos"`
		Retain bool      `json:"retain"`
		Tag    string    `json:"tag"`
		Delay  int64     `json:"delay"`
		Expiry int64     `json:"expiry"`
		Props  *AppProps `json:"props"`
	} `json:"will"`
	// subscribe / unsubscribe
	Subs  []Sub    `json:"subs"`
	SubID int      `json:"subid"`
	Names []string `json:"names"`
	// publish
	Topic   string    `json:"topic"`
	Qos     int       `json:"qos"`
	Retain  bool      `json:"retain"`
	Tag     string    `json:"tag"`
	Dup     bool      `json:"dup"`
	Pid     int       `json:"pid"`     // explicit packet id (0 = choose)
	MsgExp  int64     `json:"msgexp"`  // message expiry interval (0 = none)
	Alias   int       `json:"alias"`   // topic alias to send (0 = none)
	NoTopic bool      `json:"notopic"` // send alias only
	Pad     int       `json:"pad"`     // payload padded with '.' up to this many bytes (tag first)
	NoRel   bool      `json:"norel"`   // QoS2: do not send PUBREL after PUBREC
	Props   *AppProps `json:"props"`   // application properties (v5 publisher / Publisher API)
	Fq      int       `json:"fq"`      // QoS at which the one size-limited subscriber of the scenario would get it (for fsize)
	// ack (manual)
	T    string `json:"t"`   // "puback" | "pubrec" | "pubcomp" | "pubrel" | "auto"
	Sel  int    `json:"sel"` // with t = "auto": acknowledge the (sel mod n)-th oldest unacknowledged delivery
	Code int    `json:"code"`
	// disconnect
	// misc
	Ms       int      `json:"ms"`
	Branches [][]Step `json:"branches"`
	Gated    bool     `json:"gated"` // connect: the broker goroutine of this connection parks at the gate hooks; do not wait for CONNACK
	Point    string   `json:"point"` // release: the gate the connection is expected to be parked at
	Wait     string   `json:"wait"`  // for "expect": what to wait for
	Hex      string   `json:"hex"`   // raw bytes to send
}

// Scenario is a broker configuration plus a script.
type Scenario struct {
	ID  string `json:"id"`
	Cfg struct {
		Mode        string `json:"mode"`
		QQ0         bool   `json:"qq0"`
		MaxInflight int    `json:"maxinflight"`
		MaxQueued   int    `json:"maxqueued"`
		RecvMax     int    `json:"srvrecvmax"`
		AliasMax    int    `json:"srvaliasmax"`
		MaxPkt      int    `json:"srvmaxpkt"`
		MsgExpiry   int    `json:"msgexpiry"`  // seconds, 0 = off
		SessExpiry  int    `json:"sessexpiry"` // seconds
		Persist     string `json:"persist"`    // "" / "memory" / "redis" (the in-process RESP server stands in for redis)
	} `json:"cfg"`
	Steps   []Step `json:"steps"`
	Slow    bool   `json:"slow"`
	Hooks   bool   `json:"hooks"`
	AnyDisc bool   `json:"anydisc"` // the script makes a client misbehave on purpose: any error DISCONNECT may follow
}

type Timeouts struct {
	Ack     time.Duration // natural acknowledgement of an input
	Barrier time.Duration // sentinel round trip
	Settle  time.Duration // extra settle after each barrier (slow mode)
}

func DefaultTimeouts(slow bool) Timeouts {
	if slow {
		return Timeouts{Ack: 8 * time.Second, Barrier: 6 * time.Second, Settle: time.Second}
	}
	return Timeouts{Ack: 4 * time.Second, Barrier: 3 * time.Second, Settle: 0}
}

// actor is one scripted connection.
type actor struct {
	k          int
	cid        string
	ver        byte
	c          *mw.Client
	run        *Run
	manual     bool
	mu         sync.Mutex
	cond       *sync.Cond
	seen       []*mw.Packet // everything read so far
	eof        bool
	nextPid    uint16
	alias      map[uint16]string // inbound (server -> client) alias bindings
	sent       bool              // has a sentinel subscription
	done       chan struct{}
	closedByUs bool
	acked      bool        // a successful CONNACK has been logged for this connection
	ackPos     int         // length of the log when it was
	connectPos int         // length of the log when CONNECT was logged
	eofSeen    bool        // its end has been logged (or it was muted when it ended)
	unacked    []*outEntry // QoS>0 deliveries read and not yet fully acknowledged by us (order of first receipt)
	limit      int         // min(our Receive Maximum, broker max_inflight): used only to choose the barrier method
	logmu      sync.Mutex  // makes "log a received packet" and "log our own close + mute" atomic
	muted      bool        // we have ended the connection: what still arrives is no longer observed
}

type outEntry struct {
	pid   uint16
	qos   byte
	phase string // "pub" | "rel"
	fresh bool   // (re)received on the current connection: a client acknowledges what it has seen on this connection
}

// Run is the execution of one scenario.
type Run struct {
	Sc        *Scenario
	B         *inproc.Broker
	Rec       *inproc.Recorder
	TO        Timeouts
	actors    map[int]*actor
	lastByCid map[string]*actor
	amu       sync.Mutex
	sentN     int
	Notes     []string
	Fatal     string // machinery trouble (not a verdict)
	// schedule gating (DESIGN.md 2.2 SG): broker goroutines of gated connections park at server.VerifGate call sites
	gmu      sync.Mutex
	gated    map[string]bool  // conn address -> parks at gates
	parked   map[string]*park // conn address -> where it is parked now
	Followed int              // release steps that found the connection parked where the schedule says
	Diverged int              // release steps that did not
}

type park struct {
	point string
	ch    chan struct{}
}

// gate is server.VerifGate for this run: a gated connection blocks until the script releases it.
func (r *Run) gate(point string, kv map[string]interface{}) {
	conn, _ := kv["conn"].(string)
	r.gmu.Lock()
	if !r.gated[conn] {
		r.gmu.Unlock()
		return
	}
	p := &park{point: point, ch: make(chan struct{})}
	r.parked[conn] = p
	r.gmu.Unlock()
	select {
	case <-p.ch:
	case <-time.After(20 * time.Second):
		r.note("gate " + point + " of " + conn + " was never released")
	}
}

func (r *Run) parkedAt(conn string) string {
	r.gmu.Lock()
	defer r.gmu.Unlock()
	if p := r.parked[conn]; p != nil {
		return p.point
	}
	return ""
}

// settle waits until the gated connection of a is parked at a gate, acknowledged or ended (whatever comes first).
func (r *Run) settle(a *actor, d time.Duration) string {
	deadline := time.Now().Add(d)
	for {
		if pt := r.parkedAt(a.c.LocalAddr()); pt != "" {
			return pt
		}
		a.mu.Lock()
		done := a.eof
		for _, p := range a.seen {
			if p.Type == mw.CONNACK {
				done = true
			}
		}
		a.mu.Unlock()
		if done {
			return "done"
		}
		if !time.Now().Before(deadline) {
			return "timeout"
		}
		time.Sleep(200 * time.Microsecond)
	}
}

// release lets the parked broker goroutine of connection k run to its next gate (or to the end of its CONNECT).
func (r *Run) release(s *Step) {
	a := r.actor(s.K)
	if a == nil {
		r.Fatal = "release: no actor"
		return
	}
	conn := a.c.LocalAddr()
	at := r.settle(a, 2*time.Second)
	if at != s.Point {
		// the code did not take the step the schedule (the model) predicted: the trace is still validated
		r.Diverged++
		r.note(fmt.Sprintf("schedule: connection %d expected at gate %s, found %s", s.K, s.Point, at))
		if at == "done" || at == "timeout" {
			return
		}
	} else {
		r.Followed++
	}
	r.gmu.Lock()
	p := r.parked[conn]
	delete(r.parked, conn)
	r.gmu.Unlock()
	if p != nil {
		close(p.ch)
	}
	if r.settle(a, 3*time.Second) == "timeout" {
		r.note(fmt.Sprintf("schedule: connection %d neither parked nor finished 3 s after its release", s.K))
	}
}

func lv(topic string) []string { return strings.Split(topic, "/") }
func isSys(topic string) bool  { return strings.HasPrefix(topic, "$") }

func splitShare(full string) (string, string) {
	if strings.HasPrefix(full, "$share/") {
		p := strings.SplitN(full, "/", 3)
		if len(p) == 3 {
			return p[1], p[2]
		}
	}
	return "", full
}

// BrokerConfig translates the scenario configuration into a gmqtt config.
func BrokerConfig(sc *Scenario) config.Config {
	cfg := inproc.DefaultConfig()
	if sc.Cfg.Mode != "" {
		cfg.MQTT.DeliveryMode = sc.Cfg.Mode
	}
	cfg.MQTT.QueueQos0Msg = sc.Cfg.QQ0
	if sc.Cfg.MaxInflight > 0 {
		cfg.MQTT.MaxInflight = uint16(sc.Cfg.MaxInflight)
	}
	if sc.Cfg.MaxQueued > 0 {
		cfg.MQTT.MaxQueuedMsg = sc.Cfg.MaxQueued
	}
	if sc.Cfg.RecvMax > 0 {
		cfg.MQTT.ReceiveMax = uint16(sc.Cfg.RecvMax)
	}
	if sc.Cfg.AliasMax >= 0 && sc.Cfg.AliasMax != 0 {
		cfg.MQTT.TopicAliasMax = uint16(sc.Cfg.AliasMax)
	}
	if sc.Cfg.MaxPkt > 0 {
		cfg.MQTT.MaxPacketSize = uint32(sc.Cfg.MaxPkt)
	}
	cfg.MQTT.MessageExpiry = time.Duration(sc.Cfg.MsgExpiry) * time.Second
	if sc.Cfg.SessExpiry > 0 {
		cfg.MQTT.SessionExpiry = time.Duration(sc.Cfg.SessExpiry) * time.Second
	}
	return cfg
}

// Execute runs one scenario on a fresh broker and returns the recorded events (first event = reset).
func Execute(sc *Scenario, extra ...server.Options) (*Run, []inproc.Event) {
	r := &Run{Sc: sc, Rec: inproc.NewRecorder(), TO: DefaultTimeouts(sc.Slow), actors: map[int]*actor{}, lastByCid: map[string]*actor{}}
	r.Rec.Hooks = sc.Hooks
	cfg := BrokerConfig(sc)
	r.Rec.Log(inproc.Event{"e": "reset", "scn": sc.ID, "mode": cfg.MQTT.DeliveryMode, "qq0": cfg.MQTT.QueueQos0Msg,
		"maxinflight": int(cfg.MQTT.MaxInflight), "maxqueued": cfg.MQTT.MaxQueuedMsg, "srvrecvmax": int(cfg.MQTT.ReceiveMax),
		"srvaliasmax": int(cfg.MQTT.TopicAliasMax), "srvmaxpkt": int(cfg.MQTT.MaxPacketSize),
		"msgexpiry": sc.Cfg.MsgExpiry, "sessexpiry": int(cfg.MQTT.SessionExpiry / time.Second), "hooks": sc.Hooks, "anydisc": sc.AnyDisc})
	if len(extra) == 0 {
		// OnMsgDropped is part of the observable behaviour ("dropped and reported"): log it as an event
		extra = []server.Options{server.WithHook(server.Hooks{OnMsgDropped: func(ctx context.Context, clientID string, msg *gmqtt.Message, err error) {
			reason := "other"
			switch {
			case errors.Is(err, queue.ErrDropExpired):
				reason = "expired"
			case errors.Is(err, queue.ErrDropExpiredInflight):
				reason = "expiredinflight"
			case errors.Is(err, queue.ErrDropQueueFull):
				reason = "full"
			case errors.Is(err, queue.ErrDropExceedsMaxPacketSize):
				reason = "toolarge"
			}
			tag := string(msg.Payload)
			if i := strings.IndexByte(tag, '.'); i >= 0 {
				tag = tag[:i]
			}
			r.Rec.Log(inproc.Event{"e": "dropped", "cid": clientID, "tag": tag, "qos": int(msg.QoS), "reason": reason})
		}})}
	}
	r.gated, r.parked = map[string]bool{}, map[string]*park{}
	if sc.Cfg.Persist == "redis" {
		fake, ferr := resp.NewServer()
		if ferr != nil {
			r.Fatal = "resp server: " + ferr.Error()
			return r, r.Rec.Events()
		}
		defer fake.Close()
		cfg.Persistence.Type = config.PersistenceTypeRedis
		cfg.Persistence.Redis.Addr = fake.Addr()
	}
	b, err := inproc.Start(inproc.Options{Cfg: cfg, Rec: r.Rec, Server: extra, Gate: r.gate})
	if err != nil {
		r.Fatal = "broker start: " + err.Error()
		return r, r.Rec.Events()
	}
	r.B = b
	func() {
		defer func() {
			if e := recover(); e != nil {
				r.Fatal = fmt.Sprintf("driver panic: %v", e)
			}
		}()
		r.steps(sc.Steps)
	}()
	// tear down: release whatever is still parked, close what is still open (not part of the trace)
	r.gmu.Lock()
	r.gated = map[string]bool{}
	for c, p := range r.parked {
		close(p.ch)
		delete(r.parked, c)
	}
	r.gmu.Unlock()
	r.amu.Lock()
	for _, a := range r.actors {
		a.mu.Lock()
		a.closedByUs = true
		a.mu.Unlock()
		a.logmu.Lock()
		a.muted = true
		a.logmu.Unlock()
		a.c.Close()
	}
	r.amu.Unlock()
	if err := b.Stop(5 * time.Second); err != nil {
		r.Notes = append(r.Notes, "stop: "+err.Error())
	}
	return r, r.Rec.Events()
}

func (r *Run) note(s string) {
	r.Rec.Log(inproc.Event{"e": "note", "msg": s})
}

func (r *Run) actor(k int) *actor {
	r.amu.Lock()
	defer r.amu.Unlock()
	return r.actors[k]
}

func (r *Run) steps(steps []Step) {
	for i := range steps {
		if r.Fatal != "" {
			return
		}
		r.step(&steps[i])
	}
}

func (r *Run) step(s *Step) {
	switch s.Op {
	case "connect":
		r.connect(s)
	case "subscribe":
		r.subscribe(s)
	case "unsubscribe":
		r.unsubscribe(s)
	case "publish":
		r.publish(s)
	case "apipublish":
		r.apipublish(s.Topic, s.Qos, s.Retain, s.Tag, s.MsgExp, s.Props)
	case "ack":
		r.ack(s)
	case "ping":
		r.ping(s)
	case "disconnect":
		r.disconnect(s)
	case "abort":
		r.abort(s)
	case "stats":
		r.stats()
	case "pingall":
		r.amu.Lock()
		var as []*actor
		for _, a := range r.actors {
			as = append(as, a)
		}
		r.amu.Unlock()
		for _, a := range as {
			r.ping(&Step{K: a.k})
		}
		r.quiet()
	case "raw":
		if a := r.actor(s.K); a != nil {
			b, _ := hex.DecodeString(s.Hex)
			a.logmu.Lock()
			if !a.muted {
				r.Rec.Log(inproc.Event{"e": "raw", "k": s.K, "hex": s.Hex})
			}
			a.logmu.Unlock()
			_ = a.c.SendRaw(b)
		}
	case "release":
		r.release(s)
	case "terminate":
		r.Rec.Log(inproc.Event{"e": "terminate", "cid": s.Cid})
		r.B.Srv.ClientService().TerminateSession(s.Cid)
	case "sleep":
		time.Sleep(time.Duration(s.Ms) * time.Millisecond)
	case "barrier":
		r.barrier()
	case "par":
		var wg sync.WaitGroup
		for _, br := range s.Branches {
			wg.Add(1)
			go func(br []Step) {
				defer wg.Done()
				defer func() {
					if e := recover(); e != nil {
						r.Fatal = fmt.Sprintf("driver panic: %v", e)
					}
				}()
				r.steps(br)
			}(br)
		}
		wg.Wait()
	default:
		r.Fatal = "unknown op " + s.Op
	}
}

// ---------------------------------------------------------------------------------------------- reader

func (a *actor) reader() {
	defer close(a.done)
	for {
		p, err := a.c.Recv(time.Hour)
		if err != nil {
			a.mu.Lock()
			a.eof = true
			a.cond.Broadcast()
			a.mu.Unlock()
			a.logmu.Lock()
			if !a.muted {
				what := "eof"
				if err != io.EOF {
					what = "readerror"
				}
				a.run.Rec.Log(inproc.Event{"e": "eof", "k": a.k, "what": what, "err": err.Error()})
				a.muted = true
			}
			a.logmu.Unlock()
			a.mu.Lock()
			a.eofSeen = true
			a.cond.Broadcast()
			a.mu.Unlock()
			return
		}
		a.logmu.Lock()
		if !a.muted {
			a.logRecv(p)
		}
		a.logmu.Unlock()
		a.mu.Lock()
		a.seen = append(a.seen, p)
		a.cond.Broadcast()
		a.mu.Unlock()
	}
}

// olderOpen returns the k of every OLDER connection with a's client id that was not ended by the script and whose end has
// still not been read 1.5 s from now.  Older: registered by the broker before a (order of the broker's own register
// events; hook mode), or - without hook events - acknowledged before a's CONNECT was sent.
func (r *Run) olderOpen(a *actor) []int {
	r.amu.Lock()
	var others []*actor
	for _, o := range r.actors {
		if o != a && o.cid == a.cid {
			others = append(others, o)
		}
	}
	r.amu.Unlock()
	open := []int{}
	if len(others) == 0 {
		return open
	}
	before := map[string]bool{} // connections registered before a (hook mode)
	if r.Sc.Hooks {
		me := a.c.LocalAddr()
		found := false
		for _, e := range r.Rec.Events() {
			if e["e"] == "hook" && e["h"] == "register" {
				c, _ := e["conn"].(string)
				if c == me {
					found = true
					break
				}
				before[c] = true
			}
		}
		if !found {
			return open
		}
	}
	deadline := time.Now().Add(1500 * time.Millisecond)
	for _, o := range others {
		o.mu.Lock()
		older := o.acked && o.ackPos <= a.connectPos
		if r.Sc.Hooks {
			older = before[o.c.LocalAddr()]
		}
		if !older || o.closedByUs {
			o.mu.Unlock()
			continue
		}
		for !o.eofSeen && !o.closedByUs && time.Now().Before(deadline) {
			o.mu.Unlock()
			time.Sleep(time.Millisecond)
			o.mu.Lock()
		}
		if !o.eofSeen && !o.closedByUs {
			open = append(open, o.k)
		}
		o.mu.Unlock()
	}
	return open
}

// tlcExp is an expiry interval as it is logged: TLC integers are 32 bit, intervals of 2^31 seconds or more are logged
// minus 2^31 (with msgexpbig = true).
func tlcExp(v int64) int64 {
	if v > math.MaxInt32 {
		return v - (1 << 31)
	}
	return v
}

func propsU32(p *uint32) int64 {
	if p == nil {
		return -1
	}
	return int64(*p)
}

func (a *actor) logRecv(p *mw.Packet) {
	rec := a.run.Rec
	switch p.Type {
	case mw.CONNACK:
		e := inproc.Event{"e": "connack", "k": a.k, "sp": p.SessionPresent, "code": int(p.Code), "size": len(p.Raw)}
		if p.Props != nil {
			e["sessexp"] = propsU32(p.Props.SessionExpiry)
			if p.Props.ReceiveMax != nil {
				e["recvmax"] = int(*p.Props.ReceiveMax)
			}
			if p.Props.TopicAliasMax != nil {
				e["aliasmax"] = int(*p.Props.TopicAliasMax)
			}
			if p.Props.MaxPacketSize != nil {
				e["maxpkt"] = int(*p.Props.MaxPacketSize)
			}
		}
		if p.Code == 0 {
			// "the older connection is closed before the newer one is acknowledged": the broker closes the displaced socket
			// before it writes this CONNACK, so the end of every acknowledged older connection with this client id that we
			// did not end ourselves is readable by now; wait (bounded) until its reader has logged it
			e["olderopen"] = a.run.olderOpen(a)
		}
		rec.Log(e)
		if p.Code == 0 {
			a.mu.Lock()
			a.acked = true
			a.ackPos = rec.Len()
			a.mu.Unlock()
		}
	case mw.SUBACK:
		codes := make([]int, len(p.Codes))
		for i, c := range p.Codes {
			codes[i] = int(c)
		}
		rec.Log(inproc.Event{"e": "suback", "k": a.k, "pid": int(p.PacketID), "codes": codes, "size": len(p.Raw)})
	case mw.UNSUBACK:
		n := len(p.Codes)
		rec.Log(inproc.Event{"e": "unsuback", "k": a.k, "pid": int(p.PacketID), "n": n, "v5": a.ver == mw.V5, "size": len(p.Raw)})
	case mw.PUBACK, mw.PUBREC, mw.PUBCOMP:
		name := map[byte]string{mw.PUBACK: "puback", mw.PUBREC: "pubrec", mw.PUBCOMP: "pubcomp"}[p.Type]
		rec.Log(inproc.Event{"e": name, "k": a.k, "pid": int(p.PacketID), "code": int(p.Code), "size": len(p.Raw)})
	case mw.PUBREL:
		rec.Log(inproc.Event{"e": "relout", "k": a.k, "pid": int(p.PacketID), "size": len(p.Raw)})
		a.mu.Lock()
		for _, e := range a.unacked {
			if e.pid == p.PacketID {
				e.fresh = true
			}
		}
		a.mu.Unlock()
		if !a.manual {
			a.sendAck("pubcomp", p.PacketID, 0)
		}
	case mw.PINGRESP:
		rec.Log(inproc.Event{"e": "pingresp", "k": a.k, "size": len(p.Raw)})
	case mw.DISCONNECT:
		rec.Log(inproc.Event{"e": "srvdisconnect", "k": a.k, "code": int(p.Code), "size": len(p.Raw)})
	case mw.PUBLISH:
		topic := p.Topic
		alias := 0
		if p.Props != nil && p.Props.TopicAlias != nil {
			alias = int(*p.Props.TopicAlias)
			if p.Topic != "" {
				a.alias[uint16(alias)] = p.Topic
			} else {
				topic = a.alias[uint16(alias)] // "" when the alias was never bound: the trace will not match
			}
		}
		ids := []int{}
		msgexp := int64(-1)
		if p.Props != nil {
			for _, id := range p.Props.SubscriptionIDs {
				ids = append(ids, int(id))
			}
			msgexp = propsU32(p.Props.MessageExpiry)
		}
		tag := string(p.Payload)
		if i := strings.IndexByte(tag, '.'); i >= 0 {
			tag = tag[:i]
		}
		rec.Log(inproc.Event{"e": "deliver", "k": a.k, "topic": topic, "rawtopic": p.Topic, "alias": alias, "tag": tag,
			"qos": int(p.QoS), "retain": p.Retain, "dup": p.Dup, "pid": int(p.PacketID), "ids": ids, "msgexp": tlcExp(msgexp), "msgexpbig": msgexp > math.MaxInt32,
			"size": len(p.Raw), "props": canonRecv(p.Props)})
		if p.QoS > 0 {
			a.mu.Lock()
			found := false
			for _, e := range a.unacked {
				if e.pid == p.PacketID {
					found = true
					e.fresh = true
				}
			}
			if !found {
				a.unacked = append(a.unacked, &outEntry{pid: p.PacketID, qos: p.QoS, phase: "pub", fresh: true})
			}
			a.mu.Unlock()
		}
		if !a.manual {
			if p.QoS == 1 {
				a.sendAck("puback", p.PacketID, 0)
			} else if p.QoS == 2 {
				a.sendAck("pubrec", p.PacketID, 0)
			}
		}
	case mw.AUTH:
		rec.Log(inproc.Event{"e": "authrecv", "k": a.k, "code": int(p.Code)})
	default:
		rec.Log(inproc.Event{"e": "unexpected", "k": a.k, "type": int(p.Type)})
	}
}

func (a *actor) sendAck(t string, pid uint16, code byte) {
	typ := map[string]byte{"puback": mw.PUBACK, "pubrec": mw.PUBREC, "pubcomp": mw.PUBCOMP}[t]
	a.mu.Lock()
	for i, e := range a.unacked {
		if e.pid == pid {
			if t == "pubrec" && code < 0x80 {
				e.phase = "rel"
			} else {
				a.unacked = append(a.unacked[:i], a.unacked[i+1:]...)
			}
			break
		}
	}
	a.mu.Unlock()
	ap := mw.Ack(typ, pid, code)
	ap.Version = a.ver
	a.run.Rec.Log(inproc.Event{"e": "cack", "k": a.k, "t": t, "pid": int(pid), "code": int(code), "size": mw.Size(ap)})
	_ = a.c.Send(ap)
}

// wait blocks until pred holds for some packet read after position `from`, EOF, or timeout.
func (a *actor) wait(from int, timeout time.Duration, pred func(*mw.Packet) bool) (*mw.Packet, bool) {
	deadline := time.Now().Add(timeout)
	timer := time.AfterFunc(timeout, func() { a.mu.Lock(); a.cond.Broadcast(); a.mu.Unlock() })
	defer timer.Stop()
	a.mu.Lock()
	defer a.mu.Unlock()
	i := from
	for {
		for ; i < len(a.seen); i++ {
			if pred(a.seen[i]) {
				return a.seen[i], true
			}
		}
		if a.eof || !time.Now().Before(deadline) {
			return nil, false
		}
		a.cond.Wait()
	}
}

func (a *actor) mark() int {
	a.mu.Lock()
	defer a.mu.Unlock()
	return len(a.seen)
}

func (a *actor) pid() uint16 {
	a.mu.Lock()
	defer a.mu.Unlock()
	a.nextPid++
	if a.nextPid == 0 {
		a.nextPid = 1
	}
	return a.nextPid
}

// ---------------------------------------------------------------------------------------------- steps

func (r *Run) connect(s *Step) {
	ver := byte(s.Ver)
	if ver == 0 {
		ver = mw.V311
	}
	c, err := mw.Dial(r.B.Addr, ver, 3*time.Second)
	for i := 0; err != nil && i < 20; i++ { // transient ephemeral-port exhaustion
		time.Sleep(50 * time.Millisecond)
		c, err = mw.Dial(r.B.Addr, ver, 3*time.Second)
	}
	if err != nil {
		r.Fatal = "dial: " + err.Error()
		return
	}
	a := &actor{k: s.K, cid: s.Cid, ver: ver, c: c, run: r, manual: s.ManualAck, alias: map[uint16]string{}, done: make(chan struct{}), nextPid: 100}
	a.cond = sync.NewCond(&a.mu)
	a.limit = int(BrokerConfig(r.Sc).MQTT.MaxInflight)
	if ver == mw.V5 && s.RecvMax > 0 && s.RecvMax < a.limit {
		a.limit = s.RecvMax
	}
	r.amu.Lock()
	if !s.Clean {
		// the client side of the session state: deliveries it has not acknowledged yet
		if o := r.lastByCid[s.Cid]; o != nil {
			o.mu.Lock()
			for _, e := range o.unacked {
				c := *e
				c.fresh = false
				a.unacked = append(a.unacked, &c)
			}
			o.mu.Unlock()
		}
	}
	r.lastByCid[s.Cid] = a
	r.actors[s.K] = a
	r.amu.Unlock()
	p := mw.Connect(ver, s.Cid, s.Clean, uint16(s.KeepAl))
	ev := inproc.Event{"e": "connect", "k": s.K, "cid": s.Cid, "ver": int(ver), "clean": s.Clean, "recvmax": s.RecvMax,
		"conn": c.LocalAddr(), "expiry": int64(-1), "maxpkt": s.MaxPkt, "aliasmax": s.AliasMax, "haswill": s.Will != nil}
	if ver == mw.V5 {
		p.Props = &mw.Props{}
		if s.RecvMax > 0 {
			v := uint16(s.RecvMax)
			p.Props.ReceiveMax = &v
		}
		if s.Expiry != nil {
			v := uint32(*s.Expiry)
			p.Props.SessionExpiry = &v
			ev["expiry"] = *s.Expiry
		}
		if s.MaxPkt > 0 {
			v := uint32(s.MaxPkt)
			p.Props.MaxPacketSize = &v
		}
		if s.AliasMax > 0 {
			v := uint16(s.AliasMax)
			p.Props.TopicAliasMax = &v
		}
	}
	if s.Will != nil {
		var wp *mw.Props
		if ver == mw.V5 {
			wp = &mw.Props{}
			if s.Will.Delay > 0 {
				v := uint32(s.Will.Delay)
				wp.WillDelay = &v
			}
			if s.Will.Expiry > 0 {
				v := uint32(s.Will.Expiry)
				wp.MessageExpiry = &v
			}
			s.Will.Props.apply(wp)
		}
		p.WithWill(s.Will.Topic, []byte(s.Will.Tag), byte(s.Will.Qos), s.Will.Retain, wp)
		ev["will"] = map[string]interface{}{"topic": s.Will.Topic, "lv": lv(s.Will.Topic), "sys": isSys(s.Will.Topic), "qos": s.Will.Qos,
			"retain": s.Will.Retain, "tag": s.Will.Tag, "delay": s.Will.Delay, "props": ""}
		if ver == mw.V5 {
			ev["will"].(map[string]interface{})["props"] = s.Will.Props.canon()
		}
	}
	p.Version = ver
	ev["size"] = mw.Size(p)
	r.Rec.Log(ev)
	a.connectPos = r.Rec.Len()
	if s.Gated {
		r.gmu.Lock()
		r.gated[c.LocalAddr()] = true
		r.gmu.Unlock()
	}
	go a.reader()
	if err := c.Send(p); err != nil {
		r.note("connect send error: " + err.Error())
		return
	}
	if s.Gated {
		if r.settle(a, 3*time.Second) == "timeout" {
			r.note(fmt.Sprintf("schedule: connection %d neither parked nor finished 3 s after its CONNECT", s.K))
		}
		return
	}
	pk, ok := a.wait(0, r.TO.Ack, func(p *mw.Packet) bool { return p.Type == mw.CONNACK })
	if !ok {
		return // no CONNACK: the trace shows it (eof or nothing)
	}
	if pk.Code == 0 && !s.NoSent {
		a.sent = true
		if !pk.SessionPresent {
			// the sentinel subscription is an ordinary, modelled subscription
			r.subscribe(&Step{K: s.K, Subs: []Sub{{N: "$vs/" + s.Cid, Qos: 0}}})
		}
	}
}

func (r *Run) subscribe(s *Step) {
	a := r.actor(s.K)
	if a == nil {
		r.Fatal = "subscribe: no actor"
		return
	}
	pid := a.pid()
	var subs []mw.SubTopic
	var evs []map[string]interface{}
	for _, x := range s.Subs {
		subs = append(subs, mw.SubTopic{Filter: x.N, QoS: byte(x.Qos), NoLocal: x.Nl, RAP: x.Rap, RH: byte(x.Rh)})
		sh, f := splitShare(x.N)
		evs = append(evs, map[string]interface{}{"n": x.N, "share": sh, "lv": lv(f), "sys": isSys(f), "qos": x.Qos, "nl": x.Nl, "rap": x.Rap, "rh": x.Rh})
	}
	p := mw.Subscribe(pid, subs...)
	if a.ver == mw.V5 && s.SubID > 0 {
		p.Props = &mw.Props{SubscriptionIDs: []uint32{uint32(s.SubID)}}
	}
	m := a.mark()
	p.Version = a.ver
	r.Rec.Log(inproc.Event{"e": "subscribe", "k": s.K, "pid": int(pid), "subid": s.SubID, "subs": evs, "size": mw.Size(p)})
	if err := a.c.Send(p); err != nil {
		r.note("subscribe send error: " + err.Error())
		return
	}
	a.wait(m, r.TO.Ack, func(p *mw.Packet) bool { return p.Type == mw.SUBACK && p.PacketID == pid })
}

func (r *Run) unsubscribe(s *Step) {
	a := r.actor(s.K)
	if a == nil {
		r.Fatal = "unsubscribe: no actor"
		return
	}
	pid := a.pid()
	m := a.mark()
	up := mw.Unsubscribe(pid, s.Names...)
	up.Version = a.ver
	r.Rec.Log(inproc.Event{"e": "unsubscribe", "k": s.K, "pid": int(pid), "names": s.Names, "size": mw.Size(up)})
	if err := a.c.Send(up); err != nil {
		r.note("unsubscribe send error: " + err.Error())
		return
	}
	a.wait(m, r.TO.Ack, func(p *mw.Packet) bool { return p.Type == mw.UNSUBACK && p.PacketID == pid })
}

func payload(tag string, pad int) []byte {
	b := []byte(tag)
	if pad > len(b) {
		b = append(b, []byte(strings.Repeat(".", pad-len(b)))...)
	}
	return b
}

func (r *Run) publish(s *Step) {
	a := r.actor(s.K)
	if a == nil {
		r.Fatal = "publish: no actor"
		return
	}
	var pid uint16
	if s.Qos > 0 {
		pid = uint16(s.Pid)
		if pid == 0 {
			pid = a.pid()
		}
	}
	pl := payload(s.Tag, s.Pad)
	p := mw.Publish(s.Topic, byte(s.Qos), s.Retain, pid, pl)
	p.Dup = s.Dup
	if a.ver == mw.V5 {
		p.Props = &mw.Props{}
		if s.MsgExp > 0 {
			v := uint32(s.MsgExp)
			p.Props.MessageExpiry = &v
		}
		if s.Alias > 0 || s.NoTopic {
			v := uint16(s.Alias)
			p.Props.TopicAlias = &v
			if s.NoTopic {
				p.Topic = ""
			}
		}
		s.Props.apply(p.Props)
	}
	p.Version = a.ver
	m := a.mark()
	props := ""
	if a.ver == mw.V5 {
		props = s.Props.canon()
	}
	fsz := fwdSize(s.Topic, s.Fq, pl, s.Props)
	r.Rec.Log(inproc.Event{"e": "publish", "fsize": fsz, "k": s.K, "pid": int(pid), "qos": s.Qos, "retain": s.Retain, "dup": s.Dup, "topic": s.Topic,
		"lv": lv(s.Topic), "sys": isSys(s.Topic), "tag": s.Tag, "empty": len(pl) == 0, "msgexp": tlcExp(s.MsgExp), "msgexpbig": s.MsgExp > math.MaxInt32, "alias": s.Alias,
		"notopic": s.NoTopic, "size": mw.Size(p), "props": props})
	if err := a.c.Send(p); err != nil {
		r.note("publish send error: " + err.Error())
		return
	}
	switch s.Qos {
	case 0:
		// a PINGREQ behind the QoS0 PUBLISH: one connection's packets are handled in order, so the PINGRESP
		// implies the publication has been enqueued for its subscribers
		r.ping(&Step{K: s.K})
	case 1:
		a.wait(m, r.TO.Ack, func(p *mw.Packet) bool { return p.Type == mw.PUBACK && p.PacketID == pid })
	case 2:
		pk, ok := a.wait(m, r.TO.Ack, func(p *mw.Packet) bool { return p.Type == mw.PUBREC && p.PacketID == pid })
		if ok && pk.Code < 0x80 && !s.NoRel {
			r.pubrel(a, pid)
		}
	}
}

func (r *Run) pubrel(a *actor, pid uint16) {
	m := a.mark()
	rp := mw.Ack(mw.PUBREL, pid, 0)
	rp.Version = a.ver
	r.Rec.Log(inproc.Event{"e": "pubrel", "k": a.k, "pid": int(pid), "size": mw.Size(rp)})
	if err := a.c.Send(rp); err != nil {
		return
	}
	a.wait(m, r.TO.Ack, func(p *mw.Packet) bool { return p.Type == mw.PUBCOMP && p.PacketID == pid })
}

// fwdSize is the size of the PUBLISH a v5 subscriber would be sent for this message at QoS fq, without
// subscription identifiers, topic alias or other properties (computed with the independent codec).
func fwdSize(topic string, fq int, payload []byte, ap *AppProps) int {
	var pid uint16
	if fq > 0 {
		pid = 1
	}
	p := mw.Publish(topic, byte(fq), false, pid, payload)
	p.Version = mw.V5
	p.Props = &mw.Props{}
	ap.apply(p.Props)
	return mw.Size(p)
}

func (r *Run) apipublish(topic string, qos int, retain bool, tag string, msgexp int64, ap *AppProps) {
	r.Rec.Log(inproc.Event{"e": "apipublish", "props": ap.canon(), "alias": 0, "notopic": false, "size": 0, "fsize": fwdSize(topic, qos, []byte(tag), ap), "k": 0, "pid": 0, "qos": qos, "retain": retain, "dup": false, "topic": topic, "lv": lv(topic),
		"sys": isSys(topic), "tag": tag, "empty": len(tag) == 0, "msgexp": tlcExp(msgexp), "msgexpbig": msgexp > math.MaxInt32})
	msg := &gmqtt.Message{Topic: topic, QoS: uint8(qos), Retained: retain, Payload: []byte(tag), MessageExpiry: uint32(msgexp)}
	if ap != nil {
		msg.PayloadFormat, msg.ContentType, msg.ResponseTopic, msg.CorrelationData = byte(ap.Pf), ap.Ct, ap.Rt, []byte(ap.Cd)
		for _, u := range ap.Up {
			msg.UserProperties = append(msg.UserProperties, packets.UserProperty{K: []byte(u[0]), V: []byte(u[1])})
		}
	}
	r.B.Srv.Publisher().Publish(msg)
}

func (r *Run) ack(s *Step) {
	a := r.actor(s.K)
	if a == nil {
		return
	}
	if s.T == "pubrel" {
		r.pubrel(a, uint16(s.Pid))
		return
	}
	if s.T == "auto" {
		a.mu.Lock()
		var cand []*outEntry
		for _, e := range a.unacked {
			if e.fresh {
				cand = append(cand, e)
			}
		}
		if len(cand) == 0 {
			a.mu.Unlock()
			return
		}
		e := *cand[s.Sel%len(cand)]
		a.mu.Unlock()
		switch {
		case e.qos == 1:
			a.sendAck("puback", e.pid, 0)
		case e.phase == "pub":
			a.sendAck("pubrec", e.pid, byte(s.Code))
		default:
			a.sendAck("pubcomp", e.pid, 0)
		}
		return
	}
	a.sendAck(s.T, uint16(s.Pid), byte(s.Code))
}

func (r *Run) ping(s *Step) {
	a := r.actor(s.K)
	if a == nil {
		return
	}
	m := a.mark()
	a.logmu.Lock()
	if a.muted { // the connection is over (the broker closed it, or we did): nothing to flush
		a.logmu.Unlock()
		return
	}
	r.Rec.Log(inproc.Event{"e": "pingreq", "k": s.K, "size": 2})
	a.logmu.Unlock()
	if err := a.c.Send(mw.Pingreq()); err != nil {
		return
	}
	a.wait(m, r.TO.Ack, func(p *mw.Packet) bool { return p.Type == mw.PINGRESP })
}

func (r *Run) disconnect(s *Step) {
	a := r.actor(s.K)
	if a == nil {
		return
	}
	p := mw.Disconnect(byte(s.Code))
	exp := int64(-1)
	if a.ver == mw.V5 && s.Expiry != nil {
		v := uint32(*s.Expiry)
		p.Props = &mw.Props{SessionExpiry: &v}
		exp = *s.Expiry
	}
	a.mu.Lock()
	a.closedByUs = true
	a.mu.Unlock()
	a.logmu.Lock()
	if a.muted { // the broker closed the connection before us
		a.logmu.Unlock()
		return
	}
	a.muted = true
	p.Version = a.ver
	r.Rec.Log(inproc.Event{"e": "disconnect", "k": s.K, "code": s.Code, "expiry": exp, "size": mw.Size(p)})
	a.logmu.Unlock()
	_ = a.c.Send(p)
	// [MQTT-3.14.4-1] after sending DISCONNECT the client closes the network connection
	a.c.Close()
	<-a.done
	r.waitGone(a)
}

func (r *Run) abort(s *Step) {
	a := r.actor(s.K)
	if a == nil {
		return
	}
	a.mu.Lock()
	a.closedByUs = true
	a.mu.Unlock()
	a.logmu.Lock()
	if a.muted {
		a.logmu.Unlock()
		return
	}
	a.muted = true
	r.Rec.Log(inproc.Event{"e": "abort", "k": s.K})
	a.logmu.Unlock()
	a.c.Close()
	<-a.done
	r.waitGone(a)
}

// waitGone waits until the broker has unregistered the connection (its session is offline or gone), so that
// the next scripted step is ordered after the broker-side end of the connection.  It only looks at whether
// the *connection* is still the registered one; it does not inspect anything the specification decides.
func (r *Run) waitGone(a *actor) {
	local := a.c.LocalAddr()
	deadline := time.Now().Add(r.TO.Ack)
	for time.Now().Before(deadline) {
		cl := r.B.Srv.ClientService().GetClient(a.cid)
		if cl == nil || cl.Connection() == nil || cl.Connection().RemoteAddr().String() != local {
			return
		}
		time.Sleep(2 * time.Millisecond)
	}
	r.note("connection still registered after close")
}

// barrier: one sentinel per online actor with a sentinel subscription; then `quiet`.
func (r *Run) barrier() {
	r.amu.Lock()
	var as []*actor
	for _, a := range r.actors {
		a.mu.Lock()
		if !a.eof && a.sent && !a.closedByUs {
			as = append(as, a)
		}
		a.mu.Unlock()
	}
	r.sentN++
	n := r.sentN
	r.amu.Unlock()
	settle := false
	for _, a := range as {
		a.mu.Lock()
		full := a.manual && len(a.unacked) >= a.limit
		a.mu.Unlock()
		if full {
			// the window is full by our own doing (we are withholding acknowledgements): nothing can pass the
			// session queue, so a sentinel cannot be used; a bounded settle time is used instead
			settle = true
			continue
		}
		tag := fmt.Sprintf("S%d-%d", n, a.k)
		m := a.mark()
		r.apipublish("$vs/"+a.cid, 0, false, tag, 0, nil)
		to := r.TO.Barrier
		if a.manual {
			// messages still on their way may fill the window before the sentinel: a missing sentinel is not an
			// anomaly for a client that withholds acknowledgements (the specification excuses a blocked session)
			to = 120*time.Millisecond + 2*r.TO.Settle
		}
		if _, ok := a.wait(m, to, func(p *mw.Packet) bool { return p.Type == mw.PUBLISH && string(p.Payload) == tag }); !ok {
			if a.manual {
				settle = true
			} else {
				r.note("sentinel not received by k=" + fmt.Sprint(a.k))
			}
		}
	}
	if settle {
		for _, a := range as {
			r.ping(&Step{K: a.k})
		}
		time.Sleep(80*time.Millisecond + 2*r.TO.Settle)
	}
	// control packets (PUBREL after our PUBREC ...) do not travel through the session queue: a PINGREQ behind
	// the acknowledgements we have already written flushes them (one connection's packets are handled in order)
	for _, a := range as {
		r.ping(&Step{K: a.k})
	}
	if r.TO.Settle > 0 {
		time.Sleep(r.TO.Settle)
	}
	r.quiet()
}

// quiet logs the quiescence point and, behind it, the broker's own view of its state (subscription store, connected clients,
// stored sessions) through its public services: the specification's state must agree with it (ViewOK in Broker.tla).
func (r *Run) quiet() {
	r.Rec.Log(inproc.Event{"e": "quiet"})
	defer func() {
		if x := recover(); x != nil {
			r.Rec.Log(inproc.Event{"e": "note", "text": fmt.Sprintf("view: panic in a service call: %v", x)})
		}
	}()
	srv := r.B.Srv
	subs := []map[string]interface{}{}
	srv.SubscriptionService().Iterate(func(clientID string, sub *gmqtt.Subscription) bool {
		subs = append(subs, map[string]interface{}{"c": clientID, "n": sub.GetFullTopicName(), "q": int(sub.QoS)})
		return true
	}, subscription.IterationOptions{Type: subscription.TypeAll})
	online := []string{}
	srv.ClientService().IterateClient(func(c server.Client) bool {
		online = append(online, c.ClientOptions().ClientID) // (srv.clients holds the registered connections only)
		return true
	})
	sessions := []string{}
	_ = srv.ClientService().IterateSession(func(s *gmqtt.Session) bool {
		sessions = append(sessions, s.ClientID)
		return true
	})
	retained := []map[string]interface{}{}
	srv.RetainedService().Iterate(func(m *gmqtt.Message) bool {
		tag := string(m.Payload)
		if i := strings.IndexByte(tag, '.'); i >= 0 {
			tag = tag[:i]
		}
		retained = append(retained, map[string]interface{}{"t": m.Topic, "tag": tag, "q": int(m.QoS)})
		return true
	})
	r.Rec.Log(inproc.Event{"e": "view", "subs": subs, "online": online, "sessions": sessions, "retained": retained})
}

// WriteTrace appends the events as ndjson lines.
func WriteTrace(w io.Writer, evs []inproc.Event) (int, error) {
	n := 0
	for _, e := range evs {
		b, err := json.Marshal(e)
		if err != nil {
			return n, err
		}
		if _, err := w.Write(append(b, '\n')); err != nil {
			return n, err
		}
		n++
	}
	return n, nil
}

// stats logs a snapshot of the broker's statistics: the global ones and those of every client id that any actor
// of this run has used (absent = the broker has no per-client record).
func (r *Run) stats() {
	sm := r.B.Srv.StatsManager()
	g := sm.GetGlobalStats()
	cl := map[string]interface{}{}
	r.amu.Lock()
	ids := map[string]bool{}
	for _, a := range r.actors {
		ids[a.cid] = true
	}
	r.amu.Unlock()
	for id := range ids {
		if cs, ok := sm.GetClientStats(id); ok {
			cl[id] = cs
		}
	}
	// uint64 gauges that wrapped below zero would not survive JSON numbers: log them as signed values
	b, _ := json.Marshal(map[string]interface{}{"global": g, "clients": cl})
	var generic map[string]interface{}
	dec := json.NewDecoder(strings.NewReader(string(b)))
	dec.UseNumber()
	_ = dec.Decode(&generic)
	r.Rec.Log(inproc.Event{"e": "stats", "snap": signed(generic)})
}

// signed turns json.Number values above 2^62 (wrapped unsigned counters) into negative int64 so that they stay exact.
func signed(v interface{}) interface{} {
	switch x := v.(type) {
	case map[string]interface{}:
		for k, e := range x {
			x[k] = signed(e)
		}
		return x
	case []interface{}:
		for i, e := range x {
			x[i] = signed(e)
		}
		return x
	case json.Number:
		if u, err := strconv.ParseUint(string(x), 10, 64); err == nil {
			return int64(u)
		}
		return x
	}
	return v
}
