// Package tc is the plumbing of the transition-coverage replayers: it reads the JSON payloads that TLC
// prints (one TLA+ string literal per line), fans them out to workers and reports divergences.
package tc

import (
	"bufio"
	"encoding/json"
	"fmt"
	"io"
	"os"
	"runtime"
	"runtime/debug"
	"sync"
	"sync/atomic"
)

func init() {
	// replayers allocate many short-lived small objects on 16 cores; a larger heap target avoids GC thrash
	debug.SetGCPercent(2000)
}

// Divergence is one disagreement between the specification's prediction and the real code.
type Divergence struct {
	Kind      string          `json:"kind"` // always "div"
	Signature string          `json:"signature"`
	What      string          `json:"what"`
	Line      json.RawMessage `json:"line,omitempty"` // the transition (pre, op, expectation)
	Extra     interface{}     `json:"extra,omitempty"`
}

// Reporter collects divergences and counters and prints them as JSON lines on stdout.
type Reporter struct {
	mu       sync.Mutex
	w        *bufio.Writer
	N        int64 // transitions replayed
	NonTriv  int64
	divs     int64
	PerSig   int64
	Samples  []json.RawMessage
	Counters map[string]int64
}

func NewReporter() *Reporter {
	return &Reporter{w: bufio.NewWriter(os.Stdout), PerSig: 3, Counters: map[string]int64{}}
}

func (r *Reporter) Div(sig, what string, line []byte, extra interface{}) {
	atomic.AddInt64(&r.divs, 1)
	r.mu.Lock()
	defer r.mu.Unlock()
	r.Counters["div:"+sig]++
	if r.Counters["div:"+sig] > r.PerSig {
		return
	}
	b, _ := json.Marshal(Divergence{Kind: "div", Signature: sig, What: what, Line: line, Extra: extra})
	r.w.Write(b)
	r.w.WriteByte('\n')
	r.w.Flush()
}

func (r *Reporter) Count(key string, d int64) {
	r.mu.Lock()
	r.Counters[key] += d
	r.mu.Unlock()
}

func (r *Reporter) Sample(line []byte, max int) {
	r.mu.Lock()
	if len(r.Samples) < max {
		r.Samples = append(r.Samples, append([]byte(nil), line...))
	}
	r.mu.Unlock()
}

func (r *Reporter) Divs() int64 { return atomic.LoadInt64(&r.divs) }

func (r *Reporter) Summary(extra map[string]interface{}) {
	r.mu.Lock()
	defer r.mu.Unlock()
	m := map[string]interface{}{"kind": "summary", "n": atomic.LoadInt64(&r.N), "nontrivial": atomic.LoadInt64(&r.NonTriv),
		"divergences": atomic.LoadInt64(&r.divs), "samples": r.Samples, "counters": r.Counters}
	for k, v := range extra {
		m[k] = v
	}
	b, _ := json.Marshal(m)
	r.w.Write(b)
	r.w.WriteByte('\n')
	r.w.Flush()
}

// Unquote turns one line printed by TLC's PrintT(ToJson(..)) (a TLA+ string literal) into the JSON text.
func Unquote(line []byte) ([]byte, error) {
	var s string
	if err := json.Unmarshal(line, &s); err != nil {
		return nil, err
	}
	return []byte(s), nil
}

// Each reads lines from r (already un-quoted JSON if raw is true, TLA+ string literals otherwise) and
// calls fn on `workers` goroutines.  Lines for which head(line) is true are handled synchronously
// before any later line is dispatched (used for the one-off tables a model prints first).
func Each(r io.Reader, workers int, raw bool, head func(js []byte) bool, fn func(js []byte)) error {
	if workers <= 0 {
		workers = runtime.NumCPU()
	}
	ch := make(chan []byte, 4096)
	var wg sync.WaitGroup
	for i := 0; i < workers; i++ {
		wg.Add(1)
		go func() {
			defer wg.Done()
			for js := range ch {
				fn(js)
			}
		}()
	}
	br := bufio.NewReaderSize(r, 1<<20)
	var err error
	for {
		var line []byte
		line, err = br.ReadBytes('\n')
		if len(line) > 1 && !raw && line[0] != '"' {
			// TLC chatter (progress, summary, errors): pass through to stderr for the orchestrator
			os.Stderr.Write(line)
		} else if len(line) > 1 {
			js := line
			if !raw {
				var e2 error
				js, e2 = Unquote(line)
				if e2 != nil {
					close(ch)
					wg.Wait()
					return fmt.Errorf("bad line from TLC: %v: %.200s", e2, line)
				}
			} else {
				js = append([]byte(nil), line...)
			}
			if head == nil || !head(js) {
				ch <- js
			}
		}
		if err != nil {
			break
		}
	}
	close(ch)
	wg.Wait()
	if err == io.EOF {
		return nil
	}
	return err
}
