package mqttwire

import (
	"bufio"
	"bytes"
	"errors"
	"io"
	"net"
	"os"
	"sync"
	"time"
)

// Client is a scripted test client over a net.Conn (TCP or anything). It does
// nothing on its own: no automatic acks, no keep-alive pings. Send and Recv may
// be used from different goroutines (one sender, one receiver at a time each).
type Client struct {
	Conn    net.Conn
	Version byte

	// Log, when set, is called for every packet sent ('>') and received ('<').
	Log func(dir byte, p *Packet, raw []byte)

	wmu     sync.Mutex
	rmu     sync.Mutex
	br      *bufio.Reader
	pending []byte // bytes of a not yet complete packet (survives Recv timeouts)
	rerr    error  // sticky terminal read error
}

// Dial connects to a TCP address.
func Dial(addr string, version byte, timeout time.Duration) (*Client, error) {
	conn, err := net.DialTimeout("tcp", addr, timeout)
	if err != nil {
		return nil, err
	}
	return NewClient(conn, version), nil
}

// NewClient wraps an established connection.
func NewClient(conn net.Conn, version byte) *Client {
	return &Client{Conn: conn, Version: version, br: bufio.NewReaderSize(conn, 64<<10)}
}

// Send sets p.Version=c.Version if it is 0, encodes p and writes it with a
// single conn.Write.
func (c *Client) Send(p *Packet) error {
	if p.Version == 0 {
		p.Version = c.Version
	}
	b, err := Encode(p)
	if err != nil {
		return err
	}
	if c.Log != nil {
		c.Log('>', p, b)
	}
	return c.write(b)
}

// SendRaw writes b with a single conn.Write.
func (c *Client) SendRaw(b []byte) error {
	if c.Log != nil {
		c.Log('>', nil, b)
	}
	return c.write(b)
}

func (c *Client) write(b []byte) error {
	c.wmu.Lock()
	defer c.wmu.Unlock()
	_, err := c.Conn.Write(b)
	return err
}

// frameLen returns the total length of the packet at the start of b, or 0 if
// b does not yet contain the complete fixed header.
func frameLen(b []byte) (int, error) {
	var rl int
	for i := 0; i < 4; i++ {
		if len(b) < 2+i {
			return 0, nil
		}
		d := b[1+i]
		rl |= int(d&0x7F) << (7 * uint(i))
		if d&0x80 == 0 {
			return 2 + i + rl, nil
		}
	}
	return 0, &DecodeError{"remaining length longer than 4 bytes", append([]byte(nil), b[:5]...)}
}

// Recv returns the next packet from the broker, decoded with c.Version.
//
//   - io.EOF when the peer closed the connection cleanly at a packet boundary
//     (io.ErrUnexpectedEOF when it closed inside a packet);
//   - an error satisfying IsTimeout when no complete packet arrived within
//     timeout; bytes of a partially received packet are kept, so the stream
//     stays usable and a later Recv continues where this one stopped;
//   - *DecodeError for a malformed packet; the offending bytes have been
//     consumed, so the stream stays in sync as long as the framing was right.
//
// timeout <= 0 means no deadline.
func (c *Client) Recv(timeout time.Duration) (*Packet, error) {
	c.rmu.Lock()
	defer c.rmu.Unlock()
	var deadline time.Time
	if timeout > 0 {
		deadline = time.Now().Add(timeout)
	}
	var tmp [4096]byte
	for {
		n, err := frameLen(c.pending)
		if err != nil {
			return nil, err
		}
		if n > 0 && len(c.pending) >= n {
			frame := c.pending[:n:n]
			c.pending = c.pending[n:]
			if len(c.pending) == 0 {
				c.pending = nil
			}
			p, err := Decode(bytes.NewReader(frame), c.Version)
			if c.Log != nil {
				c.Log('<', p, frame)
			}
			return p, err
		}
		if c.rerr != nil {
			if c.rerr == io.EOF && len(c.pending) > 0 {
				return nil, io.ErrUnexpectedEOF
			}
			return nil, c.rerr
		}
		// An error here means the connection is already closed (net.Pipe reports a
		// closed peer this way); the Read below then returns the real condition.
		_ = c.Conn.SetReadDeadline(deadline)
		m, err := c.br.Read(tmp[:])
		c.pending = append(c.pending, tmp[:m]...)
		if err != nil {
			if IsTimeout(err) {
				if m > 0 {
					continue // data and deadline together: look at the data first
				}
				return nil, err
			}
			c.rerr = err // terminal; reported once the buffered packets are used up
		}
	}
}

// RecvType receives packets until one of type typ arrives and returns it
// together with the packets skipped before it.
func (c *Client) RecvType(typ byte, timeout time.Duration) (*Packet, []*Packet, error) {
	deadline := time.Now().Add(timeout)
	var skipped []*Packet
	for {
		left := time.Until(deadline)
		if left <= 0 {
			left = time.Nanosecond
		}
		p, err := c.Recv(left)
		if err != nil {
			return nil, skipped, err
		}
		if p.Type == typ {
			return p, skipped, nil
		}
		skipped = append(skipped, p)
	}
}

// IsTimeout reports whether err is a deadline/timeout error (as returned by
// Recv when nothing arrived in time).
func IsTimeout(err error) bool {
	if err == nil {
		return false
	}
	if errors.Is(err, os.ErrDeadlineExceeded) {
		return true
	}
	var ne net.Error
	return errors.As(err, &ne) && ne.Timeout()
}

// Close closes the connection.
func (c *Client) Close() error { return c.Conn.Close() }

// LocalAddr returns the local address of the connection ("" if unknown).
func (c *Client) LocalAddr() string {
	if a := c.Conn.LocalAddr(); a != nil {
		return a.String()
	}
	return ""
}

// ---------------------------------------------------------------- constructors

// Connect builds a CONNECT with the protocol name/level of version.
func Connect(version byte, clientID string, clean bool, keepalive uint16) *Packet {
	name := "MQTT"
	if version == V31 {
		name = "MQIsdp"
	}
	return &Packet{Type: CONNECT, Version: version, ProtoName: name, ProtoLevel: version,
		CleanStart: clean, KeepAlive: keepalive, ClientID: clientID}
}

// Publish builds a PUBLISH (pid is ignored by the encoder when qos is 0).
func Publish(topic string, qos byte, retain bool, pid uint16, payload []byte) *Packet {
	return &Packet{Type: PUBLISH, Topic: topic, QoS: qos, Retain: retain, PacketID: pid, Payload: payload}
}

// Subscribe builds a SUBSCRIBE.
func Subscribe(pid uint16, subs ...SubTopic) *Packet {
	return &Packet{Type: SUBSCRIBE, PacketID: pid, Subs: subs}
}

// Unsubscribe builds an UNSUBSCRIBE.
func Unsubscribe(pid uint16, filters ...string) *Packet {
	return &Packet{Type: UNSUBSCRIBE, PacketID: pid, Unsubs: filters}
}

// Ack builds a PUBACK / PUBREC / PUBREL / PUBCOMP.
func Ack(typ byte, pid uint16, code byte) *Packet {
	return &Packet{Type: typ, PacketID: pid, Code: code}
}

// Disconnect builds a DISCONNECT (code is only written for v5).
func Disconnect(code byte) *Packet { return &Packet{Type: DISCONNECT, Code: code} }

// Pingreq builds a PINGREQ.
func Pingreq() *Packet { return &Packet{Type: PINGREQ} }

// WithProps sets p.Props and returns p (for chaining on constructors).
func (p *Packet) WithProps(ps *Props) *Packet { p.Props = ps; return p }

// WithWill sets the will fields and returns p.
func (p *Packet) WithWill(topic string, payload []byte, qos byte, retain bool, ps *Props) *Packet {
	p.WillFlag, p.WillTopic, p.WillPayload, p.WillQoS, p.WillRetain, p.WillProps = true, topic, payload, qos, retain, ps
	return p
}

// WithAuth sets user name and password (password nil = no password) and returns p.
func (p *Packet) WithAuth(user string, password []byte) *Packet {
	p.HasUsername, p.Username = true, user
	p.HasPassword, p.Password = password != nil, password
	return p
}
