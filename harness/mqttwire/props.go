package mqttwire

import (
	"fmt"
	"strings"
)

// MQTT 5 property identifiers (MQTT 5.0, section 2.2.2.2, table 2-4).
const (
	PropPayloadFormat        = 0x01
	PropMessageExpiry        = 0x02
	PropContentType          = 0x03
	PropResponseTopic        = 0x08
	PropCorrelationData      = 0x09
	PropSubscriptionID       = 0x0B
	PropSessionExpiry        = 0x11
	PropAssignedClientID     = 0x12
	PropServerKeepAlive      = 0x13
	PropAuthMethod           = 0x15
	PropAuthData             = 0x16
	PropRequestProblemInfo   = 0x17
	PropWillDelay            = 0x18
	PropRequestResponseInfo  = 0x19
	PropResponseInfo         = 0x1A
	PropServerReference      = 0x1C
	PropReasonString         = 0x1F
	PropReceiveMax           = 0x21
	PropTopicAliasMax        = 0x22
	PropTopicAlias           = 0x23
	PropMaxQoS               = 0x24
	PropRetainAvailable      = 0x25
	PropUser                 = 0x26
	PropMaxPacketSize        = 0x27
	PropWildcardSubAvailable = 0x28
	PropSubIDAvailable       = 0x29
	PropSharedSubAvailable   = 0x2A
)

// UserProp is one User Property (a UTF-8 string pair).
type UserProp struct{ K, V string }

// Props holds every MQTT 5 property; nil pointer / nil slice = absent.
type Props struct {
	PayloadFormat   *byte
	MessageExpiry   *uint32
	ContentType     *string
	ResponseTopic   *string
	CorrelationData []byte // nil = absent unless HasCorrelationData
	// HasCorrelationData distinguishes "present and empty" from absent. The
	// decoder sets it whenever the property is present; the encoder writes the
	// property when it is true or CorrelationData != nil.
	HasCorrelationData   bool
	SubscriptionIDs      []uint32
	SessionExpiry        *uint32
	AssignedClientID     *string
	ServerKeepAlive      *uint16
	AuthMethod           *string
	AuthData             []byte // nil = absent unless HasAuthData
	HasAuthData          bool
	RequestProblemInfo   *byte
	WillDelay            *uint32
	RequestResponseInfo  *byte
	ResponseInfo         *string
	ServerReference      *string
	ReasonString         *string
	ReceiveMax           *uint16
	TopicAliasMax        *uint16
	TopicAlias           *uint16
	MaxQoS               *byte
	RetainAvailable      *byte
	User                 []UserProp
	MaxPacketSize        *uint32
	WildcardSubAvailable *byte
	SubIDAvailable       *byte
	SharedSubAvailable   *byte

	// Extra is appended verbatim after the encoded properties (encoder only;
	// the decoder never sets it). It allows building property sections with
	// unknown identifiers, duplicates or truncated values.
	Extra []byte
}

// Pointer helpers for building Props literals.
func U8(v byte) *byte      { return &v }
func U16(v uint16) *uint16 { return &v }
func U32(v uint32) *uint32 { return &v }
func Str(v string) *string { return &v }

// IsEmpty reports whether no property is set.
func (ps *Props) IsEmpty() bool {
	if ps == nil {
		return true
	}
	return ps.PayloadFormat == nil && ps.MessageExpiry == nil && ps.ContentType == nil &&
		ps.ResponseTopic == nil && ps.CorrelationData == nil && !ps.HasCorrelationData &&
		len(ps.SubscriptionIDs) == 0 && ps.SessionExpiry == nil && ps.AssignedClientID == nil &&
		ps.ServerKeepAlive == nil && ps.AuthMethod == nil && ps.AuthData == nil && !ps.HasAuthData &&
		ps.RequestProblemInfo == nil && ps.WillDelay == nil && ps.RequestResponseInfo == nil &&
		ps.ResponseInfo == nil && ps.ServerReference == nil && ps.ReasonString == nil &&
		ps.ReceiveMax == nil && ps.TopicAliasMax == nil && ps.TopicAlias == nil && ps.MaxQoS == nil &&
		ps.RetainAvailable == nil && len(ps.User) == 0 && ps.MaxPacketSize == nil &&
		ps.WildcardSubAvailable == nil && ps.SubIDAvailable == nil && ps.SharedSubAvailable == nil &&
		len(ps.Extra) == 0
}

// Property value kinds.
const (
	kByte = iota + 1
	kU16
	kU32
	kVarint
	kString
	kBinary
	kPair
)

// Contexts in which a property may appear: one bit per packet type plus the
// CONNECT will properties (bit 0; packet type 0 is reserved).
const ctxWill = 0

func bit(ts ...int) uint32 {
	var m uint32
	for _, t := range ts {
		m |= 1 << uint(t)
	}
	return m
}

type propInfo struct {
	kind    int
	allowed uint32
	name    string
}

var propTable = map[byte]propInfo{
	PropPayloadFormat:        {kByte, bit(PUBLISH, ctxWill), "PayloadFormat"},
	PropMessageExpiry:        {kU32, bit(PUBLISH, ctxWill), "MessageExpiry"},
	PropContentType:          {kString, bit(PUBLISH, ctxWill), "ContentType"},
	PropResponseTopic:        {kString, bit(PUBLISH, ctxWill), "ResponseTopic"},
	PropCorrelationData:      {kBinary, bit(PUBLISH, ctxWill), "CorrelationData"},
	PropSubscriptionID:       {kVarint, bit(PUBLISH, SUBSCRIBE), "SubscriptionID"},
	PropSessionExpiry:        {kU32, bit(CONNECT, CONNACK, DISCONNECT), "SessionExpiry"},
	PropAssignedClientID:     {kString, bit(CONNACK), "AssignedClientID"},
	PropServerKeepAlive:      {kU16, bit(CONNACK), "ServerKeepAlive"},
	PropAuthMethod:           {kString, bit(CONNECT, CONNACK, AUTH), "AuthMethod"},
	PropAuthData:             {kBinary, bit(CONNECT, CONNACK, AUTH), "AuthData"},
	PropRequestProblemInfo:   {kByte, bit(CONNECT), "RequestProblemInfo"},
	PropWillDelay:            {kU32, bit(ctxWill), "WillDelay"},
	PropRequestResponseInfo:  {kByte, bit(CONNECT), "RequestResponseInfo"},
	PropResponseInfo:         {kString, bit(CONNACK), "ResponseInfo"},
	PropServerReference:      {kString, bit(CONNACK, DISCONNECT), "ServerReference"},
	PropReasonString:         {kString, bit(CONNACK, PUBACK, PUBREC, PUBREL, PUBCOMP, SUBACK, UNSUBACK, DISCONNECT, AUTH), "ReasonString"},
	PropReceiveMax:           {kU16, bit(CONNECT, CONNACK), "ReceiveMax"},
	PropTopicAliasMax:        {kU16, bit(CONNECT, CONNACK), "TopicAliasMax"},
	PropTopicAlias:           {kU16, bit(PUBLISH), "TopicAlias"},
	PropMaxQoS:               {kByte, bit(CONNACK), "MaxQoS"},
	PropRetainAvailable:      {kByte, bit(CONNACK), "RetainAvailable"},
	PropUser:                 {kPair, bit(CONNECT, CONNACK, PUBLISH, ctxWill, PUBACK, PUBREC, PUBREL, PUBCOMP, SUBSCRIBE, SUBACK, UNSUBSCRIBE, UNSUBACK, DISCONNECT, AUTH), "User"},
	PropMaxPacketSize:        {kU32, bit(CONNECT, CONNACK), "MaxPacketSize"},
	PropWildcardSubAvailable: {kByte, bit(CONNACK), "WildcardSubAvailable"},
	PropSubIDAvailable:       {kByte, bit(CONNACK), "SubIDAvailable"},
	PropSharedSubAvailable:   {kByte, bit(CONNACK), "SharedSubAvailable"},
}

// ---------------------------------------------------------------- encoding

func (w *wr) propByte(id byte, v *byte) {
	if v != nil {
		w.u8(id)
		w.u8(*v)
	}
}
func (w *wr) propU16(id byte, v *uint16) {
	if v != nil {
		w.u8(id)
		w.u16(*v)
	}
}
func (w *wr) propU32(id byte, v *uint32) {
	if v != nil {
		w.u8(id)
		w.u32(*v)
	}
}
func (w *wr) propStr(id byte, v *string) {
	if v != nil {
		w.u8(id)
		w.str(*v)
	}
}
func (w *wr) propBin(id byte, v []byte, has bool) {
	if v != nil || has {
		w.u8(id)
		w.bin(v)
	}
}

// encodeProps writes the property length followed by the properties, in
// ascending identifier order. A nil ps writes a single 0 byte.
func (w *wr) props(ps *Props) {
	if ps == nil {
		w.u8(0)
		return
	}
	b := &wr{}
	b.propByte(PropPayloadFormat, ps.PayloadFormat)
	b.propU32(PropMessageExpiry, ps.MessageExpiry)
	b.propStr(PropContentType, ps.ContentType)
	b.propStr(PropResponseTopic, ps.ResponseTopic)
	b.propBin(PropCorrelationData, ps.CorrelationData, ps.HasCorrelationData)
	for _, id := range ps.SubscriptionIDs {
		b.u8(PropSubscriptionID)
		b.varint(id)
	}
	b.propU32(PropSessionExpiry, ps.SessionExpiry)
	b.propStr(PropAssignedClientID, ps.AssignedClientID)
	b.propU16(PropServerKeepAlive, ps.ServerKeepAlive)
	b.propStr(PropAuthMethod, ps.AuthMethod)
	b.propBin(PropAuthData, ps.AuthData, ps.HasAuthData)
	b.propByte(PropRequestProblemInfo, ps.RequestProblemInfo)
	b.propU32(PropWillDelay, ps.WillDelay)
	b.propByte(PropRequestResponseInfo, ps.RequestResponseInfo)
	b.propStr(PropResponseInfo, ps.ResponseInfo)
	b.propStr(PropServerReference, ps.ServerReference)
	b.propStr(PropReasonString, ps.ReasonString)
	b.propU16(PropReceiveMax, ps.ReceiveMax)
	b.propU16(PropTopicAliasMax, ps.TopicAliasMax)
	b.propU16(PropTopicAlias, ps.TopicAlias)
	b.propByte(PropMaxQoS, ps.MaxQoS)
	b.propByte(PropRetainAvailable, ps.RetainAvailable)
	for _, u := range ps.User {
		b.u8(PropUser)
		b.str(u.K)
		b.str(u.V)
	}
	b.propU32(PropMaxPacketSize, ps.MaxPacketSize)
	b.propByte(PropWildcardSubAvailable, ps.WildcardSubAvailable)
	b.propByte(PropSubIDAvailable, ps.SubIDAvailable)
	b.propByte(PropSharedSubAvailable, ps.SharedSubAvailable)
	b.b = append(b.b, ps.Extra...)
	if b.err != nil {
		w.fail(b.err)
		return
	}
	if len(b.b) > maxVarint {
		w.fail(fmt.Errorf("mqttwire: property section too long (%d)", len(b.b)))
		return
	}
	w.varint(uint32(len(b.b)))
	w.b = append(w.b, b.b...)
}

// ---------------------------------------------------------------- decoding

// props reads a property section (length prefix included) in context ctx (a
// packet type, or ctxWill). It returns nil when the section is empty.
func (r *rd) props(ctx int) *Props {
	n := r.varint("property length")
	if r.err != nil {
		return nil
	}
	if int(n) > r.left() {
		r.failf("property length %d exceeds remaining %d bytes", n, r.left())
		return nil
	}
	if n == 0 {
		return nil
	}
	sub := &rd{b: r.b[r.off : r.off+int(n)], strictVarint: r.strictVarint}
	r.off += int(n)
	ps := &Props{}
	seen := map[byte]bool{}
	ctxBit := uint32(1) << uint(ctx)
	for sub.left() > 0 && sub.err == nil {
		id := sub.u8("property identifier")
		info, ok := propTable[id]
		if !ok {
			sub.failf("unknown property identifier 0x%02X", id)
			break
		}
		if info.allowed&ctxBit == 0 {
			sub.failf("property %s (0x%02X) not allowed in %s", info.name, id, ctxName(ctx))
			break
		}
		multi := id == PropUser || (id == PropSubscriptionID && ctx == PUBLISH)
		if seen[id] && !multi {
			sub.failf("duplicate property %s (0x%02X)", info.name, id)
			break
		}
		seen[id] = true
		what := "property " + info.name
		switch id {
		case PropPayloadFormat:
			ps.PayloadFormat = sub.pBool(what)
		case PropMessageExpiry:
			ps.MessageExpiry = sub.pU32(what)
		case PropContentType:
			ps.ContentType = sub.pStr(what)
		case PropResponseTopic:
			ps.ResponseTopic = sub.pStr(what)
			if sub.err == nil && !validTopicName(*ps.ResponseTopic) {
				sub.failf("response topic %q is not a valid topic name", *ps.ResponseTopic)
			}
		case PropCorrelationData:
			ps.CorrelationData = sub.bin(what)
			ps.HasCorrelationData = true
		case PropSubscriptionID:
			v := sub.varint(what)
			if sub.err == nil && v == 0 {
				sub.failf("subscription identifier 0")
			}
			ps.SubscriptionIDs = append(ps.SubscriptionIDs, v)
		case PropSessionExpiry:
			ps.SessionExpiry = sub.pU32(what)
		case PropAssignedClientID:
			ps.AssignedClientID = sub.pStr(what)
		case PropServerKeepAlive:
			ps.ServerKeepAlive = sub.pU16(what)
		case PropAuthMethod:
			ps.AuthMethod = sub.pStr(what)
		case PropAuthData:
			ps.AuthData = sub.bin(what)
			ps.HasAuthData = true
		case PropRequestProblemInfo:
			ps.RequestProblemInfo = sub.pBool(what)
		case PropWillDelay:
			ps.WillDelay = sub.pU32(what)
		case PropRequestResponseInfo:
			ps.RequestResponseInfo = sub.pBool(what)
		case PropResponseInfo:
			ps.ResponseInfo = sub.pStr(what)
		case PropServerReference:
			ps.ServerReference = sub.pStr(what)
		case PropReasonString:
			ps.ReasonString = sub.pStr(what)
		case PropReceiveMax:
			ps.ReceiveMax = sub.pU16(what)
			if sub.err == nil && *ps.ReceiveMax == 0 {
				sub.failf("receive maximum 0")
			}
		case PropTopicAliasMax:
			ps.TopicAliasMax = sub.pU16(what)
		case PropTopicAlias:
			ps.TopicAlias = sub.pU16(what)
			if sub.err == nil && *ps.TopicAlias == 0 {
				sub.failf("topic alias 0")
			}
		case PropMaxQoS:
			ps.MaxQoS = sub.pBool(what)
		case PropRetainAvailable:
			ps.RetainAvailable = sub.pBool(what)
		case PropUser:
			k := sub.str(what + " key")
			v := sub.str(what + " value")
			ps.User = append(ps.User, UserProp{k, v})
		case PropMaxPacketSize:
			ps.MaxPacketSize = sub.pU32(what)
			if sub.err == nil && *ps.MaxPacketSize == 0 {
				sub.failf("maximum packet size 0")
			}
		case PropWildcardSubAvailable:
			ps.WildcardSubAvailable = sub.pBool(what)
		case PropSubIDAvailable:
			ps.SubIDAvailable = sub.pBool(what)
		case PropSharedSubAvailable:
			ps.SharedSubAvailable = sub.pBool(what)
		}
	}
	if sub.err != nil {
		r.err = sub.err
		return nil
	}
	if ps.HasAuthData && ps.AuthMethod == nil {
		r.failf("authentication data without authentication method")
		return nil
	}
	return ps
}

func (r *rd) pBool(what string) *byte {
	v := r.u8(what)
	if r.err == nil && v > 1 {
		r.failf("%s: value %d (only 0 or 1 allowed)", what, v)
	}
	return &v
}
func (r *rd) pU16(what string) *uint16 { v := r.u16(what); return &v }
func (r *rd) pU32(what string) *uint32 { v := r.u32(what); return &v }
func (r *rd) pStr(what string) *string { v := r.str(what); return &v }

func ctxName(ctx int) string {
	if ctx == ctxWill {
		return "will properties"
	}
	return TypeName(byte(ctx))
}

// ---------------------------------------------------------------- rendering

func (ps *Props) String() string {
	if ps == nil {
		return "{}"
	}
	var s []string
	add := func(f string, a ...interface{}) { s = append(s, fmt.Sprintf(f, a...)) }
	if ps.PayloadFormat != nil {
		add("PayloadFormat=%d", *ps.PayloadFormat)
	}
	if ps.MessageExpiry != nil {
		add("MessageExpiry=%d", *ps.MessageExpiry)
	}
	if ps.ContentType != nil {
		add("ContentType=%q", *ps.ContentType)
	}
	if ps.ResponseTopic != nil {
		add("ResponseTopic=%q", *ps.ResponseTopic)
	}
	if ps.CorrelationData != nil || ps.HasCorrelationData {
		add("CorrelationData=%s", showBytes(ps.CorrelationData))
	}
	if len(ps.SubscriptionIDs) > 0 {
		add("SubscriptionIDs=%v", ps.SubscriptionIDs)
	}
	if ps.SessionExpiry != nil {
		add("SessionExpiry=%d", *ps.SessionExpiry)
	}
	if ps.AssignedClientID != nil {
		add("AssignedClientID=%q", *ps.AssignedClientID)
	}
	if ps.ServerKeepAlive != nil {
		add("ServerKeepAlive=%d", *ps.ServerKeepAlive)
	}
	if ps.AuthMethod != nil {
		add("AuthMethod=%q", *ps.AuthMethod)
	}
	if ps.AuthData != nil || ps.HasAuthData {
		add("AuthData=%s", showBytes(ps.AuthData))
	}
	if ps.RequestProblemInfo != nil {
		add("RequestProblemInfo=%d", *ps.RequestProblemInfo)
	}
	if ps.WillDelay != nil {
		add("WillDelay=%d", *ps.WillDelay)
	}
	if ps.RequestResponseInfo != nil {
		add("RequestResponseInfo=%d", *ps.RequestResponseInfo)
	}
	if ps.ResponseInfo != nil {
		add("ResponseInfo=%q", *ps.ResponseInfo)
	}
	if ps.ServerReference != nil {
		add("ServerReference=%q", *ps.ServerReference)
	}
	if ps.ReasonString != nil {
		add("ReasonString=%q", *ps.ReasonString)
	}
	if ps.ReceiveMax != nil {
		add("ReceiveMax=%d", *ps.ReceiveMax)
	}
	if ps.TopicAliasMax != nil {
		add("TopicAliasMax=%d", *ps.TopicAliasMax)
	}
	if ps.TopicAlias != nil {
		add("TopicAlias=%d", *ps.TopicAlias)
	}
	if ps.MaxQoS != nil {
		add("MaxQoS=%d", *ps.MaxQoS)
	}
	if ps.RetainAvailable != nil {
		add("RetainAvailable=%d", *ps.RetainAvailable)
	}
	for _, u := range ps.User {
		add("User[%q]=%q", u.K, u.V)
	}
	if ps.MaxPacketSize != nil {
		add("MaxPacketSize=%d", *ps.MaxPacketSize)
	}
	if ps.WildcardSubAvailable != nil {
		add("WildcardSubAvailable=%d", *ps.WildcardSubAvailable)
	}
	if ps.SubIDAvailable != nil {
		add("SubIDAvailable=%d", *ps.SubIDAvailable)
	}
	if ps.SharedSubAvailable != nil {
		add("SharedSubAvailable=%d", *ps.SharedSubAvailable)
	}
	if len(ps.Extra) > 0 {
		add("Extra=%x", ps.Extra)
	}
	return "{" + strings.Join(s, " ") + "}"
}
