package mqttwire

import (
	"bytes"
	"context"
	"encoding/hex"
	"fmt"
	"io"
	"net"
	"reflect"
	"strings"
	"testing"
	"time"

	"github.com/DrmagicE/gmqtt/config"
	_ "github.com/DrmagicE/gmqtt/persistence"
	"github.com/DrmagicE/gmqtt/server"
	_ "github.com/DrmagicE/gmqtt/topicalias/fifo"
)

// ---------------------------------------------------------------- helpers

func unhex(t testing.TB, s string) []byte {
	t.Helper()
	s = strings.NewReplacer(" ", "", "\n", "", "\t", "").Replace(s)
	b, err := hex.DecodeString(s)
	if err != nil {
		t.Fatalf("bad hex %q: %v", s, err)
	}
	return b
}

// q quotes ASCII text as hex so golden vectors stay readable.
func q(s string) string { return hex.EncodeToString([]byte(s)) }

// norm clears what Decode adds so that packets can be compared.
func norm(p *Packet) *Packet {
	c := *p
	c.Raw = nil
	return &c
}

// allProps sets every property that is allowed in ctx.
func allProps(ctx int) *Props {
	ps := &Props{}
	has := func(id byte) bool { return propTable[id].allowed&(1<<uint(ctx)) != 0 }
	if has(PropPayloadFormat) {
		ps.PayloadFormat = U8(1)
	}
	if has(PropMessageExpiry) {
		ps.MessageExpiry = U32(0x01020304)
	}
	if has(PropContentType) {
		ps.ContentType = Str("text/plain")
	}
	if has(PropResponseTopic) {
		ps.ResponseTopic = Str("resp/topic")
	}
	if has(PropCorrelationData) {
		ps.CorrelationData, ps.HasCorrelationData = []byte{0, 1, 2, 0xFF}, true
	}
	if has(PropSubscriptionID) {
		ps.SubscriptionIDs = []uint32{268435455}
		if ctx == PUBLISH {
			ps.SubscriptionIDs = []uint32{1, 127, 128, 16384, 268435455}
		}
	}
	if has(PropSessionExpiry) {
		ps.SessionExpiry = U32(0xFFFFFFFF)
	}
	if has(PropAssignedClientID) {
		ps.AssignedClientID = Str("assigned")
	}
	if has(PropServerKeepAlive) {
		ps.ServerKeepAlive = U16(300)
	}
	if has(PropAuthMethod) {
		ps.AuthMethod = Str("SCRAM-SHA-1")
	}
	if has(PropAuthData) {
		ps.AuthData, ps.HasAuthData = []byte{}, true
	}
	if has(PropRequestProblemInfo) {
		ps.RequestProblemInfo = U8(0)
	}
	if has(PropWillDelay) {
		ps.WillDelay = U32(30)
	}
	if has(PropRequestResponseInfo) {
		ps.RequestResponseInfo = U8(1)
	}
	if has(PropResponseInfo) {
		ps.ResponseInfo = Str("response/info")
	}
	if has(PropServerReference) {
		ps.ServerReference = Str("other.example:1883")
	}
	if has(PropReasonString) {
		ps.ReasonString = Str("because \u00e9\u4e16\U0002A6D4")
	}
	if has(PropReceiveMax) {
		ps.ReceiveMax = U16(65535)
	}
	if has(PropTopicAliasMax) {
		ps.TopicAliasMax = U16(0)
	}
	if has(PropTopicAlias) {
		ps.TopicAlias = U16(9)
	}
	if has(PropMaxQoS) {
		ps.MaxQoS = U8(1)
	}
	if has(PropRetainAvailable) {
		ps.RetainAvailable = U8(0)
	}
	if has(PropUser) {
		ps.User = []UserProp{{"k", "v1"}, {"k", "v2"}, {"", ""}}
	}
	if has(PropMaxPacketSize) {
		ps.MaxPacketSize = U32(1)
	}
	if has(PropWildcardSubAvailable) {
		ps.WildcardSubAvailable = U8(1)
	}
	if has(PropSubIDAvailable) {
		ps.SubIDAvailable = U8(0)
	}
	if has(PropSharedSubAvailable) {
		ps.SharedSubAvailable = U8(1)
	}
	return ps
}

// samplePackets returns well-formed packets of every type for version v.
func samplePackets(v byte) []*Packet {
	v5 := v == V5
	pr := func(ctx int) *Props {
		if v5 {
			return allProps(ctx)
		}
		return nil
	}
	big := bytes.Repeat([]byte{0xAB}, 20000) // 3-byte remaining length
	var ps []*Packet
	add := func(p *Packet) { p.Version = v; ps = append(ps, p) }

	c := Connect(v, "client-1", true, 60).WithWill("will/topic", []byte("gone"), 2, true, pr(ctxWill)).WithAuth("user", []byte{1, 2, 3})
	c.Props = pr(CONNECT)
	add(c)
	add(Connect(v, "", false, 0))
	add(Connect(v, "x", false, 65535).WithAuth("only-user", nil))
	add(&Packet{Type: CONNACK, SessionPresent: true, Props: pr(CONNACK)})
	add(&Packet{Type: CONNACK, Code: map[bool]byte{true: 0x87, false: 5}[v5]})
	add(Publish("a/b", 0, false, 0, []byte("hello")).WithProps(pr(PUBLISH)))
	p1 := Publish("a/b/c", 1, true, 65535, []byte{}).WithProps(pr(PUBLISH))
	p1.Dup = true
	add(p1)
	add(Publish("big", 2, false, 1, big))
	for _, typ := range []byte{PUBACK, PUBREC, PUBREL, PUBCOMP} {
		add(Ack(typ, 1, 0))
		add(Ack(typ, 65535, 0).WithProps(pr(int(typ))))
		if v5 {
			add(Ack(typ, 2, map[byte]byte{PUBACK: 0x10, PUBREC: 0x97, PUBREL: 0x92, PUBCOMP: 0x92}[typ]))
		}
	}
	subs := []SubTopic{{Filter: "a/+/c", QoS: 1}, {Filter: "#", QoS: 2}, {Filter: "$share/g/x/#", QoS: 0}}
	if v5 {
		subs = append(subs, SubTopic{Filter: "+", QoS: 2, NoLocal: true, RAP: true, RH: 2}, SubTopic{Filter: "/", QoS: 0, RH: 1})
	}
	add(Subscribe(10, subs...).WithProps(pr(SUBSCRIBE)))
	sa := &Packet{Type: SUBACK, PacketID: 10, Codes: []byte{0, 1, 2, 0x80}, Props: pr(SUBACK)}
	if v5 {
		sa.Codes = append(sa.Codes, 0x8F, 0xA2)
	}
	add(sa)
	add(Unsubscribe(11, "a/+/c", "#").WithProps(pr(UNSUBSCRIBE)))
	ua := &Packet{Type: UNSUBACK, PacketID: 11, Props: pr(UNSUBACK)}
	if v5 {
		ua.Codes = []byte{0, 0x11, 0x8F}
	}
	add(ua)
	add(Pingreq())
	add(&Packet{Type: PINGRESP})
	add(Disconnect(0))
	if v5 {
		add(Disconnect(0x04))
		add(Disconnect(0x8E).WithProps(pr(DISCONNECT)))
		add(&Packet{Type: AUTH})
		add(&Packet{Type: AUTH, Code: 0x18, Props: pr(AUTH)})
	}
	return ps
}

// ---------------------------------------------------------------- round trip

func TestPropTableCoverage(t *testing.T) {
	if len(propTable) != 27 {
		t.Fatalf("property table has %d entries, MQTT 5 defines 27", len(propTable))
	}
	// every property is set by allProps in at least one context that samplePackets uses
	seen := map[byte]bool{}
	for ctx := 0; ctx <= AUTH; ctx++ {
		for id, info := range propTable {
			if info.allowed&(1<<uint(ctx)) != 0 {
				seen[id] = true
			}
		}
	}
	if len(seen) != 27 {
		t.Fatalf("only %d properties reachable", len(seen))
	}
}

func TestRoundTrip(t *testing.T) {
	for _, v := range []byte{V31, V311, V5} {
		types := map[byte]bool{}
		props := map[string]bool{}
		for i, p := range samplePackets(v) {
			b, err := Encode(p)
			if err != nil {
				t.Fatalf("v%d #%d %s: encode: %v", v, i, p, err)
			}
			if Size(p) != len(b) {
				t.Fatalf("Size mismatch")
			}
			// decode with a deliberately wrong version for CONNECT: it must be taken from the packet
			dv := v
			if p.Type == CONNECT {
				dv = 0
			}
			r := bytes.NewReader(append(append([]byte{}, b...), 0xEE)) // one extra byte must stay unread
			d, err := Decode(r, dv)
			if err != nil {
				t.Fatalf("v%d #%d %s: decode: %v\n%x", v, i, p, err, b)
			}
			if r.Len() != 1 {
				t.Fatalf("v%d #%d: decoder consumed wrong amount, %d left", v, i, r.Len())
			}
			if !bytes.Equal(d.Raw, b) {
				t.Fatalf("v%d #%d: Raw mismatch", v, i)
			}
			want := norm(p)
			if want.Type == PUBLISH && want.QoS == 0 {
				want.PacketID = 0
			}
			if want.Type == PUBLISH && want.Payload == nil {
				want.Payload = []byte{}
			}
			if !reflect.DeepEqual(norm(d), want) {
				t.Fatalf("v%d #%d round trip mismatch\n got  %s\n want %s\n got  %#v\n want %#v", v, i, d, want, norm(d), want)
			}
			// re-encoding the decoded packet gives the same bytes
			b2, err := Encode(norm(d))
			if err != nil || !bytes.Equal(b2, b) {
				t.Fatalf("v%d #%d re-encode mismatch (%v)\n%x\n%x", v, i, err, b, b2)
			}
			if s := d.String(); !strings.HasPrefix(s, TypeName(p.Type)) || strings.Contains(s, "\n") {
				t.Fatalf("bad String(): %q", s)
			}
			types[p.Type] = true
			for _, pp := range []*Props{d.Props, d.WillProps} {
				if pp != nil {
					rv := reflect.ValueOf(*pp)
					for k := 0; k < rv.NumField(); k++ {
						if n := rv.Type().Field(k).Name; !rv.Field(k).IsZero() && !strings.HasPrefix(n, "Has") {
							props[n] = true
						}
					}
				}
			}
			// every strict prefix must fail, with an I/O error (never a panic, never success)
			for n := 0; n < len(b); n++ {
				if n > 64 && n < len(b)-64 {
					continue
				}
				if _, err := Decode(bytes.NewReader(b[:n]), dv); err == nil {
					t.Fatalf("v%d #%d: prefix of %d/%d bytes decoded", v, i, n, len(b))
				} else if n == 0 && err != io.EOF {
					t.Fatalf("empty input: %v", err)
				} else if n > 0 && err != io.ErrUnexpectedEOF {
					t.Fatalf("v%d #%d: prefix %d: want ErrUnexpectedEOF, got %v", v, i, n, err)
				}
			}
			// shrinking the remaining length by one (short packets) must be rejected or change meaning, never panic
			if len(b) > 2 && len(b) < 129 {
				c := append([]byte{}, b[:len(b)-1]...)
				c[1]--
				if d2, err := Decode(bytes.NewReader(c), dv); err == nil && reflect.DeepEqual(norm(d2), want) {
					t.Fatalf("v%d #%d: truncated body decoded to the same packet", v, i)
				}
			}
		}
		wantTypes := 14
		if v == V5 {
			wantTypes = 15
		}
		if len(types) != wantTypes {
			t.Fatalf("v%d: %d packet types covered, want %d", v, len(types), wantTypes)
		}
		if v == V5 && len(props) != 27 {
			t.Fatalf("v5: %d distinct properties survived the round trip, want 27: %v", len(props), props)
		}
	}
}

// ---------------------------------------------------------------- golden vectors

func TestGolden(t *testing.T) {
	type g struct {
		name string
		v    byte
		p    *Packet
		hex  string
	}
	gs := []g{
		{"connect311", V311, Connect(V311, "a", true, 60), "10 0d 0004" + q("MQTT") + "04 02 003c 0001" + q("a")},
		{"connect31", V31, Connect(V31, "a", true, 60), "10 0f 0006" + q("MQIsdp") + "03 02 003c 0001" + q("a")},
		{"connect311-full", V311, Connect(V311, "cid", false, 10).WithWill("w", []byte("bye"), 1, true, nil).WithAuth("u", []byte("p")),
			"10 1d 0004" + q("MQTT") + "04 ec 000a 0003" + q("cid") + "0001" + q("w") + "0003" + q("bye") + "0001" + q("u") + "0001" + q("p")},
		{"connect5", V5, Connect(V5, "a", true, 60).WithProps(&Props{ReceiveMax: U16(20)}),
			"10 11 0004" + q("MQTT") + "05 02 003c 03 21 0014 0001" + q("a")},
		{"connect5-noprops", V5, Connect(V5, "", true, 0), "10 0d 0004" + q("MQTT") + "05 02 0000 00 0000"},
		{"connect5-will", V5, Connect(V5, "a", true, 0).WithWill("w", []byte{1}, 0, false, &Props{WillDelay: U32(5)}),
			"10 1a 0004" + q("MQTT") + "05 06 0000 00 0001" + q("a") + "05 18 00000005 0001" + q("w") + "0001 01"},
		{"connack311", V311, &Packet{Type: CONNACK}, "20 02 00 00"},
		{"connack311-sp", V311, &Packet{Type: CONNACK, SessionPresent: true}, "20 02 01 00"},
		{"connack311-refused", V311, &Packet{Type: CONNACK, Code: 5}, "20 02 00 05"},
		{"connack5", V5, &Packet{Type: CONNACK}, "20 03 00 00 00"},
		{"connack5-props", V5, &Packet{Type: CONNACK, Code: 0x86, Props: &Props{ReasonString: Str("no")}}, "20 08 00 86 05 1f 0002" + q("no")},
		{"publish311-q0", V311, Publish("a/b", 0, false, 0, []byte("hi")), "30 07 0003" + q("a/b") + q("hi")},
		{"publish311-q1-dup-retain", V311, &Packet{Type: PUBLISH, Dup: true, QoS: 1, Retain: true, PacketID: 10, Topic: "a/b"}, "3b 07 0003" + q("a/b") + "000a"},
		{"publish311-q2", V311, Publish("a", 2, false, 0x1234, []byte{0}), "34 06 0001" + q("a") + "1234 00"},
		{"publish5-q0", V5, Publish("a/b", 0, false, 0, []byte("hi")), "30 08 0003" + q("a/b") + "00" + q("hi")},
		{"publish5-props", V5, Publish("t", 1, false, 1, []byte("x")).WithProps(&Props{PayloadFormat: U8(1), MessageExpiry: U32(60),
			ContentType: Str("c"), SubscriptionIDs: []uint32{1, 200}, TopicAlias: U16(2), User: []UserProp{{"a", "b"}}}),
			"32 21 0001" + q("t") + "0001 1a 01 01 02 0000003c 03 0001" + q("c") + "0b 01 0b c8 01 23 0002 26 0001" + q("a") + "0001" + q("b") + q("x")},
		{"puback311", V311, Ack(PUBACK, 1, 0), "40 02 0001"},
		{"pubrec311", V311, Ack(PUBREC, 1, 0), "50 02 0001"},
		{"pubrel311", V311, Ack(PUBREL, 1, 0), "62 02 0001"},
		{"pubcomp311", V311, Ack(PUBCOMP, 1, 0), "70 02 0001"},
		{"puback5-len2", V5, Ack(PUBACK, 1, 0), "40 02 0001"},
		{"puback5-len3", V5, Ack(PUBACK, 1, 0x10), "40 03 0001 10"},
		{"puback5-len4", V5, Ack(PUBACK, 1, 0x10).WithProps(&Props{}), "40 04 0001 10 00"},
		{"pubrel5-len2", V5, Ack(PUBREL, 258, 0), "62 02 0102"},
		{"pubrel5-len3", V5, Ack(PUBREL, 258, 0x92), "62 03 0102 92"},
		{"pubrec5-props", V5, Ack(PUBREC, 1, 0x80).WithProps(&Props{ReasonString: Str("r")}), "50 08 0001 80 04 1f 0001" + q("r")},
		{"pubcomp5-forced", V5, &Packet{Type: PUBCOMP, PacketID: 1, ForceCode: true}, "70 03 0001 00"},
		{"subscribe311", V311, Subscribe(10, SubTopic{Filter: "a/b", QoS: 1}, SubTopic{Filter: "c/d", QoS: 2}),
			"82 0e 000a 0003" + q("a/b") + "01 0003" + q("c/d") + "02"},
		{"subscribe5", V5, Subscribe(10, SubTopic{Filter: "a/b", QoS: 1, NoLocal: true, RAP: true, RH: 2}).WithProps(&Props{SubscriptionIDs: []uint32{321}}),
			"82 0c 000a 03 0b c1 02 0003" + q("a/b") + "2d"},
		{"suback311", V311, &Packet{Type: SUBACK, PacketID: 10, Codes: []byte{1, 0x80}}, "90 04 000a 01 80"},
		{"suback5", V5, &Packet{Type: SUBACK, PacketID: 10, Codes: []byte{2}}, "90 04 000a 00 02"},
		{"unsubscribe311", V311, Unsubscribe(10, "a/b"), "a2 07 000a 0003" + q("a/b")},
		{"unsubscribe5", V5, Unsubscribe(10, "a/b"), "a2 08 000a 00 0003" + q("a/b")},
		{"unsuback311", V311, &Packet{Type: UNSUBACK, PacketID: 10}, "b0 02 000a"},
		{"unsuback5", V5, &Packet{Type: UNSUBACK, PacketID: 10, Codes: []byte{0x11}}, "b0 04 000a 00 11"},
		{"pingreq", V311, Pingreq(), "c0 00"},
		{"pingresp", V5, &Packet{Type: PINGRESP}, "d0 00"},
		{"disconnect311", V311, Disconnect(0), "e0 00"},
		{"disconnect5-len0", V5, Disconnect(0), "e0 00"},
		{"disconnect5-len1", V5, Disconnect(0x04), "e0 01 04"},
		{"disconnect5-props", V5, Disconnect(0).WithProps(&Props{SessionExpiry: U32(0)}), "e0 07 00 05 11 00000000"},
		{"auth5-len0", V5, &Packet{Type: AUTH}, "f0 00"},
		{"auth5", V5, &Packet{Type: AUTH, Code: 0x18, Props: &Props{AuthMethod: Str("m"), AuthData: []byte{9}, HasAuthData: true}},
			"f0 0a 18 08 15 0001" + q("m") + "16 0001 09"},
	}
	for _, c := range gs {
		want := unhex(t, c.hex)
		c.p.Version = c.v
		got, err := Encode(c.p)
		if err != nil {
			t.Errorf("%s: encode: %v", c.name, err)
			continue
		}
		if !bytes.Equal(got, want) {
			t.Errorf("%s: encode\n got  %x\n want %x", c.name, got, want)
			continue
		}
		d, err := DecodeBytes(want, c.v)
		if err != nil {
			t.Errorf("%s: decode: %v", c.name, err)
			continue
		}
		exp := norm(c.p)
		exp.ForceCode = false
		if exp.Props.IsEmpty() {
			exp.Props = nil
		}
		if exp.Type == PUBLISH && exp.Payload == nil {
			exp.Payload = []byte{}
		}
		if !reflect.DeepEqual(norm(d), exp) {
			t.Errorf("%s: decode\n got  %s\n want %s", c.name, d, exp)
		}
	}
}

func TestVarintAndStrings(t *testing.T) {
	// MQTT 1.5.5 table and the 321 example; MQTT 1.5.4 example "A\U0002A6D4"
	for v, h := range map[uint32]string{0: "00", 127: "7f", 128: "8001", 321: "c102", 16383: "ff7f", 16384: "808001",
		2097151: "ffff7f", 2097152: "80808001", 268435455: "ffffff7f"} {
		if got := hex.EncodeToString(appendVarint(nil, v)); got != h {
			t.Errorf("varint %d = %s, want %s", v, got, h)
		}
		r := &rd{b: unhex(t, h), strictVarint: true}
		if got := r.varint("x"); got != v || r.err != nil || r.left() != 0 {
			t.Errorf("varint decode %s = %d (%v)", h, got, r.err)
		}
	}
	w := &wr{}
	w.str("A\U0002A6D4")
	if got := hex.EncodeToString(w.b); got != "000541f0aa9b94" {
		t.Errorf("string example: %s", got)
	}
	// remaining length boundaries through whole packets
	for _, n := range []int{0, 120, 121, 122, 16377, 16378, 16379, 2097145, 2097146, 2097147} {
		p := Publish("topic", 0, false, 0, make([]byte, n))
		p.Version = V311
		b, err := Encode(p)
		if err != nil {
			t.Fatal(err)
		}
		d, err := DecodeBytes(b, V311)
		if err != nil || len(d.Payload) != n {
			t.Fatalf("payload %d: %v", n, err)
		}
	}
	p := Publish("topic", 0, false, 0, make([]byte, maxVarint))
	p.Version = V311
	if _, err := Encode(p); err == nil {
		t.Fatal("over-long packet encoded")
	}
	if _, err := Encode(&Packet{Type: PUBLISH, Version: V311, Topic: strings.Repeat("x", 65536)}); err == nil {
		t.Fatal("over-long string encoded")
	}
	if _, err := Encode(&Packet{Type: PINGREQ}); err == nil {
		t.Fatal("version 0 encoded")
	}
}

// ---------------------------------------------------------------- malformed input

func TestMalformed(t *testing.T) {
	type m struct {
		name string
		v    byte
		hex  string
	}
	ms := []m{
		{"type0", V311, "00 00"},
		{"auth-in-v3", V311, "f0 00"},
		{"remlen-5-bytes", V311, "30 ff ff ff ff 01"},
		{"remlen-non-minimal-v5", V5, "c0 80 00"},
		{"bad-version-arg", 9, "c0 00"},
		{"connect-flags", V311, "11 0d 0004" + q("MQTT") + "04 02 003c 0001" + q("a")},
		{"connect-reserved-bit", V311, "10 0d 0004" + q("MQTT") + "04 03 003c 0001" + q("a")},
		{"connect-bad-proto-name", V311, "10 0d 0004" + q("MQTX") + "04 02 003c 0001" + q("a")},
		{"connect-bad-level", V311, "10 0d 0004" + q("MQTT") + "06 02 003c 0001" + q("a")},
		{"connect-31-name-with-level-4", V311, "10 0f 0006" + q("MQIsdp") + "04 02 003c 0001" + q("a")},
		{"connect-will-qos-3", V311, "10 13 0004" + q("MQTT") + "04 1e 003c 0001" + q("a") + "0001" + q("w") + "0001 00"},
		{"connect-will-qos-without-will", V311, "10 0d 0004" + q("MQTT") + "04 0a 003c 0001" + q("a")},
		{"connect-will-retain-without-will", V311, "10 0d 0004" + q("MQTT") + "04 22 003c 0001" + q("a")},
		{"connect-password-without-user-v311", V311, "10 10 0004" + q("MQTT") + "04 42 003c 0001" + q("a") + "0001" + q("p")},
		{"connect-trailing", V311, "10 0e 0004" + q("MQTT") + "04 02 003c 0001" + q("a") + "00"},
		{"connect-truncated-clientid", V311, "10 0d 0004" + q("MQTT") + "04 02 003c 0002" + q("a")},
		{"connect-missing-will", V311, "10 0d 0004" + q("MQTT") + "04 06 003c 0001" + q("a")},
		{"connect-bad-utf8", V311, "10 0d 0004" + q("MQTT") + "04 02 003c 0001 ff"},
		{"connect-nul-in-string", V311, "10 0d 0004" + q("MQTT") + "04 02 003c 0001 00"},
		{"connect-surrogate", V311, "10 0f 0004" + q("MQTT") + "04 02 003c 0003 eda080"},
		{"connect5-will-wildcard-topic", V5, "10 14 0004" + q("MQTT") + "05 06 0000 00 0001" + q("a") + "00 0001" + q("#") + "0000"},
		{"connect5-prop-not-allowed", V5, "10 10 0004" + q("MQTT") + "05 02 003c 02 24 01 0001" + q("a")},
		{"connect5-will-prop-in-connect-props", V5, "10 13 0004" + q("MQTT") + "05 02 003c 05 18 00000001 0001" + q("a")},
		{"connect5-dup-prop", V5, "10 14 0004" + q("MQTT") + "05 02 003c 06 21 0014 21 0014 0001" + q("a")},
		{"connect5-receive-max-0", V5, "10 11 0004" + q("MQTT") + "05 02 003c 03 21 0000 0001" + q("a")},
		{"connect5-max-packet-0", V5, "10 13 0004" + q("MQTT") + "05 02 003c 05 27 00000000 0001" + q("a")},
		{"connect5-bool-prop-2", V5, "10 10 0004" + q("MQTT") + "05 02 003c 02 17 02 0001" + q("a")},
		{"connect5-authdata-without-method", V5, "10 12 0004" + q("MQTT") + "05 02 003c 04 16 0001 00 0001" + q("a")},
		{"connect5-proplen-overrun", V5, "10 0e 0004" + q("MQTT") + "05 02 003c 7f 0001" + q("a")},
		{"connack-len1", V311, "20 01 00"},
		{"connack-len3-v311", V311, "20 03 00 00 00"},
		{"connack-flags", V311, "21 02 00 00"},
		{"connack-reserved-ack-flags", V311, "20 02 02 00"},
		{"connack-code-6", V311, "20 02 00 06"},
		{"connack-sp-with-error", V311, "20 02 01 05"},
		{"connack5-no-proplen", V5, "20 02 00 00"},
		{"connack5-bad-code", V5, "20 03 00 01 00"},
		{"connack5-unknown-prop", V5, "20 05 00 00 02 7e 00"},
		{"connack5-prop-id-0", V5, "20 05 00 00 02 00 00"},
		{"connack5-dup-user-ok-but-dup-maxqos", V5, "20 07 00 00 04 24 01 24 01"},
		{"connack5-truncated-prop", V5, "20 05 00 00 02 27 00"},
		{"connack5-nonminimal-proplen", V5, "20 04 00 00 80 00"},
		{"publish-qos3", V311, "36 07 0003" + q("a/b") + "0001"},
		{"publish-dup-qos0", V311, "38 05 0003" + q("a/b")},
		{"publish-wildcard-plus", V311, "30 05 0003" + q("a/+")},
		{"publish-wildcard-hash", V311, "30 03 0001" + q("#")},
		{"publish-empty-topic-v311", V311, "30 02 0000"},
		{"publish-pid-0", V311, "32 07 0003" + q("a/b") + "0000"},
		{"publish-no-pid", V311, "32 05 0003" + q("a/b")},
		{"publish-topic-overrun", V311, "30 04 0005" + q("ab")},
		{"publish5-no-proplen", V5, "30 05 0003" + q("a/b")},
		{"publish5-empty-topic-no-alias", V5, "30 03 0000 00"},
		{"publish5-alias-0", V5, "30 06 0000 03 23 0000"},
		{"publish5-subid-0", V5, "30 08 0003" + q("a/b") + "02 0b 00"},
		{"publish5-subid-5-bytes", V5, "30 0c 0003" + q("a/b") + "06 0b ffffffff01"},
		{"publish5-payloadformat-2", V5, "30 08 0003" + q("a/b") + "02 01 02"},
		{"publish5-dup-content-type", V5, "30 0e 0003" + q("a/b") + "08 03 0001 61 03 0001 62"},
		{"publish5-connack-prop", V5, "30 09 0003" + q("a/b") + "03 13 0001"},
		{"publish5-response-topic-wildcard", V5, "30 0a 0003" + q("a/b") + "04 08 0001" + q("#")},
		{"publish5-user-prop-truncated", V5, "30 0a 0003" + q("a/b") + "04 26 0001 61"},
		{"puback-len1", V311, "40 01 00"},
		{"puback-len3-v311", V311, "40 03 0001 00"},
		{"puback-flags", V311, "41 02 0001"},
		{"puback-pid0", V311, "40 02 0000"},
		{"puback5-bad-code", V5, "40 03 0001 01"},
		{"puback5-proplen-overrun", V5, "40 04 0001 00 01"},
		{"puback5-trailing", V5, "40 05 0001 00 00 00"},
		{"puback5-sub-id-prop", V5, "40 06 0001 00 02 0b 01"},
		{"pubrel-flags-0", V311, "60 02 0001"},
		{"pubrel5-code-0x10", V5, "62 03 0001 10"},
		{"pubcomp-flags-2", V5, "72 02 0001"},
		{"subscribe-flags-0", V311, "80 08 000a 0003" + q("a/b") + "01"},
		{"subscribe-empty", V311, "82 02 000a"},
		{"subscribe-pid0", V311, "82 08 0000 0003" + q("a/b") + "01"},
		{"subscribe-qos3", V311, "82 08 000a 0003" + q("a/b") + "03"},
		{"subscribe-reserved-bits-v311", V311, "82 08 000a 0003" + q("a/b") + "04"},
		{"subscribe-no-options-byte", V311, "82 07 000a 0003" + q("a/b")},
		{"subscribe-empty-filter", V311, "82 05 000a 0000 01"},
		{"subscribe-bad-filter-hash", V311, "82 08 000a 0003" + q("#/b") + "01"},
		{"subscribe-bad-filter-plus", V311, "82 08 000a 0003" + q("a+b") + "01"},
		{"subscribe5-reserved-bits", V5, "82 09 000a 00 0003" + q("a/b") + "41"},
		{"subscribe5-rh3", V5, "82 09 000a 00 0003" + q("a/b") + "30"},
		{"subscribe5-two-subids", V5, "82 0d 000a 04 0b 01 0b 02 0003" + q("a/b") + "01"},
		{"subscribe5-subid-0", V5, "82 0b 000a 02 0b 00 0003" + q("a/b") + "01"},
		{"subscribe5-nolocal-shared", V5, "82 10 000a 00 000a" + q("$share/g/a") + "04"},
		{"suback-empty", V311, "90 02 000a"},
		{"suback-code-3", V311, "90 03 000a 03"},
		{"suback5-code-0x81", V5, "90 04 000a 00 81"},
		{"suback-flags", V311, "92 03 000a 00"},
		{"unsubscribe-flags-0", V311, "a0 07 000a 0003" + q("a/b")},
		{"unsubscribe-empty", V311, "a2 02 000a"},
		{"unsubscribe5-empty", V5, "a2 03 000a 00"},
		{"unsubscribe-truncated-filter", V311, "a2 06 000a 0003" + q("a/")},
		{"unsuback-len3-v311", V311, "b0 03 000a 00"},
		{"unsuback5-no-codes", V5, "b0 03 000a 00"},
		{"unsuback5-bad-code", V5, "b0 04 000a 00 01"},
		{"pingreq-len1", V311, "c0 01 00"},
		{"pingreq-flags", V311, "c1 00"},
		{"pingresp-len1", V5, "d0 01 00"},
		{"disconnect-len1-v311", V311, "e0 01 00"},
		{"disconnect-flags", V311, "e1 00"},
		{"disconnect5-bad-code", V5, "e0 01 01"},
		{"disconnect5-proplen-overrun", V5, "e0 02 00 05"},
		{"disconnect5-will-delay-prop", V5, "e0 07 00 05 18 00000000"},
		{"auth5-bad-code", V5, "f0 02 01 00"},
		{"auth5-flags", V5, "f1 00"},
	}
	for _, c := range ms {
		b := unhex(t, c.hex)
		if int(b[1]) != len(b)-2 && c.name != "remlen-5-bytes" && c.name != "remlen-non-minimal-v5" {
			t.Errorf("%s: test vector has wrong remaining length %d, body is %d", c.name, b[1], len(b)-2)
			continue
		}
		p, err := Decode(bytes.NewReader(b), c.v)
		if err == nil {
			t.Errorf("%s: accepted: %s", c.name, p)
			continue
		}
		if !IsMalformed(err) {
			t.Errorf("%s: want *DecodeError, got %T %v", c.name, err, err)
		}
	}

	// things that look odd but are legal
	ok := []m{
		{"connect5-password-without-user", V5, "10 11 0004" + q("MQTT") + "05 42 003c 00 0001" + q("a") + "0001" + q("p")},
		{"v31-subscribe-dup", V31, "8a 08 000a 0003" + q("a/b") + "01"},
		{"v31-pubrel-dup", V31, "6a 02 0001"},
		{"publish5-alias-empty-topic", V5, "30 06 0000 03 23 0001"},
		{"publish5-multiple-subids", V5, "30 0a 0003" + q("a/b") + "04 0b 01 0b 02"},
		{"publish-dollar-topic", V311, "30 06 0004" + q("$SYS")},
		{"publish-slash-topic", V311, "30 03 0001" + q("/")},
		{"publish5-empty-correlation", V5, "30 09 0003" + q("a/b") + "03 09 0000"},
		{"subscribe-filters", V311, "82 17 000a 0001" + q("#") + "00 0001" + q("+") + "01 0003" + q("+/+") + "02 0004" + q("/+/#") + "00"},
		{"disconnect5-len1", V5, "e0 01 00"},
		{"puback5-len4-noprops", V5, "40 04 0001 00 00"},
		{"remlen-non-minimal-v311", V311, "c0 80 00"},
	}
	for _, c := range ok {
		if _, err := DecodeBytes(unhex(t, c.hex), c.v); err != nil {
			t.Errorf("%s: rejected: %v", c.name, err)
		}
	}
}

// The encoder honours fields literally, so the odd packets the decoder
// rejects can be built without SendRaw.
func TestEncodeOddPackets(t *testing.T) {
	f := byte(0)
	cases := []struct {
		p   *Packet
		hex string
	}{
		{&Packet{Type: PUBLISH, Version: V311, QoS: 3, Topic: "a", PacketID: 1}, "36 05 0001 61 0001"},
		{&Packet{Type: SUBSCRIBE, Version: V311, PacketID: 1, FixedFlags: &f, Subs: []SubTopic{{Filter: "a", QoS: 1}}}, "80 06 0001 0001 61 01"},
		{&Packet{Type: CONNECT, Version: V311, ProtoName: "MQTT", ProtoLevel: 4, ConnectReserved: true, WillQoS: 3, WillRetain: true, ClientID: "a"},
			"10 0d 0004" + q("MQTT") + "04 39 0000 0001 61"},
		{&Packet{Type: CONNECT, Version: V311, ProtoName: "XX", ProtoLevel: 9}, "10 0a 0002" + q("XX") + "09 00 0000 0000"},
		{&Packet{Type: PUBLISH, Version: V5, Topic: "a", Props: &Props{ContentType: Str("x"), Extra: unhex(t, "03 0001 79 7e")}},
			"30 0d 0001 61 09 03 0001 78 03 0001 79 7e"},
		{&Packet{Type: SUBSCRIBE, Version: V311, PacketID: 1, Subs: []SubTopic{{Filter: "", QoS: 0x83}}}, "82 05 0001 0000 83"},
		{&Packet{Type: UNSUBSCRIBE, Version: V5, PacketID: 1}, "a2 03 0001 00"},
		{&Packet{Type: PUBACK, Version: V311, PacketID: 0}, "40 02 0000"},
	}
	for i, c := range cases {
		got, err := Encode(c.p)
		if err != nil {
			t.Errorf("#%d: %v", i, err)
			continue
		}
		if want := unhex(t, c.hex); !bytes.Equal(got, want) {
			t.Errorf("#%d:\n got  %x\n want %x", i, got, want)
			continue
		}
		if _, err := DecodeBytes(got, c.p.Version); !IsMalformed(err) {
			t.Errorf("#%d: decoder accepted the odd packet (%v)", i, err)
		}
	}
}

// ---------------------------------------------------------------- client

func TestClientRecv(t *testing.T) {
	a, b := net.Pipe()
	defer a.Close()
	c := NewClient(a, V5)
	pub := Publish("topic/x", 1, false, 7, []byte("payload")).WithProps(&Props{User: []UserProp{{"a", "b"}}})
	pub.Version = V5
	raw, _ := Encode(pub)

	// nothing there: timeout, stream still usable
	start := time.Now()
	if _, err := c.Recv(30 * time.Millisecond); !IsTimeout(err) {
		t.Fatalf("want timeout, got %v", err)
	}
	if d := time.Since(start); d < 25*time.Millisecond || d > 2*time.Second {
		t.Fatalf("timeout took %v", d)
	}
	// packet split over three writes with timeouts in between, followed by two packets in one write
	go func() {
		b.Write(raw[:1])
		time.Sleep(60 * time.Millisecond)
		b.Write(raw[1:9])
		time.Sleep(60 * time.Millisecond)
		b.Write(raw[9:])
		b.Write(append(unhex(t, "d0 00"), unhex(t, "40 02 0007")...))
	}()
	timeouts := 0
	var got *Packet
	for got == nil {
		p, err := c.Recv(25 * time.Millisecond)
		switch {
		case IsTimeout(err):
			timeouts++
			if timeouts > 100 {
				t.Fatal("never arrived")
			}
		case err != nil:
			t.Fatal(err)
		default:
			got = p
		}
	}
	if timeouts < 2 {
		t.Fatalf("expected timeouts in the middle of the packet, got %d", timeouts)
	}
	if !bytes.Equal(got.Raw, raw) || got.Props.User[0].V != "b" {
		t.Fatalf("got %s", got)
	}
	if p, err := c.Recv(time.Second); err != nil || p.Type != PINGRESP {
		t.Fatalf("%v %v", p, err)
	}
	if p, err := c.Recv(time.Second); err != nil || p.Type != PUBACK || p.PacketID != 7 {
		t.Fatalf("%v %v", p, err)
	}
	// malformed packet: error, but framing keeps the stream in sync
	go b.Write(unhex(t, "d0 01 00 d0 00"))
	if _, err := c.Recv(time.Second); !IsMalformed(err) {
		t.Fatalf("want malformed, got %v", err)
	}
	if p, err := c.Recv(time.Second); err != nil || p.Type != PINGRESP {
		t.Fatalf("%v %v", p, err)
	}
	// Send is one Write
	done := make(chan []byte)
	go func() {
		buf := make([]byte, 1024)
		n, _ := b.Read(buf)
		done <- buf[:n]
	}()
	p := Publish("topic/x", 1, false, 7, []byte("payload")).WithProps(&Props{User: []UserProp{{"a", "b"}}})
	if err := c.Send(p); err != nil {
		t.Fatal(err)
	}
	if w := <-done; !bytes.Equal(w, raw) || p.Version != V5 {
		t.Fatalf("Send wrote %x", w)
	}
	// full packet followed by a partial one and EOF
	go func() {
		b.Write(unhex(t, "d0 00 40 02 00"))
		b.Close()
	}()
	if p, err := c.Recv(time.Second); err != nil || p.Type != PINGRESP {
		t.Fatalf("%v %v", p, err)
	}
	if _, err := c.Recv(time.Second); err != io.ErrUnexpectedEOF {
		t.Fatalf("want ErrUnexpectedEOF, got %v", err)
	}

	// clean EOF
	a2, b2 := net.Pipe()
	c2 := NewClient(a2, V311)
	go func() {
		b2.Write(unhex(t, "20 02 00 00"))
		b2.Close()
	}()
	if p, err := c2.Recv(time.Second); err != nil || p.Type != CONNACK {
		t.Fatalf("%v %v", p, err)
	}
	for i := 0; i < 2; i++ {
		if _, err := c2.Recv(time.Second); err != io.EOF {
			t.Fatalf("want EOF, got %v", err)
		}
	}
	c2.Close()
}

// ---------------------------------------------------------------- integration with the real broker

type tclient struct {
	*Client
	t    *testing.T
	name string
}

func (c *tclient) send(p *Packet) {
	c.t.Helper()
	if err := c.Send(p); err != nil {
		c.t.Fatalf("%s: send %s: %v", c.name, p, err)
	}
}

func (c *tclient) recv(typ byte) *Packet {
	c.t.Helper()
	p, err := c.Recv(5 * time.Second)
	if err != nil {
		var raw []byte
		if de, ok := err.(*DecodeError); ok {
			raw = de.Raw
		}
		c.t.Fatalf("%s: waiting for %s: %v (raw %x)", c.name, TypeName(typ), err, raw)
	}
	if p.Type != typ {
		c.t.Fatalf("%s: want %s, got %s (%x)", c.name, TypeName(typ), p, p.Raw)
	}
	return p
}

func (c *tclient) quiet() {
	c.t.Helper()
	if p, err := c.Recv(150 * time.Millisecond); !IsTimeout(err) {
		c.t.Fatalf("%s: expected silence, got %v %v", c.name, p, err)
	}
}

func TestBrokerIntegration(t *testing.T) {
	ln, err := net.Listen("tcp", "127.0.0.1:0")
	if err != nil {
		t.Fatal(err)
	}
	cfg := config.DefaultConfig()
	cfg.API = config.API{}
	srv := server.New(server.WithConfig(cfg), server.WithTCPListener(ln))
	runErr := make(chan error, 1)
	go func() { runErr <- srv.Run() }()
	defer func() {
		ctx, cancel := context.WithTimeout(context.Background(), 10*time.Second)
		defer cancel()
		if err := srv.Stop(ctx); err != nil {
			t.Errorf("stop: %v", err)
		}
		select {
		case err := <-runErr:
			if err != nil {
				t.Logf("Run returned: %v", err)
			}
		case <-time.After(10 * time.Second):
			t.Errorf("Run did not return")
		}
	}()
	addr := ln.Addr().String()

	dial := func(name string, v byte) *tclient {
		c, err := Dial(addr, v, 5*time.Second)
		if err != nil {
			t.Fatal(err)
		}
		if c.LocalAddr() == "" {
			t.Fatal("no local address")
		}
		c.Log = func(dir byte, p *Packet, raw []byte) {
			t.Logf("%-5s %c %x  %v", name, dir, raw, p)
		}
		return &tclient{c, t, name}
	}

	// --- connect: v5 subscriber, v3.1.1 subscriber, v3.1 subscriber, v5 publisher, v3.1.1 publisher
	sub5 := dial("sub5", V5)
	sub5.send(Connect(V5, "sub5", true, 30).WithProps(&Props{SessionExpiry: U32(100), ReceiveMax: U16(50), TopicAliasMax: U16(0),
		RequestProblemInfo: U8(1), RequestResponseInfo: U8(1), User: []UserProp{{"who", "sub5"}}}))
	ca := sub5.recv(CONNACK)
	if ca.Code != 0 || ca.SessionPresent {
		t.Fatalf("CONNACK %s", ca)
	}
	sub4 := dial("sub4", V311)
	sub4.send(Connect(V311, "sub4", true, 30))
	if ca := sub4.recv(CONNACK); ca.Code != 0 || ca.SessionPresent || len(ca.Raw) != 4 {
		t.Fatalf("CONNACK %s", ca)
	}
	sub3 := dial("sub3", V31)
	sub3.send(Connect(V31, "sub3", true, 30))
	if ca := sub3.recv(CONNACK); ca.Code != 0 || len(ca.Raw) != 4 {
		t.Fatalf("CONNACK %s", ca)
	}
	pub5 := dial("pub5", V5)
	pub5.send(Connect(V5, "", true, 0)) // empty client id: v5 broker must assign one
	ca = pub5.recv(CONNACK)
	if ca.Code != 0 || ca.Props == nil || ca.Props.AssignedClientID == nil || *ca.Props.AssignedClientID == "" {
		t.Fatalf("CONNACK without assigned client id: %s", ca)
	}
	pub4 := dial("pub4", V311)
	pub4.send(Connect(V311, "pub4", true, 0).WithWill("t/will", []byte("w"), 1, false, nil))
	pub4.recv(CONNACK)

	// --- subscribe
	sub5.send(Subscribe(1, SubTopic{Filter: "t/#", QoS: 2}, SubTopic{Filter: "nolocal/#", QoS: 1, NoLocal: true, RAP: true, RH: 2}).
		WithProps(&Props{SubscriptionIDs: []uint32{777}, User: []UserProp{{"sub", "prop"}}}))
	if sa := sub5.recv(SUBACK); sa.PacketID != 1 || !bytes.Equal(sa.Codes, []byte{2, 1}) {
		t.Fatalf("SUBACK %s", sa)
	}
	sub4.send(Subscribe(1, SubTopic{Filter: "t/#", QoS: 2}, SubTopic{Filter: "t/+", QoS: 0}))
	if sa := sub4.recv(SUBACK); sa.PacketID != 1 || !bytes.Equal(sa.Codes, []byte{2, 0}) {
		t.Fatalf("SUBACK %s", sa)
	}
	sub3.send(Subscribe(9, SubTopic{Filter: "t/q1", QoS: 1}))
	if sa := sub3.recv(SUBACK); sa.PacketID != 9 || !bytes.Equal(sa.Codes, []byte{1}) {
		t.Fatalf("SUBACK %s", sa)
	}

	pubProps := func() *Props {
		return &Props{PayloadFormat: U8(1), MessageExpiry: U32(60), ContentType: Str("text/plain"), ResponseTopic: Str("reply/to"),
			CorrelationData: []byte{1, 2, 3}, User: []UserProp{{"k1", "v1"}, {"k1", "v2"}, {"k2", ""}}}
	}
	checkFwd5 := func(p *Packet, topic string, qos byte, payload string) {
		t.Helper()
		if p.Topic != topic || p.QoS != qos || string(p.Payload) != payload || p.Retain || p.Dup {
			t.Fatalf("forwarded PUBLISH %s", p)
		}
		ps := p.Props
		if ps == nil {
			t.Fatalf("forwarded PUBLISH without properties: %s", p)
		}
		if !reflect.DeepEqual(ps.SubscriptionIDs, []uint32{777}) {
			t.Fatalf("subscription identifier: %s", p)
		}
		if ps.PayloadFormat == nil || *ps.PayloadFormat != 1 || ps.ContentType == nil || *ps.ContentType != "text/plain" ||
			ps.ResponseTopic == nil || *ps.ResponseTopic != "reply/to" || !bytes.Equal(ps.CorrelationData, []byte{1, 2, 3}) {
			t.Fatalf("properties not forwarded: %s", p)
		}
		if !reflect.DeepEqual(ps.User, pubProps().User) {
			t.Fatalf("user properties not forwarded in order: %s", p)
		}
		// MQTT-3.3.2-6 requires "received value minus waiting time" (here: 1..60). The broker under test instead
		// sends uint32(seconds(start of the subscriber's poll - enqueue time)) (server/client.go pollNewMessages):
		// 0 => property dropped when the poll has waited < 1 s, 2^32-n when it has waited n s (seen: fffffffe).
		// That is the broker's business (reported by the checks, not by this codec test); only note it here.
		if ps.MessageExpiry == nil {
			t.Logf("NOTE broker dropped Message Expiry Interval on %x", p.Raw)
		} else if *ps.MessageExpiry == 0 || *ps.MessageExpiry > 60 {
			t.Logf("NOTE broker forwarded Message Expiry Interval %d (sent 60) on %x", *ps.MessageExpiry, p.Raw)
		}
	}
	checkFwd3 := func(p *Packet, topic string, qos byte, payload string) {
		t.Helper()
		if p.Topic != topic || p.QoS != qos || string(p.Payload) != payload || p.Retain || p.Dup || p.Props != nil {
			t.Fatalf("forwarded PUBLISH %s", p)
		}
	}

	// --- v5 publisher, QoS 0
	pub5.send(Publish("t/q0", 0, false, 0, []byte("m0")).WithProps(pubProps()))
	checkFwd5(sub5.recv(PUBLISH), "t/q0", 0, "m0")
	checkFwd3(sub4.recv(PUBLISH), "t/q0", 0, "m0")

	// --- v5 publisher, QoS 1
	pub5.send(Publish("t/q1", 1, false, 11, []byte("m1")).WithProps(pubProps()))
	if a := pub5.recv(PUBACK); a.PacketID != 11 || a.Code != 0 {
		t.Fatalf("PUBACK %s", a)
	}
	f := sub5.recv(PUBLISH)
	checkFwd5(f, "t/q1", 1, "m1")
	sub5.send(Ack(PUBACK, f.PacketID, 0))
	f = sub4.recv(PUBLISH)
	checkFwd3(f, "t/q1", 1, "m1")
	sub4.send(Ack(PUBACK, f.PacketID, 0))
	f = sub3.recv(PUBLISH)
	checkFwd3(f, "t/q1", 1, "m1")
	sub3.send(Ack(PUBACK, f.PacketID, 0))

	// --- v5 publisher, QoS 2
	pub5.send(Publish("t/q2", 2, false, 12, []byte("m2")).WithProps(pubProps()))
	if a := pub5.recv(PUBREC); a.PacketID != 12 || a.Code != 0 {
		t.Fatalf("PUBREC %s", a)
	}
	pub5.send(Ack(PUBREL, 12, 0))
	if a := pub5.recv(PUBCOMP); a.PacketID != 12 || a.Code != 0 {
		t.Fatalf("PUBCOMP %s", a)
	}
	for _, s := range []*tclient{sub5, sub4} {
		f := s.recv(PUBLISH)
		if s == sub5 {
			checkFwd5(f, "t/q2", 2, "m2")
		} else {
			checkFwd3(f, "t/q2", 2, "m2")
		}
		s.send(Ack(PUBREC, f.PacketID, 0))
		if r := s.recv(PUBREL); r.PacketID != f.PacketID || r.Code != 0 {
			t.Fatalf("PUBREL %s", r)
		}
		s.send(Ack(PUBCOMP, f.PacketID, 0))
	}

	// --- v3.1.1 publisher, QoS 0/1/2; the v5 subscriber still gets its subscription identifier
	pub4.send(Publish("t/q0", 0, false, 0, []byte("n0")))
	pub4.send(Publish("t/q1", 1, false, 21, []byte("n1")))
	if a := pub4.recv(PUBACK); a.PacketID != 21 || len(a.Raw) != 4 {
		t.Fatalf("PUBACK %s", a)
	}
	pub4.send(Publish("t/q2", 2, false, 22, []byte("n2")))
	if a := pub4.recv(PUBREC); a.PacketID != 22 || len(a.Raw) != 4 {
		t.Fatalf("PUBREC %s", a)
	}
	pub4.send(Ack(PUBREL, 22, 0))
	if a := pub4.recv(PUBCOMP); a.PacketID != 22 || len(a.Raw) != 4 {
		t.Fatalf("PUBCOMP %s", a)
	}
	for _, s := range []*tclient{sub5, sub4} {
		for q := byte(0); q <= 2; q++ {
			f := s.recv(PUBLISH)
			if f.Topic != fmt.Sprintf("t/q%d", q) || f.QoS != q || string(f.Payload) != fmt.Sprintf("n%d", q) {
				t.Fatalf("%s: forwarded %s", s.name, f)
			}
			if s == sub5 && (f.Props == nil || !reflect.DeepEqual(f.Props.SubscriptionIDs, []uint32{777})) {
				t.Fatalf("sub5: no subscription identifier on %s", f)
			}
			switch q {
			case 1:
				s.send(Ack(PUBACK, f.PacketID, 0))
			case 2:
				s.send(Ack(PUBREC, f.PacketID, 0))
				s.recv(PUBREL)
				s.send(Ack(PUBCOMP, f.PacketID, 0))
			}
		}
	}
	f = sub3.recv(PUBLISH)
	checkFwd3(f, "t/q1", 1, "n1")
	sub3.send(Ack(PUBACK, f.PacketID, 0))

	// --- no local: sub5 publishes to its own no-local subscription and must not get it back
	sub5.send(Publish("nolocal/x", 1, false, 5, []byte("self")))
	sub5.recv(PUBACK)
	sub5.quiet()

	// --- ping
	for _, c := range []*tclient{sub5, sub4, sub3} {
		c.send(Pingreq())
		if p := c.recv(PINGRESP); !bytes.Equal(p.Raw, []byte{0xD0, 0x00}) {
			t.Fatalf("PINGRESP %x", p.Raw)
		}
	}

	// --- unsubscribe (second filter does not exist)
	sub5.send(Unsubscribe(2, "t/#", "nope").WithProps(&Props{User: []UserProp{{"u", "v"}}}))
	// (the broker under test answers 0x00 Success, not 0x11 No subscription existed, for the unknown filter)
	if ua := sub5.recv(UNSUBACK); ua.PacketID != 2 || len(ua.Codes) != 2 || ua.Codes[0] != 0 || (ua.Codes[1] != 0x11 && ua.Codes[1] != 0) {
		t.Fatalf("UNSUBACK %s", ua)
	}
	sub4.send(Unsubscribe(2, "t/#", "t/+"))
	if ua := sub4.recv(UNSUBACK); ua.PacketID != 2 || len(ua.Raw) != 4 {
		t.Fatalf("UNSUBACK %s", ua)
	}
	pub5.send(Publish("t/q0", 0, false, 0, []byte("after")))
	sub5.quiet()
	sub4.quiet()

	// --- a second CONNECT is a protocol error (MQTT-3.1.0-2). Observed: the broker under test ignores it
	// (server/client.go readHandle: `default: err = codes.ErrProtocol` without return) and keeps serving.
	pub5.send(Connect(V5, "again", true, 0))
	if p, err := pub5.Recv(300 * time.Millisecond); IsTimeout(err) {
		pub5.send(Pingreq())
		pub5.recv(PINGRESP)
		t.Logf("NOTE broker ignored a second CONNECT and still answers PINGREQ")
	} else if err != nil || p.Type != DISCONNECT {
		t.Fatalf("after second CONNECT: %v %v", p, err)
	}
	// --- a protocol error the broker does detect: topic alias above its Topic Alias Maximum (10)
	// => DISCONNECT 0x94 Topic Alias invalid, then the connection is closed
	pub5.send(Publish("t/q0", 0, false, 0, []byte("x")).WithProps(&Props{TopicAlias: U16(11)}))
	if d := pub5.recv(DISCONNECT); d.Code != 0x94 {
		t.Fatalf("DISCONNECT %s", d)
	}
	if _, err := pub5.Recv(5 * time.Second); err != io.EOF {
		t.Fatalf("want EOF after DISCONNECT, got %v", err)
	}
	pub5.Close()

	// --- disconnect: nothing else is sent (no will for a clean DISCONNECT). MQTT only says the server SHOULD
	// close the connection; the broker under test does not (it waits for the client's close or the keep-alive
	// deadline), so both EOF and silence are accepted here and the client closes.
	bye := func(c *tclient, d *Packet) {
		t.Helper()
		c.send(d)
		switch p, err := c.Recv(300 * time.Millisecond); {
		case err == io.EOF:
		case IsTimeout(err):
			t.Logf("NOTE %s: broker did not close the connection after DISCONNECT", c.name)
		default:
			t.Fatalf("%s: after DISCONNECT: %v %v", c.name, p, err)
		}
		c.Close()
	}
	sub3.send(Subscribe(10, SubTopic{Filter: "t/will", QoS: 0}))
	sub3.recv(SUBACK)
	bye(pub4, Disconnect(0))
	sub3.quiet()
	bye(sub5, Disconnect(0).WithProps(&Props{SessionExpiry: U32(0), ReasonString: Str("bye")}))
	bye(sub4, Disconnect(0))
	bye(sub3, Disconnect(0))
	for _, c := range []*tclient{sub5, sub4, sub3, pub4} {
		c.Close()
	}
}
